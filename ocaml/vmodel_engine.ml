(* Engine area: runs a scenario (same format as harness/cpp/engine_driver.cpp) on the extracted specification
   engine and prints the same event lines.
   request:  scenario <file> <implementation trace file | ->      (the trace provides the dependency-order oracle) *)
let read_lines path = let ic = open_in path in let rec go acc = match input_line ic with l -> go (l :: acc) | exception End_of_file -> close_in ic; List.rev acc in go []
let ints s = if s = "" then [] else List.filter_map (fun x -> if x = "" then None else Some (n_of_int (int_of_string x))) (String.split_on_char ',' s)
let vstr = function None -> "EMPTY" | Some (p, s) -> dec_of_n p ^ "." ^ dec_of_n s
let kstr k = string_of_int (int_of_n k)
let event_str = function
  | ENeed (k, r, i) -> Printf.sprintf "need %s %d %s" (kstr k) (int_of_n r) (match i with None -> "-" | Some x -> kstr x)
  | EValid (k, b) -> Printf.sprintf "valid %s %d" (kstr k) (if b then 1 else 0)
  | ECreate k -> "create " ^ kstr k
  | EStart k -> "start " ^ kstr k
  | EPrior (k, v) -> Printf.sprintf "prior %s %s" (kstr k) (vstr v)
  | EProvide (k, slot, d, v) -> Printf.sprintf "provide %s %d %s %s" (kstr k) (int_of_nat slot) (kstr d) (vstr v)
  | EAvail k -> "avail " ^ kstr k
  | EComplete (k, v) -> Printf.sprintf "complete %s %s" (kstr k) (vstr (Some v))
  | EBuildStart k -> "buildstart " ^ kstr k
  | EResult (v, failed) -> "result " ^ (if failed then "EMPTY" else vstr v)
  | ECycleReported p -> "cyclepath " ^ String.concat " " (List.map kstr p)
  | ERestart -> "restart"

let parse_rule toks =
  let sg = ref N0 and ob = ref true and req = ref [] and single = ref [] and follow = ref [] and disc = ref [] and br = ref None in
  List.iter (fun t ->
      match String.index_opt t '=' with
      | None -> ()
      | Some i ->
        let a = String.sub t 0 i and b = String.sub t (i + 1) (String.length t - i - 1) in
        (match a with
         | "sig" -> sg := n_of_dec b | "obs" -> ob := (b = "1") | "req" -> req := ints b | "single" -> single := ints b
         | "follow" -> follow := ints b | "disc" -> disc := ints b
         | "br" -> (match String.split_on_char ':' b with
             | [s] -> br := Some ((nat_of_int (int_of_string s), []), [])
             | [s; x] -> br := Some ((nat_of_int (int_of_string s), ints x), [])
             | s :: x :: y :: _ -> br := Some ((nat_of_int (int_of_string s), ints x), ints y)
             | [] -> ())
         | _ -> ())) toks;
  { r_sig = !sg; r_obs = !ob; r_req = !req; r_single = !single; r_follow = !follow; r_br = !br; r_disc = !disc }

let () =
  register "scenario" (function
      | [file; trace] ->
        let lines = read_lines file in
        (* implementation's recorded dependency order per (build index, key) *)
        let impl : (int * int, int list) Hashtbl.t = Hashtbl.create 64 in
        let impl_db : (int * int, (int * int) list) Hashtbl.t = Hashtbl.create 64 in
        if trace <> "-" then begin
          let b = ref 0 in
          List.iter (fun l -> match String.split_on_char ' ' l with
              | "build" :: n :: _ -> b := int_of_string n
              | "deps" :: k :: ds -> Hashtbl.replace impl (!b, int_of_string k) (List.map int_of_string (List.filter (fun x -> x <> "") ds))
              | "dbrow" :: k :: _ :: _ :: _ :: _ :: ds ->
                (* fallback when the in-memory dump is unavailable (keys that print alike): the order stored in the database *)
                Hashtbl.replace impl_db (!b, int_of_string k)
                  (List.filter_map (fun x -> match String.split_on_char ':' x with
                       | a :: f :: _ when a <> "" && a <> "?" -> Some (int_of_string a, int_of_string f)
                       | _ -> None) ds)
              | _ -> ()) (read_lines trace)
        end;
        let out = Buffer.create 4096 in
        let say s = Buffer.add_string out s; Buffer.add_char out '\n' in
        let cur_build = ref 0 in
        let flag_of (d : dep) = (if d.d_single then 2 else 0) + (if d.d_order then 1 else 0) in
        let order _epoch k (requested : dep list) : dep list =
          (* the order (and, when the database rows are available, the flags) the implementation recorded; -1 = flag unknown *)
          let want : (int * int) list option =
            match Hashtbl.find_opt impl_db (!cur_build, int_of_n k) with
            | Some l -> Some l
            | None -> (match Hashtbl.find_opt impl (!cur_build, int_of_n k) with Some l -> Some (List.map (fun x -> (x, -1)) l) | None -> None) in
          match want with
          | None -> requested
          | Some keys ->
            let n = List.length requested in
            let keys = List.filteri (fun i _ -> i < n) keys in
            let pool = ref requested and res = ref [] and ok = ref (List.length keys = n) in
            List.iter (fun (x, fl) ->
                let rec pick acc = function
                  | [] -> ok := false; List.rev acc
                  | d :: tl -> if int_of_n d.d_key = x && (fl < 0 || flag_of d = fl) then (res := d :: !res; List.rev_append acc tl) else pick (d :: acc) tl in
                pool := pick [] !pool) keys;
            if !ok && !pool = [] then List.rev !res
            else (say (Printf.sprintf "ORDER-MISMATCH %d model=[%s] impl=[%s]" (int_of_n k)
                         (String.concat "," (List.map (fun d -> kstr d.d_key ^ ":" ^ string_of_int (flag_of d)) requested))
                         (String.concat "," (List.map (fun (a, f) -> string_of_int a ^ ":" ^ string_of_int f) keys)));
                  requested) in
        let nkeys = ref 4 in
        let h = ref init_h in
        let printed = ref 0 in
        let flush_log () =
          let log = List.rev (!h).h_st.st_log in
          let n = List.length log in
          List.iteri (fun i e -> if i >= !printed then
                         (match e with EBuildStart _ -> () | _ -> say (event_str e))) log;
          printed := n in
        List.iter (fun l ->
            if l <> "" && l.[0] <> '#' then
              match String.split_on_char ' ' l with
              | "rule" :: k :: rest -> incr nkeys; h := hstep mixF order O !h (ORule (n_of_int (int_of_string k), parse_rule rest))
              | ["set"; k; v] -> incr nkeys; h := hstep mixF order O !h (OSet (n_of_int (int_of_string k), n_of_dec v))
              | ["db"; b] -> Hashtbl.replace handlers "__usedb" (fun _ -> b)
              | "restart" :: _ ->
                let usedb = (match Hashtbl.find_opt handlers "__usedb" with Some f -> f [] <> "0" | None -> false) in
                h := hstep mixF order O !h (ORestart usedb); flush_log ()
              | "build" :: k :: _ ->
                incr cur_build;
                say (Printf.sprintf "build %d %s" !cur_build k);
                (* the first build creates the first engine instance: it sees the rules defined so far *)
                if !cur_build = 1 && (!h).h_rules = [] then h := { !h with h_rules = (!h).h_pending };
                h := hstep mixF order (nat_of_int (2 * !nkeys + 8)) !h (OBuild (n_of_int (int_of_string k)));
                flush_log ();
                say ("epoch " ^ dec_of_n (!h).h_st.st_epoch);
                let mem = List.sort (fun (a, _) (b, _) -> compare (int_of_n a) (int_of_n b)) (!h).h_st.st_mem in
                List.iter (fun (k, r) -> if r.res_deps <> [] then
                              say ("deps " ^ kstr k ^ " " ^ String.concat " " (List.map (fun d -> kstr d.d_key) r.res_deps))) mem;
                let usedb = (match Hashtbl.find_opt handlers "__usedb" with Some f -> f [] <> "0" | None -> false) in
                if usedb then begin
                  let db = List.sort (fun (a, _) (b, _) -> compare (int_of_n a) (int_of_n b)) (!h).h_st.st_db in
                  List.iter (fun (k, r) ->
                      say (String.concat " " (["dbrow"; kstr k; vstr r.res_value; dec_of_n r.res_sig; dec_of_n r.res_computedAt; dec_of_n r.res_builtAt]
                                              @ List.map (fun d -> kstr d.d_key ^ ":" ^ string_of_int ((if d.d_single then 2 else 0) + (if d.d_order then 1 else 0))) r.res_deps))) db;
                  say ("dbepoch " ^ dec_of_n (!h).h_st.st_db_epoch)
                end
              | ["fresh"; k] ->
                let kk = n_of_int (int_of_string k) in
                let rl = rules_of (!h).h_pending and en = env_of (!h).h_env in
                say (Printf.sprintf "fresh %s %s" k (vstr (cv rl en mixF (nat_of_int (2 * !nkeys + 8)) kk)))
              | _ -> ()) lines;
        Hashtbl.remove handlers "__usedb";
        let s = Buffer.contents out in
        if String.length s > 0 then String.sub s 0 (String.length s - 1) else s
      | _ -> "ERR args")
