(* Handlers of the base area (C13, C14, C15). *)
let () =
  register "pip" (function [p; r] -> b2s (pip (bytes_of_hex p) (bytes_of_hex r)) | _ -> "ERR args");
  register "pip_unrepaired" (function [p; r] -> b2s (pip_unrepaired (bytes_of_hex p) (bytes_of_hex r)) | _ -> "ERR args");
  register "to_delete" (function [pr; ex; ro] ->
      field_of_list (List.sort compare (to_delete (list_of_field pr) (list_of_field ex) (list_of_field ro))) | _ -> "ERR args");
  (* stale_history NONE|<prior> run1 run2 ...   where run = expected/roots *)
  register "stale_history" (function
      | pr :: runs ->
        let prior = if pr = "NONE" then None else Some (list_of_field pr) in
        let rs = List.map (fun r -> match String.split_on_char '/' r with
            | [e; ro] -> (list_of_field e, list_of_field ro) | _ -> ([], [])) runs in
        String.concat " " (List.map (fun d -> field_of_list (List.sort compare d)) (stale_history prior rs))
      | _ -> "ERR args")

(* ---- codecs (C15) ---- *)
let vkinds = [| VInvalid; VVirtualInput; VExistingInput; VMissingInput; VDirectoryContents; VDirectoryTreeSignature;
   VDirectoryTreeStructureSignature; VStaleFileRemoval; VMissingOutput; VFailedInput; VSuccessfulCommand;
   VFailedCommand; VPropagatedFailureCommand; VCancelledCommand; VSkippedCommand; VTarget;
   VFilteredDirectoryContents; VSuccessfulCommandWithOutputSignature |]
let vkind_index k = let r = ref (-1) in Array.iteri (fun i x -> if x = k then r := i) vkinds; !r
let pad32 l = let rec go l n = if n = 0 then [] else match l with [] -> N0 :: go [] (n-1) | x :: t -> x :: go t (n-1) in go l 32
let fi_of_string s = match String.split_on_char ':' s with
  | [a;b;c;d;e;f;g] -> { fi_device = n_of_dec a; fi_inode = n_of_dec b; fi_mode = n_of_dec c; fi_size = n_of_dec d;
                         fi_sec = n_of_dec e; fi_nsec = n_of_dec f; fi_checksum = pad32 (bytes_of_hex g) }
  | _ -> failwith "fileinfo"
let string_of_fi f = String.concat ":" [dec_of_n f.fi_device; dec_of_n f.fi_inode; dec_of_n f.fi_mode; dec_of_n f.fi_size;
                                        dec_of_n f.fi_sec; dec_of_n f.fi_nsec; hex_of_bytes f.fi_checksum]
let fis_of_field s = if s = "." then [] else List.map fi_of_string (String.split_on_char ';' s)
let field_of_fis l = if l = [] then "." else String.concat ";" (List.map string_of_fi l)
let show_value v = Printf.sprintf "%d %s %s %s" (vkind_index v.bv_kind) (dec_of_n v.bv_sig) (field_of_fis v.bv_infos) (field_of_list v.bv_strs)
let () =
  register "value_enc" (function [k; sg; infos; strs] ->
      let kind = vkinds.(int_of_string k) in
      (* the factories ignore the parts a kind does not carry *)
      let v = { bv_kind = kind; bv_sig = (if has_sig kind then n_of_dec sg else N0);
                bv_infos = (if has_info kind then (let l = fis_of_field infos in
                                                   if kind = VExistingInput || kind = VDirectoryContents then [List.hd l] else l) else []);
                bv_strs = (if has_strs kind then list_of_field strs else []) } in
      hex_of_bytes (enc_value v) | _ -> "ERR args");
  register "value_dec" (function [h] -> (match dec_value (bytes_of_hex h) with Some v -> show_value v | None -> "NONE") | _ -> "ERR args");
  register "key_enc" (function [k; name; data; filters] ->
      let n = bytes_of_hex name and d = bytes_of_hex data and f = list_of_field filters in
      let key = match int_of_string k with
        | 0 -> KCommand n | 1 -> KCustomTask (n, d) | 2 -> KDirectoryContents n | 3 -> KFilteredDirectoryContents (n, f)
        | 4 -> KDirectoryTreeSignature (n, f) | 5 -> KDirectoryTreeStructureSignature (n, f) | 6 -> KNode n | 7 -> KStat n | _ -> KTarget n in
      hex_of_bytes (enc_key key) | _ -> "ERR args");
  register "key_dec" (function [h] ->
      (match dec_key (bytes_of_hex h) with
       | None -> "NONE"
       | Some k -> (match k with
           | KCommand n -> "0 " ^ hex_of_bytes n ^ " - ."
           | KCustomTask (n, d) -> "1 " ^ hex_of_bytes n ^ " " ^ hex_of_bytes d ^ " ."
           | KDirectoryContents n -> "2 " ^ hex_of_bytes n ^ " - ."
           | KFilteredDirectoryContents (n, f) -> "3 " ^ hex_of_bytes n ^ " - " ^ field_of_list f
           | KDirectoryTreeSignature (n, f) -> "4 " ^ hex_of_bytes n ^ " - " ^ field_of_list f
           | KDirectoryTreeStructureSignature (n, f) -> "5 " ^ hex_of_bytes n ^ " - " ^ field_of_list f
           | KNode n -> "6 " ^ hex_of_bytes n ^ " - ."
           | KStat n -> "7 " ^ hex_of_bytes n ^ " - ."
           | KTarget n -> "8 " ^ hex_of_bytes n ^ " - ."))
    | _ -> "ERR args")

(* ---- file observation (C13) ----
   fs_obs <mode 0|1|2> <state>   state = "missing" or kind:dev:ino:mode:size:sec:nsec:readable:digesthex
   (the digest of the content is computed by the harness: the model takes the digest function as a parameter) *)
let fsmode_of = function "0" -> MDefault | "1" -> MDevAgnostic | _ -> MChecksumOnly
let state_of s = if s = "missing" then (None, []) else
    match String.split_on_char ':' s with
    | [k; d; i; m; sz; se; ns; rd; dg] ->
      (Some { o_kind = (match k with "f" -> OFile | "d" -> ODir | _ -> OLink); o_dev = n_of_dec d; o_ino = n_of_dec i; o_mode = n_of_dec m;
              o_size = n_of_dec sz; o_sec = n_of_dec se; o_nsec = n_of_dec ns; o_content = []; o_readable = (rd = "1") }, bytes_of_hex dg)
    | _ -> failwith "state"
let obs m s = let (st, dg) = state_of s in observe (fun _ -> dg) (fsmode_of m) st
let () =
  register "fs_obs" (function [m; s] -> let f = obs m s in string_of_fi f ^ " " ^ b2s (is_missing f) | _ -> "ERR args");
  register "fs_eq" (function [m; s1; s2] -> b2s (info_eqb (obs m s1) (obs m s2)) | _ -> "ERR args")

