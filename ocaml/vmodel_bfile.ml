(* Handlers of the bfile area (build-description part of C19).
   root <D<n>> <node>...             the loader model of the code as it is (after the null-node repair), with the
                                     accept-everything delegate of `llbuild buildsystem parse`
   root_unrepaired <D<n>> <node>...  the code before the repair (c91b855)
   answer: "OK|ERR <codes,..|.> <ntools> <ntargets> <nnodes> <ncommands> <hex default>" (ERR: the state when loading stopped) or "CRASH"
   node ::= S<hex> | B<hex> | A<hex> | N | X | M<n> (<key> <value>)^n | Q<n> <node>^n        (as printed by bfile_driver tree) *)
let rec parse_node (toks : string list) : ynode * string list =
  match toks with
  | [] -> failwith "truncated tree"
  | t :: rest ->
    let arg = String.sub t 1 (String.length t - 1) in
    (match t.[0] with
     | 'S' -> (YScalar (bytes_of_hex arg), rest)
     | 'B' -> (YBlockScalar (bytes_of_hex arg), rest)
     | 'A' -> (YAlias (bytes_of_hex arg), rest)
     | 'N' -> (YNull, rest)
     | 'X' -> (YAbsent, rest)
     | 'M' ->
       let rec go n rest acc =
         if n = 0 then (YMapping (List.rev acc), rest)
         else let (k, r1) = parse_node rest in let (v, r2) = parse_node r1 in go (n - 1) r2 ((k, v) :: acc) in
       go (int_of_string arg) rest []
     | 'Q' ->
       let rec go n rest acc =
         if n = 0 then (YSequence (List.rev acc), rest)
         else let (x, r1) = parse_node rest in go (n - 1) r1 (x :: acc) in
       go (int_of_string arg) rest []
     | _ -> failwith ("bad token " ^ t))
let parse_docs (toks : string list) : ynode list =
  match toks with
  | d :: rest when String.length d > 1 && d.[0] = 'D' ->
    let rec go n rest acc =
      if n = 0 then (if rest = [] then List.rev acc else failwith "trailing tokens")
      else let (x, r1) = parse_node rest in go (n - 1) r1 (x :: acc) in
    go (int_of_string (String.sub d 1 (String.length d - 1))) rest []
  | _ -> failwith "expected D<n>"
let show_result (r : load_result) : string =
  let codes l = if l = [] then "." else String.concat "," (List.map dec_of_n l) in
  let counts s = Printf.sprintf "%d %d %d %d %s" (List.length s.st_tools) (List.length s.st_targets)
      (List.length s.st_nodes) (List.length s.st_commands) (hex_of_bytes s.st_default) in
  match r with
  | LoadCrash -> "CRASH"
  | LoadError s -> "ERR " ^ codes (errors_of r) ^ " " ^ counts s
  | LoadOk s -> "OK " ^ codes (errors_of r) ^ " " ^ counts s
let () =
  register "root" (fun toks -> show_result (load_parse_cmd true (parse_docs toks)));
  register "root_unrepaired" (fun toks -> show_result (load_parse_cmd false (parse_docs toks)));
  (* sections_ok <node>...: do the given keys spell a subsequence of tools, targets, default, nodes, commands? *)
  register "sections_ok" (fun toks ->
      let rec all toks acc = if toks = [] then List.rev acc else let (x, r) = parse_node toks in all r (x :: acc) in
      b2s (keys_subseq section_order (all toks [])))
