(* impl area: runs a scenario (format of harness/cpp/engine_driver.cpp) on the extracted small-step engine model
   coq/Engine/Impl.v and prints the same lines as the driver, in the same order.
   request:  scenario <file> <implementation trace file | ->
   The trace is used ONLY for the completion schedule of deferred builds (sched=defer/mixed: which `complete` lines
   fall into which loop iteration, read from the `iter` / `wait` marker lines); sync builds need nothing from it. *)
let read_lines path = let ic = open_in path in let rec go acc = match input_line ic with l -> go (l :: acc) | exception End_of_file -> close_in ic; List.rev acc in go []
let ints s = if s = "" then [] else List.filter_map (fun x -> if x = "" then None else Some (n_of_int (int_of_string x))) (String.split_on_char ',' s)
let vstr = function None -> "EMPTY" | Some (p, s) -> dec_of_n p ^ "." ^ dec_of_n s
let kstr k = string_of_int (int_of_n k)
let event_str = function
  | ENeed (k, r, i) -> Printf.sprintf "need %s %d %s" (kstr k) (int_of_n r) (match i with None -> "-" | Some x -> kstr x)
  | EValid (k, b) -> Printf.sprintf "valid %s %d" (kstr k) (if b then 1 else 0)
  | ECreate k -> "create " ^ kstr k
  | EStart k -> "start " ^ kstr k
  | EPrior (k, v) -> Printf.sprintf "prior %s %s" (kstr k) (vstr v)
  | EProvide (k, slot, d, v) -> Printf.sprintf "provide %s %d %s %s" (kstr k) (int_of_nat slot) (kstr d) (vstr v)
  | EAvail k -> "avail " ^ kstr k
  | EComplete (k, v) -> Printf.sprintf "complete %s %s" (kstr k) (vstr (Some v))
  | EBuildStart k -> "buildstart " ^ kstr k
  | EResult (v, failed) -> "result " ^ (if failed then "EMPTY" else vstr v)
  | ECycleReported p -> String.concat " " ("cycle" :: List.map kstr p)
  | ERestart -> "restart"

let parse_rule toks =
  let sg = ref N0 and ob = ref true and req = ref [] and single = ref [] and follow = ref [] and disc = ref [] and br = ref None in
  let od = ref [RReq; RSingle; RFollow] in
  List.iter (fun t ->
      match String.index_opt t '=' with
      | None -> ()
      | Some i ->
        let a = String.sub t 0 i and b = String.sub t (i + 1) (String.length t - i - 1) in
        (match a with
         | "sig" -> sg := n_of_dec b | "obs" -> ob := (b = "1") | "req" -> req := ints b | "single" -> single := ints b
         | "follow" -> follow := ints b | "disc" -> disc := ints b
         | "ord" -> if String.length b = 3 then
             od := List.concat (List.map (fun c -> match c with 'r' -> [RReq] | 's' -> [RSingle] | 'f' -> [RFollow] | _ -> []) (List.init 3 (String.get b)))
         | "br" -> (match String.split_on_char ':' b with
             | [s] -> br := Some ((nat_of_int (int_of_string s), []), [])
             | [s; x] -> br := Some ((nat_of_int (int_of_string s), ints x), [])
             | s :: x :: y :: _ -> br := Some ((nat_of_int (int_of_string s), ints x), ints y)
             | [] -> ())
         | _ -> ())) toks;
  ({ r_sig = !sg; r_obs = !ob; r_req = !req; r_single = !single; r_follow = !follow; r_br = !br; r_disc = !disc }, !od)

(* completion schedule of build number b from the implementation trace: element i = (keys completed at the top of
   iteration i, keys completed while the engine was blocked at the end of iteration i); has_marks: the trace carries markers *)
let schedule_of_trace (tr : string list) (b : int) : (n list * n list) list * bool =
  let tbl : (int * bool, n list) Hashtbl.t = Hashtbl.create 16 in
  let inb = ref false and it = ref 0 and aw = ref false and mx = ref 0 and marks = ref false in
  List.iter (fun l -> match String.split_on_char ' ' l with
      | "build" :: n :: _ -> inb := (int_of_string n = b); it := 0; aw := false
      | "result" :: _ -> inb := false
      | "iter" :: n :: _ when !inb -> it := int_of_string n; aw := false; marks := true; mx := max !mx !it
      | "wait" :: _ when !inb -> aw := true
      | "complete" :: k :: _ when !inb ->
        Hashtbl.replace tbl (!it, !aw) ((match Hashtbl.find_opt tbl (!it, !aw) with Some l -> l | None -> []) @ [n_of_int (int_of_string k)])
      | _ -> ()) tr;
  let g i w = match Hashtbl.find_opt tbl (i, w) with Some l -> l | None -> [] in
  (List.init (!mx + 1) (fun i -> (g i false, g i true)), !marks)

let flag_of (d : dep) = (if d.d_single then 2 else 0) + (if d.d_order then 1 else 0)
let by_key l = List.sort (fun (a, _) (b, _) -> compare (int_of_n a) (int_of_n b)) l

let () =
  register "scenario" (function
      | [file; trace] ->
        let lines = read_lines file in
        let tr = if trace = "-" then [] else read_lines trace in
        let out = Buffer.create 4096 in
        let say s = Buffer.add_string out s; Buffer.add_char out '\n' in
        let pending = ref [] and current = ref [] in          (* (key * (rule * rkind list)) lists, newest first *)
        let envl = ref [] in
        let usedb = ref false and started = ref false and nbuild = ref 0 in
        let st = ref init_istate and printed = ref 0 in
        let graph = ref [] in
        let markers = ref [] in                                (* (absolute log position, line) in order *)
        let flush_log () =
          let log = List.rev (!st).is_log in
          let emit_markers upto = 
            let rec go () = match !markers with
              | (p, txt) :: tl when p <= upto -> say txt; markers := tl; go ()
              | _ -> () in go () in
          List.iteri (fun i e -> if i >= !printed then begin
                         emit_markers i;
                         (match e with
                          | EBuildStart _ | ERestart -> ()
                          | ECycleReported _ ->
                            let es = List.sort compare (List.map (fun (a, b) -> (int_of_n a, int_of_n b)) !graph) in
                            say (String.concat " " ("waitgraph" :: List.map (fun (a, b) -> Printf.sprintf "%d>%d" a b) es));
                            say (event_str e)
                          | _ -> say (event_str e)) end) log;
          emit_markers max_int;
          printed := List.length log in
        let newengine () = current := !pending; st := irestart !usedb !st; started := true; flush_log () in
        List.iter (fun l ->
            if l <> "" && l.[0] <> '#' then
              match String.split_on_char ' ' l with
              | "rule" :: k :: rest -> pending := (n_of_int (int_of_string k), parse_rule rest) :: !pending
              | ["set"; k; v] -> envl := (n_of_int (int_of_string k), n_of_dec v) :: !envl
              | ["db"; b] -> usedb := (b <> "0")
              | "restart" :: _ -> newengine (); say "restart"
              | "build" :: k :: opts ->
                if not !started then newengine ();
                incr nbuild;
                say (Printf.sprintf "build %d %s" !nbuild k);
                let sched = List.fold_left (fun acc o -> if String.length o > 6 && String.sub o 0 6 = "sched=" then String.sub o 6 (String.length o - 6) else acc) "sync" opts in
                let sync = (sched = "sync") in
                let (schedule, has_marks) = schedule_of_trace tr !nbuild in
                let schedule = if sync then [] else schedule in
                let rl k = match alookup !current k with Some (r, _) -> r | None -> default_rule in
                let od k = match alookup !current k with Some (_, o) -> o | None -> [RReq; RSingle; RFollow] in
                let (res, marks) = ibuild rl (env_of !envl) mixF od (fun _ -> sync) (nat_of_int 100000) (nat_of_int 100000) !st (n_of_int (int_of_string k)) schedule in
                (match res with
                 | RCycle (_, g, FcOutOfFuel) -> graph := g; say "MODEL-FINDCYCLE-OUT-OF-FUEL"
                 | RCycle (_, g, _) -> graph := g
                 | RBlocked _ -> say "MODEL-BLOCKED"
                 | ROutOfFuel _ -> say "MODEL-OUT-OF-FUEL"
                 | RDone _ -> ());
                st := final_state res;
                if has_marks then
                  markers := List.concat (List.mapi (fun i ((top, after), stt) ->
                      (int_of_nat top, Printf.sprintf "iter %d" i) :: (match stt with StWait -> [(int_of_nat after, "wait")] | _ -> [])) marks);
                flush_log ();
                (match (!st).is_fault with Some c -> say ("MODEL-FAULT " ^ kstr c) | None -> ());
                say ("epoch " ^ dec_of_n (!st).is_epoch);
                List.iter (fun (k, ri) -> if ri.ri_res.res_deps <> [] then
                              say ("deps " ^ kstr k ^ " " ^ String.concat " " (List.map (fun d -> kstr d.d_key) ri.ri_res.res_deps)))
                  (by_key (!st).is_rules);
                st := dump_touch !st;
                if !usedb then begin
                  List.iter (fun (k, r) ->
                      say (String.concat " " (["dbrow"; kstr k; vstr r.res_value; dec_of_n r.res_sig; dec_of_n r.res_computedAt; dec_of_n r.res_builtAt]
                                              @ List.map (fun d -> kstr d.d_key ^ ":" ^ string_of_int (flag_of d)) r.res_deps))) (by_key (!st).is_db);
                  say ("dbepoch " ^ dec_of_n (!st).is_db_epoch)
                end
              | _ -> ()) lines;
        let s = Buffer.contents out in
        if String.length s > 0 then String.sub s 0 (String.length s - 1) else s
      | _ -> "ERR args")
