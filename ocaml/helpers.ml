(* Shared helpers: prepended (after `open Model_<area>`) to every area's handler file. *)
(* Line-protocol driver around the extracted Coq models.  One request per line, one answer per line.
   Byte strings are hex ("-" = empty string); lists are comma separated ("." = empty list). *)

let rec pos_of_int (i : int) : positive =
  if i = 1 then XH else if i land 1 = 1 then XI (pos_of_int (i lsr 1)) else XO (pos_of_int (i lsr 1))
let n_of_int (i : int) : n = if i = 0 then N0 else Npos (pos_of_int i)
let rec int_of_pos (p : positive) : int =
  match p with XH -> 1 | XO q -> 2 * int_of_pos q | XI q -> 2 * int_of_pos q + 1
let int_of_n (x : n) : int = match x with N0 -> 0 | Npos p -> int_of_pos p
let rec nat_of_int (i : int) : nat = if i <= 0 then O else S (nat_of_int (i - 1))
let rec int_of_nat (x : nat) : int = match x with O -> 0 | S y -> 1 + int_of_nat y

(* decimal <-> N for 64-bit quantities that do not fit an OCaml int *)
let n_of_dec (s : string) : n =
  (* via repeated doubling on the decimal string is overkill: parse as two 32-bit halves when large *)
  let len = String.length s in
  if len <= 18 then n_of_int (int_of_string s)
  else begin
    (* long division by 2 on the digit string *)
    let digits = Array.init len (fun i -> Char.code s.[i] - 48) in
    let bits = ref [] in
    let is_zero () = Array.for_all (fun d -> d = 0) digits in
    while not (is_zero ()) do
      let rem = ref 0 in
      for i = 0 to len - 1 do
        let cur = !rem * 10 + digits.(i) in
        digits.(i) <- cur / 2; rem := cur mod 2
      done;
      bits := !rem :: !bits
    done;
    (* bits: most significant first *)
    let rec build acc = function
      | [] -> acc
      | b :: tl -> build (match acc, b with
                          | None, 0 -> None
                          | None, _ -> Some XH
                          | Some p, 0 -> Some (XO p)
                          | Some p, _ -> Some (XI p)) tl in
    match build None !bits with None -> N0 | Some p -> Npos p
  end

let dec_of_n (x : n) : string =
  (* to decimal via bit list and repeated doubling on a digit array *)
  let rec bits p acc = match p with XH -> 1 :: acc | XO q -> bits q (0 :: acc) | XI q -> bits q (1 :: acc) in
  match x with
  | N0 -> "0"
  | Npos p ->
    let bl = bits p [] in  (* most significant first *)
    let digits = ref [0] in (* least significant first *)
    List.iter (fun b ->
        let carry = ref b in
        digits := List.map (fun d -> let v = d * 2 + !carry in carry := v / 10; v mod 10) !digits;
        if !carry > 0 then digits := !digits @ [!carry]) bl;
    String.concat "" (List.rev_map string_of_int !digits)

let bytes_of_hex (s : string) : n list =
  if s = "-" then [] else
    List.init (String.length s / 2) (fun i -> n_of_int (int_of_string ("0x" ^ String.sub s (2 * i) 2)))
let hex_of_bytes (l : n list) : string =
  if l = [] then "-" else String.concat "" (List.map (fun b -> Printf.sprintf "%02x" (int_of_n b land 0xff)) l)
let list_of_field (s : string) : n list list =
  if s = "." then [] else List.map bytes_of_hex (String.split_on_char ',' s)
let field_of_list (l : n list list) : string =
  if l = [] then "." else String.concat "," (List.map hex_of_bytes l)
let b2s b = if b then "1" else "0"

let handlers : (string, string list -> string) Hashtbl.t = Hashtbl.create 64
let register name f = Hashtbl.replace handlers name f

