(* implacc area (P24): ACCEPTANCE of an implementation trace by the small-step engine model with the queue discipline left open.
   request:  accept <scenario file> <implementation trace file> [<node budget of the repeated plain search, 0 = do not repeat>]
             (formats of harness/cpp/engine_driver.cpp)
   answer:   ok <statistics>
           | reject <build number> <position in the build's event list> <explanation>
   For every build of the scenario: s := acc_begin s root; the observed event lines of that build (need / valid / create / start /
   prior / provide / avail / complete, in the order the real engine printed them) must be the log of a sequence of steps taken from
   ImplGen.enabled_gen (any position of any of the five queues, a completion of any task that can finish), found by a guided
   depth-first search; at the end of the events the engine must be able to leave the loop (ImplAccept.acc_finish) with the observed
   result / wait-for graph / cycle, and the observed epoch, deps, dbrow and dbepoch lines must equal the model state's.
   Only enabled_gen produces successor states (ImplGenProofs.enabled_gen_sound: each is an mstep_gen); the glue around it
   (scenario interpretation, acc_begin / acc_finish / irestart / dump_touch, the printing of values) is trusted.
   A `complete k v` line is the step GFinish k (enabled whenever k is Computing with a value pending, i.e. at any point after `avail k`);
   the value is the model's (task_value), so an observed value that differs is an event no step produces.
   Bounds: per build at most VERIF_ACC_BUDGET (default 400000) search nodes, then the build is rejected as SEARCH-BUDGET-EXHAUSTED
   (inconclusive); at most 4000 consecutive steps without an event on a path; every (events consumed, state) pair is expanded once.
   Three reductions keep rejections cheap (each explained where it is defined; none can make the search accept more): the visited key
   ignores the order inside queues, a successor whose recorded dependency lists are not prefixes of the observed `deps` lines is dropped,
   and two kinds of silent steps are taken eagerly.  A build the reduced search rejects is searched again WITHOUT the reductions
   (VERIF_ACC_BUDGET2, default 60000 nodes): if that finds a run the build is accepted and counted in reduction_missed. *)
let read_lines path = let ic = open_in path in let rec go acc = match input_line ic with l -> go (l :: acc) | exception End_of_file -> close_in ic; List.rev acc in go []
let ints s = if s = "" then [] else List.filter_map (fun x -> if x = "" then None else Some (n_of_int (int_of_string x))) (String.split_on_char ',' s)
let vstr = function None -> "EMPTY" | Some (p, s) -> dec_of_n p ^ "." ^ dec_of_n s
let kstr k = string_of_int (int_of_n k)
let event_str = function
  | ENeed (k, r, i) -> Printf.sprintf "need %s %d %s" (kstr k) (int_of_n r) (match i with None -> "-" | Some x -> kstr x)
  | EValid (k, b) -> Printf.sprintf "valid %s %d" (kstr k) (if b then 1 else 0)
  | ECreate k -> "create " ^ kstr k
  | EStart k -> "start " ^ kstr k
  | EPrior (k, v) -> Printf.sprintf "prior %s %s" (kstr k) (vstr v)
  | EProvide (k, slot, d, v) -> Printf.sprintf "provide %s %d %s %s" (kstr k) (int_of_nat slot) (kstr d) (vstr v)
  | EAvail k -> "avail " ^ kstr k
  | EComplete (k, v) -> Printf.sprintf "complete %s %s" (kstr k) (vstr (Some v))
  | EBuildStart k -> "buildstart " ^ kstr k
  | EResult (v, failed) -> "result " ^ (if failed then "EMPTY" else vstr v)
  | ECycleReported p -> String.concat " " ("cycle" :: List.map kstr p)
  | ERestart -> "restart"

(* the rule lines of the scenario: same reading as ocaml/vmodel_impl.ml *)
let parse_rule toks =
  let sg = ref N0 and ob = ref true and req = ref [] and single = ref [] and follow = ref [] and disc = ref [] and br = ref None in
  let od = ref [RReq; RSingle; RFollow] in
  List.iter (fun t ->
      match String.index_opt t '=' with
      | None -> ()
      | Some i ->
        let a = String.sub t 0 i and b = String.sub t (i + 1) (String.length t - i - 1) in
        (match a with
         | "sig" -> sg := n_of_dec b | "obs" -> ob := (b = "1") | "req" -> req := ints b | "single" -> single := ints b
         | "follow" -> follow := ints b | "disc" -> disc := ints b
         | "ord" -> if String.length b = 3 then
             od := List.concat (List.map (fun c -> match c with 'r' -> [RReq] | 's' -> [RSingle] | 'f' -> [RFollow] | _ -> []) (List.init 3 (String.get b)))
         | "br" -> (match String.split_on_char ':' b with
             | [s] -> br := Some ((nat_of_int (int_of_string s), []), [])
             | [s; x] -> br := Some ((nat_of_int (int_of_string s), ints x), [])
             | s :: x :: y :: _ -> br := Some ((nat_of_int (int_of_string s), ints x), ints y)
             | [] -> ())
         | _ -> ())) toks;
  ({ r_sig = !sg; r_obs = !ob; r_req = !req; r_single = !single; r_follow = !follow; r_br = !br; r_disc = !disc }, !od)

let flag_of (d : dep) = (if d.d_single then 2 else 0) + (if d.d_order then 1 else 0)
let by_key l = List.sort (fun (a, _) (b, _) -> compare (int_of_n a) (int_of_n b)) l

(* ---------- the implementation trace, cut into restarts and builds ---------- *)
type obuild = {
  ob_no : string; ob_root : string;
  ob_events : string array;            (* need valid create start prior provide avail complete, in printed order *)
  ob_end : string list;                (* waitgraph / cycle / result / epoch / deps / dbrow / dbepoch lines, in printed order *)
  ob_other : string list;              (* anything else (the model has no counterpart): the build is rejected *)
}
type oitem = ORestart | OBuild of obuild

let is_event_line w = List.mem w ["need"; "valid"; "create"; "start"; "prior"; "provide"; "avail"; "complete"]
let is_end_line w = List.mem w ["waitgraph"; "cycle"; "result"; "epoch"; "deps"; "dbrow"; "dbepoch"]
let is_marker_line w = List.mem w ["iter"; "wait"; "drain"]        (* VERIF_ITER_MARKS lines, if present, carry nothing the acceptance uses *)

let split_trace (tr : string list) : oitem list =
  let items = ref [] in
  let cur = ref None in                 (* (no, root, events rev, end rev, other rev, seen an end line) *)
  let close () = match !cur with
    | None -> ()
    | Some (no, root, ev, en, ot, _) ->
      items := OBuild { ob_no = no; ob_root = root; ob_events = Array.of_list (List.rev ev); ob_end = List.rev en; ob_other = List.rev ot } :: !items;
      cur := None in
  List.iter (fun l ->
      if l <> "" then
        match String.split_on_char ' ' l with
        | "build" :: no :: root :: _ -> close (); cur := Some (no, root, [], [], [], false)
        | "restart" :: _ -> close (); items := ORestart :: !items
        | w :: _ ->
          (match !cur with
           | None -> items := OBuild { ob_no = "?"; ob_root = "?"; ob_events = [||]; ob_end = []; ob_other = [l] } :: !items
           | Some (no, root, ev, en, ot, ended) ->
             if is_marker_line w then ()
             else if is_event_line w && not ended then cur := Some (no, root, l :: ev, en, ot, ended)
             else if is_end_line w then cur := Some (no, root, ev, l :: en, ot, true)
             else cur := Some (no, root, ev, en, l :: ot, ended))      (* includes an event line after the result: LATE-CALLBACK etc. *)
        | [] -> ()) tr;
  close ();
  List.rev !items

(* ---------- what the model prints at the end of a build (same lines, same order as ocaml/vmodel_impl.ml) ---------- *)
let graph_line (g : (n * n) list) =
  let es = List.sort compare (List.map (fun (a, b) -> (int_of_n a, int_of_n b)) g) in
  String.concat " " ("waitgraph" :: List.map (fun (a, b) -> Printf.sprintf "%d>%d" a b) es)

(* the end lines of a build whose loop was left in state s (acc_finish), and the engine state after the dumps; None: the loop is not left here *)
let end_lines (usedb : bool) (s : istate) (root : n) : (string list * istate) option =
  let tail st head =
    let l = ref (List.rev head) in
    let say x = l := x :: !l in
    (match st.is_fault with Some c -> say ("MODEL-FAULT " ^ kstr c) | None -> ());
    say ("epoch " ^ dec_of_n st.is_epoch);
    List.iter (fun (k, ri) -> if ri.ri_res.res_deps <> [] then
                  say ("deps " ^ kstr k ^ " " ^ String.concat " " (List.map (fun d -> kstr d.d_key) ri.ri_res.res_deps)))
      (by_key st.is_rules);
    let st = dump_touch st in
    if usedb then begin
      List.iter (fun (k, r) ->
          say (String.concat " " (["dbrow"; kstr k; vstr r.res_value; dec_of_n r.res_sig; dec_of_n r.res_computedAt; dec_of_n r.res_builtAt]
                                  @ List.map (fun d -> kstr d.d_key ^ ":" ^ string_of_int (flag_of d)) r.res_deps))) (by_key st.is_db);
      say ("dbepoch " ^ dec_of_n st.is_db_epoch)
    end;
    Some (List.rev !l, st) in
  match acc_finish s root with
  | AccDone s' -> tail s' ["result " ^ vstr (acc_result s' root)]
  | AccCycle (s', g, FcDone p) -> tail s' [graph_line g; String.concat " " ("cycle" :: List.map kstr p); "result EMPTY"]
  | AccCycle (s', g, FcOutOfFuel) -> tail s' [graph_line g; "MODEL-FINDCYCLE-OUT-OF-FUEL"; "result EMPTY"]
  | AccWorking | AccBlocked -> None

(* ---------- the guided search of one build ---------- *)
(* the events a step appended to the ghost log (most recent first in is_log), oldest first *)
let new_events (old_log : event list) (new_log : event list) : event list option =
  let rec go l acc = if l == old_log then Some acc else match l with [] -> None | e :: t -> go t (e :: acc) in
  go new_log []

let queue_of_label = function GScan _ -> 0 | GInreq _ -> 1 | GFinInreq _ -> 2 | GReady _ -> 3 | GFinTask _ -> 4 | GFinish _ -> 5
let pos_of_label = function GScan i | GInreq i | GFinInreq i | GReady i | GFinTask i -> int_of_nat i | GFinish _ -> 0
let label_str = function
  | GScan i -> "scan@" ^ string_of_int (int_of_nat i) | GInreq i -> "inreq@" ^ string_of_int (int_of_nat i)
  | GFinInreq i -> "fininreq@" ^ string_of_int (int_of_nat i) | GReady i -> "ready@" ^ string_of_int (int_of_nat i)
  | GFinTask i -> "fintask@" ^ string_of_int (int_of_nat i) | GFinish t -> "finish:" ^ kstr t

(* Order in which the candidates are tried (it decides nothing about WHAT is accepted, only how fast a run is found): completions first
   (never silent), then the queue the last step came from and the following ones in the loop's phase order (executeTasks drains a queue
   before it goes to the next); inside a queue the head, then the other end, then the rest. *)
let order_candidates (phase : int) (cands : (glabel * istate) list) : (glabel * istate) list =
  let qlen = Array.make 6 0 in
  List.iter (fun (l, _) -> let q = queue_of_label l in qlen.(q) <- qlen.(q) + 1) cands;
  let rank (l, _) =
    let q = queue_of_label l in
    if q = 5 then (-1, 0)
    else
      let p = pos_of_label l in
      ((q - phase + 5) mod 5, (if p = 0 then 0 else if p = qlen.(q) - 1 then 1 else 1 + p)) in
  List.stable_sort (fun a b -> compare (rank a) (rank b)) cands

type search_stats = { mutable nodes : int; mutable steps : int; mutable deepest : int; mutable expected : string list;
                      mutable end_mismatch : string option; mutable exhausted : bool }

exception Found of istate * (glabel list)

(* The key under which a state counts as visited.  enabled_gen offers EVERY position of a queue, and the lists a rule / task parks its
   waiters in (pausedInputRequests, deferredScanRequests, requestedBy) are only ever moved into a queue as a block, so two states that
   differ only in the order inside those lists (and inside the two association lists, which are looked up by key) have the same futures:
   same events, same end lines (the wait-for graph line is sorted, findCycle does not depend on the edge order:
   FindCycleProofs.fc_edge_order_irrelevant).  The key therefore sorts them.  This argument is not machine-checked; it can only make the
   search miss a run (reject too much), never accept a trace that is not a run.  VERIF_ACC_NORM=0 switches the sorting off. *)
let normalise = ref (match Sys.getenv_opt "VERIF_ACC_NORM" with Some "0" -> false | _ -> true)
let sortl l = List.sort compare l
let norm_state (s : istate) : istate =
  if not !normalise then { s with is_log = [] } else
  { s with is_log = [];
           is_toscan = sortl s.is_toscan; is_inreq = sortl s.is_inreq; is_fininreq = sortl s.is_fininreq;
           is_ready = sortl s.is_ready; is_fintasks = sortl s.is_fintasks;
           is_rules = sortl (List.map (fun (k, ri) -> (k, { ri with ri_paused = sortl ri.ri_paused; ri_deferred = sortl ri.ri_deferred })) s.is_rules);
           is_tasks = sortl (List.map (fun (k, ti) -> (k, { ti with ti_reqby = sortl ti.ti_reqby; ti_deferred = sortl ti.ti_deferred })) s.is_tasks) }
let state_key (consumed : int) (s : istate) : int * string =
  (consumed, Digest.string (Marshal.to_string (norm_state s) [Marshal.No_sharing]))

let first_diff (a : string list) (b : string list) : string =
  let rec go i a b = match a, b with
    | [], [] -> "none"
    | x :: _, [] -> Printf.sprintf "end line %d: implementation `%s`, model has no more lines" i x
    | [], y :: _ -> Printf.sprintf "end line %d: implementation has no more lines, model `%s`" i y
    | x :: a', y :: b' -> if x = y then go (i + 1) a' b' else Printf.sprintf "end line %d: implementation `%s`, model `%s`" i x y in
  go 0 a b

(* Reduction of the search (not of what is accepted, see below): the delivery of an order-only request (GFinInreq of a mustFollow
   request) prints nothing and only lowers the waitCount of the requesting task (which may become ready; it still waits in readyTaskInfos
   for its own step), and nothing else reads that counter: moved to the front of a run it changes neither the events nor the final state.
   So when such a step is enabled the search takes it and nothing else.
   GFinTask (finish_task of t) prints nothing either, and for every step but one it only changes WHERE a request for t waits (in t's
   requestedBy or directly in finishedInputRequests).  The exception is a dependency scan: a scan that finds its input t still Computing
   parks on the task and continues in a LATER step, after other events; once t is finished the scan walks past t in the same step.  (Taking
   finish_task eagerly without regard to this lost 3 of 40493 builds of the thorough tier, found by the repetition below.)  So
   finish_task of t is taken eagerly only when no scan can reach t any more (scan_may_reach).  The argument is not machine-checked: if it were wrong the search could miss a run (and the
   handler, which repeats a failed search without the reductions, would notice); it cannot accept a non-run, because every state is
   still produced by enabled_gen alone.  VERIF_ACC_EAGER=0 switches the reduction off. *)
let eager = ref (match Sys.getenv_opt "VERIF_ACC_EAGER" with Some "0" -> false | _ -> true)
(* some rule that is being scanned, or has not been scanned yet in this build (loaded or still only a database row), has t among its
   recorded dependencies: a scan may still walk over t *)
let scan_may_reach (s : istate) (t : n) : bool =
  let mentions deps = List.exists (fun d -> d.d_key = t) deps in
  let unscanned ri = (match ri.ri_kind with
      | KIncomplete | KScanning -> true
      | KComplete -> ri.ri_res.res_builtAt <> s.is_epoch
      | _ -> false) in
  List.exists (fun (_, ri) -> unscanned ri && mentions ri.ri_res.res_deps) s.is_rules
  || (s.is_usedb && List.exists (fun (k, r) -> not (List.mem_assoc k s.is_rules) && mentions r.res_deps) s.is_db)
let eager_only (s : istate) (cands : (glabel * istate) list) : (glabel * istate) list =
  let silent (_, s') = (match new_events s.is_log s'.is_log with Some [] -> true | _ -> false) in
  match List.find_opt (fun ((l, s') as c) -> (match l with GFinInreq _ -> silent c && s'.is_fault = s.is_fault | _ -> false)) cands with
  | Some c -> [c]
  | None ->
    (match List.find_opt (fun (l, _) -> (match l with
        | GFinTask i -> (match List.nth_opt s.is_fintasks (int_of_nat i) with Some t -> not (scan_may_reach s t) | None -> false)
        | _ -> false)) cands with
     | Some c -> [c]
     | None -> cands)

let deps_pruning = ref (match Sys.getenv_opt "VERIF_ACC_DEPS" with Some "0" -> false | _ -> true)
exception Budget_exhausted
let silent_cap = 4000            (* consecutive steps without an event on one path (never reached: every step removes a queue item) *)

(* All states are reached from s0 through enabled_gen only.  visited: (events consumed, digest of the state without its ghost log) - a state
   reached again with the same number of consumed events has the same futures, so it is not explored twice. *)
let search_build (enabled : istate -> (glabel * istate) list) (usedb : bool) (root : n) (budget : int) (s0 : istate) (ob : obuild)
  : (istate * glabel list) option * search_stats =
  let n = Array.length ob.ob_events in
  let st = { nodes = 0; steps = 0; deepest = 0; expected = []; end_mismatch = None; exhausted = false } in
  let visited : (int * string, unit) Hashtbl.t = Hashtbl.create 1024 in
  let note consumed txt =
    if consumed = st.deepest && List.length st.expected < 6 && not (List.mem txt st.expected) then st.expected <- st.expected @ [txt] in
  (* Pruning on the recorded dependencies: the dependency list of a rule whose task was created in this build is cleared at the creation and
     from then on only appended to (route_request, finish_task), and the observed `deps` line shows it at the end of the build; so in every
     state of an accepted run it is a prefix of the observed list.  A successor state that violates this cannot be completed to an accepted
     run and is dropped at once (this only cuts branches that the comparison of the end lines would refuse later). *)
  let obs_deps : (int, int list) Hashtbl.t = Hashtbl.create 16 in
  List.iter (fun l -> match String.split_on_char ' ' l with
      | "deps" :: k :: ds -> (try Hashtbl.replace obs_deps (int_of_string k) (List.map int_of_string ds) with _ -> ())
      | _ -> ()) ob.ob_end;
  let created : (int, unit) Hashtbl.t = Hashtbl.create 16 in
  Array.iter (fun l -> match String.split_on_char ' ' l with ["create"; k] -> (try Hashtbl.replace created (int_of_string k) () with _ -> ()) | _ -> ()) ob.ob_events;
  let rec is_prefix a b = match a, b with [], _ -> true | x :: a', y :: b' -> x = y && is_prefix a' b' | _ :: _, [] -> false in
  let deps_ok (s : istate) : bool =
    not !deps_pruning ||
    List.for_all (fun (k, ri) ->
        let ki = int_of_n k in
        let has_task = (match ri.ri_kind with
            | KWaiting | KComputing -> true
            | KComplete -> ri.ri_res.res_builtAt = s.is_epoch && Hashtbl.mem created ki
            | _ -> false) in
        not has_task ||
        is_prefix (List.map (fun d -> int_of_n d.d_key) ri.ri_res.res_deps) (match Hashtbl.find_opt obs_deps ki with Some l -> l | None -> []))
      s.is_rules in
  let rec dfs s consumed phase path silent_run =
    st.nodes <- st.nodes + 1;
    if st.nodes > budget then begin st.exhausted <- true; raise Budget_exhausted end;
    if consumed > st.deepest then begin st.deepest <- consumed; st.expected <- []; st.end_mismatch <- None end;
    let key = state_key consumed s in
    if not (Hashtbl.mem visited key) then begin
      Hashtbl.add visited key ();
      if consumed = n then begin
        match end_lines usedb s root with
        | Some (lines, s') ->
          if lines = ob.ob_end then raise (Found (s', List.rev path))
          else if st.end_mismatch = None then st.end_mismatch <- Some (first_diff ob.ob_end lines)
        | None -> ()
      end;
      let cands = order_candidates phase (enabled s) in
      let cands = if !eager then eager_only s cands else cands in
      if cands = [] && consumed < n then note consumed "no step is enabled (the model's loop is left here)";
      List.iter (fun (l, s') ->
          match new_events s.is_log s'.is_log with
          | None -> note consumed ("MODEL-LOG-NOT-EXTENDED " ^ label_str l)
          | Some evs ->
            let rec matches i = function
              | [] -> Ok i
              | e :: t -> let x = event_str e in if i < n && ob.ob_events.(i) = x then matches (i + 1) t else Error (i, x) in
            (match matches consumed evs with
             | Ok c' ->
               let sr = if evs = [] then silent_run + 1 else 0 in
               if not (deps_ok s') then note c' (Printf.sprintf "%s records a dependency order other than the observed `deps` line" (label_str l))
               else if sr <= silent_cap then
                 dfs s' c' (let q = queue_of_label l in if q = 5 then phase else q) (l :: path) sr
             | Error (i, x) ->
               if i > st.deepest then begin st.deepest <- i; st.expected <- []; st.end_mismatch <- None end;
               note i (Printf.sprintf "%s would give `%s`" (label_str l) x)))
        cands
    end in
  let res = (try dfs s0 0 0 [] 0; None with Found (s', path) -> Some (s', path) | Budget_exhausted -> None) in
  (match res with
   | Some (_, path) ->
     st.steps <- List.length path
   | None -> ());
  if Sys.getenv_opt "VERIF_ACC_DEBUG" <> None && st.nodes > 1000 then begin
    let h = Array.make (n + 1) 0 in
    Hashtbl.iter (fun (c, _) () -> h.(c) <- h.(c) + 1) visited;
    prerr_endline (Printf.sprintf "build %s: nodes=%d visited per consumed: %s" ob.ob_no st.nodes
                     (String.concat " " (List.filter (fun x -> x <> "") (Array.to_list (Array.mapi (fun i c -> if c > 1 then Printf.sprintf "%d:%d" i c else "") h)))))
  end;
  (res, st)

(* ---------- the handler ---------- *)
let default_budget = 400000      (* search nodes per build; VERIF_ACC_BUDGET overrides *)
let default_budget2 = 60000      (* the same for the repetition of a failed search without reductions; VERIF_ACC_BUDGET2 *)

let () =
  register "accept" (fun args -> match (match args with [f; t] -> Some (f, t, None) | [f; t; b2] -> Some (f, t, int_of_string_opt b2) | _ -> None) with
      | Some (file, trace, b2arg) ->
        let lines = read_lines file in
        let items = ref (split_trace (read_lines trace)) in
        let budget = (match Sys.getenv_opt "VERIF_ACC_BUDGET" with Some x -> (try int_of_string x with _ -> default_budget) | None -> default_budget) in
        let pending = ref [] and current = ref [] in          (* (key * (rule * rkind list)) lists, newest first *)
        let envl = ref [] in
        let usedb = ref false and started = ref false and nbuild = ref 0 in
        let st = ref init_istate in
        let verdict = ref None in                              (* Some "reject ..." *)
        let tot_events = ref 0 and tot_nodes = ref 0 and tot_steps = ref 0 and max_nodes = ref 0 and max_ratio = ref 1.0 in
        let budget2 = (match b2arg with Some b -> b | None ->
            (match Sys.getenv_opt "VERIF_ACC_BUDGET2" with Some x -> (try int_of_string x with _ -> default_budget2) | None -> default_budget2)) in
        let missed = ref 0 in                                  (* builds accepted only by the plain search (a reduction lost the run) *)
        let hist = Array.make 6 0 in                           (* nodes / steps of the accepted run: 1, <=1.5, <=2, <=5, <=20, more *)
        let reject b pos msg = if !verdict = None then verdict := Some (Printf.sprintf "reject %d %d %s" b pos msg) in
        let next_item () = match !items with [] -> None | x :: tl -> items := tl; Some x in
        let newengine () = current := !pending; st := irestart !usedb !st; started := true in
        List.iter (fun l ->
            if !verdict = None && l <> "" && l.[0] <> '#' then
              match String.split_on_char ' ' l with
              | "rule" :: k :: rest -> pending := (n_of_int (int_of_string k), parse_rule rest) :: !pending
              | ["set"; k; v] -> envl := (n_of_int (int_of_string k), n_of_dec v) :: !envl
              | ["db"; b] -> usedb := (b <> "0")
              | "restart" :: _ ->
                newengine ();
                (match next_item () with
                 | Some ORestart -> ()
                 | _ -> reject !nbuild 0 "the scenario restarts the engine here, the trace has no `restart` line")
              | "build" :: k :: opts ->
                if not !started then newengine ();
                incr nbuild;
                (match next_item () with
                 | Some (OBuild ob) when ob.ob_no = string_of_int !nbuild && ob.ob_root = k ->
                   if ob.ob_other <> [] then reject !nbuild 0 ("line without a counterpart in the model: `" ^ List.hd ob.ob_other ^ "`")
                   else begin
                     let sched = List.fold_left (fun acc o -> if String.length o > 6 && String.sub o 0 6 = "sched=" then String.sub o 6 (String.length o - 6) else acc) "sync" opts in
                     let sync = (sched = "sync") in
                     let rl k = match alookup !current k with Some (r, _) -> r | None -> default_rule in
                     let od k = match alookup !current k with Some (_, o) -> o | None -> [RReq; RSingle; RFollow] in
                     let root = n_of_int (int_of_string k) in
                     let enabled = enabled_gen rl (env_of !envl) mixF od (fun _ -> sync) in
                     let s0 = acc_begin !st root in
                     let (res, ss) = search_build enabled !usedb root budget s0 ob in
                     (* a failed search is repeated without any of the three reductions (sorted keys, dependency pruning, eager silent steps) *)
                     let (res, second) =
                       if res <> None || budget2 <= 0 || not (!normalise || !eager || !deps_pruning) then (res, "")
                       else begin
                         let saved = (!normalise, !eager, !deps_pruning) in
                         normalise := false; eager := false; deps_pruning := false;
                         let (res2, ss2) = search_build enabled !usedb root budget2 s0 ob in
                         (let (a, b, c) = saved in normalise := a; eager := b; deps_pruning := c);
                         tot_nodes := !tot_nodes + ss2.nodes;
                         (match res2 with
                          | Some _ -> incr missed; ss.steps <- ss2.steps; (res2, "")
                          | None -> (None, Printf.sprintf " | plain search without reductions: %s [nodes=%d]"
                                       (if ss2.exhausted then "budget exhausted, no run found" else "no run either") ss2.nodes))
                       end in
                     tot_events := !tot_events + Array.length ob.ob_events;
                     tot_nodes := !tot_nodes + ss.nodes;
                     max_nodes := max !max_nodes ss.nodes;
                     (match res with
                      | Some (s', path) ->
                        st := s';
                        tot_steps := !tot_steps + ss.steps;
                        let r = float_of_int ss.nodes /. float_of_int (max 1 (ss.steps + 1)) in
                        if r > !max_ratio then max_ratio := r;
                        let b = if r <= 1.0 then 0 else if r <= 1.5 then 1 else if r <= 2.0 then 2 else if r <= 5.0 then 3 else if r <= 20.0 then 4 else 5 in
                        hist.(b) <- hist.(b) + 1
                      | None ->
                        let n = Array.length ob.ob_events in
                        let obs = if ss.deepest < n then "`" ^ ob.ob_events.(ss.deepest) ^ "`" else "the end of the build's events" in
                        reject !nbuild ss.deepest
                          (Printf.sprintf "%sobserved %s; no enabled step of the model produces it after the first %d events%s%s [nodes=%d]%s"
                             (if ss.exhausted then "SEARCH-BUDGET-EXHAUSTED (inconclusive) " else "") obs ss.deepest
                             (if ss.expected = [] then "" else " | " ^ String.concat " | " ss.expected)
                             (match ss.end_mismatch with Some m -> " | a run consuming all events ends differently: " ^ m | None -> "")
                             ss.nodes second))
                   end
                 | Some (OBuild ob) -> reject !nbuild 0 (Printf.sprintf "the scenario builds %s as build %d, the trace has `build %s %s`" k !nbuild ob.ob_no ob.ob_root)
                 | _ -> reject !nbuild 0 "the trace has no lines for this build")
              | _ -> ()) lines;
        (match !verdict with
         | Some v -> v
         | None ->
           if !items <> [] then Printf.sprintf "reject %d 0 the trace goes on after the scenario's last build" !nbuild
           else Printf.sprintf "ok builds=%d events=%d steps=%d nodes=%d maxnodes=%d maxratio=%.2f reduction_missed=%d ratiohist=%s"
               !nbuild !tot_events !tot_steps !tot_nodes !max_nodes !max_ratio !missed (String.concat "," (Array.to_list (Array.map string_of_int hist))))
      | None -> "ERR args")
