(* MAIN-LOOP (keep last) *)
let () =
  try
    while true do
      let line = input_line stdin in
      let ans =
        match String.split_on_char ' ' line with
        | [] | [""] -> ""
        | cmd :: args ->
          (match Hashtbl.find_opt handlers cmd with
           | Some f -> (try f args with e -> "EXC " ^ Printexc.to_string e)
           | None -> "ERR unknown " ^ cmd) in
      print_string ans; print_char '\n'; flush stdout
    done
  with End_of_file -> ()
