(* Handlers of the dirtree area (C12).
   Tree syntax (no spaces):
     tree  ::= M | F(info) | D(info)[entry,entry,...] | L(info)!tree | L(info)=<hex realpath>;tree
     entry ::= <hex name>:tree
     info  ::= dev.ino.mode.size.sec.nsec            (decimal)
   Patterns: comma separated hex strings, "." = none.  `matches` is instantiated by the byte-wise glob below (checked
   against libc's fnmatch by the harness on the generated patterns and names; fnmatch itself is not modelled in Coq). *)

(* fnmatch(pattern, name, 0) on bytes (C locale): star, question mark, backslash followed by c (c taken literally; a
   trailing backslash matches nothing), bracket expressions with ranges, a leading exclamation mark or caret for the
   complement, a closing bracket taken literally when it comes first, backslash escapes inside; an opening bracket
   without a closing one is a literal.  No special treatment of the slash or of a leading period (flags = 0). *)
let rec glob_i (p : int list) (s : int list) : bool =
  match p with
  | [] -> s = []
  | 42 :: p' -> glob_i p' s || (match s with [] -> false | _ :: s' -> glob_i p s')
  | 63 :: p' -> (match s with [] -> false | _ :: s' -> glob_i p' s')
  | 92 :: [] -> false
  | 92 :: c :: p' -> (match s with x :: s' when x = c -> glob_i p' s' | _ -> false)
  | 91 :: p' ->
    (match bracket p' with
     | None -> (match s with x :: s' when x = 91 -> glob_i p' s' | _ -> false)
     | Some (neg, items, rest) ->
       (match s with
        | [] -> false
        | x :: s' ->
          let inside = List.exists (fun (lo, hi) -> lo <= x && x <= hi) items in
          (inside <> neg) && glob_i rest s'))
  | c :: p' -> (match s with x :: s' when x = c -> glob_i p' s' | _ -> false)
(* after '[': (negated?, ranges, pattern after the closing ']'), or None when there is no closing ']' *)
and bracket (p : int list) =
  let neg, p = (match p with (33 | 94) :: t -> true, t | _ -> false, p) in
  let rec items first acc p =
    match p with
    | [] -> None
    | 93 :: t when not first -> Some (List.rev acc, t)
    | _ ->
      let take p = (match p with 92 :: c :: t -> Some (c, t) | [92] -> None | c :: t -> Some (c, t) | [] -> None) in
      (match take p with
       | None -> None
       | Some (lo, t) ->
         (match t with
          | 45 :: t2 when (match t2 with 93 :: _ -> false | [] -> false | _ -> true) ->
            (match take t2 with None -> None | Some (hi, t3) -> items false ((lo, hi) :: acc) t3)
          | _ -> items false ((lo, lo) :: acc) t)) in
  match items true [] p with None -> None | Some (l, rest) -> Some (neg, l, rest)

let glob (p : n list) (s : n list) : bool = glob_i (List.map int_of_n p) (List.map int_of_n s)

let zeros32 = List.init 32 (fun _ -> N0)

exception Parse of string

let parse_tree (s : string) : tree =
  let pos = ref 0 in
  let len = String.length s in
  let peek () = if !pos < len then s.[!pos] else '\000' in
  let eat c = if peek () = c then incr pos else raise (Parse (Printf.sprintf "expected %c at %d" c !pos)) in
  let token stop =
    let st = !pos in
    while !pos < len && not (String.contains stop s.[!pos]) do incr pos done;
    String.sub s st (!pos - st) in
  let info () =
    eat '(';
    let t = token ")" in
    eat ')';
    match String.split_on_char '.' t with
    | [a; b; c; d; e; f] -> { fi_device = n_of_dec a; fi_inode = n_of_dec b; fi_mode = n_of_dec c; fi_size = n_of_dec d;
                              fi_sec = n_of_dec e; fi_nsec = n_of_dec f; fi_checksum = zeros32 }
    | _ -> raise (Parse "info") in
  let rec tree () =
    match peek () with
    | 'M' -> incr pos; Missing
    | 'F' -> incr pos; File (info ())
    | 'D' -> incr pos;
      let i = info () in
      eat '[';
      let rec entries acc =
        if peek () = ']' then (incr pos; List.rev acc)
        else begin
          let nm = token ":" in
          eat ':';
          let t = tree () in
          if peek () = ',' then incr pos;
          entries ((bytes_of_hex nm, t) :: acc)
        end in
      Dir (i, entries [])
    | 'L' -> incr pos;
      let i = info () in
      if peek () = '!' then (incr pos; Link (i, None, tree ()))
      else begin
        eat '=';
        let rp = token ";" in
        eat ';';
        Link (i, Some (bytes_of_hex rp), tree ())
      end
    | c -> raise (Parse (Printf.sprintf "unexpected %c at %d" c !pos)) in
  let t = tree () in
  if !pos <> len then raise (Parse "trailing input");
  t

(* rp: the resolved path of the root directory (real_path of the node's path); the tokens use the path as spelled *)
let view flt rp t = observe (flt = []) rp t

let () =
  (* listing <patterns> <hex path> <tree>: the names a clean build records for the root directory *)
  register "listing" (function [f; p; t] ->
      let flt = list_of_field f and p = bytes_of_hex p in
      field_of_list (names (s_children (clean_build glob flt (view flt p (parse_tree t))))) | _ -> "ERR args");
  (* excluded <patterns> <hex name> *)
  register "excluded" (function [f; nm] -> b2s (excluded glob (list_of_field f) (bytes_of_hex nm)) | _ -> "ERR args");
  (* tokens_eq <patterns> <hex path> <treeA> <treeB>: after clean builds, "<tree tokens equal> <structure tokens equal>" *)
  register "tokens_eq" (function [f; p; a; b] ->
      let flt = list_of_field f and p = bytes_of_hex p in
      let filt = nonempty flt in
      let sa = clean_build glob flt (view flt p (parse_tree a)) and sb = clean_build glob flt (view flt p (parse_tree b)) in
      b2s (tree_toks filt p sa = tree_toks filt p sb) ^ " " ^ b2s (struct_toks filt p sa = struct_toks filt p sb) | _ -> "ERR args");
  (* scenario <patterns> <hex path> <tree0> <tree1> ...: one database, one build per tree; for every build after the
     first: "<tree command runs again><structure command runs again>" *)
  register "scenario" (function
      | f :: p :: t0 :: rest ->
        let flt = list_of_field f and p = bytes_of_hex p in
        let filt = nonempty flt in
        let st = ref (clean_build glob flt (view flt p (parse_tree t0))) in
        String.concat " " (List.map (fun t ->
            let nw = rebuild glob flt !st (view flt p (parse_tree t)) in
            let r = b2s (tree_toks filt p nw <> tree_toks filt p !st) ^ b2s (struct_toks filt p nw <> struct_toks filt p !st) in
            st := nw; r) rest)
      | _ -> "ERR args");
  (* scenariop <hex path> <hex resolved root path> <patterns>@<tree> <patterns>@<tree> ...: as scenario, the description's patterns given per build;
     when they differ from the previous build's the stored listings are not reused (forget_listings) and the old tokens
     are those of the old patterns *)
  register "scenariop" (function
      | p :: rp :: first :: rest ->
        let p = bytes_of_hex p and rp = bytes_of_hex rp in
        let split x = (match String.index_opt x '@' with
            | Some i -> (list_of_field (String.sub x 0 i), String.sub x (i + 1) (String.length x - i - 1))
            | None -> failwith "step") in
        let (f0, t0) = split first in
        let flt = ref f0 in
        let st = ref (clean_build glob f0 (view f0 rp (parse_tree t0))) in
        String.concat " " (List.map (fun x ->
            let (f, t) = split x in
            let oldf = !flt in
            let base = if f = oldf then !st else forget_listings !st in
            let nw = rebuild glob f base (view f rp (parse_tree t)) in
            let r = b2s (tree_toks (nonempty f) p nw <> tree_toks (nonempty oldf) p !st)
                    ^ b2s (struct_toks (nonempty f) p nw <> struct_toks (nonempty oldf) p !st) in
            st := nw; flt := f; r) rest)
      | _ -> "ERR args");
  (* pruned_eq <patterns> <hex path> <tree>: is the filtered signature the filtered-mode signature of the pruned tree? *)
  register "pruned_eq" (function [f; p; t] ->
      let flt = list_of_field f and p = bytes_of_hex p in
      let v = view flt p (parse_tree t) in
      b2s (tree_toks true p (clean_build glob flt v) = tree_toks true p (clean_build glob [] (prune glob flt v))) | _ -> "ERR args")
