(* Handlers of the dirtree area (C12).
   Tree syntax (no spaces):
     tree  ::= M | F(info) | D(info)[entry,entry,...] | L(info)!tree | L(info)=<hex realpath>;tree
     entry ::= <hex name>:tree
     info  ::= dev.ino.mode.size.sec.nsec            (decimal)
   Patterns: comma separated hex strings, "." = none.  `matches` is instantiated by a byte-wise glob that knows
   '*', '?' and literal bytes only (enough for the patterns the check generates; fnmatch itself is not modelled). *)

let rec glob (p : n list) (s : n list) : bool =
  match p, s with
  | [], [] -> true
  | [], _ -> false
  | c :: p', _ when int_of_n c = 42 ->
    glob p' s || (match s with [] -> false | _ :: s' -> glob p s')
  | c :: p', x :: s' when int_of_n c = 63 -> glob p' s'
  | c :: p', x :: s' -> int_of_n c = int_of_n x && glob p' s'
  | _ :: _, [] -> false

let zeros32 = List.init 32 (fun _ -> N0)

exception Parse of string

let parse_tree (s : string) : tree =
  let pos = ref 0 in
  let len = String.length s in
  let peek () = if !pos < len then s.[!pos] else '\000' in
  let eat c = if peek () = c then incr pos else raise (Parse (Printf.sprintf "expected %c at %d" c !pos)) in
  let token stop =
    let st = !pos in
    while !pos < len && not (String.contains stop s.[!pos]) do incr pos done;
    String.sub s st (!pos - st) in
  let info () =
    eat '(';
    let t = token ")" in
    eat ')';
    match String.split_on_char '.' t with
    | [a; b; c; d; e; f] -> { fi_device = n_of_dec a; fi_inode = n_of_dec b; fi_mode = n_of_dec c; fi_size = n_of_dec d;
                              fi_sec = n_of_dec e; fi_nsec = n_of_dec f; fi_checksum = zeros32 }
    | _ -> raise (Parse "info") in
  let rec tree () =
    match peek () with
    | 'M' -> incr pos; Missing
    | 'F' -> incr pos; File (info ())
    | 'D' -> incr pos;
      let i = info () in
      eat '[';
      let rec entries acc =
        if peek () = ']' then (incr pos; List.rev acc)
        else begin
          let nm = token ":" in
          eat ':';
          let t = tree () in
          if peek () = ',' then incr pos;
          entries ((bytes_of_hex nm, t) :: acc)
        end in
      Dir (i, entries [])
    | 'L' -> incr pos;
      let i = info () in
      if peek () = '!' then (incr pos; Link (i, None, tree ()))
      else begin
        eat '=';
        let rp = token ";" in
        eat ';';
        Link (i, Some (bytes_of_hex rp), tree ())
      end
    | c -> raise (Parse (Printf.sprintf "unexpected %c at %d" c !pos)) in
  let t = tree () in
  if !pos <> len then raise (Parse "trailing input");
  t

let view flt p t = observe (flt = []) p t

let () =
  (* listing <patterns> <hex path> <tree>: the names a clean build records for the root directory *)
  register "listing" (function [f; p; t] ->
      let flt = list_of_field f and p = bytes_of_hex p in
      field_of_list (names (s_children (clean_build glob flt (view flt p (parse_tree t))))) | _ -> "ERR args");
  (* excluded <patterns> <hex name> *)
  register "excluded" (function [f; nm] -> b2s (excluded glob (list_of_field f) (bytes_of_hex nm)) | _ -> "ERR args");
  (* tokens_eq <patterns> <hex path> <treeA> <treeB>: after clean builds, "<tree tokens equal> <structure tokens equal>" *)
  register "tokens_eq" (function [f; p; a; b] ->
      let flt = list_of_field f and p = bytes_of_hex p in
      let filt = nonempty flt in
      let sa = clean_build glob flt (view flt p (parse_tree a)) and sb = clean_build glob flt (view flt p (parse_tree b)) in
      b2s (tree_toks filt p sa = tree_toks filt p sb) ^ " " ^ b2s (struct_toks filt p sa = struct_toks filt p sb) | _ -> "ERR args");
  (* scenario <patterns> <hex path> <tree0> <tree1> ...: one database, one build per tree; for every build after the
     first: "<tree command runs again><structure command runs again>" *)
  register "scenario" (function
      | f :: p :: t0 :: rest ->
        let flt = list_of_field f and p = bytes_of_hex p in
        let filt = nonempty flt in
        let st = ref (clean_build glob flt (view flt p (parse_tree t0))) in
        String.concat " " (List.map (fun t ->
            let nw = rebuild glob flt !st (view flt p (parse_tree t)) in
            let r = b2s (tree_toks filt p nw <> tree_toks filt p !st) ^ b2s (struct_toks filt p nw <> struct_toks filt p !st) in
            st := nw; r) rest)
      | _ -> "ERR args");
  (* pruned_eq <patterns> <hex path> <tree>: is the filtered signature the filtered-mode signature of the pruned tree? *)
  register "pruned_eq" (function [f; p; t] ->
      let flt = list_of_field f and p = bytes_of_hex p in
      let v = view flt p (parse_tree t) in
      b2s (tree_toks true p (clean_build glob flt v) = tree_toks true p (clean_build glob [] (prune glob flt v))) | _ -> "ERR args")
