(* Handlers of the bsys area (C08): the clean build of a description on the extracted model.
   Encodings (no spaces inside an argument):
     commands  c1;c2;...      each  tool:name:inputs:outputs:tag:contents
                              tool = s (shell) | p (phony) | m (mkdir) | l (symlink); name/tag/contents hex ("-" empty);
                              inputs/outputs comma separated hex ("." empty list)
     targets   t1;t2;...      each  name/nodes
     sources   s1;s2;...      each  path/content        ("." = none)
   clean <commands> <targets> <sources> <target> [<mutated nodes>]
     -> OK <outputs> <ran> <statuses>
        outputs  = path=Kcontent,...   for every non-virtual output of every command that was built;
                   K = f (file) | d (directory) | l (link, content = target) | x (missing)
        ran      = names of the commands whose tool body executed, in execution order
        statuses = name=valuekind,...  (BuildValue kind number of every command that was built)
     -> FUEL | CYCLE | STUCK
   null_check <commands> <targets> <sources> <target>
     -> OK n_valid n_invalid   how many recorded command / node values are valid in the world the clean build left
   valid <commands> <targets> <mutated nodes> <stats> <key1=value1,key2=value2,...>
     the isResultValid verdict of the model for values read from the build database, in the world described by stats
     key    = C<name hex> | N<name hex> | T<name hex>
     value  = the BuildValue bytes (hex) as stored in rule_results.value
     stats  = p1/dev:ino:mode:size:sec:nsec;...   (paths not listed are missing)
     -> one letter per pair: V | I | O (OverRead) | U (undecodable value)
   sigtok <commands> <targets> <key1,key2,...>
     -> per key the token sequence the model feeds to the rule's signature (name:tok.tok...; 0 = the null signature) *)
let split_list c s = if s = "" || s = "." then [] else String.split_on_char c s
let tool_of = function "s" -> TShell | "p" -> TPhony | "m" -> TMkdir | _ -> TSymlink
let cmd_of_string s = match String.split_on_char ':' s with
  | [t; name; ins; outs; tag; contents] ->
    { cm_tool = tool_of t;
      cm_def = { c_name = bytes_of_hex name; c_inputs = list_of_field ins; c_outputs = list_of_field outs;
                 c_allow_missing_inputs = false; c_allow_modified_outputs = false; c_always_out_of_date = false;
                 c_sigdata = []; c_args = (if tag = "-" then [] else [bytes_of_hex tag]); c_env = []; c_deps_paths = [];
                 c_deps_style = N0; c_inherit_env = true; c_can_safely_interrupt = false };
      cm_contents = bytes_of_hex contents }
  | _ -> failwith "command encoding"
let pair_of_string f s = match String.split_on_char '/' s with
  | [a; b] -> (bytes_of_hex a, f b) | _ -> failwith "pair encoding"
let desc_of cmds targets mutated =
  { d_cmds = List.map cmd_of_string (split_list ';' cmds);
    d_mutated = list_of_field mutated;
    d_targets = List.map (pair_of_string list_of_field) (split_list ';' targets) }
let sources_of s = List.map (pair_of_string bytes_of_hex) (split_list ';' s)

let kind_char (s : fileinfo) =
  let m = int_of_n s.fi_mode land 0o170000 in
  if m = 0o040000 then "d" else if m = 0o120000 then "l" else "f"

let show_state d st =
  let built c = lookup_val st.bs_vals (KC c.cm_def.c_name) in
  let outs = List.concat_map (fun c -> match built c with
      | None -> []
      | Some _ -> List.filter_map (fun o ->
          if node_virtual o then None else
            Some (hex_of_bytes o ^ "=" ^ (match st.bs_world.w_fs o with
                | None -> "x"
                | Some (content, stamp) -> kind_char stamp ^ hex_of_bytes content))) c.cm_def.c_outputs) d.d_cmds in
  let statuses = List.filter_map (fun c -> match built c with
      | None -> None
      | Some v -> Some (hex_of_bytes c.cm_def.c_name ^ "=" ^ string_of_int (int_of_n (vtag v.bv_kind)))) d.d_cmds in
  let j l = if l = [] then "." else String.concat "," l in
  "OK " ^ j outs ^ " " ^ field_of_list (List.rev st.bs_ran) ^ " " ^ j statuses

let () =
  register "clean" (fun args ->
      let run cmds targets sources t mutated =
        let d = desc_of cmds targets mutated in
        match clean cat_fn d (sources_of sources) (bytes_of_hex t) with
        | BOk st -> show_state d st
        | BFuel -> "FUEL" | BCycle -> "CYCLE" | BStuck -> "STUCK" in
      match args with
      | [cmds; targets; sources; t] -> run cmds targets sources t "."
      | [cmds; targets; sources; t; mutated] -> run cmds targets sources t mutated
      | _ -> "ERR args");
  register "null_check" (function
      | [cmds; targets; sources; t] ->
        let d = desc_of cmds targets "." in
        (match clean cat_fn d (sources_of sources) (bytes_of_hex t) with
         | BOk st ->
           let ok = ref 0 and bad = ref 0 in
           List.iter (fun (k, v) ->
               match k with
               | KT _ -> ()
               | _ -> (match rule_valid d st.bs_world k v with Valid -> incr ok | _ -> incr bad)) st.bs_vals;
           Printf.sprintf "OK %d %d" !ok !bad
         | BFuel -> "FUEL" | BCycle -> "CYCLE" | BStuck -> "STUCK")
      | _ -> "ERR args")

let fi_of_stat s = match String.split_on_char ':' s with
  | [a; b; c; d; e; f] -> Some { fi_device = n_of_dec a; fi_inode = n_of_dec b; fi_mode = n_of_dec c; fi_size = n_of_dec d;
                                 fi_sec = n_of_dec e; fi_nsec = n_of_dec f; fi_checksum = List.init 32 (fun _ -> N0) }
  | _ -> None
let world_of_stats s =
  let tbl = Hashtbl.create 32 in
  List.iter (fun e -> match String.split_on_char '/' e with
      | [p; st] -> (match fi_of_stat st with Some fi -> Hashtbl.replace tbl (bytes_of_hex p) fi | None -> ())
      | _ -> ()) (split_list ';' s);
  { w_fs = (fun q -> match Hashtbl.find_opt tbl q with Some fi -> Some ([], fi) | None -> None); w_clock = N0 }
let key_of_string s =
  let name = bytes_of_hex (String.sub s 1 (String.length s - 1)) in
  match s.[0] with 'C' -> KC name | 'N' -> KN name | _ -> KT name
let () =
  register "valid" (function
      | [cmds; targets; mutated; stats; pairs] ->
        let d = desc_of cmds targets mutated in
        let w = world_of_stats stats in
        String.concat "" (List.map (fun kv -> match String.split_on_char '=' kv with
            | [key; value] ->
              (match dec_value (bytes_of_hex value) with
               | None -> "U"
               | Some v -> (match rule_valid d w (key_of_string key) v with Valid -> "V" | Invalid -> "I" | OverRead -> "O"))
            | _ -> "?") (split_list ',' pairs))
      | _ -> "ERR args")

let tok_str = function TStr s -> "S" ^ hex_of_bytes s | TBool b -> "B" ^ b2s b | TU64 n -> "U" ^ dec_of_n n
let toks tag (name, l) = tag ^ hex_of_bytes name ^ ":" ^ String.concat "." (List.map tok_str l)
let () =
  register "sigtok" (function
      | [cmds; targets; keys] ->
        let d = desc_of cmds targets "." in
        String.concat "," (List.map (fun k -> match key_of_string k with
            | KC name -> (match find_cmd d.d_cmds name with
                | None -> "0"
                | Some c -> (match c.cm_tool with
                    | TShell -> toks "s" (sig_tokens c.cm_def)
                    | TPhony | TMkdir -> toks "e" (ext_sig_tokens c.cm_def)
                    | TSymlink -> toks "l" (symlink_sig_tokens (match c.cm_def.c_outputs with o :: _ -> o | [] -> []) c.cm_contents c.cm_def.c_inputs)))
            | KN n -> toks "n" ([], node_sig_tokens (node_def d n))
            | KT _ -> "0") (split_list ',' keys))
      | _ -> "ERR args")
