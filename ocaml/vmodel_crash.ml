(* Crash area (property C04): the extracted database/transaction model of coq/Engine/Crash.v.
   A trace is one token: operations separated by ';'
     B | C | K<key> | I<iteration> | R<key>=<value>=<sig>=<computedAt>=<builtAt>=<deps>
   value: E (empty) or <payload>.<stamp>;  deps: - or d,d,...  with d = <key>:<flags> (bit0 order-only, bit1 single-use).
   A state is printed / read as three tokens:  iter=<n> keys=<k,k,..|-> rows=<row;row;..|->   (keys and rows sorted by key)
     row = <key>=<value>=<sig>=<computedAt>=<builtAt>=<deps>
   requests:
     recover <n> <trace>        state the next process finds after the first n operations of the trace (from an empty database),
                                followed by inv=<0|1> (db_inv_b of that state)
     wf <trace>                 1 iff the trace splits into build traces (each ending at C) that are well-formed in sequence
     inv <iter=..> <keys=..> <rows=..>     db_inv_b of an observed state
     countermodel <which> <n>   db_inv_b after n operations of the counter-model trace (which = iter_after_commit | commit_per_result | failed_no_iteration | anything else: the real single-transaction trace)
                                for the two-result example build *)
let split c s = if s = "" then [] else String.split_on_char c s
let parse_value s = if s = "E" then None else
    match String.split_on_char '.' s with [p; st] -> Some (n_of_dec p, n_of_dec st) | _ -> failwith ("value " ^ s)
let parse_dep s = match String.split_on_char ':' s with
  | [k; f] -> let f = int_of_string f in { d_key = n_of_dec k; d_order = (f land 1 = 1); d_single = (f land 2 = 2) }
  | _ -> failwith ("dep " ^ s)
let parse_deps s = if s = "-" then [] else List.map parse_dep (String.split_on_char ',' s)
let parse_row s = match String.split_on_char '=' s with
  | [k; v; sg; c; b; ds] -> (n_of_dec k, { res_value = parse_value v; res_sig = n_of_dec sg; res_computedAt = n_of_dec c; res_builtAt = n_of_dec b; res_deps = parse_deps ds })
  | _ -> failwith ("row " ^ s)
let parse_op s =
  if s = "B" then Begin else if s = "C" then Commit
  else let rest = String.sub s 1 (String.length s - 1) in
    match s.[0] with
    | 'K' -> AddKey (n_of_dec rest)
    | 'I' -> SetIteration (n_of_dec rest)
    | 'R' -> let (k, r) = parse_row rest in SetResult (k, r)
    | _ -> failwith ("op " ^ s)
let parse_trace s = if s = "-" then [] else List.map parse_op (split ';' s)

let vstr = function None -> "E" | Some (p, s) -> dec_of_n p ^ "." ^ dec_of_n s
let dstr d = dec_of_n d.d_key ^ ":" ^ string_of_int ((if d.d_order then 1 else 0) + (if d.d_single then 2 else 0))
let row_str (k, r) = String.concat "=" [dec_of_n k; vstr r.res_value; dec_of_n r.res_sig; dec_of_n r.res_computedAt; dec_of_n r.res_builtAt;
                                        (if r.res_deps = [] then "-" else String.concat "," (List.map dstr r.res_deps))]
let state_str st =
  let ks = List.sort compare (List.map int_of_n st.key_names) in
  let rs = List.sort (fun (a, _) (b, _) -> compare (int_of_n a) (int_of_n b)) st.rows in
  Printf.sprintf "iter=%s keys=%s rows=%s" (dec_of_n st.iteration)
    (if ks = [] then "-" else String.concat "," (List.map string_of_int ks))
    (if rs = [] then "-" else String.concat ";" (List.map row_str rs))
let field name s =
  let p = name ^ "=" in let lp = String.length p in
  if String.length s >= lp && String.sub s 0 lp = p then String.sub s lp (String.length s - lp) else failwith ("field " ^ name)

(* split a concatenated trace into build traces, each ending at its Commit *)
let split_builds ops =
  let rec go cur acc = function
    | [] -> List.rev (if cur = [] then acc else List.rev cur :: acc)
    | Commit :: t -> go [] (List.rev (Commit :: cur) :: acc) t
    | o :: t -> go (o :: cur) acc t in
  go [] [] ops

let cm_results =
  [ (n_of_int 0, { res_value = Some (n_of_int 1, n_of_int 1); res_sig = n_of_int 0; res_computedAt = n_of_int 1; res_builtAt = n_of_int 1; res_deps = [] });
    (n_of_int 1, { res_value = Some (n_of_int 2, n_of_int 0); res_sig = n_of_int 1; res_computedAt = n_of_int 1; res_builtAt = n_of_int 1;
                   res_deps = [ { d_key = n_of_int 0; d_order = false; d_single = false } ] }) ]

let () =
  register "recover" (function
      | [n; tr] -> let st = recover_prefix (nat_of_int (int_of_string n)) (parse_trace tr) in
        state_str st ^ " inv=" ^ b2s (db_inv_b st)
      | _ -> "ERR args");
  register "wf" (function
      | [tr] -> b2s (wf_history empty_db (List.map (fun t -> { run_trace = t; run_cut = None }) (split_builds (parse_trace tr))))
      | _ -> "ERR args");
  register "inv" (function
      | [i; k; r] ->
        let ks = field "keys" k and rs = field "rows" r in
        let st = { rows = (if rs = "-" then [] else List.map parse_row (split ';' rs));
                   key_names = (if ks = "-" then [] else List.map n_of_dec (split ',' ks));
                   iteration = n_of_dec (field "iter" i) } in
        b2s (db_inv_b st)
      | _ -> "ERR args");
  register "countermodel" (function
      | [which; n] ->
        let tr = (match which with
            | "iter_after_commit" -> trace_iteration_after_commit (n_of_int 1) cm_results
            | "commit_per_result" -> trace_commit_per_result (n_of_int 1) cm_results
            | "failed_no_iteration" -> trace_failed_no_iteration (n_of_int 1) cm_results
            | _ -> trace_of_build (n_of_int 1) cm_results) in
        let st = recover_prefix (nat_of_int (int_of_string n)) tr in
        Printf.sprintf "len=%d %s inv=%s" (List.length tr) (state_str st) (b2s (db_inv_b st))
      | _ -> "ERR args")
