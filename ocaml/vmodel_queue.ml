(* Handlers of the queue area (C16).
   accepts <lanes> <fifo|prio> <labels>      labels: comma separated, "." = none
       a:<job>:<h|n>:<ordhex>:<o|lane>  t:<lane>:<job>  f:<lane>  s:<lane>  c  d  x:<lane>
     -> OK <terminal 0|1> <finished jobs, oldest first, '.' if none>  |  REJECT <index of the first label not enabled>
   saccepts <v1|v0> <labels>                 serial queue (v1 = as repaired by 6dc9f85, v0 = before); same label spelling (lane and priority fields ignored)
     -> OK <exited 0|1> <finished, oldest first> <lost jobs: queued behind the sentinel when the worker left>  |  REJECT <index>
   status <raw wait status>                  -> Succeeded | Failed | Cancelled
   launch <cancelled> <closed> <noargs> <none|raw> <waiterr>   -> <spawned 0|1> <status>
   fate e:<code> | s:<sig>:<core 0|1>        -> <raw> <status the property asks for>
   env <buildid> <laneid> <taskid> <requested k=v;k=v|.> <inherit 0|1> <base list field> <controlfd hex|none>
     -> rendered envp as list field (hex "key=value" entries)      (env_v0: the construction before a51183e) *)
let status_name = function Succeeded -> "Succeeded" | Failed -> "Failed" | Cancelled -> "Cancelled"
let label_of_string s =
  match String.split_on_char ':' s with
  | ["a"; j; p; o; src] ->
    Add (n_of_dec j, (if p = "h" then High else Normal), bytes_of_hex o,
         (if src = "o" then Outside else FromLane (n_of_dec src)))
  | ["t"; l; j] -> Take (n_of_dec l, n_of_dec j)
  | ["f"; l] -> Finish (n_of_dec l)
  | ["s"; l] -> Spawn (n_of_dec l)
  | ["c"] -> Cancel
  | ["d"] -> Shutdown
  | ["x"; l] -> Exit (n_of_dec l)
  | _ -> failwith ("label " ^ s)
let slabel_of_string s =
  match String.split_on_char ':' s with
  | ["a"; j; _; _; src] -> SAdd (n_of_dec j, src <> "o")
  | ["t"; _; j] -> STake (n_of_dec j)
  | ["f"; _] -> SFinish
  | ["s"; _] -> SSpawn
  | ["c"] -> SCancel
  | ["d"] -> SShutdown
  | ["x"; _] -> SExit
  | _ -> failwith ("label " ^ s)
let nlist l = if l = [] then "." else String.concat "," (List.map dec_of_n l)
let labels_of_field s = if s = "." then [] else List.map label_of_string (String.split_on_char ',' s)
let env_of_field s =
  if s = "." then [] else
    List.map (fun kv -> match String.split_on_char '=' kv with
        | [k; v] -> (bytes_of_hex k, bytes_of_hex v) | _ -> failwith "env") (String.split_on_char ';' s)
let () =
  register "accepts" (function [lanes; alg; ls] ->
      let s0 = init (n_of_dec lanes) (if alg = "fifo" then Fifo else NamePrio) in
      let labels = labels_of_field ls in
      (match accepts s0 labels with
       | Some s ->
         let fin = List.rev_map dec_of_n s.st_finished in
         "OK " ^ b2s (terminal s) ^ " " ^ (if fin = [] then "." else String.concat "," fin)
       | None ->
         (match first_reject s0 labels N0 with
          | Some i -> "REJECT " ^ dec_of_n i
          | None -> "ERR accepts/first_reject disagree"))
    | _ -> "ERR args");
  register "saccepts" (function [v; ls] ->
      let rep = (v = "v1") in
      let labels = if ls = "." then [] else List.map slabel_of_string (String.split_on_char ',' ls) in
      (match saccepts_gen rep sinit labels with
       | Some s -> "OK " ^ b2s s.ss_exited ^ " " ^ nlist (List.rev s.ss_finished) ^ " " ^ nlist (slost s)
       | None ->
         (match sfirst_reject rep sinit labels N0 with
          | Some i -> "REJECT " ^ dec_of_n i
          | None -> "ERR saccepts/sfirst_reject disagree"))
    | _ -> "ERR args");
  register "status" (function [w] -> status_name (status_of_wait (n_of_dec w)) | _ -> "ERR args");
  register "launch" (function [c; cl; na; sp; we] ->
      let (spawned, st) = launch_outcome (c = "1") (cl = "1") (na = "1") (if sp = "none" then None else Some (n_of_dec sp)) (we = "1") in
      b2s spawned ^ " " ^ status_name st
    | _ -> "ERR args");
  register "fate" (function [f] ->
      let ft = match String.split_on_char ':' f with
        | ["e"; c] -> Exited (n_of_dec c)
        | ["s"; sg; core] -> Killed (n_of_dec sg, core = "1")
        | _ -> failwith "fate" in
      dec_of_n (raw_of_fate ft) ^ " " ^ status_name (status_of_fate ft)
    | _ -> "ERR args");
  register "env_v0" (function [bid; lid; tid; req; inh; base; cfd] ->
      let e = build_env_v0 (bytes_of_hex bid) (bytes_of_hex lid) (bytes_of_hex tid) (env_of_field req) (inh = "1")
          (list_of_field base) (if cfd = "none" then None else Some (bytes_of_hex cfd)) in
      field_of_list (render e)
    | _ -> "ERR args");
  register "env" (function [bid; lid; tid; req; inh; base; cfd] ->
      let e = build_env (bytes_of_hex bid) (bytes_of_hex lid) (bytes_of_hex tid) (env_of_field req) (inh = "1")
          (list_of_field base) (if cfd = "none" then None else Some (bytes_of_hex cfd)) in
      field_of_list (render e)
    | _ -> "ERR args")
