(* Handlers of the queue area (C16).
   accepts <lanes> <fifo|prio> <labels>      labels: comma separated, "." = none
       a:<job>:<h|n>:<ordhex>:<o|lane>  t:<lane>:<job>  f:<lane>  s:<lane>  c  d  x:<lane>
     -> OK <terminal 0|1> <finished jobs, oldest first, '.' if none>  |  REJECT <index of the first label not enabled>
   saccepts <v1|v0> <labels>                 serial queue (v1 = as repaired by 6dc9f85, v0 = before); same label spelling (lane and priority fields ignored)
     -> OK <exited 0|1> <finished, oldest first> <lost jobs: queued behind the sentinel when the worker left>  |  REJECT <index>
   accepts_iv <lanes> <fifo|prio> <events>   /   saccepts_iv <v1|v0> <events>
       The API of the queue shows WHEN addJob was entered and left and WHEN a job was reported started, not the instant
       inside at which the queue really enqueued / dequeued it.  events (log order, comma separated):
         P:<job>:<h|n>:<ordhex>:<o|lane>  addJob entered        Q:<job>  addJob returned
         B:<lane>:<job>  queueJobStarted (the take of <job> by <lane> happened after that lane's previous f and before this)
         f:<lane>  s:<lane>  c  d  x:<lane>   as above (instants)
       The Add and Take steps are internal: the handler searches for positions inside their intervals such that the
       resulting label sequence is a run of the model (the model's step function is the only judge; takes are placed as
       early as the model allows - a take is never disabled by happening earlier -, adds are searched exhaustively).
     -> OK <terminal|exited> <finished> [<lost>] <linearisation found>   |   REJECT <index of the furthest event reached>
   status <raw wait status>                  -> Succeeded | Failed | Cancelled
   launch <cancelled> <closed> <noargs> <none|raw> <waiterr>   -> <spawned 0|1> <status>
   fate e:<code> | s:<sig>:<core 0|1>        -> <raw> <status the property asks for>
   env <buildid> <laneid> <taskid> <requested k=v;k=v|.> <inherit 0|1> <base list field> <controlfd hex|none>
     -> rendered envp as list field (hex "key=value" entries)      (env_v0: the construction before a51183e) *)
let status_name = function Succeeded -> "Succeeded" | Failed -> "Failed" | Cancelled -> "Cancelled"
let label_of_string s =
  match String.split_on_char ':' s with
  | ["a"; j; p; o; src] ->
    Add (n_of_dec j, (if p = "h" then High else Normal), bytes_of_hex o,
         (if src = "o" then Outside else FromLane (n_of_dec src)))
  | ["t"; l; j] -> Take (n_of_dec l, n_of_dec j)
  | ["f"; l] -> Finish (n_of_dec l)
  | ["s"; l] -> Spawn (n_of_dec l)
  | ["c"] -> Cancel
  | ["d"] -> Shutdown
  | ["x"; l] -> Exit (n_of_dec l)
  | _ -> failwith ("label " ^ s)
let slabel_of_string s =
  match String.split_on_char ':' s with
  | ["a"; j; _; _; src] -> SAdd (n_of_dec j, src <> "o")
  | ["t"; _; j] -> STake (n_of_dec j)
  | ["f"; _] -> SFinish
  | ["s"; _] -> SSpawn
  | ["c"] -> SCancel
  | ["d"] -> SShutdown
  | ["x"; _] -> SExit
  | _ -> failwith ("label " ^ s)
let nlist l = if l = [] then "." else String.concat "," (List.map dec_of_n l)

(* ---- acceptance with internal Add / Take steps (see the header) ---- *)
type iv_item =
  | IvAddBegin of string * string       (* job, label text *)
  | IvAddEnd of string
  | IvStarted of string * string        (* lane, label text of the take *)
  | IvFinish of string * string         (* lane, label text *)
  | IvFixed of string
let iv_parse ev =
  match String.split_on_char ':' ev with
  | ["P"; j; p; o; src] -> IvAddBegin (j, String.concat ":" ["a"; j; p; o; src])
  | ["Q"; j] -> IvAddEnd j
  | ["B"; l; j] -> IvStarted (l, String.concat ":" ["t"; l; j])
  | ["f"; l] -> IvFinish (l, ev)
  | _ -> IvFixed ev
(* apply : 'st -> string -> 'st option.  Returns Ok (state, labels in order) or Error furthest_index *)
let iv_search (apply : 'st -> string -> 'st option) (s0 : 'st) (events : string list) =
  let items = Array.of_list (List.map iv_parse events) in
  let n = Array.length items in
  (* the takes of every lane, in order *)
  let takes : (string, string list) Hashtbl.t = Hashtbl.create 8 in
  Array.iter (function IvStarted (l, lab) ->
      Hashtbl.replace takes l ((try Hashtbl.find takes l with Not_found -> []) @ [lab]) | _ -> ()) items;
  let seen = Hashtbl.create 1024 in
  let furthest = ref 0 in
  let budget = ref 400000 in
  (* avail: (lane, label) takes that may fire now; rest: lane -> takes not yet available *)
  let rec go i s pend avail rest trace =
    (* takes as early as possible *)
    let rec eager s avail acc trace = match avail with
      | [] -> (s, List.rev acc, trace, false)
      | (l, lab) :: tl ->
        (match apply s lab with
         | Some s' -> let (s2, av2, tr2, _) = eager s' (List.rev_append acc tl) [] (lab :: trace) in (s2, av2, tr2, true)
         | None -> eager s tl ((l, lab) :: acc) trace) in
    let (s, avail, trace, _) = eager s avail [] trace in
    if i > !furthest then furthest := i;
    decr budget;
    if !budget < 0 then None else
    let key = (i, Marshal.to_string (s, List.map fst pend) []) in
    if Hashtbl.mem seen key then None else begin
      Hashtbl.add seen key ();
      if i = n then (if pend = [] && avail = [] then Some (s, List.rev trace) else None)
      else
        let advance () =
          match items.(i) with
          | IvAddBegin (j, lab) -> go (i + 1) s (pend @ [(j, lab)]) avail rest trace
          | IvAddEnd j -> if List.mem_assoc j pend then None else go (i + 1) s pend avail rest trace
          | IvStarted (l, _) -> if List.mem_assoc l avail then None else go (i + 1) s pend avail rest trace
          | IvFinish (l, lab) ->
            (match apply s lab with
             | None -> None
             | Some s' ->
               (match (try List.assoc l rest with Not_found -> []) with
                | [] -> go (i + 1) s' pend avail rest (lab :: trace)
                | t :: tl -> go (i + 1) s' pend (avail @ [(l, t)]) ((l, tl) :: List.remove_assoc l rest) (lab :: trace)))
          | IvFixed lab ->
            (match apply s lab with None -> None | Some s' -> go (i + 1) s' pend avail rest (lab :: trace)) in
        match advance () with
        | Some r -> Some r
        | None ->
          (* fire one of the pending adds here *)
          let rec try_adds = function
            | [] -> None
            | (j, lab) :: tl ->
              (match apply s lab with
               | Some s' ->
                 (match go i s' (List.remove_assoc j pend) avail rest (lab :: trace) with
                  | Some r -> Some r
                  | None -> try_adds tl)
               | None -> try_adds tl) in
          try_adds pend
    end in
  let avail0 = Hashtbl.fold (fun l ts acc -> match ts with t :: _ -> (l, t) :: acc | [] -> acc) takes [] in
  let rest0 = Hashtbl.fold (fun l ts acc -> match ts with _ :: tl -> (l, tl) :: acc | [] -> acc) takes [] in
  match go 0 s0 [] (List.sort compare avail0) rest0 [] with
  | Some r -> Ok r
  | None -> Error (!furthest, !budget < 0)
let events_of_field s = if s = "." then [] else String.split_on_char ',' s
let labels_of_field s = if s = "." then [] else List.map label_of_string (String.split_on_char ',' s)
let env_of_field s =
  if s = "." then [] else
    List.map (fun kv -> match String.split_on_char '=' kv with
        | [k; v] -> (bytes_of_hex k, bytes_of_hex v) | _ -> failwith "env") (String.split_on_char ';' s)
let () =
  register "accepts" (function [lanes; alg; ls] ->
      let s0 = init (n_of_dec lanes) (if alg = "fifo" then Fifo else NamePrio) in
      let labels = labels_of_field ls in
      (match accepts s0 labels with
       | Some s ->
         let fin = List.rev_map dec_of_n s.st_finished in
         "OK " ^ b2s (terminal s) ^ " " ^ (if fin = [] then "." else String.concat "," fin)
       | None ->
         (match first_reject s0 labels N0 with
          | Some i -> "REJECT " ^ dec_of_n i
          | None -> "ERR accepts/first_reject disagree"))
    | _ -> "ERR args");
  register "accepts_iv" (function [lanes; alg; evs] ->
      let s0 = init (n_of_dec lanes) (if alg = "fifo" then Fifo else NamePrio) in
      (match iv_search (fun s lab -> step s (label_of_string lab)) s0 (events_of_field evs) with
       | Ok (s, lin) ->
         "OK " ^ b2s (terminal s) ^ " " ^ nlist (List.rev s.st_finished) ^ " " ^ (if lin = [] then "." else String.concat "," lin)
       | Error (i, out_of_budget) -> "REJECT " ^ string_of_int i ^ (if out_of_budget then " search-budget-exhausted" else ""))
    | _ -> "ERR args");
  register "saccepts_iv" (function [v; evs] ->
      let rep = (v = "v1") in
      (match iv_search (fun s lab -> sstep_gen rep s (slabel_of_string lab)) sinit (events_of_field evs) with
       | Ok (s, lin) ->
         "OK " ^ b2s s.ss_exited ^ " " ^ nlist (List.rev s.ss_finished) ^ " " ^ nlist (slost s) ^ " " ^ (if lin = [] then "." else String.concat "," lin)
       | Error (i, out_of_budget) -> "REJECT " ^ string_of_int i ^ (if out_of_budget then " search-budget-exhausted" else ""))
    | _ -> "ERR args");
  register "saccepts" (function [v; ls] ->
      let rep = (v = "v1") in
      let labels = if ls = "." then [] else List.map slabel_of_string (String.split_on_char ',' ls) in
      (match saccepts_gen rep sinit labels with
       | Some s -> "OK " ^ b2s s.ss_exited ^ " " ^ nlist (List.rev s.ss_finished) ^ " " ^ nlist (slost s)
       | None ->
         (match sfirst_reject rep sinit labels N0 with
          | Some i -> "REJECT " ^ dec_of_n i
          | None -> "ERR saccepts/sfirst_reject disagree"))
    | _ -> "ERR args");
  register "status" (function [w] -> status_name (status_of_wait (n_of_dec w)) | _ -> "ERR args");
  register "launch" (function [c; cl; na; sp; we] ->
      let (spawned, st) = launch_outcome (c = "1") (cl = "1") (na = "1") (if sp = "none" then None else Some (n_of_dec sp)) (we = "1") in
      b2s spawned ^ " " ^ status_name st
    | _ -> "ERR args");
  register "fate" (function [f] ->
      let ft = match String.split_on_char ':' f with
        | ["e"; c] -> Exited (n_of_dec c)
        | ["s"; sg; core] -> Killed (n_of_dec sg, core = "1")
        | _ -> failwith "fate" in
      dec_of_n (raw_of_fate ft) ^ " " ^ status_name (status_of_fate ft)
    | _ -> "ERR args");
  register "env_v0" (function [bid; lid; tid; req; inh; base; cfd] ->
      let e = build_env_v0 (bytes_of_hex bid) (bytes_of_hex lid) (bytes_of_hex tid) (env_of_field req) (inh = "1")
          (list_of_field base) (if cfd = "none" then None else Some (bytes_of_hex cfd)) in
      field_of_list (render e)
    | _ -> "ERR args");
  register "env" (function [bid; lid; tid; req; inh; base; cfd] ->
      let e = build_env (bytes_of_hex bid) (bytes_of_hex lid) (bytes_of_hex tid) (env_of_field req) (inh = "1")
          (list_of_field base) (if cfd = "none" then None else Some (bytes_of_hex cfd)) in
      field_of_list (render e)
    | _ -> "ERR args")
