(* Handlers of the ninjaeval area (main part of C17): the Ninja manifest loader model.

   load <file with the AST dump> [fuel]   -> canonical manifest dump on ONE line, records separated by " ; "
   eval <hex text> <name=value,...|.>     -> <hex result> <error codes,...|.>   (evalString against one flat scope)
   norm <hex wd> <hex path>               -> hex of Manifest::normalize_path | NONE
   depth <hex>                            -> decimal depth | NONE

   AST dump (written by harness/cpp/ninja_driver.cpp `ast`), one item per line, byte strings hex ("-" = empty),
   lists comma separated ("." = empty):
     W <wd>            working directory            M <main>   main file name as handed to the loader
     F <abs path>      a file starts (its decls follow)
     B <name> <value>  D <paths>  I <1|0> <path>  E <code>
     U <rule> <outs> <explicit> <implicit> <orderonly>   P <name>   R <name>     block starts; then lines
       b <name> <value> | e <code>     and the line "end"
   Manifest dump records:
     L <0|1> ; V <name> <value> (root bindings, sorted) ; R <name> <k>=<v>,.. (root rules, sorted) ; P <name> <depth>
     (sorted) ; C <rule> <outs> <ex> <im> <oo> <command> <description> <deps> <depfile> <pool|*> <gen> <restat>
     <rspfile> <rspfile_content> (file order; node = canon:screen) ; D <nodes> ; E <code> <arg> (in order) *)
let hexraw l = String.concat "" (List.map (fun b -> Printf.sprintf "%02x" (int_of_n b land 0xff)) l)
let by_key f l = List.sort (fun a b -> compare (hexraw (f a)) (hexraw (f b))) l

let ev_code = function EvDollarAtEnd -> 1 | EvMissingBrace -> 2 | EvBadVarName -> 3 | EvBadEscape -> 4
let show_err = function
  | EEval e -> Printf.sprintf "E %d -" (ev_code e)
  | EEvalDuring (e, v) -> Printf.sprintf "E %d %s" (10 + ev_code e) (hex_of_bytes v)
  | ECycle v -> "E 20 " ^ hex_of_bytes v
  | EUnknownTarget -> "E 21 -" | EUnknownRule -> "E 22 -" | EEmptyOutput -> "E 23 -" | EEmptyInput -> "E 24 -"
  | EBadDeps v -> "E 25 " ^ hex_of_bytes v
  | EDepfileWithStyle -> "E 26 -" | EMissingDepfile -> "E 27 -"
  | EUnknownPool v -> "E 28 " ^ hex_of_bytes v
  | EDuplicatePool -> "E 29 -" | EBadDepth -> "E 30 -" | EUnexpectedVar -> "E 31 -" | EMissingDepth -> "E 32 -"
  | EDuplicateRule -> "E 33 -" | EMissingCommand -> "E 34 -" | EMissingFile -> "E 35 -" | EIncludeTooDeep -> "E 36 -" | ERecursiveInclude -> "E 37 -"
  | EParse c -> Printf.sprintf "E %d -" (50 + int_of_n c)
  | ENullNode -> "E 97 -" | EOutOfFuel -> "E 98 -"
let err_code e = match String.split_on_char ' ' (show_err e) with _ :: c :: _ -> c | _ -> "?"

let show_node n = hex_of_bytes n.n_canon ^ ":" ^ hex_of_bytes n.n_screen
let show_nodes l = if l = [] then "." else String.concat "," (List.map show_node l)
let show_vars vs =
  if vs = [] then "." else String.concat "," (List.map (fun (k, v) -> hex_of_bytes k ^ "=" ^ hex_of_bytes v) (by_key fst vs))
let show_command c =
  String.concat " " [ "C"; hex_of_bytes c.c_rule; show_nodes c.c_outputs; show_nodes c.c_explicit; show_nodes c.c_implicit;
                      show_nodes c.c_orderonly; hex_of_bytes c.c_command; hex_of_bytes c.c_description;
                      (match c.c_deps with DepsNone -> "0" | DepsGCC -> "1" | DepsMSVC -> "2"); hex_of_bytes c.c_depfile;
                      (match c.c_pool with Some p -> hex_of_bytes p | None -> "*"); b2s c.c_generator; b2s c.c_restat;
                      hex_of_bytes c.c_rspfile; hex_of_bytes c.c_rspfile_content ]
let show_manifest m =
  String.concat " ; "
    ([ "L " ^ b2s m.mf_loaded ]
     @ List.map (fun (k, v) -> "V " ^ hex_of_bytes k ^ " " ^ hex_of_bytes v) (by_key fst m.mf_root.f_vars)
     @ List.map (fun (k, r) -> "R " ^ hex_of_bytes k ^ " " ^ show_vars r) (by_key fst m.mf_root.f_rules)
     @ List.map (fun (k, d) -> "P " ^ hex_of_bytes k ^ " " ^ dec_of_n d) (by_key fst m.mf_pools)
     @ List.map show_command m.mf_commands
     @ [ "D " ^ show_nodes m.mf_defaults ]
     @ List.map show_err m.mf_errors)

(* ---- reading the AST dump ---- *)
let read_lines path =
  let ic = open_in path in
  let rec go acc = match input_line ic with l -> go (l :: acc) | exception End_of_file -> close_in ic; List.rev acc in
  go []

let parse_ast lines =
  let wd = ref [] and main = ref [] in
  let files = ref [] in                       (* reversed list of (path, reversed decls) *)
  let push d = match !files with (p, ds) :: r -> files := (p, d :: ds) :: r | [] -> failwith "decl before F" in
  let rec items acc = function
    | "end" :: rest -> (List.rev acc, rest)
    | l :: rest ->
      (match String.split_on_char ' ' l with
       | [ "b"; n; v ] -> items (BBind (bytes_of_hex n, bytes_of_hex v) :: acc) rest
       | [ "e"; c ] -> items (BPErr (n_of_int (int_of_string c)) :: acc) rest
       | _ -> failwith ("bad block line: " ^ l))
    | [] -> failwith "unterminated block" in
  let rec go = function
    | [] -> ()
    | l :: rest ->
      (match String.split_on_char ' ' l with
       | [ "W"; w ] -> wd := bytes_of_hex w; go rest
       | [ "M"; m ] -> main := bytes_of_hex m; go rest
       | [ "F"; p ] -> files := (bytes_of_hex p, []) :: !files; go rest
       | [ "B"; n; v ] -> push (DBinding (bytes_of_hex n, bytes_of_hex v)); go rest
       | [ "D"; ps ] -> push (DDefault (list_of_field ps)); go rest
       | [ "I"; k; p ] -> push (DInclude (k = "1", bytes_of_hex p)); go rest
       | [ "E"; c ] -> push (DPErr (n_of_int (int_of_string c))); go rest
       | [ "U"; r; o; ex; im; oo ] ->
         let (bs, rest') = items [] rest in
         push (DBuild (list_of_field o, bytes_of_hex r, list_of_field ex, list_of_field im, list_of_field oo, bs)); go rest'
       | [ "P"; n ] -> let (bs, rest') = items [] rest in push (DPool (bytes_of_hex n, bs)); go rest'
       | [ "R"; n ] -> let (bs, rest') = items [] rest in push (DRule (bytes_of_hex n, bs)); go rest'
       | [ "" ] | [] -> go rest
       | _ -> failwith ("bad AST line: " ^ l)) in
  go lines;
  (!wd, !main, List.rev_map (fun (p, ds) -> (p, List.rev ds)) !files)

let () =
  register "load" (fun args ->
      let (path, fuel) = match args with [ p ] -> (p, 64) | [ p; f ] -> (p, int_of_string f) | _ -> failwith "args" in
      let (wd, main, files) = parse_ast (read_lines path) in
      show_manifest (load (nat_of_int fuel) wd files main));
  register "eval" (function
      | [ text; binds ] ->
        let vs = if binds = "." then [] else
            List.map (fun kv -> match String.split_on_char '=' kv with
                | [ k; v ] -> (bytes_of_hex k, bytes_of_hex v) | _ -> failwith "binding") (String.split_on_char ',' binds) in
        let sc = [ { f_vars = vs; f_rules = [] } ] in
        let (out, es) = eval_in_scope sc (bytes_of_hex text) in
        hex_of_bytes out ^ " " ^ (if es = [] then "." else String.concat "," (List.map err_code es))
      | _ -> "ERR args");
  register "norm" (function [ wd; p ] -> (match normalize_path (bytes_of_hex wd) (bytes_of_hex p) with
      | Some r -> hex_of_bytes r | None -> "NONE") | _ -> "ERR args");
  register "depth" (function [ s ] -> (match parse_depth (bytes_of_hex s) with Some d -> dec_of_n d | None -> "NONE")
                           | _ -> "ERR args")
