(* Handlers of the fsrm area (C14, file-system side).
   A tree travels as pre-order lines joined by ',' (siblings sorted by name, "." = empty tree):
   d:<hexpath> | f:<hexpath>:<decimal content> | l:<hexpath>:<hextarget>; the path is the names joined by '/'. *)
let str_of_bytes (l : n list) : string = String.concat "" (List.map (fun b -> String.make 1 (Char.chr (int_of_n b land 255))) l)
let split_comps (raw : n list) : n list list =
  let rec go cur acc = function
    | [] -> List.rev (List.rev cur :: acc)
    | b :: tl -> if int_of_n b = 47 then go [] (List.rev cur :: acc) tl else go (b :: cur) acc tl in
  go [] [] raw
let rec insert (t : node) (p : n list list) (x : node) : node =
  match p, t with
  | [c], Dir es -> Dir (es @ [(c, x)])
  | c :: p', Dir es -> Dir (List.map (fun (k, v) -> if k = c then (k, insert v p' x) else (k, v)) es)
  | _ -> t
let tree_of_string (s : string) : node =
  if s = "." then Dir [] else
    List.fold_left (fun t line ->
        match String.split_on_char ':' line with
        | ["d"; p] -> insert t (split_comps (bytes_of_hex p)) (Dir [])
        | ["f"; p; c] -> insert t (split_comps (bytes_of_hex p)) (File (n_of_dec c))
        | ["l"; p; tg] -> insert t (split_comps (bytes_of_hex p)) (Link (bytes_of_hex tg))
        | _ -> failwith "tree line") (Dir []) (String.split_on_char ',' s)
let string_of_tree (t : node) : string =
  let rec go pre t acc =
    match t with
    | Dir es ->
      let es = List.sort (fun (a, _) (b, _) -> compare (str_of_bytes a) (str_of_bytes b)) es in
      List.fold_left (fun acc (k, v) ->
          let p = if pre = [] then k else pre @ [n_of_int 47] @ k in
          let line = match v with
            | Dir _ -> "d:" ^ hex_of_bytes p
            | File c -> "f:" ^ hex_of_bytes p ^ ":" ^ dec_of_n c
            | Link tg -> "l:" ^ hex_of_bytes p ^ ":" ^ hex_of_bytes tg in
          go p v (line :: acc)) acc es
    | _ -> acc in
  match List.rev (go [] t []) with [] -> "." | l -> String.concat "," l
let errno_name = function
  | ENOENT -> "ENOENT" | ENOTDIR -> "ENOTDIR" | EISDIR -> "EISDIR" | ELOOP -> "ELOOP" | ENOTEMPTY -> "ENOTEMPTY"
  | EINVAL -> "EINVAL" | EBUSY -> "EBUSY" | EPERM -> "EPERM" | EFUEL -> "EFUEL"
let show_result = function None -> "ok" | Some e -> "err:" ^ errno_name e
let sort_paths (l : n list list) = List.sort (fun a b -> compare (str_of_bytes a) (str_of_bytes b)) l
let () =
  register "fsrm" (function [t; p] ->
      let (t', r) = remove_path (tree_of_string t) (bytes_of_hex p) in
      string_of_tree t' ^ " " ^ show_result r | _ -> "ERR args");
  (* the deletion list in the order of the code (std::set<std::string>: bytewise sorted) *)
  register "stale_fs" (function [t; pr; ex; ro] ->
      let ds = sort_paths (to_delete (list_of_field pr) (list_of_field ex) (list_of_field ro)) in
      string_of_tree (stale_apply (tree_of_string t) ds) ^ " " ^ field_of_list ds | _ -> "ERR args");
  register "wf" (function [t] -> b2s (wf (tree_of_string t)) | _ -> "ERR args");
  register "roundtrip" (function [t] -> string_of_tree (tree_of_string t) | _ -> "ERR args");
  (* is the path inside the scope of the lexical theorems? *)
  register "plain" (function [t; p] ->
      let cs = comps (bytes_of_hex p) in
      b2s (plain_comps cs && no_link_on_the_way (tree_of_string t) cs && cs <> []) | _ -> "ERR args")
