(* Handlers of the sig area (C09): token sequences fed to the signature hash chain.
   A definition travels as 11 fields:
     name inputs outputs flags3 sigdata args envkeys envvalues deps depsstyle flags2
   byte strings are hex ("-" empty), lists comma separated ("." empty), flags3 = three chars 0/1
   (allow-missing-inputs, allow-modified-outputs, always-out-of-date), flags2 = inherit-env, can-safely-interrupt. *)
let show_token = function
  | TStr s -> "S:" ^ hex_of_bytes s
  | TBool b -> "B:" ^ b2s b
  | TU64 n -> "U:" ^ dec_of_n n
let show_tokens l = String.concat " " (List.map show_token l)
let show_named (name, l) = String.concat " " (hex_of_bytes name :: List.map show_token l)
let flag s i = s.[i] = '1'
let def_of = function
  | [name; ins; outs; f3; sd; args; ek; ev; deps; ds; f2] ->
    { c_name = bytes_of_hex name; c_inputs = list_of_field ins; c_outputs = list_of_field outs;
      c_allow_missing_inputs = flag f3 0; c_allow_modified_outputs = flag f3 1; c_always_out_of_date = flag f3 2;
      c_sigdata = bytes_of_hex sd; c_args = list_of_field args;
      c_env = List.combine (list_of_field ek) (list_of_field ev);
      c_deps_paths = list_of_field deps; c_deps_style = n_of_dec ds;
      c_inherit_env = flag f2 0; c_can_safely_interrupt = flag f2 1 }
  | _ -> failwith "definition: 11 fields expected"
let rec split_at n l = if n = 0 then ([], l) else match l with x :: t -> let (a, b) = split_at (n - 1) t in (x :: a, b) | [] -> failwith "fields"
let () =
  register "tokens" (fun a -> show_named (sig_tokens (def_of a)));
  register "ext_tokens" (fun a -> show_named (ext_sig_tokens (def_of a)));
  register "tokens_v0" (fun a -> show_named (sig_tokens_v0 (def_of a)));
  register "node_tokens" (function [t; prods] -> show_tokens (node_sig_tokens { n_type = n_of_dec t; n_producers = list_of_field prods }) | _ -> "ERR args");
  register "node_tokens_v0" (function [t; prods] -> show_tokens (node_sig_tokens_v0 { n_type = n_of_dec t; n_producers = list_of_field prods }) | _ -> "ERR args");
  register "symlink_tokens" (function [o; c; ins] -> show_named (symlink_sig_tokens (bytes_of_hex o) (bytes_of_hex c) (list_of_field ins)) | _ -> "ERR args");
  (* sdef_tokens name inputs outputs contents link-output-path repair(0/1) *)
  register "sdef_tokens" (function [n; ins; outs; c; l; r] ->
      (match sdef_sig_tokens { s_name = bytes_of_hex n; s_inputs = list_of_field ins; s_outputs = list_of_field outs; s_contents = bytes_of_hex c;
                               s_link_output_path = bytes_of_hex l; s_repair_via_ownership = (r = "1") } with
       | Some p -> show_named p | None -> "OVERREAD") | _ -> "ERR args");
  register "plain_tokens" (function [n] -> show_tokens (plain_sig_tokens (bytes_of_hex n)) | _ -> "ERR args");
  (* rel_eq <11 fields> <11 fields>: do the two definitions have the same signature-relevant part? *)
  register "rel_eq" (fun a -> let (x, y) = split_at 11 a in b2s (relevant (def_of x) = relevant (def_of y)))
