(* Handlers of the failure area (C10).  Small enums travel as integers:
   value kinds 0..17 = BuildValue::Kind; tools 0 external(shell) 1 phony 2 mkdir 3 symlink 4 stale-file-removal;
   node kinds 0 plain 1 virtual 2 command-timestamp 3 directory 4 directory-structure;
   exec results 0 ok 1 failed 2 cancelled; booleans 0/1; lists of value kinds "10.9.3" ("-" = empty). *)
let vkinds = [| VInvalid; VVirtualInput; VExistingInput; VMissingInput; VDirectoryContents; VDirectoryTreeSignature;
   VDirectoryTreeStructureSignature; VStaleFileRemoval; VMissingOutput; VFailedInput; VSuccessfulCommand;
   VFailedCommand; VPropagatedFailureCommand; VCancelledCommand; VSkippedCommand; VTarget;
   VFilteredDirectoryContents; VSuccessfulCommandWithOutputSignature |]
let vk s = vkinds.(int_of_string s)
let vki k = let r = ref (-1) in Array.iteri (fun i x -> if x = k then r := i) vkinds; !r
let tools = [| TExternal; TPhony; TMkdir; TSymlink; TStaleRemoval |]
let tool_of s = tools.(int_of_string s)
let nkinds = [| NPlain; NVirtual; NCommandTimestamp; NDirectory; NDirectoryStructure |]
let nk s = nkinds.(int_of_string s)
let execs = [| XOk; XFailed; XCancelled |]
let ex s = execs.(int_of_string s)
let rules = [| RProduced; RProducedDirectory; RVirtualInput; RFileInput; RDirectoryInput; RDirectoryStructureInput; RTarget |]
let bo s = (s = "1")
let vlist s = if s = "-" then [] else List.map vk (String.split_on_char '.' s)
let effect_index = function EIgnored -> 0 | EProceed -> 1 | EProceedMustRun -> 2 | ESkip -> 3 | ESkipMissing -> 4 | EUnexpected -> 5
let show_outcome o = Printf.sprintf "%d %s %d" (vki o.o_value) (b2s o.o_executes) (int_of_nat o.o_failures)

let () =
  register "rfo" (function [t; n; v; m] -> string_of_int (vki (result_for_output (tool_of t) (nk n) (vk v) (bo m))) | _ -> "ERR args");
  register "pnv" (function [r; t; n; v; m] -> string_of_int (vki (produced_node_value (bo r) (tool_of t) (nk n) (vk v) (bo m))) | _ -> "ERR args");
  register "effect" (function [a; v] -> string_of_int (effect_index (input_effect (bo a) (vk v))) | _ -> "ERR args");
  (* run <tool> <allow_missing> <cancelled> <should_start> <upd> <inputs> <exec> -> "<value kind> <executes> <failures>" *)
  register "run" (function [t; a; c; s; u; ins; x] ->
      show_outcome (run_command (tool_of t) (bo a) (bo c) (bo s) (bo u) (vlist ins) (ex x)) | _ -> "ERR args");
  (* state <allow_missing> <inputs> -> "<skip> <missing count>" *)
  register "state" (function [a; ins] -> let st = provide_all (bo a) (vlist ins) in
                     Printf.sprintf "%s %d" (b2s st.cs_skip) (int_of_nat st.cs_missing) | _ -> "ERR args");
  register "valid" (function [t; a; v; f] -> b2s (cmd_valid (tool_of t) (bo a) (vk v) (bo f)) | _ -> "ERR args");
  register "nvalid" (function [r; v; m; s] -> b2s (node_valid rules.(int_of_string r) (vk v) (bo m) (bo s)) | _ -> "ERR args");
  register "target" (function [ins] -> b2s (target_reports (vlist ins)) | _ -> "ERR args");
  register "build_ok" (function [c; f; e] -> b2s (build_ok (bo c) (nat_of_int (int_of_string f)) (nat_of_int (int_of_string e))) | _ -> "ERR args");
  (* shortcut <can_update0> <allow_modified> <outputs_exist> <prior kind | none> <inputs> *)
  register "shortcut" (function [cu; am; oe; pr; ins] ->
      b2s (update_shortcut (bo cu) (bo am) (bo oe) (if pr = "none" then None else Some (vk pr)) (vlist ins)) | _ -> "ERR args");
  (* runp <tool> <allow_missing> <can_update0> <allow_modified> <outputs_exist> <prior> <inputs> <exec> *)
  register "runp" (function [t; a; cu; am; oe; pr; ins; x] ->
      show_outcome (run_command_prior (tool_of t) (bo a) false true (bo cu) (bo am) (bo oe)
                      (if pr = "none" then None else Some (vk pr)) (vlist ins) (ex x)) | _ -> "ERR args");
  register "launders" (function [t; n] -> b2s (launders (tool_of t) (nk n)) | _ -> "ERR args");
  register "uses_inputs" (function [t] -> b2s (uses_inputs (tool_of t)) | _ -> "ERR args")
