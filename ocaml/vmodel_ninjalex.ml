(* Handlers of the ninjalex area (parts of C17 and C19): the Ninja lexer model and shell quoting. *)
let kind_name = function
  | TkColon -> "Colon" | TkComment -> "Comment" | TkEndOfFile -> "EndOfFile" | TkEquals -> "Equals"
  | TkIndentation -> "Indentation" | TkIdentifier -> "Identifier" | TkKWBuild -> "KWBuild" | TkKWDefault -> "KWDefault"
  | TkKWInclude -> "KWInclude" | TkKWPool -> "KWPool" | TkKWRule -> "KWRule" | TkKWSubninja -> "KWSubninja"
  | TkNewline -> "Newline" | TkPipe -> "Pipe" | TkPipePipe -> "PipePipe" | TkString -> "String" | TkUnknown -> "Unknown"
(* line protocol: 0 = None, 1 = PathString, 2 = VariableString, 3 = IdentifierSpecific *)
let mode_of_char = function
  | '0' -> MNone | '1' -> MPathString | '2' -> MVariableString | '3' -> MIdentifierSpecific
  | _ -> failwith "mode"
let show_token t =
  Printf.sprintf "%s %d %d %d %d" (kind_name t.tk_kind) (int_of_nat t.tk_start) (int_of_nat t.tk_len)
    (int_of_n t.tk_line) (int_of_n t.tk_col)
let show_tokens = function
  | Ok l -> if l = [] then "." else String.concat "|" (List.map show_token l)
  | OutOfFuel -> "OUTOFFUEL"
let () =
  register "lex_all" (function [m; d] when String.length m = 1 -> show_tokens (lex_all (mode_of_char m.[0]) (bytes_of_hex d))
                             | _ -> "ERR args");
  (* lex_stream <modes as digits, "." = none> <hexdata> *)
  register "lex_stream" (function [ms; d] ->
      let modes = if ms = "." then [] else List.init (String.length ms) (fun i -> mode_of_char ms.[i]) in
      show_tokens (lex_stream modes (bytes_of_hex d)) | _ -> "ERR args");
  register "shell_escaped" (function [p] -> hex_of_bytes (shell_escaped (bytes_of_hex p)) | _ -> "ERR args");
  register "sh_words" (function [p] -> (match sh_words (bytes_of_hex p) with Some l -> field_of_list l | None -> "NONE") | _ -> "ERR args")
