(* Handlers of the ninjaparse area: the Ninja PARSER model (coq/Parse/NinjaParse.v) driving the lexer model, and its
   composition with the loader model.

   parse <hex bytes>            -> the parse actions of that buffer in the format of `ninja_driver ast` (the lines
                                   that follow the "F <path>" line of one file), joined by " ; " ("." = no action);
                                   OUTOFFUEL if the model ran out of fuel
   parsefile <path>             -> the same for the contents of a file on disk
   loadbytes <dir> [main]       -> every regular file below <dir> (relative name n, key make_absolute(dir, n)) is a
                                   file of the map, working directory <dir>, main file build.ninja unless given:
                                   parse every file with the model, load with the model; the canonical manifest dump
                                   in the format of `ninja_driver load` (see ocaml/vmodel_ninjaeval.ml)
   AST lines: B <name> <value> | D <paths> | I <1|0> <path> | E <code> |
              U <rule> <outs> <explicit> <implicit> <orderonly> | P <name> | R <name>, then b <name> <value> | e <code>
              lines and "end". *)
let hexraw l = String.concat "" (List.map (fun b -> Printf.sprintf "%02x" (int_of_n b land 0xff)) l)
let by_key f l = List.sort (fun a b -> compare (hexraw (f a)) (hexraw (f b))) l

let show_items bs =
  List.map (function
      | BBind (n, v) -> "b " ^ hex_of_bytes n ^ " " ^ hex_of_bytes v
      | BPErr c -> "e " ^ string_of_int (int_of_n c)) bs @ [ "end" ]
let show_decl = function
  | DBinding (n, v) -> [ "B " ^ hex_of_bytes n ^ " " ^ hex_of_bytes v ]
  | DDefault ps -> [ "D " ^ field_of_list ps ]
  | DInclude (i, p) -> [ "I " ^ b2s i ^ " " ^ hex_of_bytes p ]
  | DBuild (outs, r, ex, im, oo, bs) ->
    ("U " ^ hex_of_bytes r ^ " " ^ field_of_list outs ^ " " ^ field_of_list ex ^ " " ^ field_of_list im ^ " " ^ field_of_list oo)
    :: show_items bs
  | DPool (n, bs) -> ("P " ^ hex_of_bytes n) :: show_items bs
  | DRule (n, bs) -> ("R " ^ hex_of_bytes n) :: show_items bs
  | DPErr c -> [ "E " ^ string_of_int (int_of_n c) ]
let show_parse data =
  match parse data with
  | OutOfFuel -> "OUTOFFUEL"
  | Ok ds -> (match List.concat_map show_decl ds with [] -> "." | ls -> String.concat " ; " ls)

(* ---- the manifest dump (same format as ocaml/vmodel_ninjaeval.ml / `ninja_driver load`) ---- *)
let ev_code = function EvDollarAtEnd -> 1 | EvMissingBrace -> 2 | EvBadVarName -> 3 | EvBadEscape -> 4
let show_err = function
  | EEval e -> Printf.sprintf "E %d -" (ev_code e)
  | EEvalDuring (e, v) -> Printf.sprintf "E %d %s" (10 + ev_code e) (hex_of_bytes v)
  | ECycle v -> "E 20 " ^ hex_of_bytes v
  | EUnknownTarget -> "E 21 -" | EUnknownRule -> "E 22 -" | EEmptyOutput -> "E 23 -" | EEmptyInput -> "E 24 -"
  | EBadDeps v -> "E 25 " ^ hex_of_bytes v
  | EDepfileWithStyle -> "E 26 -" | EMissingDepfile -> "E 27 -"
  | EUnknownPool v -> "E 28 " ^ hex_of_bytes v
  | EDuplicatePool -> "E 29 -" | EBadDepth -> "E 30 -" | EUnexpectedVar -> "E 31 -" | EMissingDepth -> "E 32 -"
  | EDuplicateRule -> "E 33 -" | EMissingCommand -> "E 34 -" | EMissingFile -> "E 35 -" | EIncludeTooDeep -> "E 36 -" | ERecursiveInclude -> "E 37 -"
  | EParse c -> Printf.sprintf "E %d -" (50 + int_of_n c)
  | ENullNode -> "E 97 -" | EOutOfFuel -> "E 98 -"
let show_node n = hex_of_bytes n.n_canon ^ ":" ^ hex_of_bytes n.n_screen
let show_nodes l = if l = [] then "." else String.concat "," (List.map show_node l)
let show_vars vs =
  if vs = [] then "." else String.concat "," (List.map (fun (k, v) -> hex_of_bytes k ^ "=" ^ hex_of_bytes v) (by_key fst vs))
let show_command c =
  String.concat " " [ "C"; hex_of_bytes c.c_rule; show_nodes c.c_outputs; show_nodes c.c_explicit; show_nodes c.c_implicit;
                      show_nodes c.c_orderonly; hex_of_bytes c.c_command; hex_of_bytes c.c_description;
                      (match c.c_deps with DepsNone -> "0" | DepsGCC -> "1" | DepsMSVC -> "2"); hex_of_bytes c.c_depfile;
                      (match c.c_pool with Some p -> hex_of_bytes p | None -> "*"); b2s c.c_generator; b2s c.c_restat;
                      hex_of_bytes c.c_rspfile; hex_of_bytes c.c_rspfile_content ]
let show_manifest m =
  String.concat " ; "
    ([ "L " ^ b2s m.mf_loaded ]
     @ List.map (fun (k, v) -> "V " ^ hex_of_bytes k ^ " " ^ hex_of_bytes v) (by_key fst m.mf_root.f_vars)
     @ List.map (fun (k, r) -> "R " ^ hex_of_bytes k ^ " " ^ show_vars r) (by_key fst m.mf_root.f_rules)
     @ List.map (fun (k, d) -> "P " ^ hex_of_bytes k ^ " " ^ dec_of_n d) (by_key fst m.mf_pools)
     @ List.map show_command m.mf_commands
     @ [ "D " ^ show_nodes m.mf_defaults ]
     @ List.map show_err m.mf_errors)

(* ---- files ---- *)
let bytes_of_string (s : string) : n list = List.init (String.length s) (fun i -> n_of_int (Char.code s.[i]))
let read_file path =
  let ic = open_in_bin path in
  let n = in_channel_length ic in
  let s = really_input_string ic n in
  close_in ic; s
(* relative names of the regular files below dir, sorted *)
let rec walk dir rel =
  let full = if rel = "" then dir else Filename.concat dir rel in
  List.concat_map (fun e ->
      let r = if rel = "" then e else rel ^ "/" ^ e in
      let p = Filename.concat dir r in
      if Sys.is_directory p then walk dir r else [ r ])
    (List.sort compare (Array.to_list (Sys.readdir full)))

let () =
  register "parse" (function [ h ] -> show_parse (bytes_of_hex h) | _ -> "ERR args");
  register "parsefile" (function [ p ] -> show_parse (bytes_of_string (read_file p)) | _ -> "ERR args");
  register "loadbytes" (fun args ->
      let (dir, main) = match args with [ d ] -> (d, "build.ninja") | [ d; m ] -> (d, m) | _ -> failwith "args" in
      let wd = bytes_of_string dir in
      let raw = List.map (fun r -> (make_absolute wd (bytes_of_string r), bytes_of_string (read_file (Filename.concat dir r)))) (walk dir "") in
      match parse_load (nat_of_int 64) wd raw (bytes_of_string main) with
      | OutOfFuel -> "OUTOFFUEL"
      | Ok m -> show_manifest m)

(* ---- which errors belong to the same declaration ----
   loadgroups <dir> [main] -> the numbers of errors the loader model reports per declaration, in program order (zeros
   dropped), comma separated ("." = none), or NONE.  Used by the checks to compare the error lists of model and
   implementation as multisets PER DECLARATION (the order in which one statement reports its independent errors is not
   part of the property); errors of different declarations keep their order.
   The sizes come from an OCaml mirror of NinjaEval.run_decls built from the extracted run_simple / eval_in_scope /
   make_absolute / find_file; it is trusted only when its error list equals the one of the extracted [parse_load]
   (otherwise NONE, and the caller compares strictly). *)
let rec run_decls_g fuel stack wd fs ds acc =
  List.fold_left (fun ((sc, st), gs) d ->
      match d with
      | DInclude (is_inc, ptext) ->
        let (path, es) = eval_in_scope sc ptext in
        let st1 = add_errors st es in
        let apath = make_absolute wd path in
        let n = List.length es in
        if List.length stack >= 64 then ((sc, add_errors st1 [ EIncludeTooDeep ]), (n + 1) :: gs)
        else if mem_bytes apath stack then ((sc, add_errors st1 [ ERecursiveInclude ]), (n + 1) :: gs)
        else if fuel = 0 then ((sc, add_errors st1 [ EOutOfFuel ]), (n + 1) :: gs)
        else (match find_file fs apath with
            | None -> ((sc, add_errors st1 [ EMissingFile ]), (n + 1) :: gs)
            | Some ds' ->
              if is_inc then run_decls_g (fuel - 1) (apath :: stack) wd fs ds' ((sc, st1), n :: gs)
              else
                let ((_, st2), gs2) = run_decls_g (fuel - 1) (apath :: stack) wd fs ds' ((empty_frame :: sc, st1), n :: gs) in
                ((sc, st2), gs2))
      | _ ->
        let (sc2, st2) = run_simple wd d sc st in
        ((sc2, st2), (List.length st2.m_errors - List.length st.m_errors) :: gs))
    acc ds

let read_tree dir =
  let wd = bytes_of_string dir in
  (wd, List.map (fun r -> (make_absolute wd (bytes_of_string r), bytes_of_string (read_file (Filename.concat dir r)))) (walk dir ""))

let () =
  register "loadgroups" (fun args ->
      let (dir, main) = match args with [ d ] -> (d, "build.ninja") | [ d; m ] -> (d, m) | _ -> failwith "args" in
      let (wd, raw) = read_tree dir in
      let mainb = bytes_of_string main in
      match parse_files raw, parse_load (nat_of_int 64) wd raw mainb with
      | Ok fs, Ok m ->
        let amain = make_absolute wd mainb in
        let (errs, gs) =
          match find_file fs amain with
          | None -> ([ EMissingFile ], [ 1 ])
          | Some ds ->
            let ((_, st), gs) = run_decls_g 64 [ amain ] wd fs ds ((init_scopes, init_state), []) in
            (st.m_errors, List.rev gs) in
        if List.map show_err errs <> List.map show_err m.mf_errors then "NONE"
        else (match List.filter (fun g -> g > 0) gs with [] -> "." | l -> String.concat "," (List.map string_of_int l))
      | _ -> "NONE")
