(* Handlers of the ninjabuild area (C18): the decision function of the Ninja command rule.
   Encodings (no spaces inside a field):
     fileinfo  dev:ino:mode:size:sec:nsec | M (the missing record)
     value     E=<fileinfo> | M | S=<hash>=<fileinfo>;<fileinfo>... | F | K (skipped) ; prior value also N (none)
     inputs    comma separated <class e|i|o><changed 0|1>=<value> ; "." = none
     outputs   ';' separated fileinfos ; "." = none
     ctx       three digits strict,simulate,cancelled ;  cmd  <hash>:<generator><phony><hasdeps><restat> *)
let fi_of s =
  if s = "M" then missing_info else
  match String.split_on_char ':' s with
  | [a;b;c;d;e;f] -> { fi_device = n_of_dec a; fi_inode = n_of_dec b; fi_mode = n_of_dec c; fi_size = n_of_dec d;
                       fi_sec = n_of_dec e; fi_nsec = n_of_dec f; fi_checksum = zeros32 }
  | _ -> failwith ("fileinfo " ^ s)
let fis_of s = if s = "." then [] else List.map fi_of (String.split_on_char ';' s)
let show_fi f = if is_missing f then "M" else
    String.concat ":" [dec_of_n f.fi_device; dec_of_n f.fi_inode; dec_of_n f.fi_mode; dec_of_n f.fi_size; dec_of_n f.fi_sec; dec_of_n f.fi_nsec]
let value_of s =
  match String.split_on_char '=' s with
  | ["E"; f] -> NExistingInput (fi_of f)
  | ["M"] -> NMissingInput
  | ["S"; h; fs] -> NSuccessfulCommand (n_of_dec h, fis_of fs)
  | ["F"] -> NFailedCommand
  | ["K"] -> NSkippedCommand
  | _ -> failwith ("value " ^ s)
let show_value = function
  | NExistingInput f -> "E=" ^ show_fi f
  | NMissingInput -> "M"
  | NSuccessfulCommand (h, fs) -> "S=" ^ dec_of_n h ^ "=" ^ (if fs = [] then "." else String.concat ";" (List.map show_fi fs))
  | NFailedCommand -> "F"
  | NSkippedCommand -> "K"
let prior_of s = if s = "N" then None else Some (value_of s)
let bit s i = s.[i] = '1'
let ctx_of s = { x_strict = bit s 0; x_simulate = bit s 1; x_cancelled = bit s 2 }
let cmd_of s = match String.split_on_char ':' s with
  | [h; fl] -> { c_hash = n_of_dec h; c_generator = bit fl 0; c_phony = bit fl 1; c_has_deps = bit fl 2; c_restat = bit fl 3 }
  | _ -> failwith ("cmd " ^ s)
let class_of = function 'e' -> CExplicit | 'i' -> CImplicit | 'o' -> COrderOnly | _ -> failwith "class"
let ins_of s =
  if s = "." then ([], []) else
    let items = String.split_on_char ',' s in
    let one it = ((class_of it.[0], value_of (String.sub it 3 (String.length it - 3))), it.[1] = '1') in
    List.split (List.map one items)
let show_decision = function
  | DCancelled -> "Cancelled" | DPhony f -> "Phony" ^ b2s f | DUpdateOnly -> "UpdateOnly" | DSimulate -> "Simulate"
  | DSkip m -> "Skip" ^ b2s m | DRun -> "Run"
let () =
  register "decide" (function [x; c; p; i; o] ->
      let cmd = cmd_of c and outs = fis_of o in
      let d = decide (ctx_of x) cmd (prior_of p) (fst (ins_of i)) outs in
      show_decision d ^ " " ^ (match produced cmd outs d with None -> "-" | Some v -> show_value v)
    | _ -> "ERR args");
  (* the decision of the code before repair a03bdd8 (kept for the corpus witness) *)
  register "decide_unrepaired" (function [x; c; p; i; o] ->
      show_decision (decide_unrepaired (ctx_of x) (cmd_of c) (prior_of p) (fst (ins_of i)) (fis_of o))
    | _ -> "ERR args");
  register "step" (function [x; c; p; i; o] ->
      let (ins, chg) = ins_of i in
      (match rule_step (ctx_of x) (cmd_of c) (prior_of p) ins chg (fis_of o) with
       | SUpToDate -> "UpToDate" | STask d -> "Task " ^ show_decision d | SOverRead -> "OverRead")
    | _ -> "ERR args");
  register "command_valid" (function [c; v; o] ->
      (match command_valid (cmd_of c) (value_of v) (fis_of o) with None -> "OverRead" | Some b -> b2s b) | _ -> "ERR args");
  register "input_valid" (function [v; f] -> b2s (input_valid (value_of v) (fi_of f)) | _ -> "ERR args");
  register "input_value" (function [f] -> show_value (input_value (fi_of f)) | _ -> "ERR args");
  register "newest" (function [i] -> let (s, n) = newest_mod_time (fst (ins_of i)) in dec_of_n s ^ ":" ^ dec_of_n n | _ -> "ERR args");
  register "run_complete" (function [c; fl; o] ->
      let (v, force) = run_complete (cmd_of c) (bit fl 0) (bit fl 1) (bit fl 2) (fis_of o) in
      show_value v ^ " " ^ b2s force | _ -> "ERR args");
  register "select" (function [v; i] ->
      (match select_result (value_of v) (nat_of_int (int_of_string i)) with
       | None -> "NONE" | Some (r, force) -> show_value r ^ " " ^ b2s force) | _ -> "ERR args")
