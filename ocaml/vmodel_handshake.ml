(* Handlers of the handshake area (C06): the task-protocol automaton and the wait/notify handshake transition system.
     proto <slots> <events>      slots: comma separated input ids ("." = none);
                                 events: comma separated  s (start) p (prior) v<slot> (provideValue) a (inputsAvailable) c (complete)
                                 -> OK (a complete accepted life) | OK-PREFIX <state> (accepted so far) | REJECT <index of the first rejected event>
     hs_accepts <labels>         labels: spawn polllock poll continue exit cyclecontinue waitlock peek check reacquire waitunlock cancel
                                 spurious tl<i> tp<i> tu<i> tn<i> (completer i: lock push unlock notify), comma separated
                                 -> OK <final state> | REJECT <index of the first label that is not enabled>
     hs_broken <labels>          the same on the variant that checks emptiness before taking the mutex *)
let csv s = if s = "." || s = "" then [] else String.split_on_char ',' s
let nat_of_string s = nat_of_int (int_of_string s)
let tail s = String.sub s 1 (String.length s - 1)
let event_of_string s =
  match s with
  | "s" -> PStart | "p" -> PPrior | "a" -> PAvail | "c" -> PComplete
  | _ when String.length s > 1 && s.[0] = 'v' -> PProvide (nat_of_string (tail s))
  | _ -> failwith ("event " ^ s)
let pstate_str = function
  | PSInit -> "init"
  | PSStarted (b, p) -> Printf.sprintf "started prior_ok=%s pending=%s" (b2s b) (if p = [] then "." else String.concat "," (List.map (fun x -> string_of_int (int_of_nat x)) p))
  | PSComputing -> "computing"
  | PSFinished -> "finished"
let label_of_string s =
  match s with
  | "spawn" -> LSpawn | "polllock" -> LPollLock | "poll" -> LPoll | "continue" -> LContinue | "exit" -> LExit
  | "cyclecontinue" -> LCycleContinue | "waitlock" -> LWaitLock | "peek" -> LPeek | "check" -> LCheck
  | "reacquire" -> LReacquire | "waitunlock" -> LWaitUnlock | "cancel" -> LCancel | "spurious" -> LSpurious
  | _ when String.length s > 2 && s.[0] = 't' ->
    let i = nat_of_string (String.sub s 2 (String.length s - 2)) in
    (match s.[1] with 'l' -> LThrLock i | 'p' -> LThrPush i | 'u' -> LThrUnlock i | 'n' -> LThrNotify i | _ -> failwith ("label " ^ s))
  | _ -> failwith ("label " ^ s)
let mode_str = function Main -> "main" | Drain -> "drain"
let pc_str = function
  | ERun b -> "run:" ^ b2s b | EPollLocked b -> "polllocked:" ^ b2s b | EDecide b -> "decide:" ^ b2s b | EPeeked -> "peeked"
  | EWaitLocked m -> "waitlocked:" ^ mode_str m | EWaiting m -> "waiting:" ^ mode_str m | EWoken m -> "woken:" ^ mode_str m
  | EWaitExit m -> "waitexit:" ^ mode_str m | EDrain -> "drain" | EDone -> "done"
let nats l = if l = [] then "." else String.concat "," (List.map (fun x -> string_of_int (int_of_nat x)) l)
let state_str s =
  Printf.sprintf "pc=%s mutex=%s queue=%s threads=%s outstanding=%d consumed=%s" (pc_str s.pc)
    (match s.mutex with None -> "free" | Some OEngine -> "engine" | Some (OThread i) -> "t" ^ string_of_int (int_of_nat i))
    (nats s.queue)
    (if s.threads = [] then "." else String.concat "" (List.map (function CIdle -> "I" | CHasLock -> "H" | CPushed -> "P" | CReleased -> "R" | CDone -> "D") s.threads))
    (int_of_nat s.outstanding) (nats s.consumed)
let hs broken = function
  | [ls] -> (match hs_run broken (List.map label_of_string (csv ls)) with
      | Inl s -> "OK " ^ state_str s
      | Inr i -> "REJECT " ^ string_of_int (int_of_nat i))
  | _ -> "ERR args"
let () =
  register "proto" (function
      | [slots; evs] ->
        (match proto_check (List.map nat_of_string (csv slots)) (List.map event_of_string (csv evs)) with
         | Inl PSFinished -> "OK"
         | Inl st -> "OK-PREFIX " ^ pstate_str st
         | Inr i -> "REJECT " ^ string_of_int (int_of_nat i))
      | _ -> "ERR args");
  register "hs_accepts" (hs false);
  register "hs_broken" (hs true)
