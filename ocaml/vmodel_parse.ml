(* Handlers of the parse area (C11, deps-parser part of C19). *)
let show_md = function
  | RuleStart (r, u) -> "S " ^ hex_of_bytes r ^ " " ^ hex_of_bytes u
  | Dep (r, u) -> "D " ^ hex_of_bytes r ^ " " ^ hex_of_bytes u
  | RuleEnd -> "E"
  | Err (c, p) -> "X " ^ dec_of_n c ^ " " ^ dec_of_n p
  | OutOfFuel -> "OUTOFFUEL"
let show_di = function
  | Version s -> "V " ^ hex_of_bytes s
  | Input s -> "I " ^ hex_of_bytes s
  | Missing s -> "M " ^ hex_of_bytes s
  | Output s -> "O " ^ hex_of_bytes s
  | DErr (c, p) -> "X " ^ dec_of_n c ^ " " ^ dec_of_n p
  | DOverRead -> "OVERREAD"
  | DOutOfFuel -> "OUTOFFUEL"
let events f l = if l = [] then "." else String.concat "|" (List.map f l)
let sep_of = function "0" -> SepSpace | "1" -> SepLF | _ -> SepCRLF
let eol_of = function "0" -> EolLF | "1" -> EolCRLF | _ -> EolNone
let style_of = function "1" -> StyleMakefile | "2" -> StyleDependencyInfo | "3" -> StyleMakefileIgnoringSubsequent | _ -> StyleUnused
let kind_of = function "I" -> KInput | "M" -> KMissing | _ -> KOutput
let () =
  register "makedeps" (function [ign; d] -> events show_md (md_parse (ign = "1") (bytes_of_hex d)) | _ -> "ERR args");
  register "depinfo" (function [d] -> events show_di (di_parse (bytes_of_hex d)) | _ -> "ERR args");
  register "md_write" (function [t; ps; s] -> hex_of_bytes (md_write (bytes_of_hex t) (list_of_field ps) (sep_of s)) | _ -> "ERR args");
  register "md_write_eol" (function [t; ps; s; e] -> hex_of_bytes (md_write_eol (bytes_of_hex t) (list_of_field ps) (sep_of s) (eol_of e)) | _ -> "ERR args");
  register "wf_path" (function [p] -> b2s (wf_path (bytes_of_hex p)) | _ -> "ERR args");
  register "wf_target" (function [p] -> b2s (wf_target (bytes_of_hex p)) | _ -> "ERR args");
  (* di_write <hexversion> <kind:hex,kind:hex,... | .> *)
  register "di_write" (function [v; rs] ->
      let recs = if rs = "." then [] else List.map (fun r -> match String.split_on_char ':' r with
          | [k; h] -> (kind_of k, bytes_of_hex h) | _ -> failwith "record") (String.split_on_char ',' rs) in
      hex_of_bytes (di_write (bytes_of_hex v) recs) | _ -> "ERR args");
  register "is_absolute" (function [p] -> b2s (is_absolute (bytes_of_hex p)) | _ -> "ERR args");
  (* abspath <hexcwd> <hexwd> <hexword>: the node key the glue makes from one dependency word *)
  register "abspath" (function [cwd; wd; w] -> hex_of_bytes (glue_path (bytes_of_hex cwd) (bytes_of_hex wd) (bytes_of_hex w)) | _ -> "ERR args");
  register "make_absolute" (function [cwd; p] -> hex_of_bytes (make_absolute (bytes_of_hex cwd) (bytes_of_hex p)) | _ -> "ERR args");
  (* process <style 1|2|3> <hexcwd> <hexwd> <hexdata>: keys and success flag for one dependency file *)
  register "process" (function [st; cwd; wd; d] ->
      let (keys, ok) = process_discovered (style_of st) (bytes_of_hex cwd) (bytes_of_hex wd) [Some (bytes_of_hex d)] in
      b2s ok ^ " " ^ field_of_list keys | _ -> "ERR args");
  (* the dependency-info glue as it was before /repo commit ba34c0a (operands verbatim as keys) *)
  register "process_depinfo_v0" (function [d] ->
      let (keys, ok) = process_depinfo_v0 (bytes_of_hex d) in
      b2s ok ^ " " ^ field_of_list keys | _ -> "ERR args");
  (* processn <style> <hexcwd> <hexwd> <file,file,...>: several dependency files of one command; "!" = a file that cannot be read *)
  register "processn" (function [st; cwd; wd; fs] ->
      let files = List.map (fun f -> if f = "!" then None else Some (bytes_of_hex f)) (String.split_on_char ',' fs) in
      let (keys, ok) = process_discovered (style_of st) (bytes_of_hex cwd) (bytes_of_hex wd) files in
      b2s ok ^ " " ^ field_of_list keys | _ -> "ERR args")
