(* Handlers of the capi area (C20): the binding-layer model Engine/CApi.v on serialised calls / callbacks.
   forward <tag> <length> <memory hex> <number> <flag>   -> <tag> <blob hex> <number> <flag> | NONE
       tag: 0 attach_db (number = schema version)  1 build  2 task_needs_input (number = input id)
            3 task_must_follow  4 task_discovered_dependency  5 task_is_complete (flag = force_change)
       length/memory: the llb_data_t argument (memory = the bytes at the data pointer, possibly more than length)
   forward_v0 ...                                        same through the unrepaired forwarding (force_change dropped)
   provide <input id> <key hex> <value hex>              -> <input_id> <value hex>      what provide_value shows
   lookup <key hex>                                      -> <key hex>                   what lookup_rule shows
   cycle <hex,hex,...>                                   -> <hex,hex,...>               what cycle_detected shows
   result <value hex>                                    -> <length> <hex>              llb_buildengine_build's result_out
   cstr <length> <memory hex>                            -> <hex>                       the C-string reading (not the code) *)
let show_cpp (((t, b), n), f) = Printf.sprintf "%s %s %s %s" (dec_of_n t) (hex_of_bytes b) (dec_of_n n) (b2s f)
let fwd which = function
  | [tag; len; mem; num; flag] ->
    (match ccall_of_tag (n_of_dec tag) { d_length = n_of_dec len; d_mem = bytes_of_hex mem } (n_of_dec num) (flag = "1") with
     | Some c -> show_cpp (tag_of_cpp (which c))
     | None -> "NONE")
  | _ -> "ERR args"
let () =
  register "forward" (function
      | [tag; len; mem; num; flag] as a ->
        (* the extracted composite and the composition of its parts must agree (both are run) *)
        let r1 = (match forward_tagged (n_of_dec tag) (n_of_dec len) (bytes_of_hex mem) (n_of_dec num) (flag = "1") with
            | Some x -> show_cpp x | None -> "NONE") in
        let r2 = fwd forward a in
        if r1 = r2 then r1 else "INCONSISTENT " ^ r1 ^ " / " ^ r2
      | _ -> "ERR args");
  register "forward_v0" (fwd forward_v0);
  register "provide" (function [id; key; v] ->
      (match backward_provide (n_of_dec id) (bytes_of_hex key) (bytes_of_hex v) with
       | Some (i, b) -> dec_of_n i ^ " " ^ hex_of_bytes b | None -> "NONE") | _ -> "ERR args");
  register "lookup" (function [key] ->
      (match backward_lookup (bytes_of_hex key) with Some k -> hex_of_bytes k | None -> "NONE") | _ -> "ERR args");
  register "cycle" (function [keys] ->
      (match backward_cycle (list_of_field keys) with Some ks -> field_of_list ks | None -> "NONE") | _ -> "ERR args");
  register "result" (function [v] ->
      let d = build_result (bytes_of_hex v) in dec_of_n d.d_length ^ " " ^ hex_of_bytes (copy_n d) | _ -> "ERR args");
  register "cstr" (function [len; mem] ->
      hex_of_bytes (copy_cstr { d_length = n_of_dec len; d_mem = bytes_of_hex mem }) | _ -> "ERR args")
