(* Handlers of the cycle area (C07): the findCycle model on a dumped successor graph.
   findcycle <root> <edges> [<fuel>]      edges = a>b,c>d,...  ("." = no edge);  a>b: "b waits on a" (b in successorGraph[a])
   answer: "cycle k1 k2 ..." | "none" (empty list) | "OUTOFFUEL"
   findcycle_numeric: the same with keys ordered as numbers (NOT what the code does: keys are strings) - self-test of the check
   findcycle_ref: the recursive reference search (FindCycle.fc_reference) *)
let edges_of s =
  if s = "." || s = "-" || s = "" then [] else
    List.map (fun e -> match String.split_on_char '>' e with
        | [a; b] -> (n_of_int (int_of_string a), n_of_int (int_of_string b))
        | _ -> failwith "edge") (String.split_on_char ',' s)
let show_keys l = if l = [] then "none" else "cycle " ^ String.concat " " (List.map (fun k -> string_of_int (int_of_n k)) l)
let show = function FcDone l -> show_keys l | FcOutOfFuel -> "OUTOFFUEL"
let default_fuel = nat_of_int 200000     (* built once: a unary numeral *)
let () =
  register "findcycle" (function
      | [r; e] -> show (findcycle_names (edges_of e) (n_of_int (int_of_string r)) default_fuel)
      | [r; e; f] -> show (findcycle_names (edges_of e) (n_of_int (int_of_string r)) (nat_of_int (int_of_string f)))
      | _ -> "ERR args");
  register "findcycle_numeric" (function
      | [r; e] -> show (findCycle N.ltb (edges_of e) (n_of_int (int_of_string r)) default_fuel)
      | _ -> "ERR args");
  register "findcycle_ref" (function
      | [r; e] -> show_keys (fc_reference klt_name (edges_of e) (n_of_int (int_of_string r)))
      | _ -> "ERR args");
  register "klt" (function [a; b] -> b2s (klt_name (n_of_int (int_of_string a)) (n_of_int (int_of_string b))) | _ -> "ERR args")
