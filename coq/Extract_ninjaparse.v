(* Extraction of the Ninja parser model (+ lexer and loader models it drives) to OCaml (area ninjaparse). *)
Require Extraction.
Require Import ExtrOcamlBasic.
From LLB Require Import Base.Bytes Parse.NinjaLex Parse.NinjaEval Parse.NinjaParse.
Extraction "extracted/Model_ninjaparse.ml" parse parse_tokens parse_files parse_load load make_absolute has_out_of_fuel
  run_simple eval_in_scope add_errors find_file mem_bytes empty_frame init_scopes init_state.
