(* Extraction of the signature models (area sig, property C09). *)
Require Extraction.
Require Import ExtrOcamlBasic.
From LLB Require Import Base.Bytes Codec.Codec Codec.FileObs BSys.Sig.
Extraction "extracted/Model_sig.ml" sig_tokens ext_sig_tokens sig_tokens_v0 node_sig_tokens node_sig_tokens_v0
  symlink_sig_tokens plain_sig_tokens relevant sdef_sig_tokens symlink_relevant.
