(* Extraction of the build-system layer model (area bsys, property C08). *)
Require Extraction.
Require Import ExtrOcamlBasic.
From LLB Require Import Base.Bytes Codec.Codec Codec.FileObs BSys.Sig BSys.RulesBS.
Extraction "extracted/Model_bsys.ml" clean cat_fn lookup_val lookup_rule rule_valid cmd_valid file_valid
  node_virtual stat_w content_w put del fresh vtag default_fuel dec_value
  find_cmd node_def sig_tokens ext_sig_tokens symlink_sig_tokens node_sig_tokens.
