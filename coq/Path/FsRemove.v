(* Model of the file-system side of stale-file removal: llbuild::basic::LocalFileSystem::remove
   (lib/Basic/FileSystem.cpp) with _remove_all_r / rm_tree and llvm::sys::fs::remove, written as the
   sequence of system calls the code issues (unlink, lstat, rmdir, opendir/readdir, libc remove) over a
   file-system tree with symbolic links, each call resolving its path the way the kernel does.
   Definitions only (no proofs). *)
From LLB Require Import Base.Bytes Path.PathPrefix.
Local Open Scope N_scope.

(* ---------- the tree ---------- *)

Inductive node :=
| File (content : N)
| Link (target : bytes)
| Dir (entries : list (bytes * node)).

(* what lstat reports of a node, without its descendants *)
Inductive kind := KFile (content : N) | KLink (target : bytes) | KDir.

Definition shallow (t : node) : kind :=
  match t with File n => KFile n | Link s => KLink s | Dir _ => KDir end.

Definition is_dir (t : node) : bool := match t with Dir _ => true | _ => false end.

Inductive errno := ENOENT | ENOTDIR | EISDIR | ELOOP | ENOTEMPTY | EINVAL | EBUSY | EPERM
                 | EFUEL.  (* not an errno: the recursion bound of the model ran out (proved unreachable) *)

(* None = the call succeeded *)
Definition result := option errno.

Definition errno_eqb (a b : errno) : bool :=
  match a, b with
  | ENOENT, ENOENT | ENOTDIR, ENOTDIR | EISDIR, EISDIR | ELOOP, ELOOP | ENOTEMPTY, ENOTEMPTY
  | EINVAL, EINVAL | EBUSY, EBUSY | EPERM, EPERM | EFUEL, EFUEL => true
  | _, _ => false
  end.

(* ---------- physical access: canonical paths (names of real directories only, no link is followed) ---------- *)

Fixpoint assoc (name : bytes) (es : list (bytes * node)) : option node :=
  match es with
  | [] => None
  | (k, v) :: es' => if bytes_eqb k name then Some v else assoc name es'
  end.

Fixpoint get (t : node) (cp : list bytes) : option node :=
  match cp with
  | [] => Some t
  | c :: cp' => match t with
                | Dir es => match assoc c es with Some t' => get t' cp' | None => None end
                | _ => None
                end
  end.

Fixpoint remove_entry (name : bytes) (es : list (bytes * node)) : list (bytes * node) :=
  match es with
  | [] => []
  | (k, v) :: es' => if bytes_eqb k name then remove_entry name es' else (k, v) :: remove_entry name es'
  end.

Fixpoint upd_entry (name : bytes) (f : node -> node) (es : list (bytes * node)) : list (bytes * node) :=
  match es with
  | [] => []
  | (k, v) :: es' => if bytes_eqb k name then (k, f v) :: es' else (k, v) :: upd_entry name f es'
  end.

(* the entry at canonical path cp disappears from its directory (with everything beneath it) *)
Fixpoint del (t : node) (cp : list bytes) : node :=
  match cp with
  | [] => t
  | c :: cp' =>
    match t with
    | Dir es => match cp' with
                | [] => Dir (remove_entry c es)
                | _ => Dir (upd_entry c (fun t' => del t' cp') es)
                end
    | _ => t
    end
  end.

(* ---------- path resolution as the kernel does it (namei) ---------- *)

Definition is_dot (c : bytes) : bool := bytes_eqb c [46].
Definition is_dotdot (c : bytes) : bool := bytes_eqb c [46; 46].
Definition is_dots (c : bytes) : bool := is_dot c || is_dotdot c.

Definition ends_sep (s : bytes) : bool := match s with [] => false | _ => is_sep (last s 0) end.

(* a trailing separator asks for a directory and for following a final link: the same as a final "." *)
Definition dotif (trail : bool) : list bytes := if trail then [[46]] else [].
Definition tcomps (s : bytes) : list bytes := comps s ++ dotif (ends_sep s).

Inductive wres := WOk (cp : list bytes) | WErr (e : errno).

(* the final component is a link and the call does not follow final links *)
Definition last_nofollow (rest' : list bytes) (fl : bool) : bool :=
  match rest' with [] => negb fl | _ => false end.

(* MAXSYMLINKS: the kernel follows at most 40 links in one resolution, the 41st gives ELOOP *)
Definition maxlinks : nat := 40.

(* lk: links that may still be followed; fl: follow a link in the final component;
   cwd: canonical path of the directory reached so far; rest: components still to be walked.
   ".." of the root is the root.  The result is the canonical path of the object reached. *)
Fixpoint walk (lk : nat) (fs : node) (fl : bool) : list bytes -> list bytes -> wres :=
  fix go (cwd rest : list bytes) {struct rest} : wres :=
    match rest with
    | [] => WOk cwd
    | c :: rest' =>
      if is_dot c then go cwd rest'
      else if is_dotdot c then go (removelast cwd) rest'
      else match get fs cwd with
           | Some (Dir es) =>
             match assoc c es with
             | None => WErr ENOENT
             | Some (Dir _) => go (cwd ++ [c]) rest'
             | Some (File _) => match rest' with [] => WOk (cwd ++ [c]) | _ => WErr ENOTDIR end
             | Some (Link t) =>
               if last_nofollow rest' fl then WOk (cwd ++ [c])
               else match lk with
                    | O => WErr ELOOP
                    | S lk' => walk lk' fs fl (if absolute t then [] else cwd) (tcomps t ++ rest')
                    end
             end
           | _ => WErr ENOTDIR
           end
    end.

(* ---------- the system calls used by the code; a path is (components, has a trailing separator) ---------- *)

(* lstat(2) *)
Definition sys_lstat (fs : node) (cs : list bytes) (trail : bool) : errno + kind :=
  match walk maxlinks fs false [] (cs ++ dotif trail) with
  | WErr e => inl e
  | WOk cp => match get fs cp with Some t => inr (shallow t) | None => inl ENOENT end
  end.

(* opendir(3) + readdir(3) until the end: the names, without "." and ".." *)
Definition sys_readdir (fs : node) (cs : list bytes) : errno + list bytes :=
  match walk maxlinks fs true [] cs with
  | WErr e => inl e
  | WOk cp => match get fs cp with Some (Dir es) => inr (map fst es) | _ => inl ENOTDIR end
  end.

(* unlink(2): fs/namei.c do_unlinkat *)
Definition sys_unlink (fs : node) (cs : list bytes) (trail : bool) : node * result :=
  match cs with
  | [] => (fs, Some EISDIR)                                  (* LAST_ROOT *)
  | _ =>
    let c := last cs [] in
    match walk maxlinks fs true [] (removelast cs) with
    | WErr e => (fs, Some e)
    | WOk d =>
      match get fs d with
      | Some (Dir es) =>
        if is_dots c then (fs, Some EISDIR)                  (* LAST_DOT, LAST_DOTDOT *)
        else match assoc c es with
             | None => (fs, Some ENOENT)
             | Some (Dir _) => (fs, Some EISDIR)
             | Some _ => if trail then (fs, Some ENOTDIR) else (del fs (d ++ [c]), None)
             end
      | _ => (fs, Some ENOTDIR)
      end
    end
  end.

(* rmdir(2): fs/namei.c do_rmdir; a trailing separator changes nothing *)
Definition sys_rmdir (fs : node) (cs : list bytes) : node * result :=
  match cs with
  | [] => (fs, Some EBUSY)                                   (* LAST_ROOT *)
  | _ =>
    let c := last cs [] in
    match walk maxlinks fs true [] (removelast cs) with
    | WErr e => (fs, Some e)
    | WOk d =>
      match get fs d with
      | Some (Dir es) =>
        if is_dotdot c then (fs, Some ENOTEMPTY)
        else if is_dot c then (fs, Some EINVAL)
        else match assoc c es with
             | None => (fs, Some ENOENT)
             | Some (Dir []) => (del fs (d ++ [c]), None)
             | Some (Dir _) => (fs, Some ENOTEMPTY)
             | Some _ => (fs, Some ENOTDIR)
             end
      | _ => (fs, Some ENOTDIR)
      end
    end
  end.

(* ---------- the library functions between the code and the kernel ---------- *)

(* glibc remove(3): unlink; only when that fails with EISDIR, rmdir *)
Definition libc_remove (fs : node) (cs : list bytes) (trail : bool) : node * result :=
  match sys_unlink fs cs trail with
  | (fs', None) => (fs', None)
  | (_, Some EISDIR) => sys_rmdir fs cs
  | (_, Some e) => (fs, Some e)
  end.

(* llvm::sys::fs::remove(path, IgnoreNonExisting = false) (lib/llvm/Support/Unix/Path.inc): lstat, then the
   type must be regular/directory/link (the model has no other types), then ::remove *)
Definition llvm_remove (fs : node) (cs : list bytes) (trail : bool) : node * result :=
  match sys_lstat fs cs trail with
  | inl e => (fs, Some e)
  | inr _ => libc_remove fs cs trail
  end.

(* the loop of _remove_all_r over the names read from the directory; [rec] is the recursive call on a
   sub-directory.  i->path() is path + "/" + name: one more component, no trailing separator *)
Fixpoint rm_loop (rec : node -> list bytes -> node * result) (fs : node) (cs : list bytes) (names : list bytes)
  : node * result :=
  match names with
  | [] => (fs, None)
  | n :: names' =>
    match sys_lstat fs (cs ++ [n]) false with
    | inl e => (fs, Some e)
    | inr k =>
      let '(fs', r) := match k with
                       | KDir => rec fs (cs ++ [n])
                       | _ => llvm_remove fs (cs ++ [n]) false
                       end in
      match r with
      | Some e => (fs', Some e)
      | None => rm_loop rec fs' cs names'
      end
    end
  end.

(* _remove_all_r(path, file_type::directory_file, count) *)
Fixpoint rm_tree_r (fuel : nat) (fs : node) (cs : list bytes) (trail : bool) : node * result :=
  match fuel with
  | O => (fs, Some EFUEL)
  | S f =>
    match sys_readdir fs cs with
    | inl e => (fs, Some e)
    | inr names =>
      match rm_loop (fun fs' p => rm_tree_r f fs' p false) fs cs names with
      | (fs', Some e) => (fs', Some e)
      | (fs', None) => llvm_remove fs' cs trail
      end
    end
  end.

(* number of directory levels *)
Fixpoint height (t : node) : nat :=
  match t with
  | Dir es => S ((fix hl (l : list (bytes * node)) : nat :=
                    match l with [] => O | (_, v) :: l' => Nat.max (height v) (hl l') end) es)
  | _ => O
  end.

(* LocalFileSystem::remove(path) *)
Definition remove (fs : node) (cs : list bytes) (trail : bool) : node * result :=
  match sys_unlink fs cs trail with
  | (fs', None) => (fs', None)
  | (_, Some e) =>
    if negb (errno_eqb e EPERM || errno_eqb e EISDIR) then (fs, Some e)
    else match sys_lstat fs cs trail with
         | inl e' => (fs, Some e')
         | inr KDir =>
           match sys_rmdir fs cs with
           | (fs', None) => (fs', None)
           | (_, Some _) => rm_tree_r (height fs) fs cs trail
           end
         | inr _ => (fs, Some e)      (* "return false": errno is still the one of unlink *)
         end
  end.

(* the path string as the kernel reads it; the empty string is ENOENT for every call *)
Definition trail_of (s : bytes) : bool := ends_sep s && negb (forallb is_sep s).

Definition remove_path (fs : node) (s : bytes) : node * result :=
  match s with
  | [] => (fs, Some ENOENT)
  | _ => remove fs (comps s) (trail_of s)
  end.

(* StaleFileRemovalCommand::execute: every path to delete is removed, failures are reported and ignored *)
Definition stale_apply (fs : node) (ds : list bytes) : node :=
  fold_left (fun fs' d => fst (remove_path fs' d)) ds fs.

(* ---------- well-formed trees, plain paths, and the specification the proofs relate [remove] to ---------- *)

(* a directory entry name as the kernel hands it out: non-empty, no separator, neither "." nor ".." *)
Definition name_ok (c : bytes) : bool := comp_ok c && negb (is_dots c).

Fixpoint distinct (l : list bytes) : bool :=
  match l with [] => true | x :: l' => negb (mem_bytes x l') && distinct l' end.

Fixpoint wf (t : node) : bool :=
  match t with
  | Dir es => distinct (map fst es) &&
              (fix wfl (l : list (bytes * node)) : bool :=
                 match l with [] => true | (k, v) :: l' => name_ok k && wf v && wfl l' end) es
  | _ => true
  end.

(* no component is "." or ".." (and none is empty or contains a separator) *)
Definition plain_comps (cs : list bytes) : bool := forallb name_ok cs.

(* no non-empty prefix of cs names a symbolic link *)
Fixpoint nolink (t : node) (cs : list bytes) : bool :=
  match cs with
  | [] => true
  | c :: cs' => match t with
                | Dir es => match assoc c es with
                            | Some (Link _) => false
                            | Some t' => nolink t' cs'
                            | None => true
                            end
                | _ => true
                end
  end.

(* the premise of the lexical theorems: every component before the last one is a real directory
   (or missing / a regular file, in which case every call fails), never a link *)
Definition no_link_on_the_way (fs : node) (cs : list bytes) : bool := nolink fs (removelast cs).

(* what removal means on the tree: the entry and everything beneath it disappears *)
Definition remove_spec (fs : node) (cs : list bytes) (trail : bool) : node * bool :=
  match get fs cs with
  | None => (fs, false)
  | Some (Dir _) => (del fs cs, true)
  | Some _ => if trail then (fs, false) else (del fs cs, true)
  end.

(* does remove_spec remove something? *)
Definition removable_at (fs : node) (cs : list bytes) (trail : bool) : bool :=
  match get fs cs with
  | None => false
  | Some (Dir _) => true
  | Some _ => negb trail
  end.

Definition removable (fs : node) (d : bytes) : bool := removable_at fs (comps d) (trail_of d).

(* q lies at or beneath one of the paths of ds that names something removable in fs *)
Definition covered (fs : node) (ds : list bytes) (q : list bytes) : bool :=
  existsb (fun d => removable fs d && comp_prefix (comps d) q) ds.

(* the scope of the lexical theorems about a deletion list: every path has a component, none is "." or "..",
   and no component before the last one is a link *)
Definition stale_scope (fs : node) (ds : list bytes) : Prop :=
  forall d, In d ds -> comps d <> [] /\ plain_comps (comps d) = true /\ no_link_on_the_way fs (comps d) = true.

(* ---------- notions for the statements about ANY path (links on the way, "." and "..") ---------- *)

(* fs' is fs with some entries deleted: whatever exists in fs' exists in fs and lstat reports the same of it *)
Definition sub (fs' fs : node) : Prop :=
  forall q x', get fs' q = Some x' -> exists x, get fs q = Some x /\ shallow x = shallow x'.

(* everything that differs between fs' and fs lies at or beneath the canonical path L *)
Definition below (L : list bytes) (fs' fs : node) : Prop :=
  sub fs' fs /\
  forall q, comp_prefix L q = false -> option_map shallow (get fs' q) = option_map shallow (get fs q).

(* the canonical path L lies at or beneath one of the roots (compared by whole components) *)
Definition inside (roots : list bytes) (L : list bytes) : bool :=
  existsb (fun r => comp_prefix (comps r) L) roots.

Definition succeeded (r : result) : bool := match r with None => true | Some _ => false end.

(* all canonical paths of a tree, pre-order, with what lstat reports (the dump of the harness) *)
Fixpoint dump (fuel : nat) (t : node) (pre : list bytes) : list (list bytes * kind) :=
  match fuel with
  | O => []
  | S f => match t with
           | Dir es => flat_map (fun e => (pre ++ [fst e], shallow (snd e)) :: dump f (snd e) (pre ++ [fst e])) es
           | _ => []
           end
  end.
