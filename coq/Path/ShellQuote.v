(* Model of llbuild::basic::appendShellEscapedString / shellEscaped (lib/Basic/ShellUtility.cpp, POSIX branch)
   and of the part of POSIX sh tokenisation that its output exercises.  Definitions only (no proofs). *)
From LLB Require Import Base.Bytes.
Local Open Scope N_scope.

(* static const std::string whitelist =
     abcdefghijklmnopqrstuvwxyzABCDEFGHIJKLMNOPQRSTUVWXYZ1234567890-_/:@%+=.,   (72 characters) *)
Definition whitelist : bytes :=
  [97;98;99;100;101;102;103;104;105;106;107;108;109;110;111;112;113;114;115;116;117;118;119;120;121;122;
   65;66;67;68;69;70;71;72;73;74;75;76;77;78;79;80;81;82;83;84;85;86;87;88;89;90;
   49;50;51;52;53;54;55;56;57;48;
   45;95;47;58;64;37;43;61;46;44].

Definition mem_byte (b : byte) (l : bytes) : bool := existsb (N.eqb b) l.

(* string.find_first_not_of(wl): index of the first byte that is not in wl; None = npos *)
Fixpoint find_first_not_of (wl s : bytes) : option nat :=
  match s with
  | [] => None
  | b :: r => if mem_byte b wl then option_map S (find_first_not_of wl r) else Some O
  end.

(* string.find_first_of(c, from): index of the first occurrence of c at an index >= from; None = npos *)
Fixpoint find_first_of (c : byte) (s : bytes) (from : nat) : option nat :=
  match s with
  | [] => None
  | b :: r =>
    match from with
    | S f => option_map S (find_first_of c r f)
    | O => if b =? c then Some O else option_map S (find_first_of c r O)
    end
  end.

(* the body of the for loop: a single quote becomes the four bytes  '\''  ; every other byte is copied *)
Definition escape_byte (b : byte) : bytes := if b =? 39 then [39; 92; 39; 39] else [b].

(* appendShellEscapedString with the whitelist as an argument (the theorems are stated for every whitelist that
   satisfies a decidable side condition, so that they apply to the whitelist probed from the code) *)
Definition shell_escaped_gen (wl s : bytes) : bytes :=
  match find_first_not_of wl s with
  | None => s                                                   (* no escaping needed *)
  | Some pos =>
    match find_first_of 39 s pos with
    | None => [39] ++ s ++ [39]                                 (* no single quote: '...' *)
    | Some q => [39] ++ firstn q s ++ flat_map escape_byte (skipn q s) ++ [39]
    end
  end.

Definition shell_escaped (s : bytes) : bytes := shell_escaped_gen whitelist s.

(* ---- POSIX sh: splitting a command line into words (XCU 2.2 Quoting, 2.3 Token Recognition) ----

   [sh_words s] = the list of words (after quote removal) that sh obtains from the text s when s stands in
   ARGUMENT position of a simple command (e.g. after `set --`), or None when s uses anything outside the
   modelled fragment.  Modelled: blanks separate words; '...' preserves every byte up to the next ';
   \c outside quotes preserves c; a '#' where a word would start begins a comment that runs to the end of the
   text; every other non-special byte is literal.  Not modelled (None): NUL (cannot occur in a C string handed to
   sh -c), newline outside quotes (command separator), the operators and expansions introduced by
   | & ; < > ( ) $ ` and the double quote, and the pattern characters * ? [ (the result would depend on the
   file system),
   '~' where a word starts (tilde expansion; elsewhere in an argument word it is literal),
   backslash-newline, an unterminated quote, a trailing backslash.
   The two remaining conditionally special characters of XCU 2.2 are literal here and the model says so:
   '=' is special only in a word that PRECEDES the command name (an assignment), never in an argument word;
   '%' is not special to the shell grammar at all (only the job-control built-ins interpret a leading '%'
   of their own arguments, after word splitting). *)

Definition sh_blank (b : byte) : bool := (b =? 32) || (b =? 9).

(* special wherever it occurs unquoted (in the modelled fragment: only ' and \ are interpreted, the rest
   makes the text fall outside the fragment) *)
Definition sh_always_special (b : byte) : bool :=
  mem_byte b [124; 38; 59; 60; 62; 40; 41; 36; 96; 92; 34; 39; 32; 9; 10; 42; 63; 91; 0].
(*             |   &   ;   <   >   (   )   $   `   \  dq   '  sp tab  nl star  ?   [  NUL *)

(* special only where a word starts: '#' (comment) and '~' (tilde expansion) *)
Definition sh_start_special (b : byte) : bool := (b =? 35) || (b =? 126).

Inductive shmode :=
| ShOut      (* between words *)
| ShWord     (* inside a word, outside quotes *)
| ShQuote.   (* inside a word, inside '...' *)

Definition push_word (w : bytes) (r : option (list bytes)) : option (list bytes) :=
  match r with Some l => Some (w :: l) | None => None end.

(* cur: the bytes of the current word so far, reversed *)
Fixpoint sh_go (m : shmode) (cur : bytes) (s : bytes) : option (list bytes) :=
  match s with
  | [] =>
    match m with
    | ShOut => Some []
    | ShWord => Some [rev cur]
    | ShQuote => None                                  (* unterminated quote *)
    end
  | b :: r =>
    if b =? 0 then None else
    match m with
    | ShQuote => if b =? 39 then sh_go ShWord cur r else sh_go ShQuote (b :: cur) r
    | _ =>
      if sh_blank b then
        match m with
        | ShWord => push_word (rev cur) (sh_go ShOut [] r)
        | _ => sh_go ShOut [] r
        end
      else if b =? 39 then sh_go ShQuote cur r        (* opens a quoted part; starts a word if none is open *)
      else if b =? 92 then                             (* backslash: the next byte is literal *)
        match r with
        | c :: r' => if (c =? 0) || (c =? 10) then None else sh_go ShWord (c :: cur) r'
        | [] => None
        end
      else if sh_always_special b then None
      else
        match m with
        | ShOut =>
          if b =? 35 then (if mem_byte 10 r || mem_byte 0 r then None else Some [])   (* comment to the end *)
          else if b =? 126 then None                                                  (* tilde expansion *)
          else sh_go ShWord (b :: cur) r
        | _ => sh_go ShWord (b :: cur) r
        end
    end
  end.

Definition sh_words (s : bytes) : option (list bytes) := sh_go ShOut [] s.

(* the side condition on a whitelist under which leaving its members unquoted is harmless: no member is
   special to sh anywhere in a word or at the start of a word.  ('=' and '%' may be members, see above.) *)
Definition sh_meta (b : byte) : bool := sh_always_special b || sh_start_special b.
Definition whitelist_ok (wl : bytes) : bool := forallb (fun b => negb (sh_meta b)) wl.

(* the probed whitelist (bytes b < 256 with shellEscaped([b]) = [b]) has the same members as the model's *)
Definition whitelist_same (wl1 wl2 : bytes) : bool :=
  forallb (fun b => mem_byte b wl2) wl1 && forallb (fun b => mem_byte b wl1) wl2.
