(* Proofs about the file-system removal model (Path/FsRemove.v). *)
From LLB Require Import Base.Bytes Base.BytesFacts Path.PathPrefix Path.PathPrefixProofs Path.FsRemove.
Local Open Scope N_scope.

(* ---------- directory entries ---------- *)

Lemma assoc_remove_same c es : assoc c (remove_entry c es) = None.
Proof.
  induction es as [|[k v] es IH]; cbn [remove_entry assoc]; [reflexivity|].
  destruct (bytes_eqb k c) eqn:E; [exact IH|]. cbn [assoc]. rewrite E. exact IH.
Qed.

Lemma assoc_remove_other c d es : c <> d -> assoc d (remove_entry c es) = assoc d es.
Proof.
  intros Hne. induction es as [|[k v] es IH]; cbn [remove_entry assoc]; [reflexivity|].
  destruct (bytes_eqb k c) eqn:E.
  - apply bytes_eqb_eq in E. subst k.
    destruct (bytes_eqb c d) eqn:E2; [apply bytes_eqb_eq in E2; contradiction | exact IH].
  - cbn [assoc]. rewrite IH. reflexivity.
Qed.

Lemma assoc_upd_same c f es : assoc c (upd_entry c f es) = option_map f (assoc c es).
Proof.
  induction es as [|[k v] es IH]; cbn [upd_entry assoc]; [reflexivity|].
  destruct (bytes_eqb k c) eqn:E; cbn [assoc]; rewrite E; [reflexivity | exact IH].
Qed.

Lemma assoc_upd_other c d f es : c <> d -> assoc d (upd_entry c f es) = assoc d es.
Proof.
  intros Hne. induction es as [|[k v] es IH]; cbn [upd_entry assoc]; [reflexivity|].
  destruct (bytes_eqb k c) eqn:E; cbn [assoc].
  - apply bytes_eqb_eq in E. subst k.
    destruct (bytes_eqb c d) eqn:E2; [apply bytes_eqb_eq in E2; contradiction | reflexivity].
  - rewrite IH. reflexivity.
Qed.

Lemma remove_upd c f es : remove_entry c (upd_entry c f es) = remove_entry c es.
Proof.
  induction es as [|[k v] es IH]; cbn [upd_entry remove_entry]; [reflexivity|].
  destruct (bytes_eqb k c) eqn:E; cbn [remove_entry]; rewrite E; [reflexivity | rewrite IH; reflexivity].
Qed.

Lemma remove_remove c es : remove_entry c (remove_entry c es) = remove_entry c es.
Proof.
  induction es as [|[k v] es IH]; cbn [remove_entry]; [reflexivity|].
  destruct (bytes_eqb k c) eqn:E; [exact IH|]. cbn [remove_entry]. rewrite E, IH. reflexivity.
Qed.

Lemma upd_upd c f g es : upd_entry c f (upd_entry c g es) = upd_entry c (fun t => f (g t)) es.
Proof.
  induction es as [|[k v] es IH]; cbn [upd_entry]; [reflexivity|].
  destruct (bytes_eqb k c) eqn:E; cbn [upd_entry]; rewrite E; [reflexivity | rewrite IH; reflexivity].
Qed.

Lemma upd_ext c f g es : (forall t, f t = g t) -> upd_entry c f es = upd_entry c g es.
Proof.
  intros H. induction es as [|[k v] es IH]; cbn [upd_entry]; [reflexivity|].
  destruct (bytes_eqb k c); [rewrite H; reflexivity | rewrite IH; reflexivity].
Qed.

Lemma upd_names c f es : map fst (upd_entry c f es) = map fst es.
Proof.
  induction es as [|[k v] es IH]; cbn [upd_entry map fst]; [reflexivity|].
  destruct (bytes_eqb k c); cbn [map fst]; [reflexivity | rewrite IH; reflexivity].
Qed.

Lemma assoc_names c es : mem_bytes c (map fst es) = false -> assoc c es = None.
Proof.
  induction es as [|[k v] es IH]; cbn [map fst mem_bytes assoc]; [reflexivity|].
  intros H. apply orb_false_iff in H. destruct H as [H1 H2].
  destruct (bytes_eqb k c) eqn:E.
  - apply bytes_eqb_eq in E. subst k. rewrite bytes_eqb_refl in H1. discriminate.
  - exact (IH H2).
Qed.

Lemma remove_notin c es : mem_bytes c (map fst es) = false -> remove_entry c es = es.
Proof.
  induction es as [|[k v] es IH]; cbn [map fst mem_bytes remove_entry]; [reflexivity|].
  intros H. apply orb_false_iff in H. destruct H as [H1 H2].
  destruct (bytes_eqb k c) eqn:E.
  - apply bytes_eqb_eq in E. subst k. rewrite bytes_eqb_refl in H1. discriminate.
  - rewrite (IH H2). reflexivity.
Qed.
