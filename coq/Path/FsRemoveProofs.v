(* Proofs about the file-system removal model (Path/FsRemove.v). *)
From LLB Require Import Base.Bytes Base.BytesFacts Path.PathPrefix Path.PathPrefixProofs Path.FsRemove.
Local Open Scope N_scope.

(* ---------- directory entries ---------- *)

Lemma assoc_remove_same c es : assoc c (remove_entry c es) = None.
Proof.
  induction es as [|[k v] es IH]; cbn [remove_entry assoc]; [reflexivity|].
  destruct (bytes_eqb k c) eqn:E; [exact IH|]. cbn [assoc]. rewrite E. exact IH.
Qed.

Lemma assoc_remove_other c d es : c <> d -> assoc d (remove_entry c es) = assoc d es.
Proof.
  intros Hne. induction es as [|[k v] es IH]; cbn [remove_entry assoc]; [reflexivity|].
  destruct (bytes_eqb k c) eqn:E.
  - apply bytes_eqb_eq in E. subst k.
    destruct (bytes_eqb c d) eqn:E2; [apply bytes_eqb_eq in E2; contradiction | exact IH].
  - cbn [assoc]. rewrite IH. reflexivity.
Qed.

Lemma assoc_upd_same c f es : assoc c (upd_entry c f es) = option_map f (assoc c es).
Proof.
  induction es as [|[k v] es IH]; cbn [upd_entry assoc]; [reflexivity|].
  destruct (bytes_eqb k c) eqn:E; cbn [assoc]; rewrite E; [reflexivity | exact IH].
Qed.

Lemma assoc_upd_other c d f es : c <> d -> assoc d (upd_entry c f es) = assoc d es.
Proof.
  intros Hne. induction es as [|[k v] es IH]; cbn [upd_entry assoc]; [reflexivity|].
  destruct (bytes_eqb k c) eqn:E; cbn [assoc].
  - apply bytes_eqb_eq in E. subst k.
    destruct (bytes_eqb c d) eqn:E2; [apply bytes_eqb_eq in E2; contradiction | reflexivity].
  - rewrite IH. reflexivity.
Qed.

Lemma remove_upd c f es : remove_entry c (upd_entry c f es) = remove_entry c es.
Proof.
  induction es as [|[k v] es IH]; cbn [upd_entry remove_entry]; [reflexivity|].
  destruct (bytes_eqb k c) eqn:E; cbn [remove_entry]; rewrite E; [reflexivity | rewrite IH; reflexivity].
Qed.

Lemma remove_remove c es : remove_entry c (remove_entry c es) = remove_entry c es.
Proof.
  induction es as [|[k v] es IH]; cbn [remove_entry]; [reflexivity|].
  destruct (bytes_eqb k c) eqn:E; [exact IH|]. cbn [remove_entry]. rewrite E, IH. reflexivity.
Qed.

Lemma upd_upd c f g es : upd_entry c f (upd_entry c g es) = upd_entry c (fun t => f (g t)) es.
Proof.
  induction es as [|[k v] es IH]; cbn [upd_entry]; [reflexivity|].
  destruct (bytes_eqb k c) eqn:E; cbn [upd_entry]; rewrite E; [reflexivity | rewrite IH; reflexivity].
Qed.

Lemma upd_ext c f g es : (forall t, f t = g t) -> upd_entry c f es = upd_entry c g es.
Proof.
  intros H. induction es as [|[k v] es IH]; cbn [upd_entry]; [reflexivity|].
  destruct (bytes_eqb k c); [rewrite H; reflexivity | rewrite IH; reflexivity].
Qed.

Lemma upd_names c f es : map fst (upd_entry c f es) = map fst es.
Proof.
  induction es as [|[k v] es IH]; cbn [upd_entry map fst]; [reflexivity|].
  destruct (bytes_eqb k c); cbn [map fst]; [reflexivity | rewrite IH; reflexivity].
Qed.

Lemma assoc_names c es : mem_bytes c (map fst es) = false -> assoc c es = None.
Proof.
  induction es as [|[k v] es IH]; cbn [map fst mem_bytes assoc]; [reflexivity|].
  intros H. apply orb_false_iff in H. destruct H as [H1 H2].
  destruct (bytes_eqb k c) eqn:E.
  - apply bytes_eqb_eq in E. subst k. rewrite bytes_eqb_refl in H1. discriminate.
  - exact (IH H2).
Qed.

Lemma remove_notin c es : mem_bytes c (map fst es) = false -> remove_entry c es = es.
Proof.
  induction es as [|[k v] es IH]; cbn [map fst mem_bytes remove_entry]; [reflexivity|].
  intros H. apply orb_false_iff in H. destruct H as [H1 H2].
  destruct (bytes_eqb k c) eqn:E.
  - apply bytes_eqb_eq in E. subst k. rewrite bytes_eqb_refl in H1. discriminate.
  - rewrite (IH H2). reflexivity.
Qed.

(* ---------- component prefixes ---------- *)

Lemma comp_prefix_spec p q : comp_prefix p q = true <-> exists r, q = p ++ r.
Proof.
  revert q. induction p as [|c p IH]; intros q; cbn [comp_prefix].
  - split; [intros _; exists q; reflexivity | reflexivity].
  - destruct q as [|d q].
    + split; [discriminate | intros [r H]; discriminate].
    + rewrite andb_true_iff, bytes_eqb_eq, IH. split.
      * intros [-> [r ->]]. exists r. reflexivity.
      * intros [r H]. inversion H. subst. split; [reflexivity | exists r; reflexivity].
Qed.

Lemma comp_prefix_refl p : comp_prefix p p = true.
Proof. apply comp_prefix_spec. exists []. rewrite app_nil_r. reflexivity. Qed.

Lemma comp_prefix_trans a b c : comp_prefix a b = true -> comp_prefix b c = true -> comp_prefix a c = true.
Proof.
  rewrite !comp_prefix_spec. intros [r1 ->] [r2 ->]. exists (r1 ++ r2). rewrite app_assoc. reflexivity.
Qed.

(* ---------- physical access ---------- *)

Lemma get_app t a b : get t (a ++ b) = match get t a with Some t' => get t' b | None => None end.
Proof.
  revert t. induction a as [|c a IH]; intros t; cbn [app get]; [reflexivity|].
  destruct t as [n|s|es]; try reflexivity. destruct (assoc c es) as [t'|]; [apply IH | reflexivity].
Qed.

Lemma get_snoc_inv t p c x :
  get t (p ++ [c]) = Some x -> exists es, get t p = Some (Dir es) /\ assoc c es = Some x.
Proof.
  rewrite get_app. destruct (get t p) as [t'|]; [|discriminate]. cbn [get].
  destruct t' as [n|s|es]; try discriminate. destruct (assoc c es) as [y|] eqn:E; [|discriminate].
  intros H. inversion H. subst. exists es. split; [reflexivity | exact E].
Qed.

Lemma get_snoc t p c es : get t p = Some (Dir es) -> get t (p ++ [c]) = assoc c es.
Proof. intros H. rewrite get_app, H. cbn [get]. destruct (assoc c es); reflexivity. Qed.

Lemma get_prefix_none t p r : get t p = None -> get t (p ++ r) = None.
Proof. intros H. rewrite get_app, H. reflexivity. Qed.

Lemma del_nondir t p : is_dir t = false -> del t p = t.
Proof. destruct p as [|c p]; [reflexivity|]. destruct t; [reflexivity | reflexivity | discriminate]. Qed.

Lemma del_single es c : del (Dir es) [c] = Dir (remove_entry c es).
Proof. reflexivity. Qed.

Lemma del_cons es c p : p <> [] -> del (Dir es) (c :: p) = Dir (upd_entry c (fun t' => del t' p) es).
Proof. destruct p; [contradiction | reflexivity]. Qed.

Lemma shallow_del t p : p <> [] -> shallow (del t p) = shallow t.
Proof.
  intros Hp. destruct p as [|c p]; [contradiction|]. destruct t as [n|s|es]; try reflexivity.
  destruct p; reflexivity.
Qed.

(* completeness on the tree: nothing at or beneath a deleted path is left *)
Lemma get_del_under p : forall t x, p <> [] -> get (del t p) (p ++ x) = None.
Proof.
  induction p as [|c p IH]; intros t x Hp; [contradiction|].
  destruct t as [n|s|es]; try reflexivity.
  destruct p as [|d p'].
  - rewrite del_single. cbn [app get]. rewrite assoc_remove_same. reflexivity.
  - rewrite del_cons by discriminate. cbn [app get]. rewrite assoc_upd_same.
    destruct (assoc c es) as [t'|]; cbn [option_map]; [|reflexivity].
    apply (IH t' x). discriminate.
Qed.

(* frame on the tree: a path that is neither beneath the deleted one nor one of its ancestors keeps its whole subtree *)
Lemma get_del_frame_full p : forall t q,
  comp_prefix p q = false -> comp_prefix q p = false -> get (del t p) q = get t q.
Proof.
  induction p as [|c p IH]; intros t q H1 H2; [discriminate|].
  destruct q as [|d q]; [discriminate|].
  destruct t as [n|s|es]; try reflexivity.
  cbn [comp_prefix] in H1, H2.
  destruct (bytes_eqb c d) eqn:E.
  - apply bytes_eqb_eq in E. subst d. rewrite bytes_eqb_refl in H2. cbn [andb] in H1, H2.
    destruct p as [|e p']; [discriminate|].
    rewrite del_cons by discriminate. cbn [get]. rewrite assoc_upd_same.
    destruct (assoc c es) as [t'|]; cbn [option_map]; [|reflexivity]. apply IH; assumption.
  - apply bytes_eqb_neq in E.
    destruct p as [|e p'].
    + rewrite del_single. cbn [get]. rewrite assoc_remove_other by exact E. reflexivity.
    + rewrite del_cons by discriminate. cbn [get]. rewrite assoc_upd_other by exact E. reflexivity.
Qed.

(* frame on the tree, ancestors included: what lstat reports of a path not beneath the deleted one is unchanged *)
Lemma get_del_frame_shallow p : forall t q,
  comp_prefix p q = false -> option_map shallow (get (del t p) q) = option_map shallow (get t q).
Proof.
  induction p as [|c p IH]; intros t q H1; [discriminate|].
  destruct q as [|d q].
  - cbn [get option_map]. rewrite shallow_del by discriminate. reflexivity.
  - destruct t as [n|s|es]; try reflexivity.
    cbn [comp_prefix] in H1.
    destruct (bytes_eqb c d) eqn:E.
    + apply bytes_eqb_eq in E. subst d. cbn [andb] in H1.
      destruct p as [|e p']; [discriminate|].
      rewrite del_cons by discriminate. cbn [get]. rewrite assoc_upd_same.
      destruct (assoc c es) as [t'|]; cbn [option_map]; [|reflexivity]. apply IH; assumption.
    + apply bytes_eqb_neq in E.
      destruct p as [|e p'].
      * rewrite del_single. cbn [get]. rewrite assoc_remove_other by exact E. reflexivity.
      * rewrite del_cons by discriminate. cbn [get]. rewrite assoc_upd_other by exact E. reflexivity.
Qed.

(* deleting something beneath p and then p is deleting p *)
Lemma del_del_under p : forall t x, p <> [] -> del (del t (p ++ x)) p = del t p.
Proof.
  induction p as [|c p IH]; intros t x Hp; [contradiction|].
  destruct t as [n|s|es].
  - rewrite (del_nondir (File n)) by reflexivity. reflexivity.
  - rewrite (del_nondir (Link s)) by reflexivity. reflexivity.
  - destruct p as [|d p'].
    + cbn [app]. destruct x as [|y x'].
      * rewrite !del_single. rewrite remove_remove. reflexivity.
      * rewrite (del_cons es c (y :: x')) by discriminate. rewrite !del_single, remove_upd. reflexivity.
    + change ((c :: d :: p') ++ x) with (c :: (d :: p') ++ x).
      rewrite (del_cons es c ((d :: p') ++ x)) by discriminate.
      rewrite !(del_cons _ c (d :: p')) by discriminate.
      rewrite upd_upd. f_equal. apply upd_ext. intros t'. apply IH. discriminate.
Qed.

(* after the entry n of directory d has been deleted, d holds the other entries *)
Lemma get_del_parent d : forall t n es,
  get t d = Some (Dir es) -> get (del t (d ++ [n])) d = Some (Dir (remove_entry n es)).
Proof.
  induction d as [|c d IH]; intros t n es H.
  - cbn [get] in H. inversion H. subst t. reflexivity.
  - cbn [get] in H. destruct t as [k|s|es0]; try discriminate.
    destruct (assoc c es0) as [t'|] eqn:E; [|discriminate].
    change ((c :: d) ++ [n]) with (c :: d ++ [n]).
    rewrite del_cons by (destruct d; discriminate).
    cbn [get]. rewrite assoc_upd_same, E. cbn [option_map]. apply IH. exact H.
Qed.

(* ---------- well-formedness and height ---------- *)

Definition wfl (l : list (bytes * node)) : bool := forallb (fun e => name_ok (fst e) && wf (snd e)) l.

Lemma wf_Dir es : wf (Dir es) = distinct (map fst es) && wfl es.
Proof.
  cbn [wf]. f_equal. induction es as [|[k v] es IH]; [reflexivity|].
  cbn [wfl forallb fst snd]. rewrite IH. reflexivity.
Qed.

Definition hmax (l : list (bytes * node)) : nat := fold_right (fun e m => Nat.max (height (snd e)) m) O l.

Lemma height_Dir es : height (Dir es) = S (hmax es).
Proof.
  cbn [height]. f_equal. induction es as [|[k v] es IH]; [reflexivity|].
  cbn [hmax fold_right snd]. rewrite IH. reflexivity.
Qed.

Lemma height_child n x es : In (n, x) es -> (height x < height (Dir es))%nat.
Proof.
  rewrite height_Dir. induction es as [|[k v] es IH]; intros H; [contradiction|].
  cbn [hmax fold_right snd]. destruct H as [H|H].
  - inversion H. subst. lia.
  - specialize (IH H). fold (hmax es). lia.
Qed.

Lemma assoc_In c es x : assoc c es = Some x -> In (c, x) es.
Proof.
  induction es as [|[k v] es IH]; cbn [assoc]; [discriminate|].
  destruct (bytes_eqb k c) eqn:E.
  - apply bytes_eqb_eq in E. subst k. intros H. inversion H. left. reflexivity.
  - intros H. right. exact (IH H).
Qed.

Lemma height_get p : forall t x, get t p = Some x -> (height x <= height t)%nat.
Proof.
  induction p as [|c p IH]; intros t x H; cbn [get] in H.
  - inversion H. lia.
  - destruct t as [n|s|es]; try discriminate. destruct (assoc c es) as [t'|] eqn:E; [|discriminate].
    specialize (IH t' x H). pose proof (height_child c t' es (assoc_In c es t' E)). lia.
Qed.

Lemma wfl_In es k v : wfl es = true -> In (k, v) es -> name_ok k = true /\ wf v = true.
Proof.
  unfold wfl. rewrite forallb_forall. intros H Hin. specialize (H (k, v) Hin). cbn [fst snd] in H.
  apply andb_true_iff in H. exact H.
Qed.

Lemma wf_assoc es c x : wf (Dir es) = true -> assoc c es = Some x -> name_ok c = true /\ wf x = true.
Proof.
  rewrite wf_Dir, andb_true_iff. intros [_ H] E. exact (wfl_In es c x H (assoc_In c es x E)).
Qed.

Lemma wf_get p : forall t x, wf t = true -> get t p = Some x -> wf x = true.
Proof.
  induction p as [|c p IH]; intros t x Hw H; cbn [get] in H.
  - inversion H. subst. exact Hw.
  - destruct t as [n|s|es]; try discriminate. destruct (assoc c es) as [t'|] eqn:E; [|discriminate].
    destruct (wf_assoc es c t' Hw E) as [_ Hw']. exact (IH t' x Hw' H).
Qed.

Lemma wf_cons n x es :
  wf (Dir ((n, x) :: es)) = true ->
  name_ok n = true /\ mem_bytes n (map fst es) = false /\ wf x = true /\ wf (Dir es) = true.
Proof.
  rewrite !wf_Dir. cbn [map fst distinct wfl forallb snd]. fold (wfl es).
  rewrite !andb_true_iff, negb_true_iff. intros [[H1 H2] [[H3 H4] H5]]. auto.
Qed.

Lemma mem_remove x c es :
  mem_bytes x (map fst (remove_entry c es)) = true -> mem_bytes x (map fst es) = true.
Proof.
  induction es as [|[k v] es IH]; cbn [remove_entry map fst mem_bytes]; [discriminate|].
  destruct (bytes_eqb k c).
  - intros H. rewrite (IH H). apply orb_true_r.
  - cbn [map fst mem_bytes]. intros H. apply orb_true_iff in H. destruct H as [H|H].
    + rewrite H. reflexivity.
    + rewrite (IH H). apply orb_true_r.
Qed.

Lemma distinct_remove c es : distinct (map fst es) = true -> distinct (map fst (remove_entry c es)) = true.
Proof.
  induction es as [|[k v] es IH]; cbn [remove_entry map fst distinct]; [reflexivity|].
  intros H. apply andb_true_iff in H. destruct H as [H1 H2].
  destruct (bytes_eqb k c); [exact (IH H2)|].
  cbn [map fst distinct]. rewrite (IH H2), andb_true_r.
  apply negb_true_iff. apply negb_true_iff in H1.
  destruct (mem_bytes k (map fst (remove_entry c es))) eqn:E; [|reflexivity].
  apply mem_remove in E. congruence.
Qed.

Lemma wfl_remove c es : wfl es = true -> wfl (remove_entry c es) = true.
Proof.
  unfold wfl. induction es as [|[k v] es IH]; cbn [remove_entry forallb]; [reflexivity|].
  intros H. apply andb_true_iff in H. destruct H as [H1 H2].
  destruct (bytes_eqb k c); [exact (IH H2)|]. cbn [forallb]. rewrite H1, (IH H2). reflexivity.
Qed.

Lemma wfl_upd c f es : (forall v, wf v = true -> wf (f v) = true) -> wfl es = true -> wfl (upd_entry c f es) = true.
Proof.
  intros Hf. unfold wfl. induction es as [|[k v] es IH]; cbn [upd_entry forallb]; [reflexivity|].
  intros H. apply andb_true_iff in H. destruct H as [H1 H2]. cbn [fst snd] in H1.
  apply andb_true_iff in H1. destruct H1 as [Hk Hv].
  destruct (bytes_eqb k c); cbn [forallb fst snd].
  - rewrite Hk, (Hf v Hv), H2. reflexivity.
  - rewrite Hk, Hv, (IH H2). reflexivity.
Qed.

(* deletion keeps a tree well-formed *)
Lemma wf_del p : forall t, wf t = true -> wf (del t p) = true.
Proof.
  induction p as [|c p IH]; intros t H; [exact H|].
  destruct t as [n|s|es]; try exact H.
  rewrite wf_Dir in H. apply andb_true_iff in H. destruct H as [H1 H2].
  destruct p as [|d p'].
  - rewrite del_single, wf_Dir, (distinct_remove c es H1), (wfl_remove c es H2). reflexivity.
  - rewrite del_cons by discriminate. rewrite wf_Dir, upd_names, H1. cbn [andb].
    apply wfl_upd; [|exact H2]. intros v Hv. apply IH. exact Hv.
Qed.

(* deletion creates no link on the way *)
Lemma nolink_del cs : forall t p, nolink t cs = true -> nolink (del t p) cs = true.
Proof.
  induction cs as [|c cs IH]; intros t p H; [reflexivity|].
  destruct p as [|d p]; [exact H|].
  destruct t as [n|s|es]; try exact H.
  cbn [nolink] in H.
  destruct (bytes_eqb d c) eqn:E.
  - apply bytes_eqb_eq in E. subst d. destruct p as [|e p'].
    + rewrite del_single. cbn [nolink]. rewrite assoc_remove_same. reflexivity.
    + rewrite del_cons by discriminate. cbn [nolink]. rewrite assoc_upd_same.
      destruct (assoc c es) as [t'|]; cbn [option_map]; [|reflexivity].
      destruct t' as [k|s|es'].
      * rewrite (del_nondir (File k)) by reflexivity. exact H.
      * discriminate.
      * specialize (IH (Dir es') (e :: p') H). destruct (del (Dir es') (e :: p')) eqn:Ed; try exact IH.
        pose proof (shallow_del (Dir es') (e :: p')) as Hs. rewrite Ed in Hs. cbn in Hs. discriminate Hs. discriminate.
  - apply bytes_eqb_neq in E. destruct p as [|e p'].
    + rewrite del_single. cbn [nolink]. rewrite assoc_remove_other by exact E. exact H.
    + rewrite del_cons by discriminate. cbn [nolink]. rewrite assoc_upd_other by exact E. exact H.
Qed.

(* ---------- path resolution ---------- *)

Lemma walk_nil lk fs fl cwd : walk lk fs fl cwd [] = WOk cwd.
Proof. destruct lk; reflexivity. Qed.

Lemma walk_cons lk fs fl cwd c rest :
  walk lk fs fl cwd (c :: rest) =
    if is_dot c then walk lk fs fl cwd rest
    else if is_dotdot c then walk lk fs fl (removelast cwd) rest
    else match get fs cwd with
         | Some (Dir es) =>
           match assoc c es with
           | None => WErr ENOENT
           | Some (Dir _) => walk lk fs fl (cwd ++ [c]) rest
           | Some (File _) => match rest with [] => WOk (cwd ++ [c]) | _ => WErr ENOTDIR end
           | Some (Link t) =>
             if last_nofollow rest fl then WOk (cwd ++ [c])
             else match lk with
                  | O => WErr ELOOP
                  | S lk' => walk lk' fs fl (if absolute t then [] else cwd) (tcomps t ++ rest)
                  end
           end
         | _ => WErr ENOTDIR
         end.
Proof. destruct lk; reflexivity. Qed.

Lemma name_ok_nodots c : name_ok c = true -> is_dot c = false /\ is_dotdot c = false.
Proof.
  unfold name_ok, is_dots. rewrite andb_true_iff, negb_true_iff, orb_false_iff. intros [_ H]. exact H.
Qed.

(* one step through a real directory *)
Lemma walk_step lk fs fl cwd c rest es :
  name_ok c = true -> get fs cwd = Some (Dir es) ->
  walk lk fs fl cwd (c :: rest) =
    match assoc c es with
    | None => WErr ENOENT
    | Some (Dir _) => walk lk fs fl (cwd ++ [c]) rest
    | Some (File _) => match rest with [] => WOk (cwd ++ [c]) | _ => WErr ENOTDIR end
    | Some (Link t) =>
      if last_nofollow rest fl then WOk (cwd ++ [c])
      else match lk with
           | O => WErr ELOOP
           | S lk' => walk lk' fs fl (if absolute t then [] else cwd) (tcomps t ++ rest)
           end
    end.
Proof.
  intros Hn Hg. rewrite walk_cons. destruct (name_ok_nodots c Hn) as [-> ->]. rewrite Hg. reflexivity.
Qed.

(* walking along real directories: the canonical path is the lexical one *)
Lemma walk_through lk fs fl cs : forall cwd t es rest,
  get fs cwd = Some t -> get t cs = Some (Dir es) -> plain_comps cs = true ->
  walk lk fs fl cwd (cs ++ rest) = walk lk fs fl (cwd ++ cs) rest.
Proof.
  induction cs as [|c cs IH]; intros cwd t es rest Hc Ht Hp.
  - rewrite app_nil_r. reflexivity.
  - cbn [plain_comps forallb] in Hp. apply andb_true_iff in Hp. destruct Hp as [Hn Hp].
    cbn [get] in Ht. destruct t as [n|s|es0]; try discriminate.
    destruct (assoc c es0) as [t'|] eqn:E; [|discriminate].
    cbn [app]. rewrite (walk_step lk fs fl cwd c (cs ++ rest) es0 Hn Hc), E.
    assert (Hd : exists es', t' = Dir es').
    { destruct t' as [n|s|es']; [destruct cs; discriminate | destruct cs; discriminate | exists es'; reflexivity]. }
    destruct Hd as [es' ->].
    replace (cwd ++ c :: cs) with ((cwd ++ [c]) ++ cs) by (rewrite <- app_assoc; reflexivity).
    apply (IH (cwd ++ [c]) (Dir es') es rest); [|exact Ht|exact Hp].
    rewrite (get_snoc fs cwd c es0 Hc). exact E.
Qed.

(* the only errors of a resolution *)
Lemma walk_err_kinds fs : forall lk fl rest cwd e,
  walk lk fs fl cwd rest = WErr e -> e = ENOENT \/ e = ENOTDIR \/ e = ELOOP.
Proof.
  induction lk as [|lk IHlk]; intros fl rest; induction rest as [|c rest IHr]; intros cwd e H;
    try (rewrite walk_nil in H; discriminate); rewrite walk_cons in H.
  - destruct (is_dot c); [exact (IHr _ _ H)|]. destruct (is_dotdot c); [exact (IHr _ _ H)|].
    destruct (get fs cwd) as [[n|s|es]|]; try (inversion H; auto; fail).
    destruct (assoc c es) as [[n|s|es']|]; try (inversion H; auto; fail).
    + destruct rest; inversion H; auto.
    + destruct (last_nofollow rest fl); inversion H; auto.
    + exact (IHr _ _ H).
  - destruct (is_dot c); [exact (IHr _ _ H)|]. destruct (is_dotdot c); [exact (IHr _ _ H)|].
    destruct (get fs cwd) as [[n|s|es]|]; try (inversion H; auto; fail).
    destruct (assoc c es) as [[n|s|es']|]; try (inversion H; auto; fail).
    + destruct rest; inversion H; auto.
    + destruct (last_nofollow rest fl); [discriminate | exact (IHlk _ _ _ _ H)].
    + exact (IHr _ _ H).
Qed.

(* without a link on the way a successful resolution ends at the lexical path *)
Lemma walk_nolink lk fs fl cs : forall cwd t d,
  get fs cwd = Some t -> plain_comps cs = true -> nolink t cs = true ->
  walk lk fs fl cwd cs = WOk d -> d = cwd ++ cs /\ exists x, get t cs = Some x.
Proof.
  induction cs as [|c cs IH]; intros cwd t d Hc Hp Hn H.
  - rewrite walk_nil in H. inversion H. rewrite app_nil_r. split; [reflexivity | exists t; reflexivity].
  - cbn [plain_comps forallb] in Hp. apply andb_true_iff in Hp. destruct Hp as [Hk Hp].
    rewrite walk_cons in H. destruct (name_ok_nodots c Hk) as [E1 E2]. rewrite E1, E2, Hc in H.
    destruct t as [n|s|es]; try discriminate.
    cbn [nolink] in Hn. cbn [get].
    destruct (assoc c es) as [t'|] eqn:E; [|discriminate].
    destruct t' as [n|s|es'].
    + destruct cs; [|discriminate]. inversion H. split; [reflexivity | exists (File n); reflexivity].
    + discriminate.
    + assert (Hc' : get fs (cwd ++ [c]) = Some (Dir es')) by (rewrite (get_snoc fs cwd c es Hc); exact E).
      destruct (IH (cwd ++ [c]) (Dir es') d Hc' Hp Hn H) as [Hd Hx].
      split; [rewrite Hd, <- app_assoc; reflexivity | exact Hx].
Qed.

(* ---------- the system calls on an entry of a real directory reached along real directories ---------- *)

Section AtRealDir.
  Variable fs : node.
  Variable P : list bytes.
  Variable pes : list (bytes * node).
  Variable c : bytes.
  Hypothesis Hg : get fs P = Some (Dir pes).
  Hypothesis Hp : plain_comps P = true.
  Hypothesis Hn : name_ok c = true.

  Lemma walk_to lk fl rest : walk lk fs fl [] (P ++ rest) = walk lk fs fl P rest.
  Proof. apply (walk_through lk fs fl P [] fs pes rest); [reflexivity | exact Hg | exact Hp]. Qed.

  Lemma is_dot_dot : is_dot [46] = true.
  Proof. reflexivity. Qed.

  Lemma get_at : get fs (P ++ [c]) = assoc c pes.
  Proof. exact (get_snoc fs P c pes Hg). Qed.

  Lemma lstat_at_false :
    sys_lstat fs (P ++ [c]) false = match assoc c pes with None => inl ENOENT | Some x => inr (shallow x) end.
  Proof.
    unfold sys_lstat. cbn [dotif]. rewrite app_nil_r, walk_to, (walk_step _ fs false P c [] pes Hn Hg).
    destruct (assoc c pes) as [x|] eqn:E; [|reflexivity].
    destruct x as [n|s|es]; cbn [last_nofollow negb]; rewrite ?walk_nil, get_at, E; reflexivity.
  Qed.

  Lemma lstat_at_dir es trail : assoc c pes = Some (Dir es) -> sys_lstat fs (P ++ [c]) trail = inr KDir.
  Proof.
    intros E. unfold sys_lstat. rewrite <- app_assoc, walk_to. cbn [app].
    rewrite (walk_step _ fs false P c (dotif trail) pes Hn Hg), E.
    destruct trail; cbn [dotif].
    - rewrite walk_cons, is_dot_dot, walk_nil, get_at, E. reflexivity.
    - rewrite walk_nil, get_at, E. reflexivity.
  Qed.

  Lemma walk_parent : walk maxlinks fs true [] P = WOk P.
  Proof. rewrite <- (app_nil_r P) at 1. rewrite walk_to. apply walk_nil. Qed.

  Lemma snoc_not_nil : P ++ [c] <> [].
  Proof. destruct P; discriminate. Qed.

  Lemma unlink_at trail :
    sys_unlink fs (P ++ [c]) trail =
      match assoc c pes with
      | None => (fs, Some ENOENT)
      | Some (Dir _) => (fs, Some EISDIR)
      | Some _ => if trail then (fs, Some ENOTDIR) else (del fs (P ++ [c]), None)
      end.
  Proof.
    unfold sys_unlink. destruct (P ++ [c]) as [|a l] eqn:E0; [exfalso; exact (snoc_not_nil E0)|]. rewrite <- E0.
    rewrite removelast_last, last_last, walk_parent, Hg.
    unfold is_dots. destruct (name_ok_nodots c Hn) as [-> ->]. reflexivity.
  Qed.

  Lemma rmdir_at :
    sys_rmdir fs (P ++ [c]) =
      match assoc c pes with
      | None => (fs, Some ENOENT)
      | Some (Dir []) => (del fs (P ++ [c]), None)
      | Some (Dir _) => (fs, Some ENOTEMPTY)
      | Some _ => (fs, Some ENOTDIR)
      end.
  Proof.
    unfold sys_rmdir. destruct (P ++ [c]) as [|a l] eqn:E0; [exfalso; exact (snoc_not_nil E0)|]. rewrite <- E0.
    rewrite removelast_last, last_last, walk_parent, Hg.
    destruct (name_ok_nodots c Hn) as [-> ->]. reflexivity.
  Qed.
End AtRealDir.

Lemma readdir_at fs D es :
  get fs D = Some (Dir es) -> plain_comps D = true -> sys_readdir fs D = inr (map fst es).
Proof.
  intros Hg Hp. unfold sys_readdir. rewrite (walk_parent fs D es Hg Hp), Hg. reflexivity.
Qed.

Lemma llvm_remove_nondir fs P pes c x :
  get fs P = Some (Dir pes) -> plain_comps P = true -> name_ok c = true ->
  assoc c pes = Some x -> is_dir x = false ->
  llvm_remove fs (P ++ [c]) false = (del fs (P ++ [c]), None).
Proof.
  intros Hg Hp Hn E Hx. unfold llvm_remove, libc_remove.
  rewrite (lstat_at_false fs P pes c Hg Hp Hn), E, (unlink_at fs P pes c Hg Hp Hn), E.
  destruct x; [reflexivity | reflexivity | discriminate].
Qed.

Lemma llvm_remove_emptydir fs P pes c trail :
  get fs P = Some (Dir pes) -> plain_comps P = true -> name_ok c = true ->
  assoc c pes = Some (Dir []) ->
  llvm_remove fs (P ++ [c]) trail = (del fs (P ++ [c]), None).
Proof.
  intros Hg Hp Hn E. unfold llvm_remove, libc_remove.
  rewrite (lstat_at_dir fs P pes c Hg Hp Hn [] trail E), (unlink_at fs P pes c Hg Hp Hn), E.
  rewrite (rmdir_at fs P pes c Hg Hp Hn), E. reflexivity.
Qed.

Lemma plain_snoc D n : plain_comps D = true -> name_ok n = true -> plain_comps (D ++ [n]) = true.
Proof.
  unfold plain_comps. intros H1 H2. rewrite forallb_app, H1. cbn [forallb]. rewrite H2. reflexivity.
Qed.

(* ---------- the recursive removal of a directory reached along real directories ---------- *)

(* the loop over the entries: every entry is removed (given that the recursive call removes sub-directories) *)
Lemma rm_loop_spec (rec : node -> list bytes -> node * result) D f :
  plain_comps D = true ->
  (forall fs' n ces, name_ok n = true -> get fs' (D ++ [n]) = Some (Dir ces) -> wf (Dir ces) = true ->
                     (height (Dir ces) <= f)%nat -> rec fs' (D ++ [n]) = (del fs' (D ++ [n]), None)) ->
  forall es fs,
    get fs D = Some (Dir es) -> wf (Dir es) = true ->
    (forall n x, In (n, x) es -> (height x <= f)%nat) ->
    exists fs', rm_loop rec fs D (map fst es) = (fs', None) /\ get fs' D = Some (Dir []) /\
                (D <> [] -> del fs' D = del fs D).
Proof.
  intros Hp Hrec. induction es as [|[n x] es IH]; intros fs Hg Hw Hh.
  - exists fs. split; [reflexivity | split; [exact Hg | reflexivity]].
  - destruct (wf_cons n x es Hw) as [Hn [Hnot [Hwx Hwes]]].
    cbn [map fst rm_loop].
    assert (E : assoc n ((n, x) :: es) = Some x) by (cbn [assoc]; rewrite bytes_eqb_refl; reflexivity).
    rewrite (lstat_at_false fs D _ n Hg Hp Hn), E.
    assert (Hstep : (match shallow x with
                     | KDir => rec fs (D ++ [n])
                     | _ => llvm_remove fs (D ++ [n]) false
                     end) = (del fs (D ++ [n]), None)).
    { destruct x as [k|s|ces]; cbn [shallow].
      - apply (llvm_remove_nondir fs D _ n (File k) Hg Hp Hn E). reflexivity.
      - apply (llvm_remove_nondir fs D _ n (Link s) Hg Hp Hn E). reflexivity.
      - apply (Hrec fs n ces Hn); [rewrite (get_snoc fs D n _ Hg); exact E | exact Hwx |].
        apply (Hh n (Dir ces)). left. reflexivity. }
    rewrite Hstep.
    assert (Hg1 : get (del fs (D ++ [n])) D = Some (Dir es)).
    { rewrite (get_del_parent D fs n _ Hg). cbn [remove_entry]. rewrite bytes_eqb_refl.
      rewrite (remove_notin n es Hnot). reflexivity. }
    destruct (IH (del fs (D ++ [n])) Hg1 Hwes (fun m y Hin => Hh m y (or_intror Hin))) as [fs' [H1 [H2 H3]]].
    exists fs'. split; [exact H1 | split; [exact H2|]].
    intros Hne. rewrite (H3 Hne). apply del_del_under. exact Hne.
Qed.

(* _remove_all_r on a directory reached along real directories removes exactly that directory *)
Lemma rm_tree_r_spec : forall fuel fs P c es trail,
  plain_comps P = true -> name_ok c = true ->
  get fs (P ++ [c]) = Some (Dir es) -> wf (Dir es) = true -> (height (Dir es) <= fuel)%nat ->
  rm_tree_r fuel fs (P ++ [c]) trail = (del fs (P ++ [c]), None).
Proof.
  induction fuel as [|f IH]; intros fs P c es trail Hp Hn Hg Hw Hh.
  - rewrite height_Dir in Hh. lia.
  - cbn [rm_tree_r].
    pose proof (plain_snoc P c Hp Hn) as HpD.
    rewrite (readdir_at fs (P ++ [c]) es Hg HpD).
    assert (Hrec : forall fs' n ces, name_ok n = true -> get fs' ((P ++ [c]) ++ [n]) = Some (Dir ces) ->
                     wf (Dir ces) = true -> (height (Dir ces) <= f)%nat ->
                     (fun fs'' p => rm_tree_r f fs'' p false) fs' ((P ++ [c]) ++ [n]) = (del fs' ((P ++ [c]) ++ [n]), None)).
    { intros fs' n ces Hn' Hg' Hw' Hh'. apply (IH fs' (P ++ [c]) n ces false HpD Hn' Hg' Hw' Hh'). }
    assert (Hch : forall n x, In (n, x) es -> (height x <= f)%nat).
    { intros n x Hin. pose proof (height_child n x es Hin). lia. }
    destruct (rm_loop_spec _ (P ++ [c]) f HpD Hrec es fs Hg Hw Hch) as [fs' [H1 [H2 H3]]].
    rewrite H1.
    destruct (get_snoc_inv fs' P c (Dir []) H2) as [pes [Hgp Ea]].
    rewrite (llvm_remove_emptydir fs' P pes c trail Hgp Hp Hn Ea).
    rewrite H3; [reflexivity | destruct P; discriminate].
Qed.

(* ---------- LocalFileSystem::remove on a path without a link on the way ---------- *)

Lemma unlink_fail fs P c trail :
  (forall pes, get fs P <> Some (Dir pes)) -> plain_comps P = true -> nolink fs P = true ->
  exists e, sys_unlink fs (P ++ [c]) trail = (fs, Some e) /\ (errno_eqb e EPERM || errno_eqb e EISDIR) = false.
Proof.
  intros Hnd Hp Hl. unfold sys_unlink.
  destruct (P ++ [c]) as [|a l] eqn:E0; [destruct P; discriminate|]. rewrite <- E0.
  rewrite removelast_last, last_last.
  destruct (walk maxlinks fs true [] P) as [d|e] eqn:W.
  - destruct (walk_nolink maxlinks fs true P [] fs d eq_refl Hp Hl W) as [Hd [x Hx]].
    cbn [app] in Hd. subst d. rewrite Hx.
    destruct x as [n|s|es]; [| |exfalso; exact (Hnd es Hx)]; exists ENOTDIR; split; reflexivity.
  - exists e. split; [reflexivity|].
    destruct (walk_err_kinds fs _ _ _ _ _ W) as [->|[->| ->]]; reflexivity.
Qed.

Definition outcome (r : node * result) : node * bool := (fst r, succeeded (snd r)).

Lemma plain_app_inv a b : plain_comps (a ++ b) = true -> plain_comps a = true /\ plain_comps b = true.
Proof. unfold plain_comps. rewrite forallb_app, andb_true_iff. auto. Qed.

Theorem remove_nolink_spec fs cs trail :
  wf fs = true -> cs <> [] -> plain_comps cs = true -> no_link_on_the_way fs cs = true ->
  outcome (remove fs cs trail) = remove_spec fs cs trail.
Proof.
  intros Hw Hne Hp Hl. unfold no_link_on_the_way in Hl.
  destruct (exists_last Hne) as [P [c ->]]. clear Hne. rewrite removelast_last in Hl.
  destruct (plain_app_inv P [c] Hp) as [HpP Hc]. cbn [plain_comps forallb] in Hc. rewrite andb_true_r in Hc.
  unfold remove_spec, remove.
  destruct (get fs P) as [[n|s|pes]|] eqn:Hg.
  4: { destruct (unlink_fail fs P c trail) as [e [-> He]]; [intros pes; congruence | exact HpP | exact Hl |].
       rewrite He. cbn [negb]. rewrite get_app, Hg. reflexivity. }
  1, 2: destruct (unlink_fail fs P c trail) as [e [-> He]]; [intros pes; congruence | exact HpP | exact Hl |];
        rewrite He; cbn [negb]; rewrite get_app, Hg; reflexivity.
  rewrite (unlink_at fs P pes c Hg HpP Hc), (get_at fs P pes c Hg).
  destruct (assoc c pes) as [x|] eqn:E; [|reflexivity].
  destruct x as [n|s|es].
  - destruct trail; reflexivity.
  - destruct trail; reflexivity.
  - cbn [errno_eqb orb negb]. rewrite (lstat_at_dir fs P pes c Hg HpP Hc es trail E).
    rewrite (rmdir_at fs P pes c Hg HpP Hc), E.
    destruct es as [|e0 es']; [reflexivity|].
    assert (Hgd : get fs (P ++ [c]) = Some (Dir (e0 :: es'))) by (rewrite (get_at fs P pes c Hg); exact E).
    rewrite (rm_tree_r_spec (height fs) fs P c (e0 :: es') trail HpP Hc Hgd).
    + reflexivity.
    + exact (wf_get _ fs _ Hw Hgd).
    + exact (height_get _ fs _ Hgd).
Qed.

(* ---------- the statements about one call ---------- *)

Lemma remove_spec_removable fs cs trail :
  remove_spec fs cs trail = if removable_at fs cs trail then (del fs cs, true) else (fs, false).
Proof.
  unfold remove_spec, removable_at. destruct (get fs cs) as [[n|s|es]|]; try reflexivity; destruct trail; reflexivity.
Qed.

Lemma remove_nolink_fst fs cs trail :
  wf fs = true -> cs <> [] -> plain_comps cs = true -> no_link_on_the_way fs cs = true ->
  fst (remove fs cs trail) = if removable_at fs cs trail then del fs cs else fs.
Proof.
  intros Hw Hne Hp Hl. pose proof (remove_nolink_spec fs cs trail Hw Hne Hp Hl) as H.
  rewrite remove_spec_removable in H. unfold outcome in H.
  destruct (removable_at fs cs trail); exact (f_equal fst H).
Qed.

Lemma remove_nolink_snd fs cs trail :
  wf fs = true -> cs <> [] -> plain_comps cs = true -> no_link_on_the_way fs cs = true ->
  succeeded (snd (remove fs cs trail)) = removable_at fs cs trail.
Proof.
  intros Hw Hne Hp Hl. pose proof (remove_nolink_spec fs cs trail Hw Hne Hp Hl) as H.
  rewrite remove_spec_removable in H. unfold outcome in H.
  destruct (removable_at fs cs trail); exact (f_equal snd H).
Qed.

(* frame: what lstat reports of any canonical path that is not beneath the removed one is unchanged *)
Theorem remove_frame fs cs trail q :
  wf fs = true -> cs <> [] -> plain_comps cs = true -> no_link_on_the_way fs cs = true ->
  comp_prefix cs q = false ->
  option_map shallow (get (fst (remove fs cs trail)) q) = option_map shallow (get fs q).
Proof.
  intros Hw Hne Hp Hl Hq. rewrite (remove_nolink_fst fs cs trail Hw Hne Hp Hl).
  destruct (removable_at fs cs trail); [apply get_del_frame_shallow; exact Hq | reflexivity].
Qed.

(* frame, whole subtrees: a path that is neither beneath the removed one nor one of its ancestors keeps everything *)
Theorem remove_frame_subtree fs cs trail q :
  wf fs = true -> cs <> [] -> plain_comps cs = true -> no_link_on_the_way fs cs = true ->
  comp_prefix cs q = false -> comp_prefix q cs = false ->
  get (fst (remove fs cs trail)) q = get fs q.
Proof.
  intros Hw Hne Hp Hl Hq Hq'. rewrite (remove_nolink_fst fs cs trail Hw Hne Hp Hl).
  destruct (removable_at fs cs trail); [apply get_del_frame_full; assumption | reflexivity].
Qed.

(* completeness: after a successful call nothing at or beneath the path is left *)
Theorem remove_complete fs cs trail x :
  wf fs = true -> cs <> [] -> plain_comps cs = true -> no_link_on_the_way fs cs = true ->
  snd (remove fs cs trail) = None ->
  get (fst (remove fs cs trail)) (cs ++ x) = None.
Proof.
  intros Hw Hne Hp Hl Hs. pose proof (remove_nolink_snd fs cs trail Hw Hne Hp Hl) as H.
  rewrite Hs in H. cbn [succeeded] in H.
  rewrite (remove_nolink_fst fs cs trail Hw Hne Hp Hl), <- H. apply get_del_under. exact Hne.
Qed.

(* a failing call leaves the tree as it was *)
Theorem remove_error_unchanged fs cs trail e :
  wf fs = true -> cs <> [] -> plain_comps cs = true -> no_link_on_the_way fs cs = true ->
  snd (remove fs cs trail) = Some e ->
  fst (remove fs cs trail) = fs.
Proof.
  intros Hw Hne Hp Hl Hs. pose proof (remove_nolink_snd fs cs trail Hw Hne Hp Hl) as H.
  rewrite Hs in H. cbn [succeeded] in H.
  rewrite (remove_nolink_fst fs cs trail Hw Hne Hp Hl), <- H. reflexivity.
Qed.

(* the call succeeds exactly when the path names a directory, or a file or link spelled without trailing separator *)
Theorem remove_succeeds_iff fs cs trail :
  wf fs = true -> cs <> [] -> plain_comps cs = true -> no_link_on_the_way fs cs = true ->
  (snd (remove fs cs trail) = None <-> removable_at fs cs trail = true).
Proof.
  intros Hw Hne Hp Hl. rewrite <- (remove_nolink_snd fs cs trail Hw Hne Hp Hl).
  destruct (snd (remove fs cs trail)); cbn [succeeded]; split; congruence.
Qed.

Lemma remove_path_unfold fs s : comps s <> [] -> remove_path fs s = remove fs (comps s) (trail_of s).
Proof. destruct s; [intros H; exfalso; apply H; reflexivity | reflexivity]. Qed.

(* ---------- the loop of StaleFileRemovalCommand::execute ---------- *)

(* the current tree [fs] is the original [fs0] without what the paths processed so far cover *)
Definition stale_inv (fs0 : node) (processed : list bytes) (fs : node) : Prop :=
  forall q, option_map shallow (get fs q) =
            if covered fs0 processed q then None else option_map shallow (get fs0 q).

Lemma covered_app fs ds1 ds2 q : covered fs (ds1 ++ ds2) q = covered fs ds1 q || covered fs ds2 q.
Proof. unfold covered. apply existsb_app. Qed.

Lemma covered_mono fs ds p q : covered fs ds p = true -> comp_prefix p q = true -> covered fs ds q = true.
Proof.
  unfold covered. rewrite !existsb_exists. intros [d [Hin Hd]] Hpq. exists d. split; [exact Hin|].
  apply andb_true_iff in Hd. destruct Hd as [H1 H2]. rewrite H1. cbn [andb].
  exact (comp_prefix_trans _ _ _ H2 Hpq).
Qed.

Lemma removable_shallow a b cs t :
  option_map shallow (get a cs) = option_map shallow (get b cs) -> removable_at a cs t = removable_at b cs t.
Proof.
  unfold removable_at. destruct (get a cs) as [[n|s|es]|]; destruct (get b cs) as [[n'|s'|es']|];
    cbn [option_map shallow]; intros H; try discriminate; reflexivity.
Qed.

Lemma stale_step fs0 processed fs d :
  wf fs = true -> comps d <> [] -> plain_comps (comps d) = true -> no_link_on_the_way fs (comps d) = true ->
  stale_inv fs0 processed fs -> stale_inv fs0 (processed ++ [d]) (fst (remove_path fs d)).
Proof.
  intros Hw Hne Hp Hl Inv q.
  rewrite (remove_path_unfold fs d Hne), (remove_nolink_fst fs (comps d) (trail_of d) Hw Hne Hp Hl).
  rewrite covered_app. unfold covered at 2. cbn [existsb]. rewrite orb_false_r.
  pose proof (Inv (comps d)) as Hcd. pose proof (Inv q) as Hq.
  destruct (covered fs0 processed (comps d)) eqn:Cd.
  - assert (Hnone : get fs (comps d) = None) by (destruct (get fs (comps d)); [discriminate | reflexivity]).
    unfold removable_at. rewrite Hnone, Hq.
    destruct (covered fs0 processed q) eqn:Cq; [reflexivity|].
    destruct (comp_prefix (comps d) q) eqn:Pq.
    + rewrite (covered_mono fs0 processed (comps d) q Cd Pq) in Cq. discriminate.
    + rewrite andb_false_r. reflexivity.
  - rewrite (removable_shallow fs fs0 (comps d) (trail_of d) Hcd). fold (removable fs0 d).
    destruct (removable fs0 d) eqn:R; cbn [andb].
    + destruct (comp_prefix (comps d) q) eqn:Pq.
      * rewrite orb_true_r. apply comp_prefix_spec in Pq. destruct Pq as [x ->].
        rewrite get_del_under by exact Hne. reflexivity.
      * rewrite orb_false_r, get_del_frame_shallow by exact Pq. exact Hq.
    + rewrite orb_false_r. exact Hq.
Qed.

Lemma scope_step fs d ds :
  wf fs = true -> stale_scope fs (d :: ds) ->
  wf (fst (remove_path fs d)) = true /\ stale_scope (fst (remove_path fs d)) ds.
Proof.
  intros Hw Hs. destruct (Hs d (or_introl eq_refl)) as [Hne [Hp Hl]].
  rewrite (remove_path_unfold fs d Hne), (remove_nolink_fst fs (comps d) (trail_of d) Hw Hne Hp Hl).
  destruct (removable_at fs (comps d) (trail_of d)).
  - split; [apply wf_del; exact Hw|]. intros d' Hin. destruct (Hs d' (or_intror Hin)) as [H1 [H2 H3]].
    split; [exact H1 | split; [exact H2|]]. unfold no_link_on_the_way in *. apply nolink_del. exact H3.
  - split; [exact Hw|]. intros d' Hin. exact (Hs d' (or_intror Hin)).
Qed.

Lemma stale_fold : forall ds fs0 processed fs,
  wf fs = true -> stale_scope fs ds -> stale_inv fs0 processed fs ->
  stale_inv fs0 (processed ++ ds) (stale_apply fs ds).
Proof.
  induction ds as [|d ds IH]; intros fs0 processed fs Hw Hs Inv.
  - rewrite app_nil_r. exact Inv.
  - destruct (Hs d (or_introl eq_refl)) as [Hne [Hp Hl]].
    destruct (scope_step fs d ds Hw Hs) as [Hw' Hs'].
    pose proof (stale_step fs0 processed fs d Hw Hne Hp Hl Inv) as Inv'.
    replace (processed ++ d :: ds) with ((processed ++ [d]) ++ ds) by (rewrite <- app_assoc; reflexivity).
    unfold stale_apply. cbn [fold_left]. apply (IH fs0 (processed ++ [d]) _ Hw' Hs' Inv').
Qed.

(* the exact effect of the loop: what lstat reports of ANY canonical path afterwards is "nothing" when one of the
   listed paths that named something removable is a component-prefix of it, and what it was before otherwise *)
Theorem stale_apply_exact fs ds q :
  wf fs = true -> stale_scope fs ds ->
  option_map shallow (get (stale_apply fs ds) q) =
    if covered fs ds q then None else option_map shallow (get fs q).
Proof.
  intros Hw Hs. apply (stale_fold ds fs [] fs Hw Hs). intros q'. reflexivity.
Qed.

(* a path that existed is gone iff a listed path that named something removable is a component-prefix of it *)
Theorem stale_apply_gone_iff fs ds q x :
  wf fs = true -> stale_scope fs ds -> get fs q = Some x ->
  (get (stale_apply fs ds) q = None <->
   exists d, In d ds /\ removable fs d = true /\ comp_prefix (comps d) q = true).
Proof.
  intros Hw Hs Hx. pose proof (stale_apply_exact fs ds q Hw Hs) as H. rewrite Hx in H. cbn [option_map] in H.
  assert (Hc : covered fs ds q = true <-> exists d, In d ds /\ removable fs d = true /\ comp_prefix (comps d) q = true).
  { unfold covered. rewrite existsb_exists. split; intros [d [H1 H2]]; exists d.
    - apply andb_true_iff in H2. tauto.
    - split; [exact H1 | apply andb_true_iff; exact H2]. }
  rewrite <- Hc. destruct (covered fs ds q).
  - split; [reflexivity|]. intros _. destruct (get (stale_apply fs ds) q); [discriminate | reflexivity].
  - split; [|discriminate]. intros Hn. rewrite Hn in H. discriminate.
Qed.

(* everything else is unchanged *)
Theorem stale_apply_untouched fs ds q :
  wf fs = true -> stale_scope fs ds ->
  (forall d, In d ds -> comp_prefix (comps d) q = false) ->
  option_map shallow (get (stale_apply fs ds) q) = option_map shallow (get fs q).
Proof.
  intros Hw Hs Hq. rewrite (stale_apply_exact fs ds q Hw Hs).
  destruct (covered fs ds q) eqn:C; [|reflexivity].
  unfold covered in C. apply existsb_exists in C. destruct C as [d [Hin Hd]].
  apply andb_true_iff in Hd. destruct Hd as [_ Hd]. rewrite (Hq d Hin) in Hd. discriminate.
Qed.

(* the order in which the list is processed does not matter (the code iterates a sorted std::set) *)
Theorem stale_apply_order_irrelevant fs ds ds' q :
  wf fs = true -> stale_scope fs ds -> (forall d, In d ds <-> In d ds') ->
  option_map shallow (get (stale_apply fs ds) q) = option_map shallow (get (stale_apply fs ds') q).
Proof.
  intros Hw Hs Hiff.
  assert (Hs' : stale_scope fs ds') by (intros d Hin; apply Hs; apply Hiff; exact Hin).
  rewrite (stale_apply_exact fs ds q Hw Hs), (stale_apply_exact fs ds' q Hw Hs').
  assert (Hc : covered fs ds q = covered fs ds' q).
  { unfold covered. destruct (existsb _ ds) eqn:E1; destruct (existsb _ ds') eqn:E2; try reflexivity.
    - apply existsb_exists in E1. destruct E1 as [d [Hin Hd]].
      assert (E : existsb (fun d => removable fs d && comp_prefix (comps d) q) ds' = true)
        by (apply existsb_exists; exists d; split; [apply Hiff; exact Hin | exact Hd]).
      congruence.
    - apply existsb_exists in E2. destruct E2 as [d [Hin Hd]].
      assert (E : existsb (fun d => removable fs d && comp_prefix (comps d) q) ds = true)
        by (apply existsb_exists; exists d; split; [apply Hiff; exact Hin | exact Hd]).
      congruence. }
  rewrite Hc. reflexivity.
Qed.

(* with roots given, nothing that lies lexically under none of the roots is touched *)
Theorem fs_nothing_outside_roots fs prior expected roots q :
  roots <> [] -> wf fs = true -> stale_scope fs (to_delete prior expected roots) ->
  (forall r, In r roots -> comp_prefix (comps r) q = false) ->
  option_map shallow (get (stale_apply fs (to_delete prior expected roots)) q) = option_map shallow (get fs q).
Proof.
  intros Hr Hw Hs Hq. apply stale_apply_untouched; [exact Hw | exact Hs|].
  intros d Hin. destruct (nothing_outside_roots prior expected roots d Hr Hin) as [_ [r [Hrin Hrd]]].
  destruct (comp_prefix (comps d) q) eqn:E; [|reflexivity].
  specialize (Hq r Hrin). rewrite (comp_prefix_trans _ _ _ Hrd E) in Hq. discriminate.
Qed.

(* ---------- outside the scope: what a link on the way does (the real code does the same) ---------- *)

Definition n_root : bytes := [114; 111; 111; 116].                                  (* "root" *)
Definition n_lnk : bytes := [108; 110; 107].                                        (* "lnk" *)
Definition n_else : bytes := [101; 108; 115; 101; 119; 104; 101; 114; 101].         (* "elsewhere" *)
Definition n_x : bytes := [120].
Definition n_a : bytes := [97].
Definition n_l : bytes := [108].
Definition s_abs (cs : list bytes) : bytes := join cs.                              (* "/c1/c2/..." *)

(* /root/lnk -> /elsewhere ; /elsewhere/x *)
Definition ex_through : node :=
  Dir [(n_root, Dir [(n_lnk, Link (s_abs [n_else]))]); (n_else, Dir [(n_x, File 7)])].

(* WITHOUT the premise "no link on the way" a stale path that lies lexically inside the root deletes outside it:
   prior = ["/root/lnk/x"], roots = ["/root"] removes /elsewhere/x *)
Theorem fs_link_on_the_way_refuted :
  exists fs prior expected roots q x,
    roots <> [] /\ wf fs = true /\
    (forall d, In d (to_delete prior expected roots) -> comps d <> [] /\ plain_comps (comps d) = true) /\
    (forall r, In r roots -> comp_prefix (comps r) q = false) /\
    get fs q = Some x /\ get (stale_apply fs (to_delete prior expected roots)) q = None.
Proof.
  exists ex_through, [s_abs [n_root; n_lnk; n_x]], [], [s_abs [n_root]], [n_else; n_x], (File 7).
  split; [discriminate|]. split; [vm_compute; reflexivity|]. split.
  - intros d Hd. vm_compute in Hd. destruct Hd as [<-|[]]. split; [discriminate | vm_compute; reflexivity].
  - split; [intros r [<-|[]]; vm_compute; reflexivity|]. split; vm_compute; reflexivity.
Qed.

(* /a/l -> "/" : the path /a/l/a names the directory /a through a link that lies inside /a *)
Definition ex_cycle : node := Dir [(n_a, Dir [(n_l, Link [47])])].

(* WITHOUT the premise an error result does not mean "nothing changed": removing /a/l/a removes the link /a/l,
   after which the path no longer resolves; the call fails with ENOENT and /a stays behind, empty *)
Theorem remove_error_unchanged_refuted :
  exists fs s fs' e,
    wf fs = true /\ comps s <> [] /\ plain_comps (comps s) = true /\
    remove_path fs s = (fs', Some e) /\ fs' <> fs.
Proof.
  exists ex_cycle, (s_abs [n_a; n_l; n_a]), (Dir [(n_a, Dir [])]), ENOENT.
  split; [vm_compute; reflexivity|]. split; [discriminate|]. split; [vm_compute; reflexivity|].
  split; [vm_compute; reflexivity | discriminate].
Qed.

(* ---------- non-vacuity: a tree with the shapes the property is about ---------- *)

Definition n_out : bytes := [111; 117; 116].
Definition n_dang : bytes := [100; 97; 110; 103].
Definition n_fl : bytes := [102; 108].
Definition n_dir : bytes := [100; 105; 114].
Definition n_inl : bytes := [105; 110; 108].
Definition n_y : bytes := [121].
Definition n_keep : bytes := [107; 101; 101; 112].

(* /root/out -> /elsewhere (a directory outside), /root/dang -> /nowhere (dangling), /root/fl -> ../keep (a file),
   /root/dir containing a link to the outside directory, /root/x; outside: /elsewhere/x and /keep *)
Definition ex_tree : node :=
  Dir [(n_root, Dir [(n_out, Link (s_abs [n_else])); (n_dang, Link (s_abs [[110; 111; 119; 104; 101; 114; 101]]));
                     (n_fl, Link ([46; 46; 47] ++ n_keep));
                     (n_dir, Dir [(n_inl, Link (s_abs [n_else])); (n_y, File 2)]); (n_x, File 1)]);
       (n_else, Dir [(n_x, File 3)]);
       (n_keep, File 5)].

Definition ex_stale : list bytes :=
  [s_abs [n_root; n_out]; s_abs [n_root; n_dang]; s_abs [n_root; n_fl]; s_abs [n_root; n_dir]].

Example ex_scope : wf ex_tree = true /\ stale_scope ex_tree ex_stale.
Proof.
  split; [vm_compute; reflexivity|]. intros d Hd.
  destruct Hd as [<-|[<-|[<-|[<-|[]]]]]; (split; [discriminate | split; vm_compute; reflexivity]).
Qed.

(* the link that is the stale path itself is removed, the directory it points to keeps its content *)
Example ex_remove_link_to_outside :
  exists fs', remove_path ex_tree (s_abs [n_root; n_out]) = (fs', None) /\
              get fs' [n_root; n_out] = None /\ get fs' [n_else; n_x] = Some (File 3).
Proof. eexists. split; [vm_compute; reflexivity | split; vm_compute; reflexivity]. Qed.

(* spelled with a trailing separator the link is refused (unlink: ENOTDIR) and nothing changes *)
Example ex_remove_link_trailing_sep :
  remove_path ex_tree (s_abs [n_root; n_out] ++ [47]) = (ex_tree, Some ENOTDIR).
Proof. vm_compute. reflexivity. Qed.

(* the whole list: the three links and the directory disappear; the link inside the directory was not followed *)
Example ex_stale_result :
  stale_apply ex_tree ex_stale =
  Dir [(n_root, Dir [(n_x, File 1)]); (n_else, Dir [(n_x, File 3)]); (n_keep, File 5)].
Proof. vm_compute. reflexivity. Qed.

(* the hypotheses of fs_nothing_outside_roots are met with roots = ["/root"], and /elsewhere/x is outside *)
Example ex_roots_instance :
  to_delete ex_stale [] [s_abs [n_root]] = ex_stale /\
  (forall r, In r [s_abs [n_root]] -> comp_prefix (comps r) [n_else; n_x] = false) /\
  covered ex_tree ex_stale [n_root; n_dir; n_inl] = true /\ covered ex_tree ex_stale [n_root; n_x] = false.
Proof.
  split; [vm_compute; reflexivity|]. split; [intros r [<-|[]]; vm_compute; reflexivity|].
  split; vm_compute; reflexivity.
Qed.

(* ---------- any path: links on the way, "." and ".." ---------- *)

Lemma sub_refl fs : sub fs fs.
Proof. intros q x H. exists x. split; [exact H | reflexivity]. Qed.

Lemma sub_trans a b c : sub a b -> sub b c -> sub a c.
Proof.
  intros H1 H2 q x Hq. destruct (H1 q x Hq) as [y [Hy Hs]]. destruct (H2 q y Hy) as [z [Hz Hs']].
  exists z. split; [exact Hz | congruence].
Qed.

Lemma sub_del fs p : sub (del fs p) fs.
Proof.
  intros q x' H. destruct p as [|c p]; [exists x'; split; [exact H | reflexivity]|].
  destruct (comp_prefix (c :: p) q) eqn:E.
  - apply comp_prefix_spec in E. destruct E as [r ->]. rewrite get_del_under in H by discriminate. discriminate.
  - pose proof (get_del_frame_shallow (c :: p) fs q E) as F. rewrite H in F. cbn [option_map] in F.
    destruct (get fs q) as [x|]; [|discriminate]. exists x. split; [reflexivity|]. cbn [option_map] in F. congruence.
Qed.

Lemma below_refl L fs : below L fs fs.
Proof. split; [apply sub_refl | reflexivity]. Qed.

Lemma below_trans L a b c : below L a b -> below L b c -> below L a c.
Proof.
  intros [S1 F1] [S2 F2]. split; [exact (sub_trans _ _ _ S1 S2)|].
  intros q Hq. rewrite (F1 q Hq). exact (F2 q Hq).
Qed.

Lemma below_weaken D L a b : comp_prefix D L = true -> below L a b -> below D a b.
Proof.
  intros HD [S F]. split; [exact S|]. intros q Hq. apply F.
  destruct (comp_prefix L q) eqn:E; [|reflexivity]. rewrite (comp_prefix_trans _ _ _ HD E) in Hq. discriminate.
Qed.

Lemma below_del L fs p : comp_prefix L p = true -> below L (del fs p) fs.
Proof.
  intros HL. split; [apply sub_del|]. intros q Hq.
  destruct p as [|c p]; [reflexivity|]. apply get_del_frame_shallow.
  destruct (comp_prefix (c :: p) q) eqn:E; [|reflexivity]. rewrite (comp_prefix_trans _ _ _ HL E) in Hq. discriminate.
Qed.

Lemma sub_dir fs' fs cwd es' : sub fs' fs -> get fs' cwd = Some (Dir es') -> exists es, get fs cwd = Some (Dir es).
Proof.
  intros Hs H. destruct (Hs cwd _ H) as [x [Hx Sx]]. destruct x as [n|s|es]; try discriminate. exists es. exact Hx.
Qed.

Lemma sub_entry fs' fs cwd es' es c y' :
  sub fs' fs -> get fs' cwd = Some (Dir es') -> get fs cwd = Some (Dir es) -> assoc c es' = Some y' ->
  exists y, assoc c es = Some y /\ shallow y = shallow y'.
Proof.
  intros Hs G' G A. assert (H : get fs' (cwd ++ [c]) = Some y') by (rewrite (get_snoc fs' cwd c es' G'); exact A).
  destruct (Hs _ _ H) as [y [Hy Sy]]. rewrite (get_snoc fs cwd c es G) in Hy. exists y. split; assumption.
Qed.

(* deleting entries never makes a path resolve somewhere else: if it still resolves, it resolves where it did *)
Lemma walk_sub fs' fs : sub fs' fs -> forall lk fl rest cwd d,
  walk lk fs' fl cwd rest = WOk d -> walk lk fs fl cwd rest = WOk d.
Proof.
  intros Hs. induction lk as [|lk IHlk]; intros fl rest; induction rest as [|c rest IHr]; intros cwd d H;
    try (rewrite walk_nil in *; exact H); rewrite walk_cons in H; rewrite walk_cons.
  - destruct (is_dot c); [exact (IHr _ _ H)|]. destruct (is_dotdot c); [exact (IHr _ _ H)|].
    destruct (get fs' cwd) as [[n|s|es']|] eqn:G; try discriminate.
    destruct (sub_dir fs' fs cwd es' Hs G) as [es Ge]. rewrite Ge.
    destruct (assoc c es') as [y'|] eqn:A; [|discriminate].
    destruct (sub_entry fs' fs cwd es' es c y' Hs G Ge A) as [y [Ay Sy]]. rewrite Ay.
    destruct y' as [n|s|e1]; destruct y as [n2|s2|e2]; cbn [shallow] in Sy; try discriminate.
    + exact H.
    + inversion Sy; subst. destruct (last_nofollow rest fl); [exact H | discriminate].
    + exact (IHr _ _ H).
  - destruct (is_dot c); [exact (IHr _ _ H)|]. destruct (is_dotdot c); [exact (IHr _ _ H)|].
    destruct (get fs' cwd) as [[n|s|es']|] eqn:G; try discriminate.
    destruct (sub_dir fs' fs cwd es' Hs G) as [es Ge]. rewrite Ge.
    destruct (assoc c es') as [y'|] eqn:A; [|discriminate].
    destruct (sub_entry fs' fs cwd es' es c y' Hs G Ge A) as [y [Ay Sy]]. rewrite Ay.
    destruct y' as [n|s|e1]; destruct y as [n2|s2|e2]; cbn [shallow] in Sy; try discriminate.
    + exact H.
    + inversion Sy; subst. destruct (last_nofollow rest fl); [exact H | exact (IHlk _ _ _ _ H)].
    + exact (IHr _ _ H).
Qed.

Lemma last_nofollow_true a : last_nofollow a true = false.
Proof. destruct a; reflexivity. Qed.

Lemma last_nofollow_app a b fl : b <> [] \/ fl = true -> last_nofollow (a ++ b) fl = false.
Proof.
  intros [Hb| ->]; [|apply last_nofollow_true].
  destruct a as [|x a]; [destruct b; [contradiction | reflexivity] | reflexivity].
Qed.

(* resolving a ++ b is resolving a (following a final link) and then b from where that ended *)
Lemma walk_app fs : forall lk fl a cwd b D es,
  walk lk fs true cwd a = WOk D -> get fs D = Some (Dir es) -> b <> [] \/ fl = true ->
  exists lk', walk lk fs fl cwd (a ++ b) = walk lk' fs fl D b.
Proof.
  induction lk as [|lk IHlk]; intros fl a; induction a as [|c a IHa]; intros cwd b D es H HD Hb.
  - rewrite walk_nil in H. inversion H. exists O. reflexivity.
  - rewrite walk_cons in H. cbn [app]. rewrite walk_cons.
    destruct (is_dot c); [exact (IHa _ _ _ _ H HD Hb)|]. destruct (is_dotdot c); [exact (IHa _ _ _ _ H HD Hb)|].
    destruct (get fs cwd) as [[n|s|es0]|] eqn:G; try discriminate.
    destruct (assoc c es0) as [[n|s|e1]|] eqn:A; try discriminate.
    + destruct a; [|discriminate]. inversion H. subst D. rewrite (get_snoc fs cwd c es0 G), A in HD. discriminate.
    + rewrite last_nofollow_true in H. discriminate.
    + exact (IHa _ _ _ _ H HD Hb).
  - rewrite walk_nil in H. inversion H. exists (S lk). reflexivity.
  - rewrite walk_cons in H. cbn [app]. rewrite walk_cons.
    destruct (is_dot c); [exact (IHa _ _ _ _ H HD Hb)|]. destruct (is_dotdot c); [exact (IHa _ _ _ _ H HD Hb)|].
    destruct (get fs cwd) as [[n|s|es0]|] eqn:G; try discriminate.
    destruct (assoc c es0) as [[n|s|e1]|] eqn:A; try discriminate.
    + destruct a; [|discriminate]. inversion H. subst D. rewrite (get_snoc fs cwd c es0 G), A in HD. discriminate.
    + rewrite last_nofollow_true in H. rewrite (last_nofollow_app a b fl Hb), app_assoc.
      exact (IHlk fl (tcomps s ++ a) _ b D es H HD Hb).
    + exact (IHa _ _ _ _ H HD Hb).
Qed.

(* a resolution that did not end on a link is the same whether or not final links are followed *)
Lemma walk_fl fs : forall lk rest cwd d,
  walk lk fs false cwd rest = WOk d -> (forall t, get fs d <> Some (Link t)) -> walk lk fs true cwd rest = WOk d.
Proof.
  induction lk as [|lk IHlk]; intros rest; induction rest as [|c rest IHr]; intros cwd d H Hd;
    try (rewrite walk_nil in *; exact H); rewrite walk_cons in H; rewrite walk_cons.
  - destruct (is_dot c); [exact (IHr _ _ H Hd)|]. destruct (is_dotdot c); [exact (IHr _ _ H Hd)|].
    destruct (get fs cwd) as [[n|s|es0]|] eqn:G; try discriminate.
    destruct (assoc c es0) as [[n|s|e1]|] eqn:A; try discriminate.
    + exact H.
    + rewrite last_nofollow_true. destruct rest as [|r rest]; cbn [last_nofollow negb] in H; [|discriminate].
      inversion H. subst d. exfalso. apply (Hd s). rewrite (get_snoc fs cwd c es0 G). exact A.
    + exact (IHr _ _ H Hd).
  - destruct (is_dot c); [exact (IHr _ _ H Hd)|]. destruct (is_dotdot c); [exact (IHr _ _ H Hd)|].
    destruct (get fs cwd) as [[n|s|es0]|] eqn:G; try discriminate.
    destruct (assoc c es0) as [[n|s|e1]|] eqn:A; try discriminate.
    + exact H.
    + rewrite last_nofollow_true. destruct rest as [|r rest]; cbn [last_nofollow negb] in H.
      * inversion H. subst d. exfalso. apply (Hd s). rewrite (get_snoc fs cwd c es0 G). exact A.
      * exact (IHlk _ _ _ H Hd).
    + exact (IHr _ _ H Hd).
Qed.

Lemma dots_split c : is_dots c = false -> is_dot c = false /\ is_dotdot c = false.
Proof. unfold is_dots. apply orb_false_iff. Qed.

(* the last step, not following a final link: it ends on the entry itself *)
Lemma walk_last_inv fs lk d es c d1 :
  get fs d = Some (Dir es) -> is_dots c = false -> walk lk fs false d [c] = WOk d1 -> d1 = d ++ [c].
Proof.
  intros G Hc H. rewrite walk_cons in H. destruct (dots_split c Hc) as [E1 E2]. rewrite E1, E2, G in H.
  destruct (assoc c es) as [[n|s|e1]|]; try discriminate.
  - inversion H. reflexivity.
  - cbn [last_nofollow negb] in H. inversion H. reflexivity.
  - rewrite walk_nil in H. inversion H. reflexivity.
Qed.

Lemma walk_last fs lk fl d es c y :
  get fs d = Some (Dir es) -> is_dots c = false -> assoc c es = Some y ->
  fl = false \/ (forall t, y <> Link t) ->
  walk lk fs fl d [c] = WOk (d ++ [c]).
Proof.
  intros G Hc A Hy. rewrite walk_cons. destruct (dots_split c Hc) as [E1 E2]. rewrite E1, E2, G, A.
  destruct y as [n|s|e1]; [reflexivity | | apply walk_nil].
  destruct Hy as [-> | Hy]; [reflexivity | exfalso; exact (Hy s eq_refl)].
Qed.

(* where a path that names a directory entry leads when a final link is not followed *)
Lemma nofollow_loc fs P c d es y :
  walk maxlinks fs true [] P = WOk d -> get fs d = Some (Dir es) -> is_dots c = false -> assoc c es = Some y ->
  walk maxlinks fs false [] (P ++ [c]) = WOk (d ++ [c]).
Proof.
  intros W G Hc A.
  destruct (walk_app fs maxlinks false P [] [c] d es W G) as [lk' ->]; [left; discriminate|].
  apply (walk_last fs lk' false d es c y G Hc A). left. reflexivity.
Qed.

Lemma follow_loc fs P c d es y :
  walk maxlinks fs true [] P = WOk d -> get fs d = Some (Dir es) -> is_dots c = false -> assoc c es = Some y ->
  (forall t, y <> Link t) ->
  walk maxlinks fs true [] (P ++ [c]) = WOk (d ++ [c]).
Proof.
  intros W G Hc A Hy.
  destruct (walk_app fs maxlinks true P [] [c] d es W G) as [lk' ->]; [left; discriminate|].
  apply (walk_last fs lk' true d es c y G Hc A). right. exact Hy.
Qed.

Lemma sys_unlink_snoc fs P c trail :
  sys_unlink fs (P ++ [c]) trail =
    match walk maxlinks fs true [] P with
    | WErr e => (fs, Some e)
    | WOk d =>
      match get fs d with
      | Some (Dir es) =>
        if is_dots c then (fs, Some EISDIR)
        else match assoc c es with
             | None => (fs, Some ENOENT)
             | Some (Dir _) => (fs, Some EISDIR)
             | Some _ => if trail then (fs, Some ENOTDIR) else (del fs (d ++ [c]), None)
             end
      | _ => (fs, Some ENOTDIR)
      end
    end.
Proof.
  unfold sys_unlink. destruct (P ++ [c]) as [|a l] eqn:E0; [destruct P; discriminate|]. rewrite <- E0.
  rewrite removelast_last, last_last. reflexivity.
Qed.

Lemma sys_rmdir_snoc fs P c :
  sys_rmdir fs (P ++ [c]) =
    match walk maxlinks fs true [] P with
    | WErr e => (fs, Some e)
    | WOk d =>
      match get fs d with
      | Some (Dir es) =>
        if is_dotdot c then (fs, Some ENOTEMPTY)
        else if is_dot c then (fs, Some EINVAL)
        else match assoc c es with
             | None => (fs, Some ENOENT)
             | Some (Dir []) => (del fs (d ++ [c]), None)
             | Some (Dir _) => (fs, Some ENOTEMPTY)
             | Some _ => (fs, Some ENOTDIR)
             end
      | _ => (fs, Some ENOTDIR)
      end
    end.
Proof.
  unfold sys_rmdir. destruct (P ++ [c]) as [|a l] eqn:E0; [destruct P; discriminate|]. rewrite <- E0.
  rewrite removelast_last, last_last. reflexivity.
Qed.

Lemma snoc_cases (l : list bytes) : l = [] \/ exists P c, l = P ++ [c].
Proof.
  destruct l as [|a l]; [left; reflexivity|]. right.
  destruct (@exists_last _ (a :: l)) as [P [c E]]; [discriminate|]. exists P, c. exact E.
Qed.

(* a system call that changes the tree deletes exactly the entry its path names (a final link is not followed) *)
Definition deleted_at (fs : node) (cs : list bytes) (fs' : node) : Prop :=
  fs' = fs \/ exists L, L <> [] /\ walk maxlinks fs false [] cs = WOk L /\ fs' = del fs L.

Ltac same H := inversion H; left; reflexivity.

Lemma snoc_nonnil (d : list bytes) (c : bytes) : d ++ [c] <> [].
Proof. destruct d; discriminate. Qed.

Lemma unlink_loc fs cs trail fs' r : sys_unlink fs cs trail = (fs', r) -> deleted_at fs cs fs'.
Proof.
  destruct (snoc_cases cs) as [->|[P [c ->]]]; [intros H; same H|].
  rewrite sys_unlink_snoc.
  destruct (walk maxlinks fs true [] P) as [d|e] eqn:W; [|intros H; same H].
  destruct (get fs d) as [[n|s|es]|] eqn:G; try (intros H; same H).
  destruct (is_dots c) eqn:Hc; [intros H; same H|].
  destruct (assoc c es) as [[n|s|e1]|] eqn:A; try (intros H; same H);
    (destruct trail; [intros H; same H|]); intros H; inversion H; right; exists (d ++ [c]);
    (split; [apply snoc_nonnil | split; [exact (nofollow_loc fs P c d es _ W G Hc A) | reflexivity]]).
Qed.

Lemma rmdir_loc fs cs fs' r : sys_rmdir fs cs = (fs', r) -> deleted_at fs cs fs'.
Proof.
  destruct (snoc_cases cs) as [->|[P [c ->]]]; [intros H; same H|].
  rewrite sys_rmdir_snoc.
  destruct (walk maxlinks fs true [] P) as [d|e] eqn:W; [|intros H; same H].
  destruct (get fs d) as [[n|s|es]|] eqn:G; try (intros H; same H).
  destruct (is_dotdot c) eqn:E2; [intros H; same H|]. destruct (is_dot c) eqn:E1; [intros H; same H|].
  assert (Hc : is_dots c = false) by (unfold is_dots; rewrite E1, E2; reflexivity).
  destruct (assoc c es) as [[n|s|e1]|] eqn:A; try (intros H; same H).
  destruct e1 as [|x e1]; [|intros H; same H].
  intros H; inversion H; right; exists (d ++ [c]).
  split; [apply snoc_nonnil | split; [exact (nofollow_loc fs P c d es _ W G Hc A) | reflexivity]].
Qed.

Lemma libc_remove_loc fs cs trail fs' r : libc_remove fs cs trail = (fs', r) -> deleted_at fs cs fs'.
Proof.
  unfold libc_remove. destruct (sys_unlink fs cs trail) as [fs1 [e|]] eqn:U.
  - destruct e; try (intros H; same H). apply rmdir_loc.
  - intros H. inversion H. subst. exact (unlink_loc fs cs trail fs' None U).
Qed.

Lemma llvm_remove_loc fs cs trail fs' r : llvm_remove fs cs trail = (fs', r) -> deleted_at fs cs fs'.
Proof.
  unfold llvm_remove. destruct (sys_lstat fs cs trail); [intros H; same H | apply libc_remove_loc].
Qed.

Lemma deleted_at_wf fs cs fs' : wf fs = true -> deleted_at fs cs fs' -> wf fs' = true.
Proof. intros Hw [->|[L [_ [_ ->]]]]; [exact Hw | apply wf_del; exact Hw]. Qed.

Lemma name_ok_dots c : name_ok c = true -> is_dots c = false.
Proof. unfold name_ok. rewrite andb_true_iff, negb_true_iff. intros [_ H]. exact H. Qed.

(* the loop of _remove_all_r over a directory that resolves to D: whatever happens, only beneath D *)
Lemma rm_loop_below (rec : node -> list bytes -> node * result) fs cs D es :
  get fs D = Some (Dir es) -> walk maxlinks fs true [] cs = WOk D ->
  (forall fs1 n D1 fs2 r2, wf fs1 = true ->
      walk maxlinks fs1 true [] (cs ++ [n]) = WOk D1 -> walk maxlinks fs1 false [] (cs ++ [n]) = WOk D1 ->
      rec fs1 (cs ++ [n]) = (fs2, r2) -> below D1 fs2 fs1 /\ wf fs2 = true) ->
  forall names fs1 fs' r,
    (forall n, In n names -> name_ok n = true) -> wf fs1 = true -> below D fs1 fs ->
    rm_loop rec fs1 cs names = (fs', r) -> below D fs' fs /\ wf fs' = true.
Proof.
  intros G Wt Hrec. induction names as [|n ns IH]; intros fs1 fs' r Hn Hw Hb H.
  - cbn [rm_loop] in H. inversion H. subst. split; assumption.
  - cbn [rm_loop] in H.
    destruct (sys_lstat fs1 (cs ++ [n]) false) as [e|k] eqn:L; [inversion H; subst; split; assumption|].
    unfold sys_lstat in L. cbn [dotif] in L. rewrite app_nil_r in L.
    destruct (walk maxlinks fs1 false [] (cs ++ [n])) as [d1|e] eqn:W1; [|discriminate].
    destruct (get fs1 d1) as [t|] eqn:G1; [|discriminate]. inversion L. subst k. clear L.
    assert (Hd1 : d1 = D ++ [n]).
    { pose proof (walk_sub fs1 fs (proj1 Hb) _ _ _ _ _ W1) as W0.
      destruct (walk_app fs maxlinks false cs [] [n] D es Wt G) as [lk' Happ]; [left; discriminate|].
      rewrite Happ in W0. apply (walk_last_inv fs lk' D es n d1 G); [|exact W0].
      apply name_ok_dots. apply Hn. left. reflexivity. }
    subst d1.
    destruct (match shallow t with KDir => rec fs1 (cs ++ [n]) | _ => llvm_remove fs1 (cs ++ [n]) false end)
      as [fs2 r2] eqn:Estep.
    assert (Hstep : below D fs2 fs1 /\ wf fs2 = true).
    { assert (Hll : forall fsx rx, llvm_remove fs1 (cs ++ [n]) false = (fsx, rx) -> below D fsx fs1 /\ wf fsx = true).
      { intros fsx rx Hl. pose proof (llvm_remove_loc _ _ _ _ _ Hl) as Hd.
        split; [|exact (deleted_at_wf _ _ _ Hw Hd)].
        destruct Hd as [->|[L0 [_ [WL ->]]]]; [apply below_refl|].
        rewrite W1 in WL. inversion WL. apply below_del. apply comp_prefix_app. }
      destruct t as [k|s|e1]; cbn [shallow] in Estep.
      - exact (Hll _ _ Estep).
      - exact (Hll _ _ Estep).
      - assert (Wt1 : walk maxlinks fs1 true [] (cs ++ [n]) = WOk (D ++ [n])).
        { apply walk_fl; [exact W1|]. intros t0. rewrite G1. discriminate. }
        destruct (Hrec fs1 n (D ++ [n]) fs2 r2 Hw Wt1 W1 Estep) as [B2 W2].
        split; [|exact W2]. apply (below_weaken D (D ++ [n])); [apply comp_prefix_app | exact B2]. }
    destruct Hstep as [B2 W2]. pose proof (below_trans D _ _ _ B2 Hb) as B.
    destruct r2 as [e|].
    + inversion H. subst. split; assumption.
    + apply (IH fs2 fs' r); [intros m Hm; apply Hn; right; exact Hm | exact W2 | exact B | exact H].
Qed.

Lemma wf_names fs D es n : wf fs = true -> get fs D = Some (Dir es) -> In n (map fst es) -> name_ok n = true.
Proof.
  intros Hw G Hin. pose proof (wf_get D fs _ Hw G) as Hd. rewrite wf_Dir in Hd.
  apply andb_true_iff in Hd. destruct Hd as [_ Hl].
  apply in_map_iff in Hin. destruct Hin as [[k v] [Hk Hin]]. cbn [fst] in Hk. subst k.
  exact (proj1 (wfl_In es n v Hl Hin)).
Qed.

(* _remove_all_r on a path that resolves to D (the same whether or not a final link is followed):
   whatever it does, for ANY tree and ANY path, happens at or beneath D *)
Lemma rm_tree_r_below : forall fuel fs cs trail D fs' r,
  wf fs = true -> walk maxlinks fs true [] cs = WOk D -> walk maxlinks fs false [] cs = WOk D ->
  rm_tree_r fuel fs cs trail = (fs', r) -> below D fs' fs /\ wf fs' = true.
Proof.
  induction fuel as [|f IH]; intros fs cs trail D fs' r Hw Wt Wf H.
  - cbn [rm_tree_r] in H. inversion H. subst. split; [apply below_refl | exact Hw].
  - cbn [rm_tree_r] in H. unfold sys_readdir in H. rewrite Wt in H.
    destruct (get fs D) as [[n|s|es]|] eqn:G;
      try (inversion H; subst; split; [apply below_refl | exact Hw]).
    destruct (rm_loop (fun fs'0 p => rm_tree_r f fs'0 p false) fs cs (map fst es)) as [fs1 r1] eqn:Lp.
    destruct (rm_loop_below _ fs cs D es G Wt
                (fun fs1 n D1 fs2 r2 Hw1 Wt1 Wf1 E => IH fs1 (cs ++ [n]) false D1 fs2 r2 Hw1 Wt1 Wf1 E)
                (map fst es) fs fs1 r1 (fun n Hin => wf_names fs D es n Hw G Hin) Hw (below_refl D fs) Lp) as [B1 W1].
    destruct r1 as [e|]; [inversion H; subst; split; assumption|].
    pose proof (llvm_remove_loc _ _ _ _ _ H) as Hd. split; [|exact (deleted_at_wf _ _ _ W1 Hd)].
    destruct Hd as [->|[L [_ [WL ->]]]]; [exact B1|].
    pose proof (walk_sub fs1 fs (proj1 B1) _ _ _ _ _ WL) as W0. rewrite Wf in W0. inversion W0. subst L.
    apply (below_trans D _ fs1); [apply below_del; apply comp_prefix_refl | exact B1].
Qed.

(* when unlink says EISDIR the path resolves to the same place whether or not a final link is followed *)
Lemma unlink_eisdir fs cs trail fs1 :
  sys_unlink fs cs trail = (fs1, Some EISDIR) ->
  exists D, walk maxlinks fs true [] cs = WOk D /\ walk maxlinks fs false [] cs = WOk D.
Proof.
  destruct (snoc_cases cs) as [->|[P [c ->]]]; [intros _; exists []; split; apply walk_nil|].
  rewrite sys_unlink_snoc.
  destruct (walk maxlinks fs true [] P) as [d|e] eqn:W.
  2: { intros H. inversion H. subst e. destruct (walk_err_kinds _ _ _ _ _ _ W) as [X|[X|X]]; discriminate. }
  destruct (get fs d) as [[n|s|es]|] eqn:G; try (intros H; inversion H; fail).
  destruct (is_dots c) eqn:Hc.
  - intros _.
    destruct (walk_app fs maxlinks true P [] [c] d es W G) as [l1 E1]; [left; discriminate|].
    destruct (walk_app fs maxlinks false P [] [c] d es W G) as [l2 E2]; [left; discriminate|].
    rewrite E1, E2, !walk_cons. unfold is_dots in Hc.
    destruct (is_dot c).
    + exists d. split; apply walk_nil.
    + cbn [orb] in Hc. rewrite Hc. exists (removelast d). split; apply walk_nil.
  - destruct (assoc c es) as [[n|s|e1]|] eqn:A.
    + destruct trail; intros H; inversion H.
    + destruct trail; intros H; inversion H.
    + intros _. exists (d ++ [c]). split.
      * apply (follow_loc fs P c d es _ W G Hc A). intros t. discriminate.
      * exact (nofollow_loc fs P c d es _ W G Hc A).
    + intros H. inversion H.
Qed.

Lemma unlink_never_eperm fs cs trail fs1 : sys_unlink fs cs trail <> (fs1, Some EPERM).
Proof.
  destruct (snoc_cases cs) as [->|[P [c ->]]]; [discriminate|].
  rewrite sys_unlink_snoc.
  destruct (walk maxlinks fs true [] P) as [d|e] eqn:W.
  2: { intros H. inversion H. subst e. destruct (walk_err_kinds _ _ _ _ _ _ W) as [X|[X|X]]; discriminate. }
  destruct (get fs d) as [[n|s|es]|]; try discriminate.
  destruct (is_dots c); [discriminate|].
  destruct (assoc c es) as [[n|s|e1]|]; try discriminate; destruct trail; discriminate.
Qed.

Lemma deleted_at_below fs cs fs' :
  deleted_at fs cs fs' -> fs' = fs \/ exists L, walk maxlinks fs false [] cs = WOk L /\ below L fs' fs.
Proof.
  intros [->|[L [_ [W ->]]]]; [left; reflexivity|]. right. exists L. split; [exact W|].
  apply below_del. apply comp_prefix_refl.
Qed.

(* LocalFileSystem::remove on ANY tree and ANY path (links on the way, "." and ".." included): either nothing
   changes, or the path resolves - a final link not followed - to a canonical location L and everything that
   changes lies at or beneath L *)
Theorem remove_below fs cs trail fs' r :
  wf fs = true -> remove fs cs trail = (fs', r) ->
  wf fs' = true /\ (fs' = fs \/ exists L, walk maxlinks fs false [] cs = WOk L /\ below L fs' fs).
Proof.
  intros Hw H. unfold remove in H.
  destruct (sys_unlink fs cs trail) as [fs1 [e|]] eqn:U.
  - destruct (negb (errno_eqb e EPERM || errno_eqb e EISDIR)) eqn:C;
      [inversion H; subst; split; [exact Hw | left; reflexivity]|].
    assert (He : e = EISDIR).
    { destruct e; cbn in C; try discriminate; [reflexivity|]. exfalso. exact (unlink_never_eperm _ _ _ _ U). }
    subst e. destruct (unlink_eisdir _ _ _ _ U) as [D [Wt Wf]].
    destruct (sys_lstat fs cs trail) as [e'|k]; [inversion H; subst; split; [exact Hw | left; reflexivity]|].
    destruct k; try (inversion H; subst; split; [exact Hw | left; reflexivity]).
    destruct (sys_rmdir fs cs) as [fs2 [e2|]] eqn:R.
    + destruct (rm_tree_r_below _ _ _ _ D _ _ Hw Wt Wf H) as [B W].
      split; [exact W | right; exists D; split; [exact Wf | exact B]].
    + inversion H. subst. pose proof (rmdir_loc _ _ _ _ R) as Hd.
      split; [exact (deleted_at_wf _ _ _ Hw Hd) | exact (deleted_at_below _ _ _ Hd)].
  - inversion H. subst. pose proof (unlink_loc _ _ _ _ _ U) as Hd.
    split; [exact (deleted_at_wf _ _ _ Hw Hd) | exact (deleted_at_below _ _ _ Hd)].
Qed.

(* ---------- the removal loop for ANY deletion list ---------- *)

Lemma inside_mono roots L q : inside roots L = true -> comp_prefix L q = true -> inside roots q = true.
Proof.
  unfold inside. rewrite !existsb_exists. intros [r [Hin Hr]] Hq. exists r.
  split; [exact Hin | exact (comp_prefix_trans _ _ _ Hr Hq)].
Qed.

Lemma stale_apply_cons fs d ds : stale_apply fs (d :: ds) = stale_apply (fst (remove_path fs d)) ds.
Proof. reflexivity. Qed.

Lemma stale_physical_gen roots : forall ds fs0 fs,
  wf fs = true -> sub fs fs0 ->
  (forall d L, In d ds -> walk maxlinks fs0 false [] (comps d) = WOk L -> inside roots L = true) ->
  forall q, inside roots q = false ->
  option_map shallow (get (stale_apply fs ds) q) = option_map shallow (get fs q).
Proof.
  induction ds as [|d ds IH]; intros fs0 fs Hw Hs Hin q Hq; [reflexivity|].
  rewrite stale_apply_cons.
  assert (Hrest : forall d' L, In d' ds -> walk maxlinks fs0 false [] (comps d') = WOk L -> inside roots L = true)
    by (intros d' L Hd'; apply Hin; right; exact Hd').
  destruct d as [|b s]; [exact (IH fs0 fs Hw Hs Hrest q Hq)|].
  unfold remove_path.
  destruct (remove fs (comps (b :: s)) (trail_of (b :: s))) as [fs1 r1] eqn:R. cbn [fst].
  destruct (remove_below _ _ _ _ _ Hw R) as [Hw1 [->|[L [WL [S1 F1]]]]]; [exact (IH fs0 fs Hw Hs Hrest q Hq)|].
  rewrite (IH fs0 fs1 Hw1 (sub_trans _ _ _ S1 Hs) Hrest q Hq). apply F1.
  destruct (comp_prefix L q) eqn:E; [|reflexivity].
  pose proof (walk_sub fs fs0 Hs _ _ _ _ _ WL) as W0.
  rewrite (inside_mono roots L q (Hin _ L (or_introl eq_refl) W0) E) in Hq. discriminate.
Qed.

(* ANY tree, ANY deletion list (links on the way, "." and ".." allowed): if the location that each listed path
   names in the tree - resolved as the kernel does, a final link not followed - lies at or beneath a root, then
   what lstat reports of every canonical path that lies beneath none of the roots is the same before and after *)
Theorem stale_apply_physical fs ds roots q :
  wf fs = true ->
  (forall d L, In d ds -> walk maxlinks fs false [] (comps d) = WOk L -> inside roots L = true) ->
  inside roots q = false ->
  option_map shallow (get (stale_apply fs ds) q) = option_map shallow (get fs q).
Proof. intros Hw Hin Hq. exact (stale_physical_gen roots ds fs fs Hw (sub_refl fs) Hin q Hq). Qed.

(* the lexical scope is a special case: without a link on the way the location named is the path itself *)
Lemma walk_nolink_last lk fs cs : forall cwd t d,
  get fs cwd = Some t -> plain_comps cs = true -> nolink t (removelast cs) = true ->
  walk lk fs false cwd cs = WOk d -> d = cwd ++ cs.
Proof.
  induction cs as [|c cs IH]; intros cwd t d Hc Hp Hn H.
  - rewrite walk_nil in H. inversion H. rewrite app_nil_r. reflexivity.
  - cbn [plain_comps forallb] in Hp. apply andb_true_iff in Hp. destruct Hp as [Hk Hp].
    destruct cs as [|c2 cs'].
    + destruct t as [n|s|es].
      * rewrite walk_cons in H. destruct (name_ok_nodots c Hk) as [E1 E2]. rewrite E1, E2, Hc in H. discriminate.
      * rewrite walk_cons in H. destruct (name_ok_nodots c Hk) as [E1 E2]. rewrite E1, E2, Hc in H. discriminate.
      * exact (walk_last_inv fs lk cwd es c d Hc (name_ok_dots c Hk) H).
    + change (removelast (c :: c2 :: cs')) with (c :: removelast (c2 :: cs')) in Hn.
      rewrite walk_cons in H. destruct (name_ok_nodots c Hk) as [E1 E2]. rewrite E1, E2, Hc in H.
      destruct t as [n|s|es]; try discriminate. cbn [nolink] in Hn.
      destruct (assoc c es) as [t'|] eqn:E; [|discriminate].
      destruct t' as [n|s|es']; try discriminate.
      assert (Hc' : get fs (cwd ++ [c]) = Some (Dir es')) by (rewrite (get_snoc fs cwd c es Hc); exact E).
      rewrite (IH (cwd ++ [c]) (Dir es') d Hc' Hp Hn H), <- app_assoc. reflexivity.
Qed.

Lemma scope_location fs d L :
  plain_comps (comps d) = true -> no_link_on_the_way fs (comps d) = true ->
  walk maxlinks fs false [] (comps d) = WOk L -> L = comps d.
Proof. intros Hp Hl W. exact (walk_nolink_last maxlinks fs (comps d) [] fs L eq_refl Hp Hl W). Qed.

(* so the lexical theorem about roots follows from the physical one *)
Lemma scope_inside fs prior expected roots :
  roots <> [] -> stale_scope fs (to_delete prior expected roots) ->
  forall d L, In d (to_delete prior expected roots) -> walk maxlinks fs false [] (comps d) = WOk L -> inside roots L = true.
Proof.
  intros Hr Hs d L Hin W. destruct (Hs d Hin) as [_ [Hp Hl]]. rewrite (scope_location fs d L Hp Hl W).
  destruct (nothing_outside_roots prior expected roots d Hr Hin) as [_ [r [Hrin Hrd]]].
  unfold inside. apply existsb_exists. exists r. split; assumption.
Qed.

(* non-vacuity of the statements about any path: in ex_through the listed path goes through a link; the location it
   names is /elsewhere/x, which is NOT inside the root - the premise of stale_apply_physical excludes exactly this *)
Example ex_physical_premise :
  walk maxlinks ex_through false [] (comps (s_abs [n_root; n_lnk; n_x])) = WOk [n_else; n_x] /\
  inside [s_abs [n_root]] [n_else; n_x] = false /\
  inside [s_abs [n_root]] [n_root; n_lnk] = true.
Proof. split; [vm_compute; reflexivity | split; vm_compute; reflexivity]. Qed.

(* a link on the way that stays inside the root: /root/lnk -> /root/real, the listed path /root/lnk/x names
   /root/real/x, which is inside; the premise holds and /elsewhere is untouched *)
Definition n_real : bytes := [114; 101; 97; 108].
Definition ex_inside : node :=
  Dir [(n_root, Dir [(n_lnk, Link (s_abs [n_root; n_real])); (n_real, Dir [(n_x, File 7)])]);
       (n_else, Dir [(n_x, File 8)])].

Example ex_physical_instance :
  wf ex_inside = true /\
  (forall d L, In d [s_abs [n_root; n_lnk; n_x]] -> walk maxlinks ex_inside false [] (comps d) = WOk L ->
               inside [s_abs [n_root]] L = true) /\
  inside [s_abs [n_root]] [n_else; n_x] = false /\
  get (stale_apply ex_inside [s_abs [n_root; n_lnk; n_x]]) [n_root; n_real; n_x] = None /\
  get (stale_apply ex_inside [s_abs [n_root; n_lnk; n_x]]) [n_else; n_x] = Some (File 8).
Proof.
  split; [vm_compute; reflexivity|]. split.
  - intros d L [<-|[]] W. vm_compute in W. inversion W. vm_compute. reflexivity.
  - split; [vm_compute; reflexivity | split; vm_compute; reflexivity].
Qed.
