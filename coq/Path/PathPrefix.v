(* Model of llbuild::buildsystem::pathIsPrefixedByPath (lib/BuildSystem/BuildSystem.cpp) and of the
   deletion decision of StaleFileRemovalCommand::execute.  Definitions only (no proofs). *)
From LLB Require Import Base.Bytes.
Local Open Scope N_scope.

(* POSIX: getPathSeparators() = "/" *)
Definition is_sep (b : byte) : bool := N.eqb b 47.

(* std::mismatch(prefix.begin(), prefix.end(), path.begin()): the two remaining suffixes *)
Fixpoint mismatch (pre path : bytes) : bytes * bytes :=
  match pre, path with
  | a :: pre', b :: path' => if N.eqb a b then mismatch pre' path' else (pre, path)
  | _, _ => (pre, path)
  end.

(* while (!prefix.empty() && isSep(prefix.back())) prefix.pop_back();   -- the repaired code *)
Fixpoint strip_trailing_seps (l : bytes) : bytes :=
  match l with
  | [] => []
  | b :: l' => match strip_trailing_seps l' with
               | [] => if is_sep b then [] else [b]
               | r => b :: r
               end
  end.

Definition head_is_sep_or_end (l : bytes) : bool :=
  match l with [] => true | c :: _ => is_sep c end.

(* the body of the function after the prefix has been normalised *)
Definition pip_core (path pre : bytes) : bool :=
  if Nat.ltb (length path) (length pre) then
    (* "the only case where the prefix can be longer": prefix = path ++ [separator] *)
    bytes_eqb (removelast pre) path && is_sep (last pre 0)
  else
    let '(rp, rq) := mismatch pre path in
    head_is_sep_or_end rp && head_is_sep_or_end rq.

Definition pip (path pre : bytes) : bool := pip_core path (strip_trailing_seps pre).

(* the code before the repair (kept for the refutation theorem and as a search aid) *)
Definition pip_unrepaired (path pre : bytes) : bool := pip_core path pre.

(* ---- specification: whole path components ---- *)

(* components of a path: maximal separator-free runs, empty ones dropped *)
Fixpoint comps_aux (l : bytes) (cur : bytes) : list bytes :=
  match l with
  | [] => match cur with [] => [] | _ => [rev cur] end
  | b :: l' => if is_sep b
               then match cur with [] => comps_aux l' [] | _ => rev cur :: comps_aux l' [] end
               else comps_aux l' (b :: cur)
  end.
Definition comps (l : bytes) : list bytes := comps_aux l [].

Fixpoint comp_prefix (r p : list bytes) : bool :=
  match r, p with
  | [], _ => true
  | x :: r', y :: p' => bytes_eqb x y && comp_prefix r' p'
  | _ :: _, [] => false
  end.

(* canonical absolute spelling of a component list: "/c1/c2/..." *)
Fixpoint join (cs : list bytes) : bytes :=
  match cs with [] => [] | c :: cs' => 47 :: c ++ join cs' end.

Definition comp_ok (c : bytes) : bool := negb (forallb (fun _ => false) c) && forallb (fun b => negb (is_sep b)) c.

(* ---- stale file removal decision ---- *)

Definition absolute (p : bytes) : bool :=
  match p with [] => false | c :: _ => is_sep c end.   (* std::string("")[0] is NUL: not a separator *)

Definition allowed (roots : list bytes) (p : bytes) : bool :=
  match roots with
  | [] => true
  | _ => absolute p && existsb (fun r => pip p r) roots
  end.

(* prior: the stale-file list stored by the previous run; expected: the current expectedOutputs *)
Definition to_delete (prior expected roots : list bytes) : list bytes :=
  filter (fun p => negb (mem_bytes p expected) && allowed roots p) (nodup_bytes prior).

(* one run of the command: (has a prior stale-file-removal value?, prior list) -> removed paths, new stored list *)
Definition stale_run (prior : option (list bytes)) (expected roots : list bytes) : list bytes * list bytes :=
  match prior with
  | None => ([], expected)
  | Some pl => (to_delete pl expected roots, expected)
  end.

(* a history of runs (expected, roots), the stored value threading through (restarts do not matter:
   the stored value is all that is kept) *)
Fixpoint stale_history (prior : option (list bytes)) (runs : list (list bytes * list bytes)) : list (list bytes) :=
  match runs with
  | [] => []
  | (e, r) :: runs' => let '(del, st) := stale_run prior e r in del :: stale_history (Some st) runs'
  end.
