(* Proofs about shell quoting (Path/ShellQuote.v): the words POSIX sh obtains from shellEscaped(p) are exactly [p];
   the output is p itself iff every byte is in the whitelist.
   The exported statements are listed in the comment block at the end of the file. *)
From LLB Require Import Base.Bytes Base.BytesFacts Path.ShellQuote.
Local Open Scope N_scope.

(* ---------- membership ---------- *)

Lemma mem_byte_In b l : mem_byte b l = true <-> In b l.
Proof.
  unfold mem_byte. rewrite existsb_exists. split.
  - intros [x [Hx He]]. apply N.eqb_eq in He. subst x. exact Hx.
  - intros H. exists b. split; [exact H | apply N.eqb_refl].
Qed.

Lemma mem_byte_false b l : mem_byte b l = false -> forall x, In x l -> b <> x.
Proof.
  intros H x Hx E. subst x. apply mem_byte_In in Hx. congruence.
Qed.

(* what a byte that is not special anywhere is not *)
Lemma not_special b : sh_always_special b = false ->
  (b =? 0) = false /\ sh_blank b = false /\ (b =? 39) = false /\ (b =? 92) = false.
Proof.
  unfold sh_always_special. intros H. pose proof (mem_byte_false _ _ H) as F.
  assert (H0 : b <> 0) by (apply F; cbn; tauto).
  assert (H32 : b <> 32) by (apply F; cbn; tauto).
  assert (H9 : b <> 9) by (apply F; cbn; tauto).
  assert (H39 : b <> 39) by (apply F; cbn; tauto).
  assert (H92 : b <> 92) by (apply F; cbn; tauto).
  unfold sh_blank. apply N.eqb_neq in H0, H32, H9, H39, H92. rewrite H0, H32, H9, H39, H92. auto.
Qed.

(* ---------- single steps of the sh tokeniser ---------- *)

Lemma step_out_open cur r : sh_go ShOut cur (39 :: r) = sh_go ShQuote cur r.
Proof. reflexivity. Qed.

Lemma step_word_open cur r : sh_go ShWord cur (39 :: r) = sh_go ShQuote cur r.
Proof. reflexivity. Qed.

Lemma step_quote_close cur r : sh_go ShQuote cur (39 :: r) = sh_go ShWord cur r.
Proof. reflexivity. Qed.

Lemma step_word_backslash_quote cur r : sh_go ShWord cur (92 :: 39 :: r) = sh_go ShWord (39 :: cur) r.
Proof. reflexivity. Qed.

Lemma step_quote_other b cur r : b <> 0 -> b <> 39 -> sh_go ShQuote cur (b :: r) = sh_go ShQuote (b :: cur) r.
Proof.
  intros H0 H39. apply N.eqb_neq in H0, H39. cbn [sh_go]. rewrite H0, H39. reflexivity.
Qed.

Lemma step_word_plain b cur r : sh_always_special b = false -> sh_go ShWord cur (b :: r) = sh_go ShWord (b :: cur) r.
Proof.
  intros H. destruct (not_special b H) as [H0 [Hb [H39 H92]]]. cbn [sh_go]. rewrite H0, Hb, H39, H92, H. reflexivity.
Qed.

Lemma step_out_plain b r : sh_always_special b = false -> sh_start_special b = false ->
  sh_go ShOut [] (b :: r) = sh_go ShWord [b] r.
Proof.
  intros H Hs. destruct (not_special b H) as [H0 [Hb [H39 H92]]].
  unfold sh_start_special in Hs. apply orb_false_iff in Hs. destruct Hs as [H35 H126].
  cbn [sh_go]. rewrite H0, Hb, H39, H92, H, H35, H126. reflexivity.
Qed.

(* ---------- runs ---------- *)

(* an unquoted run of bytes that are special nowhere is taken literally *)
Lemma word_plain s : forall cur, Forall (fun b => sh_always_special b = false) s ->
  sh_go ShWord cur s = Some [rev cur ++ s].
Proof.
  induction s as [|b r IH]; intros cur F.
  - cbn [sh_go]. rewrite app_nil_r. reflexivity.
  - inversion F as [|x l Hb Hr]; subst. rewrite step_word_plain by exact Hb. rewrite IH by exact Hr.
    cbn [rev]. rewrite <- app_assoc. reflexivity.
Qed.

(* inside '...' every byte other than ' (and NUL, which cannot occur) is taken literally *)
Lemma quote_plain s : forall cur rest, ~ In 0 s -> ~ In 39 s ->
  sh_go ShQuote cur (s ++ rest) = sh_go ShQuote (rev s ++ cur) rest.
Proof.
  induction s as [|b r IH]; intros cur rest H0 H39; [reflexivity|].
  cbn [app]. rewrite step_quote_other.
  - rewrite IH.
    + cbn [rev]. rewrite <- app_assoc. reflexivity.
    + intros H. apply H0. right. exact H.
    + intros H. apply H39. right. exact H.
  - intros E. apply H0. left. exact E.
  - intros E. apply H39. left. exact E.
Qed.

(* the tail the third branch of appendShellEscapedString emits: every ' replaced by '\'' , then the closing ' *)
Lemma quote_escaped t : forall cur, ~ In 0 t ->
  sh_go ShQuote cur (flat_map escape_byte t ++ [39]) = Some [rev cur ++ t].
Proof.
  induction t as [|b r IH]; intros cur H0.
  - cbn [flat_map app]. rewrite step_quote_close. cbn [sh_go]. rewrite app_nil_r. reflexivity.
  - assert (H0r : ~ In 0 r) by (intros H; apply H0; right; exact H).
    assert (Hb0 : b <> 0) by (intros E; apply H0; left; exact E).
    cbn [flat_map]. unfold escape_byte at 1. destruct (N.eqb_spec b 39) as [->|Hb].
    + cbn [app]. rewrite step_quote_close, step_word_backslash_quote, step_word_open.
      rewrite IH by exact H0r. cbn [rev]. rewrite <- app_assoc. reflexivity.
    + cbn [app]. rewrite step_quote_other by assumption. rewrite IH by exact H0r.
      cbn [rev]. rewrite <- app_assoc. reflexivity.
Qed.

(* ---------- the two searches ---------- *)

Lemma find_first_not_of_none wl s :
  find_first_not_of wl s = None <-> forallb (fun b => mem_byte b wl) s = true.
Proof.
  induction s as [|b r IH]; [cbn; tauto|].
  cbn [find_first_not_of forallb]. destruct (mem_byte b wl); cbn [andb].
  - rewrite <- IH. destruct (find_first_not_of wl r); cbn; split; intros H; congruence.
  - split; discriminate.
Qed.

(* a quote character cannot precede the first byte outside a whitelist that lacks the quote character *)
Lemma find_quote_from wl s : mem_byte 39 wl = false -> forall pos,
  find_first_not_of wl s = Some pos -> find_first_of 39 s pos = find_first_of 39 s 0.
Proof.
  intros Hq. induction s as [|b r IH]; intros pos H; [discriminate|].
  cbn [find_first_not_of] in H. destruct (mem_byte b wl) eqn:Eb.
  - destruct (find_first_not_of wl r) as [p|] eqn:Er; [|discriminate]. cbn in H. inversion H; subst pos.
    cbn [find_first_of]. rewrite (IH p eq_refl).
    destruct (N.eqb_spec b 39) as [->|Hb]; [congruence | reflexivity].
  - inversion H; subst. reflexivity.
Qed.

Lemma find_first_of_none c s : find_first_of c s 0 = None -> ~ In c s.
Proof.
  induction s as [|b r IH]; intros H Hin; [destruct Hin|].
  cbn [find_first_of] in H. destruct (N.eqb_spec b c) as [E|E]; [discriminate|].
  destruct (find_first_of c r 0) eqn:Er; [discriminate|]. destruct Hin as [Hin|Hin]; [congruence | exact (IH eq_refl Hin)].
Qed.

Lemma find_first_of_some c s : forall q, find_first_of c s 0 = Some q -> ~ In c (firstn q s).
Proof.
  induction s as [|b r IH]; intros q H; [discriminate|].
  cbn [find_first_of] in H. destruct (N.eqb_spec b c) as [E|E].
  - inversion H; subst q. intros Hin. destruct Hin.
  - destruct (find_first_of c r 0) as [q'|] eqn:Er; [|discriminate]. cbn in H. inversion H; subst q.
    cbn [firstn]. intros [Hin|Hin]; [congruence | exact (IH q' eq_refl Hin)].
Qed.

Lemma not_in_firstn (x : byte) n l : ~ In x l -> ~ In x (firstn n l).
Proof. intros H Hin. apply H. rewrite <- (firstn_skipn n l). apply in_or_app. left. exact Hin. Qed.

Lemma not_in_skipn (x : byte) n l : ~ In x l -> ~ In x (skipn n l).
Proof. intros H Hin. apply H. rewrite <- (firstn_skipn n l). apply in_or_app. right. exact Hin. Qed.

(* ---------- the side condition on the whitelist ---------- *)

Lemma whitelist_ok_member wl b : whitelist_ok wl = true -> mem_byte b wl = true ->
  sh_always_special b = false /\ sh_start_special b = false.
Proof.
  unfold whitelist_ok. intros H Hb. rewrite forallb_forall in H. apply mem_byte_In in Hb. specialize (H b Hb).
  apply negb_true_iff in H. unfold sh_meta in H. apply orb_false_iff in H. exact H.
Qed.

Lemma whitelist_ok_no_quote wl : whitelist_ok wl = true -> mem_byte 39 wl = false.
Proof.
  intros H. destruct (mem_byte 39 wl) eqn:E; [|reflexivity].
  destruct (whitelist_ok_member wl 39 H E) as [H1 _]. vm_compute in H1. discriminate.
Qed.

(* ---------- shell_roundtrip ---------- *)

(* For every whitelist none of whose members is special to sh (anywhere in a word, or at the start of a word),
   every non-empty NUL-free byte string p: the words sh obtains from shellEscaped(p) in argument position are
   exactly [p].  Bytes 0x80..0xFF, newlines, quotes, '$', '#', '~', blanks are all covered. *)
Theorem shell_roundtrip wl p : whitelist_ok wl = true -> p <> [] -> ~ In 0 p ->
  sh_words (shell_escaped_gen wl p) = Some [p].
Proof.
  intros Hwl Hne H0. unfold shell_escaped_gen, sh_words.
  destruct (find_first_not_of wl p) as [pos|] eqn:Ef.
  - rewrite (find_quote_from wl p (whitelist_ok_no_quote wl Hwl) pos Ef).
    destruct (find_first_of 39 p 0) as [q|] eqn:Eq.
    + (* some byte needs quoting and there is a quote character at q *)
      cbn [app]. rewrite step_out_open.
      rewrite quote_plain; [|apply not_in_firstn; exact H0 | exact (find_first_of_some 39 p q Eq)].
      rewrite quote_escaped by (apply not_in_skipn; exact H0).
      rewrite app_nil_r, rev_involutive, firstn_skipn. reflexivity.
    + (* some byte needs quoting and there is no quote character: 'p' *)
      cbn [app]. rewrite step_out_open.
      rewrite quote_plain; [|exact H0 | exact (find_first_of_none 39 p Eq)].
      rewrite step_quote_close. cbn [sh_go]. rewrite app_nil_r, rev_involutive. reflexivity.
  - (* every byte is in the whitelist: p is emitted as it is *)
    apply find_first_not_of_none in Ef. rewrite forallb_forall in Ef.
    assert (F : Forall (fun b => sh_always_special b = false /\ sh_start_special b = false) p).
    { apply Forall_forall. intros b Hb. apply (whitelist_ok_member wl b Hwl). apply Ef. exact Hb. }
    destruct p as [|b r]; [congruence|]. inversion F as [|x l [Hb1 Hb2] Hr]; subst.
    rewrite step_out_plain by assumption. rewrite word_plain.
    + reflexivity.
    + eapply Forall_impl; [|exact Hr]. cbn. tauto.
Qed.

(* the same for the whitelist of the current source *)
Lemma whitelist_is_ok : whitelist_ok whitelist = true.
Proof. vm_compute. reflexivity. Qed.

Corollary shell_roundtrip_current p : p <> [] -> ~ In 0 p -> sh_words (shell_escaped p) = Some [p].
Proof. apply shell_roundtrip. exact whitelist_is_ok. Qed.

(* ---------- the side conditions are needed: counter-examples ---------- *)

(* the empty path is emitted as nothing: sh sees no word at all (the caller would have to write '' ) *)
Theorem shell_roundtrip_empty_refuted : exists p, p = [] /\ sh_words (shell_escaped p) = Some [] /\ sh_words (shell_escaped p) <> Some [p].
Proof. exists []. split; [reflexivity|]. split; [reflexivity | discriminate]. Qed.

(* a NUL byte cannot be handed to sh -c at all (the C string ends there); the model answers None *)
Theorem shell_roundtrip_nul_refuted : exists p, In 0 p /\ sh_words (shell_escaped p) = None.
Proof. exists [97; 0; 98]. split; [cbn; tauto | reflexivity]. Qed.

(* '#' in the whitelist (the source before the repair): "#x" is emitted unquoted and sh reads a comment: no word *)
Theorem whitelist_with_hash_refuted : exists p, p <> [] /\ ~ In 0 p /\
  shell_escaped_gen (35 :: whitelist) p = p /\ sh_words (shell_escaped_gen (35 :: whitelist) p) = Some [].
Proof.
  exists [35; 120]. split; [discriminate|]. split; [cbn; intros [H|[H|[]]]; discriminate|]. split; reflexivity.
Qed.

(* '~' in the whitelist: "~x" is emitted unquoted and sh performs tilde expansion (outside the fragment) *)
Theorem whitelist_with_tilde_refuted : exists p, p <> [] /\ ~ In 0 p /\
  shell_escaped_gen (126 :: whitelist) p = p /\ sh_words (shell_escaped_gen (126 :: whitelist) p) = None.
Proof.
  exists [126; 120]. split; [discriminate|]. split; [cbn; intros [H|[H|[]]]; discriminate|]. split; reflexivity.
Qed.

(* in general: a non-NUL metacharacter in the whitelist breaks the round trip of the one-byte path made of it,
   so whitelist_ok is exactly the right condition (NUL aside, which the NUL-free premise excludes anyway) *)
Theorem whitelist_ok_necessary wl b : In b wl -> b <> 0 -> sh_meta b = true ->
  shell_escaped_gen wl [b] = [b] /\ sh_words (shell_escaped_gen wl [b]) <> Some [[b]].
Proof.
  intros Hin Hb0 Hm.
  assert (E : shell_escaped_gen wl [b] = [b]).
  { unfold shell_escaped_gen. cbn [find_first_not_of]. apply mem_byte_In in Hin. rewrite Hin. reflexivity. }
  split; [exact E|]. rewrite E.
  unfold sh_meta, sh_always_special, sh_start_special in Hm.
  apply orb_true_iff in Hm. destruct Hm as [Hm|Hm].
  - apply mem_byte_In in Hm. cbn [In] in Hm.
    repeat (destruct Hm as [Hm|Hm]; [subst b; try congruence; vm_compute; discriminate|]). destruct Hm.
  - apply orb_true_iff in Hm. destruct Hm as [Hm|Hm]; apply N.eqb_eq in Hm; subst b; vm_compute; discriminate.
Qed.

(* '=' and '%' are members of the whitelist and harmless in argument position: they are literal *)
Example equals_percent_literal : sh_words [97; 61; 98; 37; 99] = Some [[97; 61; 98; 37; 99]] /\
  sh_meta 61 = false /\ sh_meta 37 = false.
Proof. repeat split; reflexivity. Qed.

(* ---------- shell_escaped_safe_chars ---------- *)

Lemma flat_map_escape_length l : (length l <= length (flat_map escape_byte l))%nat.
Proof.
  induction l as [|b r IH]; [cbn; lia|]. cbn [flat_map]. rewrite app_length. unfold escape_byte at 1.
  destruct (b =? 39); cbn [length]; lia.
Qed.

(* the output is the input itself iff every byte is in the whitelist - for EVERY whitelist and every byte string *)
Theorem shell_escaped_safe_chars wl p :
  shell_escaped_gen wl p = p <-> forallb (fun b => mem_byte b wl) p = true.
Proof.
  split.
  - intros H. apply find_first_not_of_none. unfold shell_escaped_gen in H.
    destruct (find_first_not_of wl p) as [pos|]; [exfalso|reflexivity].
    apply (f_equal (@length byte)) in H.
    destruct (find_first_of 39 p pos) as [q|].
    + rewrite !app_length in H. cbn [length] in H.
      pose proof (f_equal (@length byte) (firstn_skipn q p)) as L. rewrite app_length in L.
      pose proof (flat_map_escape_length (skipn q p)). lia.
    + rewrite !app_length in H. cbn [length] in H. lia.
  - intros H. apply find_first_not_of_none in H. unfold shell_escaped_gen. rewrite H. reflexivity.
Qed.

(* otherwise the output is a quoted string: it starts and ends with the quote character *)
Theorem shell_escaped_quoted wl p : forallb (fun b => mem_byte b wl) p = false ->
  exists mid, shell_escaped_gen wl p = 39 :: mid ++ [39].
Proof.
  intros H. unfold shell_escaped_gen. destruct (find_first_not_of wl p) as [pos|] eqn:E.
  - destruct (find_first_of 39 p pos) as [q|].
    + exists (firstn q p ++ flat_map escape_byte (skipn q p)). cbn [app]. rewrite <- app_assoc. reflexivity.
    + exists p. reflexivity.
  - apply find_first_not_of_none in E. congruence.
Qed.

(* ---------- a whitelist probed from the code ---------- *)

(* two whitelists with the same members give the same function *)
Lemma whitelist_same_mem wl1 wl2 : whitelist_same wl1 wl2 = true -> forall b, mem_byte b wl1 = mem_byte b wl2.
Proof.
  unfold whitelist_same. intros H b. apply andb_true_iff in H. destruct H as [H1 H2].
  rewrite forallb_forall in H1, H2.
  destruct (mem_byte b wl1) eqn:E1.
  - symmetry. apply H1. apply mem_byte_In. exact E1.
  - destruct (mem_byte b wl2) eqn:E2; [|reflexivity]. apply mem_byte_In in E2. rewrite (H2 b E2) in E1. discriminate.
Qed.

Theorem shell_escaped_gen_ext wl1 wl2 : whitelist_same wl1 wl2 = true ->
  forall s, shell_escaped_gen wl1 s = shell_escaped_gen wl2 s.
Proof.
  intros H s. pose proof (whitelist_same_mem wl1 wl2 H) as M.
  assert (F : forall t, find_first_not_of wl1 t = find_first_not_of wl2 t).
  { induction t as [|b r IH]; [reflexivity|]. cbn [find_first_not_of]. rewrite M, IH. reflexivity. }
  unfold shell_escaped_gen. rewrite F. reflexivity.
Qed.

(* the round trip for the function of the code, given a probed whitelist [pw] (the bytes b with
   shellEscaped([b]) = [b]) that has the members of the model's whitelist *)
Corollary shell_roundtrip_probed pw p : whitelist_same pw whitelist = true -> p <> [] -> ~ In 0 p ->
  shell_escaped_gen pw p = shell_escaped p /\ sh_words (shell_escaped_gen pw p) = Some [p].
Proof.
  intros H Hne H0. rewrite (shell_escaped_gen_ext pw whitelist H p). split; [reflexivity|].
  apply shell_roundtrip_current; assumption.
Qed.

(* ---------- non-vacuity ---------- *)

(* "it's a #1 ~dir/$x\n\xff" : a quote, blanks, '#', '~', '$', a newline, a byte 0xFF *)
Definition ex_path : bytes := [105;116;39;115;32;97;32;35;49;32;126;100;105;114;47;36;120;10;255].

Example ex_roundtrip : ex_path <> [] /\ ~ In 0 ex_path /\
  shell_escaped ex_path = [39;105;116;39;92;39;39;115;32;97;32;35;49;32;126;100;105;114;47;36;120;10;255;39] /\
  sh_words (shell_escaped ex_path) = Some [ex_path].
Proof.
  split; [discriminate|]. split; [|split; reflexivity].
  unfold ex_path. cbn [In]. intros H. repeat (destruct H as [H|H]; [discriminate|]). exact H.
Qed.

Example ex_safe : shell_escaped [97; 47; 98; 46; 99; 61; 37] = [97; 47; 98; 46; 99; 61; 37] /\
  forallb (fun b => mem_byte b whitelist) [97; 47; 98; 46; 99; 61; 37] = true /\
  shell_escaped [35; 120] = [39; 35; 120; 39] /\ forallb (fun b => mem_byte b whitelist) [35; 120] = false.
Proof. repeat split; reflexivity. Qed.

Example ex_necessary : In 35 (35 :: whitelist) /\ 35 <> 0 /\ sh_meta 35 = true.
Proof. split; [left; reflexivity|]. split; [discriminate | reflexivity]. Qed.

(* ====================================================================================================== *)
(* EXPORTED LEMMAS (all closed under the global context; restated in Props/Properties_c17lex.v)

     shell_roundtrip               : forall wl p, whitelist_ok wl = true -> p <> [] -> ~ In 0 p ->
                                     sh_words (shell_escaped_gen wl p) = Some [p]
     shell_roundtrip_current       : forall p, p <> [] -> ~ In 0 p -> sh_words (shell_escaped p) = Some [p]
     shell_roundtrip_probed        : whitelist_same pw whitelist = true -> p <> [] -> ~ In 0 p ->
                                     shell_escaped_gen pw p = shell_escaped p /\ sh_words (shell_escaped_gen pw p) = Some [p]
     shell_escaped_safe_chars      : forall wl p, shell_escaped_gen wl p = p <-> forallb (fun b => mem_byte b wl) p = true
     shell_escaped_quoted          : forallb (fun b => mem_byte b wl) p = false -> exists mid, shell_escaped_gen wl p = 39 :: mid ++ [39]
     shell_escaped_gen_ext         : whitelist_same wl1 wl2 = true -> forall s, shell_escaped_gen wl1 s = shell_escaped_gen wl2 s
     whitelist_is_ok               : whitelist_ok whitelist = true

   Side conditions, each justified by a counter-example (REFUTED without it):
     p <> []         shell_roundtrip_empty_refuted : exists p, p = [] /\ sh_words (shell_escaped p) = Some [] /\ ... <> Some [p]
                     (shellEscaped of the empty string is the empty string: sh sees no word; the caller would need two quotes)
     ~ In 0 p        shell_roundtrip_nul_refuted   : exists p, In 0 p /\ sh_words (shell_escaped p) = None
                     (a NUL ends the C string handed to sh -c; not a defect of the function)
     whitelist_ok    whitelist_with_hash_refuted   : with 35 in the whitelist the path 35 120 is emitted unquoted and
                                                     sh_words of it = Some []  (a comment: the state before the repair)
                     whitelist_with_tilde_refuted  : with 126 in the whitelist the path 126 120 is emitted unquoted: tilde expansion
                     whitelist_ok_necessary        : forall wl b, In b wl -> b <> 0 -> sh_meta b = true ->
                                                     shell_escaped_gen wl [b] = [b] /\ sh_words (shell_escaped_gen wl [b]) <> Some [[b]]
   The metacharacters (sh_meta): special anywhere in a word  | & ; < > ( ) $ ` \ double-quote single-quote space tab
   newline * ? [ NUL ; special only where a word starts  # ~ .  The characters = and % are literal in argument position
   (= is special only before the command name; % only to job-control built-ins), they may be whitelisted and are
   (equals_percent_literal).
   Table side conditions (vm_compute in the property file, over coq/gen/Gen_ShellWhitelist.v):
     whitelist_ok probed_whitelist, whitelist_same probed_whitelist whitelist,
     map (fun b => shell_escaped [b]) all_bytes = probed_shell_single. *)
