(* placeholder, being written *)
