From LLB Require Import Base.Bytes Base.BytesFacts Path.PathPrefix.
Local Open Scope N_scope.

Definition all_seps (l : bytes) : Prop := Forall (fun b => is_sep b = true) l.
Definition no_trailing_sep (l : bytes) : Prop := l = [] \/ is_sep (last l 0) = false.

Lemma is_sep_47 b : is_sep b = true <-> b = 47.
Proof. unfold is_sep. apply N.eqb_eq. Qed.

(* ---------- strip_trailing_seps ---------- *)

Lemma strip_split l : exists s, l = strip_trailing_seps l ++ s /\ all_seps s.
Proof.
  induction l as [|b l [s [Hl Hs]]]; cbn.
  - exists []. split; [reflexivity | constructor].
  - destruct (strip_trailing_seps l) as [|x r] eqn:E.
    + destruct (is_sep b) eqn:Eb.
      * exists (b :: s). cbn in Hl. rewrite Hl at 1. split; [reflexivity | constructor; assumption].
      * exists s. cbn in *. rewrite Hl at 1. split; [reflexivity | assumption].
    + exists s. rewrite Hl at 1. split; [reflexivity | assumption].
Qed.

Lemma strip_no_trailing l : no_trailing_sep (strip_trailing_seps l).
Proof.
  induction l as [|b l IH]; cbn; [left; reflexivity|].
  destruct (strip_trailing_seps l) as [|x r] eqn:E.
  - destruct (is_sep b) eqn:Eb; [left; reflexivity | right; cbn; exact Eb].
  - right. destruct IH as [IH|IH]; [discriminate|]. exact IH.
Qed.

Lemma strip_app_sep l : strip_trailing_seps (l ++ [47]) = strip_trailing_seps l.
Proof.
  induction l as [|b l IH]; cbn; [reflexivity|]. rewrite IH. reflexivity.
Qed.

Lemma strip_app_seps l s : all_seps s -> strip_trailing_seps (l ++ s) = strip_trailing_seps l.
Proof.
  intros Hs. revert l. induction Hs as [|b s Hb Hs IH]; intros l; [rewrite app_nil_r; reflexivity|].
  apply is_sep_47 in Hb. subst b.
  change (47 :: s) with ([47] ++ s). rewrite app_assoc, IH. apply strip_app_sep.
Qed.

Lemma strip_id l : no_trailing_sep l -> strip_trailing_seps l = l.
Proof.
  induction l as [|b l IH]; intros H; cbn; [reflexivity|].
  destruct l as [|c l'].
  - cbn. destruct H as [H|H]; [discriminate|]. cbn in H. rewrite H. reflexivity.
  - rewrite IH; [reflexivity|]. right. destruct H as [H|H]; [discriminate|]. exact H.
Qed.

(* ---------- mismatch ---------- *)

Lemma mismatch_spec pre path :
  let '(rp, rq) := mismatch pre path in
  exists c, pre = c ++ rp /\ path = c ++ rq /\
            (rp = [] \/ rq = [] \/ hd 0 rp <> hd 0 rq).
Proof.
  revert path; induction pre as [|a pre IH]; intros path; cbn.
  - exists []. auto.
  - destruct path as [|b path].
    + exists []. auto.
    + destruct (N.eqb_spec a b) as [->|Hne].
      * specialize (IH path). destruct (mismatch pre path) as [rp rq].
        destruct IH as [c [H1 [H2 H3]]]. exists (b :: c). cbn. rewrite <- H1, <- H2. auto.
      * exists []. cbn. auto.
Qed.

Lemma last_app_cons (a : bytes) x r d : last (a ++ x :: r) d = last (x :: r) d.
Proof. induction a as [|y a IH]; [reflexivity|]. cbn [app]. rewrite <- IH. cbn. destruct (a ++ x :: r) eqn:E; [destruct a; discriminate | reflexivity]. Qed.

(* the function body on a prefix without trailing separator *)
Lemma pip_core_spec path pre :
  no_trailing_sep pre ->
  (pip_core path pre = true <-> exists rq, path = pre ++ rq /\ head_is_sep_or_end rq = true).
Proof.
  intros Hn. unfold pip_core.
  destruct (Nat.ltb_spec (length path) (length pre)) as [Hlt|Hge].
  - (* longer prefix: impossible without a trailing separator *)
    split.
    + intros H. apply andb_true_iff in H. destruct H as [_ Hs].
      destruct Hn as [->|Hn]; [cbn in Hlt; lia | congruence].
    + intros [rq [-> _]]. rewrite app_length in Hlt. lia.
  - pose proof (mismatch_spec pre path) as M. destruct (mismatch pre path) as [rp rq].
    destruct M as [c [Hp [Hq Hd]]]. split.
    + intros H. apply andb_true_iff in H. destruct H as [H1 H2].
      destruct rp as [|x rp].
      * exists rq. rewrite app_nil_r in Hp. subst. auto.
      * exfalso. cbn in H1. apply is_sep_47 in H1. subst x.
        destruct rq as [|y rq].
        -- subst. rewrite !app_length in Hge. cbn in Hge. lia.
        -- cbn in H2. apply is_sep_47 in H2. subst y.
           destruct Hd as [Hd|[Hd|Hd]]; [discriminate | discriminate | cbn in Hd; congruence].
    + intros [rq' [E Hh]].
      (* pre is a string prefix of path, so the mismatch exhausts pre *)
      assert (rp = []) as ->.
      { destruct rp as [|x rp]; [reflexivity|exfalso].
        subst pre. rewrite <- app_assoc in E. rewrite Hq in E. apply app_inv_head in E.
        destruct rq as [|y rq]; [discriminate|]. cbn in E. inversion E; subst.
        destruct Hd as [Hd|[Hd|Hd]]; [discriminate | discriminate | cbn in Hd; congruence]. }
      rewrite app_nil_r in Hp. subst c. rewrite Hq in E. apply app_inv_head in E. subst rq'.
      cbn. exact Hh.
Qed.

Lemma pip_spec path pre :
  pip path pre = true <->
  exists rq, path = strip_trailing_seps pre ++ rq /\ head_is_sep_or_end rq = true.
Proof. unfold pip. apply pip_core_spec. apply strip_no_trailing. Qed.

(* ---------- components ---------- *)

Lemma comps_aux_app_sep a t cur :
  comps_aux (a ++ 47 :: t) cur = comps_aux a cur ++ comps_aux t [].
Proof.
  revert cur; induction a as [|b a IH]; intros cur; cbn.
  - destruct cur; reflexivity.
  - destruct (is_sep b).
    + destruct cur; cbn; rewrite IH; reflexivity.
    + apply IH.
Qed.

Lemma comps_all_seps s : all_seps s -> comps s = [].
Proof.
  unfold comps. induction 1 as [|b s Hb Hs IH]; cbn; [reflexivity|]. rewrite Hb. exact IH.
Qed.

Lemma comps_app_seps l s : all_seps s -> comps (l ++ s) = comps l.
Proof.
  intros Hs. destruct Hs as [|b s Hb Hs]; [rewrite app_nil_r; reflexivity|].
  apply is_sep_47 in Hb. subst b. unfold comps. rewrite comps_aux_app_sep.
  fold (comps s). rewrite comps_all_seps by assumption. apply app_nil_r.
Qed.

Lemma comps_strip l : comps (strip_trailing_seps l) = comps l.
Proof.
  destruct (strip_split l) as [s [Hl Hs]]. rewrite Hl at 2. symmetry. apply comps_app_seps. exact Hs.
Qed.

Lemma comp_prefix_app x y : comp_prefix x (x ++ y) = true.
Proof. induction x as [|c x IH]; cbn; [reflexivity|]. rewrite bytes_eqb_refl. exact IH. Qed.

(* Soundness, for ALL strings: whatever pip accepts lies at or beneath the prefix by whole components. *)
Lemma pip_sound path pre :
  pip path pre = true -> comp_prefix (comps pre) (comps path) = true.
Proof.
  intros H. apply pip_spec in H. destruct H as [rq [-> Hh]].
  rewrite <- (comps_strip pre).
  destruct rq as [|c rq]; [rewrite app_nil_r; rewrite <- (app_nil_r (comps _)) at 2; apply comp_prefix_app|].
  cbn in Hh. apply is_sep_47 in Hh. subst c.
  unfold comps at 2. rewrite comps_aux_app_sep. apply comp_prefix_app.
Qed.

(* A root spelled with or without trailing separators behaves the same, for ALL strings. *)
Lemma pip_trailing_sep path pre : pip path (pre ++ [47]) = pip path pre.
Proof. unfold pip. rewrite strip_app_sep. reflexivity. Qed.

Lemma pip_trailing_seps path pre s : all_seps s -> pip path (pre ++ s) = pip path pre.
Proof. intros H. unfold pip. rewrite strip_app_seps by assumption. reflexivity. Qed.

(* ---------- completeness on canonical spellings ---------- *)

Lemma join_app cs ds : join (cs ++ ds) = join cs ++ join ds.
Proof. induction cs as [|c cs IH]; cbn; [reflexivity|]. rewrite IH, <- app_assoc. reflexivity. Qed.

Lemma join_head ds : head_is_sep_or_end (join ds) = true.
Proof. destruct ds; reflexivity. Qed.

Lemma comp_ok_spec c : comp_ok c = true -> c <> [] /\ Forall (fun b => is_sep b = false) c.
Proof.
  unfold comp_ok. rewrite andb_true_iff. intros [H1 H2]. split.
  - destruct c; [discriminate | discriminate].
  - apply Forall_forall. intros b Hb. rewrite forallb_forall in H2. specialize (H2 b Hb).
    destruct (is_sep b); [discriminate | reflexivity].
Qed.

Lemma last_nonsep c d : c <> [] -> Forall (fun b => is_sep b = false) c -> is_sep (last c d) = false.
Proof.
  induction c as [|b c IH]; intros Hne Hf; [contradiction|].
  inversion Hf; subst. destruct c as [|b' c']; [cbn; assumption|].
  change (last (b :: b' :: c') d) with (last (b' :: c') d). apply IH; [discriminate | assumption].
Qed.

Lemma join_no_trailing cs : forallb comp_ok cs = true -> no_trailing_sep (join cs).
Proof.
  induction cs as [|c cs IH]; intros H; [left; reflexivity|].
  cbn in H. apply andb_true_iff in H. destruct H as [Hc Hcs]. specialize (IH Hcs).
  right. cbn [join]. apply comp_ok_spec in Hc. destruct Hc as [Hne Hf].
  destruct cs as [|c2 cs'].
  - cbn [join]. rewrite app_nil_r. destruct c as [|b c']; [contradiction|].
    change (last (47 :: b :: c') 0) with (last (b :: c') 0). apply last_nonsep; [discriminate | assumption].
  - destruct IH as [IH|IH]; [discriminate|].
    remember (join (c2 :: cs')) as j. destruct j as [|x j]; [discriminate|].
    change (47 :: c ++ x :: j) with ((47 :: c) ++ x :: j). rewrite last_app_cons. exact IH.
Qed.

(* Every path that extends a root by whole components is covered; the root may carry any number of
   trailing separators, the path may end in anything that starts with a separator. *)
Lemma pip_complete cs ds t1 t2 :
  forallb comp_ok cs = true -> all_seps t2 -> head_is_sep_or_end t1 = true ->
  pip (join (cs ++ ds) ++ t1) (join cs ++ t2) = true.
Proof.
  intros Hcs Ht2 Ht1. apply pip_spec.
  rewrite strip_app_seps by assumption. rewrite strip_id by (apply join_no_trailing; assumption).
  exists (join ds ++ t1). split; [rewrite join_app, app_assoc; reflexivity|].
  destruct ds as [|d ds]; [exact Ht1 | reflexivity].
Qed.

(* The unrepaired function (without the normalisation of the prefix) loses exactly that case. *)
Lemma pip_unrepaired_refuted :
  exists path pre, pip_unrepaired path pre = true /\ pip_unrepaired (path ++ [47; 98]) (pre ++ [47]) = false
                   /\ pip_unrepaired (path ++ [47; 98]) pre = true.
Proof. exists [47; 97], [47; 97]. vm_compute. auto. Qed.

(* ---------- stale-file removal ---------- *)

Lemma to_delete_spec prior expected roots p :
  In p (to_delete prior expected roots) <->
  In p prior /\ ~ In p expected /\ allowed roots p = true.
Proof.
  unfold to_delete. rewrite filter_In, nodup_bytes_In, andb_true_iff, negb_true_iff.
  rewrite <- (mem_bytes_In p expected).
  destruct (mem_bytes p expected); intuition congruence.
Qed.

Lemma to_delete_NoDup prior expected roots : NoDup (to_delete prior expected roots).
Proof. unfold to_delete. apply NoDup_filter. apply nodup_bytes_NoDup. Qed.

Lemma allowed_inside roots p :
  roots <> [] -> allowed roots p = true ->
  absolute p = true /\ exists r, In r roots /\ comp_prefix (comps r) (comps p) = true.
Proof.
  intros Hne H. unfold allowed in H. destruct roots as [|r0 roots]; [contradiction|].
  apply andb_true_iff in H. destruct H as [Ha He]. split; [exact Ha|].
  apply existsb_exists in He. destruct He as [r [Hin Hp]]. exists r. split; [exact Hin | apply pip_sound; exact Hp].
Qed.

Lemma nothing_outside_roots prior expected roots p :
  roots <> [] -> In p (to_delete prior expected roots) ->
  absolute p = true /\ exists r, In r roots /\ comp_prefix (comps r) (comps p) = true.
Proof. intros Hne H. apply to_delete_spec in H. destruct H as [_ [_ H]]. apply allowed_inside; assumption. Qed.

Lemma stale_history_first expected roots runs :
  hd [] (stale_history None ((expected, roots) :: runs)) = [].
Proof. reflexivity. Qed.

(* what run i removes depends only on run i-1's list, run i's list and run i's roots *)
Lemma stale_history_step runs0 : forall prior e0 r0 e1 r1 rest,
  nth (S (length runs0)) (stale_history prior (runs0 ++ (e0, r0) :: (e1, r1) :: rest)) [] = to_delete e0 e1 r1.
Proof.
  induction runs0 as [|[e r] runs0 IH]; intros prior e0 r0 e1 r1 rest.
  - cbn. destruct prior; reflexivity.
  - cbn [app stale_history length]. destruct (stale_run prior e r) as [del st] eqn:E.
    assert (st = e) as -> by (unfold stale_run in E; destruct prior; inversion E; reflexivity).
    cbn [nth]. apply IH.
Qed.

Lemma stale_history_length prior runs : length (stale_history prior runs) = length runs.
Proof.
  revert prior; induction runs as [|[e r] runs IH]; intros prior; cbn; [reflexivity|].
  destruct (stale_run prior e r) as [del st]. cbn. rewrite IH. reflexivity.
Qed.

(* The lower bound of the property ("every path meeting those conditions is removed"), on canonical spellings:
   a path of the previous list that is not listed now and lies under a root [join cs ++ separators] as
   [join (cs ++ ds) ++ t1] (t1 empty or starting with a separator) IS in the deletion list.  With no roots
   every obsolete path is.  The harness oracle [c14.run_recording] demands exactly this of the real remove() calls. *)
Lemma must_delete prior expected roots p r cs ds t1 t2 :
  In p prior -> ~ In p expected -> In r roots ->
  forallb comp_ok cs = true -> all_seps t2 -> head_is_sep_or_end t1 = true ->
  r = join cs ++ t2 -> p = join (cs ++ ds) ++ t1 -> absolute p = true ->
  In p (to_delete prior expected roots).
Proof.
  intros Hp Hne Hr Hcs Ht2 Ht1 -> -> Habs. apply to_delete_spec. split; [exact Hp|]. split; [exact Hne|].
  unfold allowed. destruct roots as [|r0 roots]; [reflexivity|].
  apply andb_true_iff. split; [exact Habs|].
  apply existsb_exists. exists (join cs ++ t2). split; [exact Hr|].
  apply pip_complete; assumption.
Qed.

Lemma must_delete_no_roots prior expected p :
  In p prior -> ~ In p expected -> In p (to_delete prior expected []).
Proof. intros Hp Hne. apply to_delete_spec. split; [exact Hp|]. split; [exact Hne | reflexivity]. Qed.

(* the same at any position of any history (restarts in between do not matter) *)
Lemma must_delete_history runs0 prior e0 r0 e1 r1 rest p r cs ds t1 t2 :
  In p e0 -> ~ In p e1 -> In r r1 ->
  forallb comp_ok cs = true -> all_seps t2 -> head_is_sep_or_end t1 = true ->
  r = join cs ++ t2 -> p = join (cs ++ ds) ++ t1 -> absolute p = true ->
  In p (nth (S (length runs0)) (stale_history prior (runs0 ++ (e0, r0) :: (e1, r1) :: rest)) []).
Proof. intros. rewrite stale_history_step. eapply must_delete; eassumption. Qed.

(* non-vacuity: "//a" (one component, doubled leading separator) under the root "/" - the case of seed C14-9 *)
Lemma must_delete_instance :
  In [47;47;97] (to_delete [[47;47;97]; [98]] [[98]] [[47]]).
Proof.
  apply (must_delete _ _ _ _ [47] [] [] [47;47;97] [47]); cbn; auto.
  - intros [H|[]]; discriminate H.
  - repeat constructor.
Qed.

(* the upper bound at any position of any history: what run i+1 hands to remove() was listed by run i, is not listed
   now, and - with roots - is absolute and lies under a root by whole components, whatever the spelling *)
Lemma may_delete_history runs0 prior e0 r0 e1 r1 rest p :
  In p (nth (S (length runs0)) (stale_history prior (runs0 ++ (e0, r0) :: (e1, r1) :: rest)) []) ->
  In p e0 /\ ~ In p e1 /\
  (r1 <> [] -> absolute p = true /\ exists r, In r r1 /\ comp_prefix (comps r) (comps p) = true).
Proof.
  rewrite stale_history_step. intros H. pose proof H as H0. apply to_delete_spec in H0.
  destruct H0 as [Hp [Hne _]]. split; [exact Hp|]. split; [exact Hne|].
  intros Hr. eapply nothing_outside_roots; eassumption.
Qed.
