(* REGENERATED on every run by harness/py/props/c15.py from probes of the rebuilt /repo. *)
From Coq Require Import List NArith.
Import ListNotations.
Local Open Scope N_scope.
(* first byte of toData() of an instance of each BuildValue kind, in enum order *)
Definition probed_value_tags : list N := [0; 1; 2; 3; 4; 5; 6; 7; 8; 9; 10; 11; 12; 13; 14; 15; 16; 17].
(* BuildKey::identifierForKind for kinds 0..8 *)
Definition probed_key_char_of_kind : list N := [67; 88; 68; 100; 83; 115; 78; 73; 84].
(* BuildKey::kindForIdentifier for chars 0..255 (9 = Unknown) *)
Definition probed_key_kind_of_char : list N := [9; 9; 9; 9; 9; 9; 9; 9; 9; 9; 9; 9; 9; 9; 9; 9; 9; 9; 9; 9; 9; 9; 9; 9; 9; 9; 9; 9; 9; 9; 9; 9; 9; 9; 9; 9; 9; 9; 9; 9; 9; 9; 9; 9; 9; 9; 9; 9; 9; 9; 9; 9; 9; 9; 9; 9; 9; 9; 9; 9; 9; 9; 9; 9; 9; 9; 9; 0; 2; 9; 9; 9; 9; 7; 9; 9; 9; 9; 6; 9; 9; 9; 9; 4; 8; 9; 9; 9; 1; 9; 9; 9; 9; 9; 9; 9; 9; 9; 9; 9; 3; 9; 9; 9; 9; 9; 9; 9; 9; 9; 9; 9; 9; 9; 9; 5; 9; 9; 9; 9; 9; 9; 9; 9; 9; 9; 9; 9; 9; 9; 9; 9; 9; 9; 9; 9; 9; 9; 9; 9; 9; 9; 9; 9; 9; 9; 9; 9; 9; 9; 9; 9; 9; 9; 9; 9; 9; 9; 9; 9; 9; 9; 9; 9; 9; 9; 9; 9; 9; 9; 9; 9; 9; 9; 9; 9; 9; 9; 9; 9; 9; 9; 9; 9; 9; 9; 9; 9; 9; 9; 9; 9; 9; 9; 9; 9; 9; 9; 9; 9; 9; 9; 9; 9; 9; 9; 9; 9; 9; 9; 9; 9; 9; 9; 9; 9; 9; 9; 9; 9; 9; 9; 9; 9; 9; 9; 9; 9; 9; 9; 9; 9; 9; 9; 9; 9; 9; 9; 9; 9; 9; 9; 9; 9; 9; 9; 9; 9; 9; 9; 9; 9; 9; 9; 9; 9].
