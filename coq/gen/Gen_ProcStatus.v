(* REGENERATED on every run by harness/py/props/c16.py from real children run through the rebuilt /repo. *)
From Coq Require Import List NArith.
Import ListNotations.
Local Open Scope N_scope.
Definition probed_fates : list (N * N * N * N) := [].
