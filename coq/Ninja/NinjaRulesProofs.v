(* Proofs about the decision logic of the Ninja command rule (model: Ninja/NinjaRules.v). *)
From LLB Require Import Base.Bytes Base.BytesFacts Codec.Codec Codec.FileObs Codec.FileObsProofs Ninja.NinjaRules.
Local Open Scope N_scope.

(* ------------------------------------------------------------------ timestamps *)


Lemma ts_ltb_lt a b : ts_ltb a b = true <-> ts_lt a b.
Proof.
  unfold ts_ltb, ts_lt. rewrite orb_true_iff, andb_true_iff, !N.ltb_lt, N.eqb_eq. reflexivity.
Qed.

Lemma ts_leb_le a b : ts_leb a b = true <-> ts_le a b.
Proof.
  unfold ts_leb, ts_le. rewrite orb_true_iff, andb_true_iff, N.ltb_lt, N.leb_le, N.eqb_eq. reflexivity.
Qed.

Lemma ts_ltb_false a b : ts_ltb a b = false <-> ts_le b a.
Proof.
  rewrite <- Bool.not_true_iff_false, ts_ltb_lt. unfold ts_lt, ts_le. lia.
Qed.

Lemma ts_leb_false a b : ts_leb a b = false <-> ts_lt b a.
Proof.
  rewrite <- Bool.not_true_iff_false, ts_leb_le. unfold ts_lt, ts_le. lia.
Qed.

Lemma ts_le_refl a : ts_le a a.
Proof. unfold ts_le. lia. Qed.

Lemma ts_le_trans a b c : ts_le a b -> ts_le b c -> ts_le a c.
Proof. unfold ts_le. lia. Qed.

Lemma ts_lt_le_trans a b c : ts_lt a b -> ts_le b c -> ts_lt a c.
Proof. unfold ts_lt, ts_le. lia. Qed.

Lemma ts_le_lt_trans a b c : ts_le a b -> ts_lt b c -> ts_lt a c.
Proof. unfold ts_lt, ts_le. lia. Qed.

Lemma ts_lt_le a b : ts_lt a b -> ts_le a b.
Proof. unfold ts_lt, ts_le. lia. Qed.

Lemma ts_lt_irrefl a : ~ ts_lt a a.
Proof. unfold ts_lt. lia. Qed.

Lemma ts_le_zero a : ts_le (0, 0) a.
Proof. unfold ts_le. cbn [fst snd]. lia. Qed.

Lemma ts_le_antisym a b : ts_le a b -> ts_le b a -> a = b.
Proof. destruct a as [a1 a2], b as [b1 b2]. unfold ts_le. cbn [fst snd]. intros H1 H2. f_equal; lia. Qed.

(* ------------------------------------------------------------------ classification of delivered values *)


Definition newest_step (acc : ts) (v : nvalue) : ts :=
  match v with
  | NExistingInput _ | NSuccessfulCommand _ _ =>
      let f := output_info v in
      if is_missing f then acc else if ts_ltb acc (mod_time f) then mod_time f else acc
  | _ => acc
  end.

Lemma provide_newest st v : t_newest (provide st v) = newest_step (t_newest st) v.
Proof.
  destruct v as [f| |h infos| |]; cbn [provide newest_step]; try reflexivity.
  - destruct (is_missing (output_info (NExistingInput f))) eqn:M; [reflexivity|].
    destruct (ts_ltb (t_newest st) (mod_time (output_info (NExistingInput f)))) eqn:L; reflexivity.
  - destruct (is_missing (output_info (NSuccessfulCommand h infos))) eqn:M; [reflexivity|].
    destruct (ts_ltb (t_newest st) (mod_time (output_info (NSuccessfulCommand h infos)))) eqn:L; reflexivity.
Qed.

Lemma provide_should_skip st v : t_should_skip (provide st v) = t_should_skip st || is_bad v.
Proof.
  destruct v as [f| |h infos| |]; cbn [provide is_bad]; rewrite ?orb_true_r, ?orb_false_r; try reflexivity.
  - destruct (is_missing (output_info (NExistingInput f))) eqn:M; [reflexivity|].
    destruct (ts_ltb (t_newest st) (mod_time (output_info (NExistingInput f)))) eqn:L; reflexivity.
  - destruct (is_missing (output_info (NSuccessfulCommand h infos))) eqn:M; [reflexivity|].
    destruct (ts_ltb (t_newest st) (mod_time (output_info (NSuccessfulCommand h infos)))) eqn:L; reflexivity.
Qed.

Lemma provide_has_missing st v : t_has_missing (provide st v) = t_has_missing st || is_missing_input v.
Proof.
  destruct v as [f| |h infos| |]; cbn [provide is_missing_input]; rewrite ?orb_true_r, ?orb_false_r; try reflexivity.
  - destruct (is_missing (output_info (NExistingInput f))) eqn:M; [reflexivity|].
    destruct (ts_ltb (t_newest st) (mod_time (output_info (NExistingInput f)))) eqn:L; reflexivity.
  - destruct (is_missing (output_info (NSuccessfulCommand h infos))) eqn:M; [reflexivity|].
    destruct (ts_ltb (t_newest st) (mod_time (output_info (NSuccessfulCommand h infos)))) eqn:L; reflexivity.
Qed.

Lemma provide_can_update st v : t_can_update (provide st v) = t_can_update st && stamped v.
Proof.
  unfold stamped.
  destruct v as [f| |h infos| |]; cbn [provide delivers_missing is_bad negb andb]; rewrite ?andb_false_r; try reflexivity.
  - destruct (is_missing (output_info (NExistingInput f))) eqn:M; cbn [negb]; [rewrite andb_false_r; reflexivity|].
    rewrite andb_true_r.
    destruct (ts_ltb (t_newest st) (mod_time (output_info (NExistingInput f)))) eqn:L; reflexivity.
  - destruct (is_missing (output_info (NSuccessfulCommand h infos))) eqn:M; cbn [negb]; [rewrite andb_false_r; reflexivity|].
    rewrite andb_true_r.
    destruct (ts_ltb (t_newest st) (mod_time (output_info (NSuccessfulCommand h infos)))) eqn:L; reflexivity.
Qed.

Lemma fold_newest vs : forall st, t_newest (fold_left provide vs st) = fold_left newest_step vs (t_newest st).
Proof.
  induction vs as [|v vs IH]; intros st; cbn [fold_left]; [reflexivity|].
  rewrite IH, provide_newest. reflexivity.
Qed.

Lemma fold_should_skip vs : forall st,
  t_should_skip (fold_left provide vs st) = t_should_skip st || existsb is_bad vs.
Proof.
  induction vs as [|v vs IH]; intros st; cbn [fold_left existsb]; [rewrite orb_false_r; reflexivity|].
  rewrite IH, provide_should_skip, orb_assoc. reflexivity.
Qed.

Lemma fold_has_missing vs : forall st,
  t_has_missing (fold_left provide vs st) = t_has_missing st || existsb is_missing_input vs.
Proof.
  induction vs as [|v vs IH]; intros st; cbn [fold_left existsb]; [rewrite orb_false_r; reflexivity|].
  rewrite IH, provide_has_missing, orb_assoc. reflexivity.
Qed.

Lemma fold_can_update vs : forall st,
  t_can_update (fold_left provide vs st) = t_can_update st && forallb stamped vs.
Proof.
  induction vs as [|v vs IH]; intros st; cbn [fold_left forallb]; [rewrite andb_true_r; reflexivity|].
  rewrite IH, provide_can_update, andb_assoc. reflexivity.
Qed.

(* the fields of the task after all inputs were delivered, in closed form *)
Lemma provide_all_should_skip c ins : t_should_skip (provide_all c ins) = existsb is_bad (requested ins).
Proof. unfold provide_all, provide_all_with. rewrite fold_should_skip. reflexivity. Qed.

Lemma provide_all_has_missing c ins : t_has_missing (provide_all c ins) = existsb is_missing_input (requested ins).
Proof. unfold provide_all, provide_all_with. rewrite fold_has_missing. reflexivity. Qed.

Lemma provide_all_can_update c ins :
  t_can_update (provide_all c ins) = negb (c_has_deps c) && forallb stamped (requested ins).
Proof. unfold provide_all, provide_all_with. rewrite fold_can_update. reflexivity. Qed.

(* newestModTime is the fold of the specification *)
Lemma provide_all_newest c ins : t_newest (provide_all c ins) = newest_mod_time ins.
Proof. unfold provide_all, provide_all_with, newest_mod_time. rewrite fold_newest. reflexivity. Qed.

(* ... and that fold is the maximum of the stamps of the delivered, existing inputs *)
Lemma newest_step_mono acc v : ts_le acc (newest_step acc v).
Proof.
  destruct v as [f| |h infos| |]; cbn [newest_step]; try apply ts_le_refl.
  - destruct (is_missing _); [apply ts_le_refl|].
    destruct (ts_ltb acc _) eqn:L; [apply ts_lt_le, ts_ltb_lt, L | apply ts_le_refl].
  - destruct (is_missing _); [apply ts_le_refl|].
    destruct (ts_ltb acc _) eqn:L; [apply ts_lt_le, ts_ltb_lt, L | apply ts_le_refl].
Qed.

Lemma fold_newest_mono vs : forall acc, ts_le acc (fold_left newest_step vs acc).
Proof.
  induction vs as [|v vs IH]; intros acc; cbn [fold_left]; [apply ts_le_refl|].
  eapply ts_le_trans; [apply newest_step_mono | apply IH].
Qed.

Lemma newest_step_ge acc v : stamped v = true -> ts_le (mod_time (output_info v)) (newest_step acc v).
Proof.
  unfold stamped. intros S. apply andb_true_iff in S. destruct S as [B M].
  destruct v as [f| |h infos| |]; cbn [is_bad negb] in B; try discriminate; cbn [delivers_missing] in M;
    apply negb_true_iff in M; cbn [newest_step]; rewrite M.
  - destruct (ts_ltb acc _) eqn:L; [apply ts_le_refl | apply ts_ltb_false, L].
  - destruct (ts_ltb acc _) eqn:L; [apply ts_le_refl | apply ts_ltb_false, L].
Qed.

Lemma fold_newest_ge vs : forall acc v, In v vs -> stamped v = true ->
  ts_le (mod_time (output_info v)) (fold_left newest_step vs acc).
Proof.
  induction vs as [|w vs IH]; intros acc v I S; [destruct I|].
  cbn [fold_left]. destruct I as [E|I].
  - subst w. eapply ts_le_trans; [apply newest_step_ge, S | apply fold_newest_mono].
  - apply IH; assumption.
Qed.

Lemma newest_step_cases acc v : newest_step acc v = acc \/ (stamped v = true /\ newest_step acc v = mod_time (output_info v)).
Proof.
  destruct v as [f| |h infos| |]; cbn [newest_step]; auto.
  - destruct (is_missing (output_info (NExistingInput f))) eqn:M; [auto|].
    destruct (ts_ltb acc _); [right|auto]. unfold stamped. cbn [is_bad delivers_missing negb]. rewrite M. auto.
  - destruct (is_missing (output_info (NSuccessfulCommand h infos))) eqn:M; [auto|].
    destruct (ts_ltb acc _); [right|auto]. unfold stamped. cbn [is_bad delivers_missing negb]. rewrite M. auto.
Qed.

Lemma fold_newest_attained vs : forall acc,
  fold_left newest_step vs acc = acc \/
  exists v, In v vs /\ stamped v = true /\ fold_left newest_step vs acc = mod_time (output_info v).
Proof.
  induction vs as [|w vs IH]; intros acc; cbn [fold_left]; [auto|].
  destruct (IH (newest_step acc w)) as [E|[v [I [S E]]]].
  - rewrite E. destruct (newest_step_cases acc w) as [E2|[S2 E2]]; [auto|].
    right. exists w. split; [left; reflexivity|]. auto.
  - right. exists v. split; [right; assumption|]. auto.
Qed.

(* newest_mod_time is an upper bound of every delivered stamp ... *)
Lemma newest_upper_bound ins v : In v (requested ins) -> stamped v = true ->
  ts_le (mod_time (output_info v)) (newest_mod_time ins).
Proof. intros I S. unfold newest_mod_time. apply (fold_newest_ge (requested ins) (0, 0) v I S). Qed.

(* ... and is attained (or is the initial {0,0}) *)
Lemma newest_attained ins :
  newest_mod_time ins = (0, 0) \/
  exists v, In v (requested ins) /\ stamped v = true /\ newest_mod_time ins = mod_time (output_info v).
Proof. unfold newest_mod_time. apply (fold_newest_attained (requested ins) (0, 0)). Qed.

Lemma in_requested k v ins : In (k, v) ins -> is_order_only k = false -> In v (requested ins).
Proof.
  intros I O. unfold requested. apply in_map_iff. exists (k, v). split; [reflexivity|].
  apply filter_In. split; [assumption|]. cbn [fst]. rewrite O. reflexivity.
Qed.

(* ------------------------------------------------------------------ decide, unfolded once *)


Lemma decide_eq x c prior ins outs :
  decide x c prior ins outs =
  if x_cancelled x then DCancelled
  else if c_phony c then DPhony (existsb is_missing outs)
  else if shortcut x c prior ins outs then DUpdateOnly
  else if x_simulate x then DSimulate
  else if existsb is_bad (requested ins) then DSkip (existsb is_missing_input (requested ins))
  else DRun.
Proof.
  unfold decide, decide_with, shortcut. fold (provide_all c ins).
  rewrite provide_all_can_update, provide_all_newest, provide_all_should_skip, provide_all_has_missing.
  reflexivity.
Qed.

(* ------------------------------------------------------------------ 1. a changed command line *)

Lemma hash_allows_update_false c prior :
  c_generator c = false -> prior_hash prior <> Some (c_hash c) -> hash_allows_update c prior = false.
Proof.
  intros G H. unfold hash_allows_update. rewrite G. cbn [orb].
  destruct (prior_hash prior) as [h|]; [|reflexivity].
  destruct (N.eqb_spec h (c_hash c)) as [E|E]; [subst h; contradiction H; reflexivity | reflexivity].
Qed.

Lemma decide_hash_changed_never_updates x c prior ins outs :
  c_generator c = false -> prior_hash prior <> Some (c_hash c) ->
  decide x c prior ins outs <> DUpdateOnly.
Proof.
  intros G H. rewrite decide_eq. unfold shortcut. rewrite (hash_allows_update_false c prior G H).
  rewrite andb_false_r. cbn [andb].
  destruct (x_cancelled x); [discriminate|]. destruct (c_phony c); [discriminate|].
  destruct (x_simulate x); [discriminate|]. destruct (existsb is_bad (requested ins)); discriminate.
Qed.

Lemma decide_hash_changed_runs x c prior ins outs :
  c_generator c = false -> prior_hash prior <> Some (c_hash c) ->
  x_cancelled x = false -> c_phony c = false -> x_simulate x = false ->
  existsb is_bad (requested ins) = false ->
  decide x c prior ins outs = DRun.
Proof.
  intros G H XC P S B. rewrite decide_eq. unfold shortcut. rewrite (hash_allows_update_false c prior G H).
  rewrite andb_false_r. cbn [andb]. rewrite XC, P, S, B. reflexivity.
Qed.

(* ------------------------------------------------------------------ 2. failed / missing / skipped inputs *)

Lemma decide_failed_input_never_runs x c prior ins outs :
  existsb is_bad (requested ins) = true -> decide x c prior ins outs <> DRun.
Proof.
  intros B. rewrite decide_eq, B.
  destruct (x_cancelled x); [discriminate|]. destruct (c_phony c); [discriminate|].
  destruct (shortcut x c prior ins outs); [discriminate|]. destruct (x_simulate x); discriminate.
Qed.

Lemma bad_not_stamped vs : existsb is_bad vs = true -> forallb stamped vs = false.
Proof.
  intros B. apply existsb_exists in B. destruct B as [v [I B]].
  destruct (forallb stamped vs) eqn:F; [|reflexivity].
  rewrite forallb_forall in F. specialize (F v I). unfold stamped in F. rewrite B in F. discriminate.
Qed.

Lemma shortcut_false_bad x c prior ins outs :
  existsb is_bad (requested ins) = true -> shortcut x c prior ins outs = false.
Proof.
  intros B. unfold shortcut. rewrite (bad_not_stamped _ B). rewrite andb_false_r. reflexivity.
Qed.

(* a failed / missing / skipped input: the command is skipped (true = a missing input, reported as a failure) *)
Lemma decide_failed_input_skips x c prior ins outs :
  existsb is_bad (requested ins) = true ->
  x_cancelled x = false -> c_phony c = false -> x_simulate x = false ->
  decide x c prior ins outs = DSkip (existsb is_missing_input (requested ins)).
Proof.
  intros B XC P S. rewrite decide_eq, XC, P, (shortcut_false_bad x c prior ins outs B), S, B. reflexivity.
Qed.

(* whatever the flags, it is never completed as up to date *)
Lemma decide_failed_input_never_updates x c prior ins outs :
  existsb is_bad (requested ins) = true -> decide x c prior ins outs <> DUpdateOnly.
Proof.
  intros B. rewrite decide_eq, (shortcut_false_bad x c prior ins outs B), B.
  destruct (x_cancelled x); [discriminate|]. destruct (c_phony c); [discriminate|].
  destruct (x_simulate x); discriminate.
Qed.

(* sufficient, user-level reasons for the shortcut not to apply *)
Lemma shortcut_false_reasons x c prior ins outs :
  c_has_deps c = true \/ (c_generator c = false /\ prior_hash prior <> Some (c_hash c)) \/
  existsb is_missing outs = true ->
  shortcut x c prior ins outs = false.
Proof.
  unfold shortcut. intros [D|[[G H]|M]].
  - rewrite D. reflexivity.
  - rewrite (hash_allows_update_false c prior G H). rewrite andb_false_r. reflexivity.
  - apply existsb_exists in M. destruct M as [o [I M]].
    destruct (can_update_with_result (x_strict x) (newest_mod_time ins) outs) eqn:U; [|apply andb_false_r].
    unfold can_update_with_result in U. rewrite forallb_forall in U. specialize (U o I).
    unfold output_fresh in U. rewrite M in U. discriminate.
Qed.

Lemma skip_never_valid c outs : command_valid c NSkippedCommand outs = Some false.
Proof. reflexivity. Qed.

Lemma failed_never_valid c outs : command_valid c NFailedCommand outs = Some false.
Proof. reflexivity. Qed.

(* whatever the decision, a value produced by skipping is invalid on the next build *)
Lemma produced_skip_never_valid c outs outs' d :
  produced c outs d = Some NSkippedCommand -> command_valid c NSkippedCommand outs' = Some false.
Proof. intros _. reflexivity. Qed.

Lemma decide_skip_produces_skipped c outs m : produced c outs (DSkip m) = Some NSkippedCommand.
Proof. reflexivity. Qed.

(* a failing process: failed value, change forced downstream, never valid *)
Lemma run_failed_never_valid c deps_ok outs_after outs' :
  run_complete c false false deps_ok outs_after = (NFailedCommand, true) /\
  command_valid c (fst (run_complete c false false deps_ok outs_after)) outs' = Some false.
Proof. split; reflexivity. Qed.

(* the code before repair a03bdd8 examined shouldSkip only after the shortcut: a command with unchanged
   hash whose output (stamp 5.0) is newer than its existing input (stamp 1.0) and whose second input is
   MISSING was completed as successful, and that value was valid on the next build *)
Lemma decide_unrepaired_failed_input_refuted :
  exists x c prior ins outs,
    x_cancelled x = false /\ x_simulate x = false /\ c_phony c = false /\
    In (CExplicit, NMissingInput) ins /\
    decide_unrepaired x c prior ins outs = DUpdateOnly /\
    produced c outs (decide_unrepaired x c prior ins outs) = Some (command_result c outs) /\
    command_valid c (command_result c outs) outs = Some true /\
    decide x c prior ins outs = DSkip true.
Proof.
  exists (mkCtx false false false), (mkCmd 7 false false false false),
         (Some (NSuccessfulCommand 7 [fi_at 3 5 0])),
         [(CExplicit, NExistingInput (fi_at 2 1 0)); (CExplicit, NMissingInput)], [fi_at 3 5 0].
  vm_compute. repeat split; auto.
Qed.

(* ------------------------------------------------------------------ 3. missing or older outputs *)

Lemma can_update_false_missing strict newest outs :
  existsb is_missing outs = true -> can_update_with_result strict newest outs = false.
Proof.
  intros M. apply existsb_exists in M. destruct M as [o [I M]].
  destruct (can_update_with_result strict newest outs) eqn:U; [|reflexivity].
  unfold can_update_with_result in U. rewrite forallb_forall in U. specialize (U o I).
  unfold output_fresh in U. rewrite M in U. discriminate.
Qed.


Lemma can_update_false_stale strict newest outs o :
  In o outs -> stale_against strict o newest -> can_update_with_result strict newest outs = false.
Proof.
  intros I S. destruct (can_update_with_result strict newest outs) eqn:U; [|reflexivity].
  unfold can_update_with_result in U. rewrite forallb_forall in U. specialize (U o I).
  unfold output_fresh in U. apply andb_true_iff in U. destruct U as [_ U].
  unfold stale_against in S. destruct strict.
  - apply negb_true_iff, ts_leb_false in U. exfalso. eapply ts_lt_irrefl, ts_lt_le_trans; eassumption.
  - apply negb_true_iff, ts_ltb_false in U. exfalso. eapply ts_lt_irrefl, ts_lt_le_trans; eassumption.
Qed.

Lemma stale_against_input strict o v ins :
  In v (requested ins) -> stamped v = true ->
  stale_against strict o (mod_time (output_info v)) -> stale_against strict o (newest_mod_time ins).
Proof.
  intros I S H. pose proof (newest_upper_bound ins v I S) as UB. unfold stale_against in *. destruct strict.
  - eapply ts_le_trans; eassumption.
  - eapply ts_lt_le_trans; eassumption.
Qed.

Lemma decide_older_output_runs x c prior ins outs :
  x_cancelled x = false -> c_phony c = false -> x_simulate x = false ->
  existsb is_bad (requested ins) = false ->
  (existsb is_missing outs = true \/
   exists o k v, In o outs /\ In (k, v) ins /\ is_order_only k = false /\ stamped v = true /\
                 stale_against (x_strict x) o (mod_time (output_info v))) ->
  decide x c prior ins outs = DRun.
Proof.
  intros XC P S B H. rewrite decide_eq, XC, P, S, B.
  assert (SC : shortcut x c prior ins outs = false).
  { unfold shortcut. destruct H as [M|[o [k [v [IO [II [OO [ST SA]]]]]]]].
    - rewrite (can_update_false_missing _ _ _ M). apply andb_false_r.
    - rewrite (can_update_false_stale (x_strict x) (newest_mod_time ins) outs o IO).
      + apply andb_false_r.
      + eapply stale_against_input; [eapply in_requested; eassumption | assumption | assumption]. }
  rewrite SC. reflexivity.
Qed.

(* boundary: in non-strict mode (the default) an output whose stamp EQUALS the newest input's is not re-run *)
Lemma decide_equal_stamp_nonstrict_refuted :
  exists x c prior ins outs o f,
    x_strict x = false /\ x_cancelled x = false /\ x_simulate x = false /\ c_phony c = false /\
    ins = [(CExplicit, NExistingInput f)] /\ outs = [o] /\ mod_time o = mod_time f /\
    decide x c prior ins outs = DUpdateOnly.
Proof.
  exists (mkCtx false false false), (mkCmd 7 false false false false), (Some (NSuccessfulCommand 7 [fi_at 3 5 9])),
         [(CExplicit, NExistingInput (fi_at 2 5 9))], [fi_at 3 5 9], (fi_at 3 5 9), (fi_at 2 5 9).
  vm_compute. repeat split; auto.
Qed.

(* ------------------------------------------------------------------ 4. order-only inputs *)

Lemma requested_ext ins ins' :
  requested ins = requested ins' -> forall x c prior outs, decide x c prior ins outs = decide x c prior ins' outs.
Proof.
  intros E x c prior outs. unfold decide, decide_with, provide_all_with. rewrite E. reflexivity.
Qed.


Lemma requested_remap g ins : requested (map (remap_order_only g) ins) = requested ins.
Proof.
  unfold requested. induction ins as [|[k v] ins IH]; [reflexivity|].
  cbn [map]. unfold remap_order_only at 1. cbn [fst snd].
  destruct (is_order_only k) eqn:O.
  - cbn [filter fst]. rewrite O. cbn [negb]. exact IH.
  - cbn [filter fst]. rewrite O. cbn [negb map snd]. rewrite IH. reflexivity.
Qed.

(* whatever is delivered for order-only inputs - other stamps, missing, failed - the decision is the same *)
Lemma decide_order_only_ignored g x c prior ins outs :
  decide x c prior (map (remap_order_only g) ins) outs = decide x c prior ins outs.
Proof. apply requested_ext, requested_remap. Qed.

(* also dropping them altogether changes nothing *)
Lemma decide_order_only_dropped x c prior ins outs :
  decide x c prior (filter (fun i => negb (is_order_only (fst i))) ins) outs = decide x c prior ins outs.
Proof.
  apply requested_ext. unfold requested. f_equal.
  induction ins as [|[k v] ins IH]; [reflexivity|].
  cbn [filter fst]. destruct (is_order_only k) eqn:O; cbn [negb]; [assumption|].
  cbn [filter fst]. rewrite O. cbn [negb]. rewrite IH. reflexivity.
Qed.

Lemma any_requested_changed_remap g ins changed :
  any_requested_changed (map (remap_order_only g) ins) changed = any_requested_changed ins changed.
Proof.
  unfold any_requested_changed. revert changed.
  induction ins as [|[k v] ins IH]; intros [|b changed]; try reflexivity.
  cbn [map combine existsb]. rewrite IH. f_equal.
  unfold remap_order_only. cbn [fst snd]. destruct (is_order_only k) eqn:O; cbn [fst snd]; rewrite ?O; reflexivity.
Qed.

Lemma any_requested_changed_order_only_flags ins changed changed' :
  length changed = length ins -> length changed' = length ins ->
  (forall n k v, nth_error ins n = Some (k, v) -> is_order_only k = false -> nth_error changed n = nth_error changed' n) ->
  any_requested_changed ins changed = any_requested_changed ins changed'.
Proof.
  unfold any_requested_changed. revert changed changed'.
  induction ins as [|[k v] ins IH]; intros [|b ch] [|b' ch'] L1 L2 H; try reflexivity; try discriminate.
  cbn [combine existsb fst snd]. f_equal.
  - destruct (is_order_only k) eqn:O; [reflexivity|]. cbn [negb andb].
    specialize (H 0%nat k v eq_refl O). cbn in H. congruence.
  - apply IH; [cbn in L1; lia | cbn in L2; lia|].
    intros n k' v' N O. apply (H (S n) k' v' N O).
Qed.

(* the whole rule step (engine + task) does not depend on order-only inputs either: neither on what they
   deliver nor on whether they changed *)
Lemma rule_step_order_only_ignored g x c prior ins changed changed' outs :
  length changed = length ins -> length changed' = length ins ->
  (forall n k v, nth_error ins n = Some (k, v) -> is_order_only k = false -> nth_error changed n = nth_error changed' n) ->
  rule_step x c prior (map (remap_order_only g) ins) changed' outs = rule_step x c prior ins changed outs.
Proof.
  intros L1 L2 H. unfold rule_step. rewrite decide_order_only_ignored, any_requested_changed_remap.
  rewrite (any_requested_changed_order_only_flags ins changed changed' L1 L2 H). reflexivity.
Qed.

(* "a failed order-only input still skips" does NOT hold for the code: the failure never reaches the task *)
Lemma decide_order_only_failed_skips_refuted :
  exists x c prior ins outs,
    x_cancelled x = false /\ x_simulate x = false /\ c_phony c = false /\
    In (COrderOnly, NFailedCommand) ins /\ decide x c prior ins outs = DRun.
Proof.
  exists (mkCtx false false false), (mkCmd 7 false false false false), None,
         [(CExplicit, NExistingInput (fi_at 2 1 0)); (COrderOnly, NFailedCommand)], [missing_info].
  vm_compute. repeat split; auto.
Qed.

(* a phony command launders a failed input into a successful value *)
Lemma decide_phony_failed_input_refuted :
  exists x c prior ins outs v,
    x_cancelled x = false /\ c_phony c = true /\ In (CExplicit, NFailedCommand) ins /\
    produced c outs (decide x c prior ins outs) = Some v /\ is_bad v = false.
Proof.
  exists (mkCtx false false false), (mkCmd 7 false true false false), None,
         [(CExplicit, NFailedCommand)], [missing_info], (NSuccessfulCommand 7 [missing_info]).
  vm_compute. repeat split; auto.
Qed.

(* ------------------------------------------------------------------ 6. implicit inputs are explicit inputs *)


Lemma requested_reclass r ins :
  (forall k, is_order_only (r k) = is_order_only k) -> requested (map (reclass r) ins) = requested ins.
Proof.
  intros R. unfold requested. induction ins as [|[k v] ins IH]; [reflexivity|].
  cbn [map filter]. unfold reclass at 1. cbn [fst snd]. rewrite R.
  destruct (is_order_only k); cbn [negb map]; rewrite IH; reflexivity.
Qed.


Lemma decide_class_insensitive r x c prior ins outs :
  (forall k, is_order_only (r k) = is_order_only k) ->
  decide x c prior (map (reclass r) ins) outs = decide x c prior ins outs.
Proof. intros R. apply requested_ext, requested_reclass, R. Qed.

Lemma decide_implicit_as_explicit x c prior ins outs :
  decide x c prior (map (reclass swap_explicit_implicit) ins) outs = decide x c prior ins outs.
Proof. apply decide_class_insensitive. intros [| |]; reflexivity. Qed.

Lemma decide_implicit_triggers x c prior ins outs o v :
  x_cancelled x = false -> c_phony c = false -> x_simulate x = false ->
  existsb is_bad (requested ins) = false ->
  In o outs -> In (CImplicit, v) ins -> stamped v = true ->
  stale_against (x_strict x) o (mod_time (output_info v)) ->
  decide x c prior ins outs = DRun.
Proof.
  intros XC P S B IO II ST SA. apply decide_older_output_runs; try assumption.
  right. exists o, CImplicit, v. repeat split; assumption.
Qed.

(* ------------------------------------------------------------------ 5. the null build *)

Lemma nth_output_info_mid pre f suf : nth_output_info (pre ++ f :: suf) (length pre) = NthInfo f.
Proof.
  assert (N : nth_error (pre ++ f :: suf) (length pre) = Some f).
  { rewrite nth_error_app2 by lia. rewrite Nat.sub_diag. reflexivity. }
  unfold nth_output_info. destruct (pre ++ f :: suf) as [|a [|b l]] eqn:E.
  - destruct pre; discriminate.
  - destruct pre as [|p pre]; cbn in E; [congruence|].
    destruct pre; discriminate.
  - rewrite N. reflexivity.
Qed.

Lemma outputs_valid_self suf : forall pre,
  forallb (fun f => negb (is_missing f)) suf = true ->
  outputs_valid (pre ++ suf) (length pre) suf = Some true.
Proof.
  induction suf as [|f suf IH]; intros pre A; [reflexivity|].
  cbn [forallb] in A. apply andb_true_iff in A. destruct A as [M A]. apply negb_true_iff in M.
  cbn [outputs_valid]. rewrite M, nth_output_info_mid, info_eqb_refl.
  replace (pre ++ f :: suf) with ((pre ++ [f]) ++ suf) by (rewrite <- app_assoc; reflexivity).
  replace (S (length pre)) with (length (pre ++ [f])) by (rewrite app_length; cbn; lia).
  apply IH, A.
Qed.

(* a successful value is valid as long as every output still is what was recorded (and exists) *)
Lemma command_result_valid c outs :
  forallb (fun f => negb (is_missing f)) outs = true ->
  command_valid c (command_result c outs) outs = Some true.
Proof.
  intros A. unfold command_valid, command_result. rewrite N.eqb_refl. cbn [negb]. rewrite andb_false_r.
  apply (outputs_valid_self outs [] A).
Qed.

Lemma can_update_all_present strict newest outs :
  can_update_with_result strict newest outs = true -> forallb (fun f => negb (is_missing f)) outs = true.
Proof.
  unfold can_update_with_result. rewrite !forallb_forall. intros H o I. specialize (H o I).
  unfold output_fresh in H. apply andb_true_iff in H. apply H.
Qed.

(* an UpdateOnly decision leaves a value that is valid right away *)
Lemma update_only_valid x c prior ins outs :
  decide x c prior ins outs = DUpdateOnly ->
  produced c outs DUpdateOnly = Some (command_result c outs) /\
  command_valid c (command_result c outs) outs = Some true.
Proof.
  intros D. split; [reflexivity|]. rewrite decide_eq in D.
  destruct (x_cancelled x); [discriminate|]. destruct (c_phony c); [discriminate|].
  destruct (shortcut x c prior ins outs) eqn:SC.
  - unfold shortcut in SC. apply andb_true_iff in SC. destruct SC as [_ U].
    apply command_result_valid. eapply can_update_all_present, U.
  - destruct (x_simulate x); [discriminate|]. destruct (existsb is_bad (requested ins)); discriminate.
Qed.


Lemma can_update_fresh strict ins outs :
  forallb (fun f => negb (is_missing f)) outs = true ->
  (forall o, In o outs -> ts_lt (0, 0) (mod_time o)) ->
  all_newer ins outs ->
  can_update_with_result strict (newest_mod_time ins) outs = true.
Proof.
  intros A Z N. unfold can_update_with_result. apply forallb_forall. intros o I.
  rewrite forallb_forall in A. unfold output_fresh. rewrite (A o I). cbn [andb].
  assert (L : ts_lt (newest_mod_time ins) (mod_time o)).
  { destruct (newest_attained ins) as [E|[v [IV [S E]]]]; rewrite E; [apply Z, I | apply N; assumption]. }
  destruct strict; apply negb_true_iff.
  - apply ts_leb_false, L.
  - apply ts_ltb_false, ts_lt_le, L.
Qed.

(* The null-build lemma.  State right after a successful run under a logical clock: the stored value is
   the result of that run (same hash, the outputs as they are now), every output exists with a stamp later
   than every delivered input, no input is failed/missing.  Then the stored value is valid, with unchanged
   inputs the engine does not even create the task, and if the task is created anyway (an input value
   changed without becoming newer, or the outputs were re-stamped) the command is not executed. *)
Lemma decide_fresh_no_run x c ins outs :
  c_has_deps c = false ->
  forallb (fun f => negb (is_missing f)) outs = true ->
  (forall o, In o outs -> ts_lt (0, 0) (mod_time o)) ->
  forallb stamped (requested ins) = true ->
  all_newer ins outs ->
  decide x c (Some (command_result c outs)) ins outs <> DRun /\
  (x_cancelled x = false -> c_phony c = false -> decide x c (Some (command_result c outs)) ins outs = DUpdateOnly) /\
  command_valid c (command_result c outs) outs = Some true.
Proof.
  intros D A Z M N.
  assert (SC : shortcut x c (Some (command_result c outs)) ins outs = true).
  { unfold shortcut. rewrite D, M. cbn [negb andb].
    unfold hash_allows_update, command_result. cbn [prior_hash]. rewrite N.eqb_refl, orb_true_r. cbn [andb].
    apply can_update_fresh; assumption. }
  split; [|split].
  - rewrite decide_eq, SC. destruct (x_cancelled x); [discriminate|]. destruct (c_phony c); discriminate.
  - intros XC P. rewrite decide_eq, XC, P, SC. reflexivity.
  - apply command_result_valid, A.
Qed.

(* for every command (also those with discovered dependencies, which never take the shortcut): with a valid
   stored value and no changed requested input nothing is executed *)
Lemma fresh_up_to_date x c ins changed outs :
  x_simulate x = false ->
  forallb (fun f => negb (is_missing f)) outs = true ->
  any_requested_changed ins changed = false ->
  rule_step x c (Some (command_result c outs)) ins changed outs = SUpToDate /\
  executes (rule_step x c (Some (command_result c outs)) ins changed outs) = false.
Proof.
  intros S A C. unfold rule_step. rewrite S, (command_result_valid c outs A), C. cbn [negb orb]. split; reflexivity.
Qed.

(* with the database absent there is no stored value: a non-generator command is always executed *)
Lemma no_prior_runs x c ins changed outs :
  c_generator c = false -> x_cancelled x = false -> c_phony c = false -> x_simulate x = false ->
  existsb is_bad (requested ins) = false ->
  executes (rule_step x c None ins changed outs) = true.
Proof.
  intros G XC P S B. unfold rule_step, executes.
  rewrite (decide_hash_changed_runs x c None ins outs G) ; try assumption; [reflexivity|].
  cbn [prior_hash]. discriminate.
Qed.

(* ------------------------------------------------------------------ validity: retried next build *)

Lemma command_valid_true_successful c v outs :
  command_valid c v outs = Some true -> exists h infos, v = NSuccessfulCommand h infos.
Proof. destruct v as [f| |h infos| |]; cbn [command_valid]; try discriminate. eauto. Qed.

Lemma outputs_valid_true_present infos cur : forall i,
  outputs_valid infos i cur = Some true -> forallb (fun f => negb (is_missing f)) cur = true.
Proof.
  induction cur as [|f cur IH]; intros i H; [reflexivity|].
  cbn [outputs_valid] in H. cbn [forallb]. destruct (is_missing f); [discriminate|]. cbn [negb andb].
  destruct (nth_output_info infos i) as [s|]; [|discriminate].
  destruct (info_eqb s f); [|discriminate]. eapply IH, H.
Qed.

(* a missing output always invalidates the command (it is rebuilt) *)
Lemma command_valid_missing_output c v outs :
  existsb is_missing outs = true -> command_valid c v outs <> Some true.
Proof.
  intros M H. destruct v as [f| |h infos| |]; cbn [command_valid] in H; try discriminate.
  destruct (negb (c_generator c) && negb (h =? c_hash c)); [discriminate|].
  apply outputs_valid_true_present in H. apply existsb_exists in M. destruct M as [o [I M]].
  rewrite forallb_forall in H. specialize (H o I). rewrite M in H. discriminate.
Qed.

(* a changed command line invalidates a non-generator command *)
Lemma command_valid_hash_changed c h infos outs :
  c_generator c = false -> h <> c_hash c -> command_valid c (NSuccessfulCommand h infos) outs = Some false.
Proof.
  intros G H. cbn [command_valid]. rewrite G. cbn [negb andb].
  destruct (N.eqb_spec h (c_hash c)) as [E|E]; [contradiction|reflexivity].
Qed.

(* getNthOutputInfo never reads past the stored infos when the stored value has as many infos as the
   command has outputs (the rule key contains every output path, so this is the reachable case) *)
Lemma outputs_valid_defined infos cur : forall i,
  (i + length cur <= length infos)%nat -> outputs_valid infos i cur <> None.
Proof.
  induction cur as [|f cur IH]; intros i L; [discriminate|].
  cbn [outputs_valid]. destruct (is_missing f); [discriminate|].
  cbn [length] in L.
  assert (X : exists s, nth_output_info infos i = NthInfo s).
  { unfold nth_output_info. destruct infos as [|a [|b l]]; eauto.
    destruct (nth_error (a :: b :: l) i) eqn:E; eauto.
    apply nth_error_None in E. lia. }
  destruct X as [s E]. rewrite E. destruct (info_eqb s f); [|discriminate]. apply IH. lia.
Qed.

Lemma command_valid_defined c v outs :
  match v with NSuccessfulCommand _ infos => length infos = length outs | _ => True end ->
  command_valid c v outs <> None.
Proof.
  destruct v as [f| |h infos| |]; cbn [command_valid]; try discriminate. intros L.
  destruct (negb (c_generator c) && negb (h =? c_hash c)); [discriminate|].
  apply outputs_valid_defined. lia.
Qed.

(* ... and does when a value with k > 1 infos is checked against more than k outputs whose first k infos
   match (reachable only if two different output lists share a rule key, e.g. "a&&b","c" and "a","b","c",
   and the files are hard links of each other) *)
Lemma command_valid_overread_witness :
  exists c v outs, command_valid c v outs = None.
Proof.
  exists (mkCmd 7 false false false false), (NSuccessfulCommand 7 [fi_at 3 5 0; fi_at 3 5 0]),
         [fi_at 3 5 0; fi_at 3 5 0; fi_at 3 5 0].
  vm_compute. reflexivity.
Qed.

(* inputs: a stored value is valid iff it is an existing-input value equal to the current stat *)
Lemma input_valid_self f : is_missing f = false -> input_valid (input_value f) f = true.
Proof. intros M. unfold input_value. rewrite M. cbn [input_valid]. rewrite M, info_eqb_refl. reflexivity. Qed.

Lemma input_missing_never_valid cur : input_valid NMissingInput cur = false.
Proof. reflexivity. Qed.

Lemma input_valid_detects f cur :
  input_valid (NExistingInput f) cur = true -> is_missing cur = false /\ mod_time f = mod_time cur /\ fi_size f = fi_size cur.
Proof.
  cbn [input_valid]. intros H. apply andb_true_iff in H. destruct H as [M E].
  apply negb_true_iff in M. apply info_eqb_true in E. destruct E as [_ [_ [E3 [E4 [E5 _]]]]].
  unfold mod_time. rewrite E4, E5. auto.
Qed.

(* ------------------------------------------------------------------ non-vacuity: concrete instances *)

Definition ex_ctx : ctx := mkCtx false false false.
Definition ex_ctx_strict : ctx := mkCtx true false false.
Definition ex_cmd (h : N) : cmd := mkCmd h false false false false.
Definition ex_src : fileinfo := fi_at 2 1 0.          (* source stamped 1.0 *)
Definition ex_mid : fileinfo := fi_at 4 2 5.          (* intermediate output stamped 2.000000005 *)
Definition ex_out : fileinfo := fi_at 3 5 0.          (* output stamped 5.0 *)
Definition ex_ins : list input :=
  [(CExplicit, NExistingInput ex_src); (CImplicit, NSuccessfulCommand 3 [ex_mid]); (COrderOnly, NExistingInput (fi_at 5 9 0))].

(* same state, only the hash differs: UpdateOnly with hash 7, Run with hash 8 *)
Example decide_hash_changed_runs_instance :
  c_generator (ex_cmd 8) = false /\ prior_hash (Some (NSuccessfulCommand 7 [ex_out])) <> Some (c_hash (ex_cmd 8)) /\
  existsb is_bad (requested ex_ins) = false /\
  decide ex_ctx (ex_cmd 8) (Some (NSuccessfulCommand 7 [ex_out])) ex_ins [ex_out] = DRun /\
  decide ex_ctx (ex_cmd 7) (Some (NSuccessfulCommand 7 [ex_out])) ex_ins [ex_out] = DUpdateOnly /\
  decide ex_ctx (mkCmd 8 true false false false) (Some (NSuccessfulCommand 7 [ex_out])) ex_ins [ex_out] = DUpdateOnly.
Proof. vm_compute. repeat split; auto; discriminate. Qed.

Example decide_failed_input_skips_instance :
  let ins := [(CExplicit, NExistingInput ex_src); (CImplicit, NFailedCommand)] in
  existsb is_bad (requested ins) = true /\
  decide ex_ctx (ex_cmd 7) (Some (NSuccessfulCommand 7 [ex_out])) ins [ex_out] = DSkip false /\
  decide ex_ctx (ex_cmd 7) (Some (NSuccessfulCommand 7 [ex_out])) [(CExplicit, NExistingInput ex_src)] [ex_out] = DUpdateOnly /\
  decide ex_ctx (ex_cmd 8) None [(CExplicit, NMissingInput)] [missing_info] = DSkip true.
Proof. vm_compute. repeat split; auto. Qed.

Example decide_older_output_runs_instance :
  let old_out := fi_at 3 2 4 in                        (* 2.000000004 < 2.000000005 *)
  existsb is_bad (requested ex_ins) = false /\
  stamped (NSuccessfulCommand 3 [ex_mid]) = true /\
  stale_against false old_out (mod_time (output_info (NSuccessfulCommand 3 [ex_mid]))) /\
  decide ex_ctx (ex_cmd 7) (Some (NSuccessfulCommand 7 [old_out])) ex_ins [old_out] = DRun /\
  (* equal stamps: default mode keeps, strict mode re-runs *)
  decide ex_ctx (ex_cmd 7) (Some (NSuccessfulCommand 7 [ex_mid])) ex_ins [ex_mid] = DUpdateOnly /\
  stale_against true ex_mid (mod_time (output_info (NSuccessfulCommand 3 [ex_mid]))) /\
  decide ex_ctx_strict (ex_cmd 7) (Some (NSuccessfulCommand 7 [ex_mid])) ex_ins [ex_mid] = DRun /\
  (* a missing output *)
  decide ex_ctx (ex_cmd 7) (Some (NSuccessfulCommand 7 [ex_out])) ex_ins [missing_info] = DRun.
Proof.
  cbv zeta. split; [reflexivity|]. split; [reflexivity|]. split.
  { unfold stale_against, ts_lt. cbn. lia. }
  split; [vm_compute; reflexivity|]. split; [vm_compute; reflexivity|]. split.
  { unfold stale_against, ts_le. cbn. lia. }
  split; vm_compute; reflexivity.
Qed.

(* the order-only input of ex_ins is stamped 9.0, newer than the output 5.0: no effect; nor when it fails *)
Example decide_order_only_ignored_instance :
  decide ex_ctx (ex_cmd 7) (Some (NSuccessfulCommand 7 [ex_out])) ex_ins [ex_out] = DUpdateOnly /\
  map (remap_order_only (fun _ => NFailedCommand)) ex_ins =
    [(CExplicit, NExistingInput ex_src); (CImplicit, NSuccessfulCommand 3 [ex_mid]); (COrderOnly, NFailedCommand)] /\
  decide ex_ctx (ex_cmd 7) (Some (NSuccessfulCommand 7 [ex_out])) (map (remap_order_only (fun _ => NFailedCommand)) ex_ins) [ex_out]
    = DUpdateOnly /\
  (* the same stamp on an implicit input does trigger *)
  decide ex_ctx (ex_cmd 7) (Some (NSuccessfulCommand 7 [ex_out]))
         [(CExplicit, NExistingInput ex_src); (CImplicit, NExistingInput (fi_at 5 9 0))] [ex_out] = DRun.
Proof. vm_compute. repeat split; auto. Qed.

Example decide_fresh_no_run_instance :
  let c := mkCmd 7 false false false true in
  let outs := [ex_out; fi_at 6 2 6] in
  c_has_deps c = false /\
  forallb (fun f => negb (is_missing f)) outs = true /\
  (forall o, In o outs -> ts_lt (0, 0) (mod_time o)) /\
  forallb stamped (requested ex_ins) = true /\
  all_newer ex_ins outs /\
  decide ex_ctx c (Some (command_result c outs)) ex_ins outs = DUpdateOnly.
Proof.
  cbv zeta. split; [reflexivity|]. split; [reflexivity|]. split.
  { intros o I. cbn in I. destruct I as [<-|[<-|[]]]; unfold ts_lt; cbn; lia. }
  split; [reflexivity|]. split; [|vm_compute; reflexivity].
  intros o v IO IV S. cbn in IO, IV.
  destruct IO as [<-|[<-|[]]]; destruct IV as [<-|[<-|[]]]; unfold ts_lt; cbn; lia.
Qed.

Example decide_implicit_triggers_instance :
  let ins := [(CExplicit, NExistingInput ex_src); (CImplicit, NExistingInput (fi_at 5 9 0))] in
  existsb is_bad (requested ins) = false /\ In ex_out [ex_out] /\ In (CImplicit, NExistingInput (fi_at 5 9 0)) ins /\
  stamped (NExistingInput (fi_at 5 9 0)) = true /\
  stale_against false ex_out (mod_time (output_info (NExistingInput (fi_at 5 9 0)))) /\
  decide ex_ctx (ex_cmd 7) (Some (NSuccessfulCommand 7 [ex_out])) ins [ex_out] = DRun.
Proof.
  cbv zeta. split; [reflexivity|]. split; [left; reflexivity|]. split; [right; left; reflexivity|].
  split; [reflexivity|]. split; [|vm_compute; reflexivity]. unfold stale_against, ts_lt. cbn. lia.
Qed.

Example fresh_up_to_date_instance :
  let c := mkCmd 7 false false true false in           (* a command with discovered dependencies *)
  any_requested_changed ex_ins [false; false; true] = false /\
  rule_step ex_ctx c (Some (command_result c [ex_out])) ex_ins [false; false; true] [ex_out] = SUpToDate /\
  (* ... which always runs once its task exists *)
  rule_step ex_ctx c (Some (command_result c [ex_out])) ex_ins [true; false; false] [ex_out] = STask DRun.
Proof. vm_compute. repeat split; auto. Qed.

(* ------------------------------------------------------------------ what the command hash covers *)

Lemma app_eq_length_l {A} (a b c d : list A) : length a = length c -> a ++ b = c ++ d -> a = c /\ b = d.
Proof.
  revert c. induction a as [|x a IH]; intros [|y c] L E; cbn in L; try discriminate.
  - auto.
  - cbn in E. injection E as E1 E2. destruct (IH c) as [H1 H2]; [lia|assumption|]. subst. auto.
Qed.

(* the hashed material determines the command line, the three declared input lists and the output list: any rewiring
   (adding, removing, renaming, reordering an input or output, or moving an input to another class) changes it *)
Lemma hash_material_injective d1 d2 : hash_material d1 = hash_material d2 -> d1 = d2.
Proof.
  destruct d1 as [c1 e1 i1 o1 u1], d2 as [c2 e2 i2 o2 u2]. unfold hash_material.
  cbn [d_command d_explicit d_implicit d_order_only d_outputs].
  intros H. injection H as HC HE HI HL _ HU.
  destruct (app_eq_length_l e1 (i1 ++ o1) e2 (i2 ++ o2) HE HL) as [E1 R].
  destruct (app_eq_length_l i1 o1 i2 o2 HI R) as [E2 E3]. subst. reflexivity.
Qed.

(* before the repairs: the command line alone (an implicit input could be added unnoticed), then without the outputs
   (a statement could gain an output unnoticed) *)
Lemma hash_material_unrepaired_refuted :
  exists d1 d2, d1 <> d2 /\ hash_material_unrepaired d1 = hash_material_unrepaired d2 /\ hash_material d1 <> hash_material d2.
Proof.
  exists (mkDef [99] [[97]] [] [] [[111]]), (mkDef [99] [[97]] [[98]] [] [[111]]).
  split; [discriminate|]. split; [reflexivity|]. discriminate.
Qed.

Lemma hash_material_no_outputs_refuted :
  exists d1 d2, d1 <> d2 /\ hash_material_no_outputs d1 = hash_material_no_outputs d2 /\ hash_material d1 <> hash_material d2.
Proof.
  exists (mkDef [99] [[120]] [] [] [[97]]), (mkDef [99] [[120]] [] [] [[97]; [98]]).
  split; [discriminate|]. split; [reflexivity|]. discriminate.
Qed.

Example hash_material_instance :
  hash_material (mkDef [99] [[97]] [[98]] [] [[111]]) <> hash_material (mkDef [99] [[97]] [] [[98]] [[111]]) /\
  hash_material (mkDef [99] [[97]; [98]] [] [] [[111]]) <> hash_material (mkDef [99] [[98]; [97]] [] [] [[111]]).
Proof. split; discriminate. Qed.

(* ------------------------------------------------------------------ declared self-references reach the engine *)

Lemma start_keys_all strict phony outs ins :
  strict = true \/ phony = false -> start_keys strict phony outs ins = ins.
Proof.
  intros H. unfold start_keys.
  assert (E : forall i, negb (skips_cyclic_input strict phony outs i) = true).
  { intros i. unfold skips_cyclic_input. destruct H as [H|H]; rewrite H; cbn [negb andb]; [reflexivity|].
    rewrite andb_false_r. reflexivity. }
  induction ins as [|i ins IH]; [reflexivity|]. cbn [filter]. rewrite E, IH. reflexivity.
Qed.

Lemma start_keys_self_reference strict phony outs ins o :
  strict = true \/ phony = false -> In o ins -> In o (start_keys strict phony outs ins).
Proof. intros H I. rewrite start_keys_all by assumption. assumption. Qed.

Lemma start_keys_phony_lenient outs ins :
  start_keys false true outs ins = filter (fun i => negb (mem_bytes i outs)) ins.
Proof. reflexivity. Qed.

Example start_keys_instance :
  start_keys false false [[111]] [[105]; [111]] = [[105]; [111]] /\      (* build o: G i o      -> cycle *)
  start_keys false true [[111]] [[105]; [111]] = [[105]] /\              (* build o: phony i o  -> lenient *)
  start_keys true true [[111]] [[105]; [111]] = [[105]; [111]].          (* ... but not under --strict *)
Proof. vm_compute. repeat split; reflexivity. Qed.

(* ------------------------------------------------------------------ phony aliases as inputs *)

(* A phony command whose own name is not a file: its value carries the `missing' record, is never valid (the
   rule is re-evaluated on every build) and is completed with forceChange = true ... *)
Lemma phony_alias_never_valid x c prior ins :
  x_cancelled x = false -> c_phony c = true ->
  decide x c prior ins [missing_info] = DPhony true /\
  produced c [missing_info] (decide x c prior ins [missing_info]) = Some (command_result c [missing_info]) /\
  command_valid c (command_result c [missing_info]) [missing_info] = Some false.
Proof.
  intros XC P. unfold decide, decide_with. rewrite XC, P. split; [reflexivity|]. split; [reflexivity|].
  unfold command_valid, command_result. rewrite N.eqb_refl. cbn [negb]. rewrite andb_false_r. reflexivity.
Qed.

(* ... and a command that receives such a value is executed whenever its task exists: the null-build clause
   fails for every command with a phony alias among its explicit / implicit inputs *)
Lemma phony_alias_dependent_runs x c prior ins outs k h :
  x_cancelled x = false -> c_phony c = false -> x_simulate x = false ->
  existsb is_bad (requested ins) = false ->
  In (k, NSuccessfulCommand h [missing_info]) ins -> is_order_only k = false ->
  decide x c prior ins outs = DRun.
Proof.
  intros XC P S B I O. rewrite decide_eq, XC, P, S, B.
  assert (SC : shortcut x c prior ins outs = false).
  { unfold shortcut. pose proof (in_requested k _ ins I O) as IR.
    destruct (forallb stamped (requested ins)) eqn:F; [|rewrite andb_false_r; reflexivity].
    rewrite forallb_forall in F. specialize (F _ IR). discriminate. }
  rewrite SC. reflexivity.
Qed.

Lemma phony_alias_dependent_reruns_refuted :
  exists x c ins outs,
    x_cancelled x = false /\ x_simulate x = false /\ c_phony c = false /\ c_has_deps c = false /\
    forallb (fun f => negb (is_missing f)) outs = true /\
    existsb is_bad (requested ins) = false /\
    decide x c (Some (command_result c outs)) ins outs = DRun.
Proof.
  exists (mkCtx false false false), (mkCmd 7 false false false false),
         [(CExplicit, NExistingInput (fi_at 2 1 0)); (CImplicit, NSuccessfulCommand 9 [missing_info])], [fi_at 3 5 0].
  vm_compute. repeat split; auto.
Qed.
(* ------------------------------------------------------------------ further concrete instances *)

Example command_valid_instances :
  (* unchanged outputs, same hash: valid; other hash: invalid unless generator; output re-stamped or missing: invalid *)
  command_valid (ex_cmd 7) (NSuccessfulCommand 7 [ex_out]) [ex_out] = Some true /\
  command_valid (ex_cmd 8) (NSuccessfulCommand 7 [ex_out]) [ex_out] = Some false /\
  command_valid (mkCmd 8 true false false false) (NSuccessfulCommand 7 [ex_out]) [ex_out] = Some true /\
  command_valid (ex_cmd 7) (NSuccessfulCommand 7 [ex_out]) [fi_at 3 5 1] = Some false /\
  command_valid (ex_cmd 7) (NSuccessfulCommand 7 [ex_out]) [missing_info] = Some false /\
  command_valid (ex_cmd 7) (NSuccessfulCommand 7 [ex_out; ex_mid]) [ex_out; ex_mid] = Some true /\
  command_valid (ex_cmd 7) (NSuccessfulCommand 7 [ex_out; ex_mid]) [ex_out; missing_info] = Some false.
Proof. vm_compute. repeat split; reflexivity. Qed.

Example input_valid_instances :
  input_valid (input_value ex_src) ex_src = true /\
  input_valid (NExistingInput ex_src) (fi_at 2 1 1) = false /\      (* one nanosecond later *)
  input_valid (NExistingInput ex_src) missing_info = false /\
  input_value missing_info = NMissingInput /\
  input_valid NMissingInput ex_src = false.
Proof. vm_compute. repeat split; reflexivity. Qed.

Example no_prior_runs_instance :
  executes (rule_step ex_ctx (ex_cmd 7) None ex_ins [false; false; false] [ex_out]) = true /\
  (* a generator command decides on the stamps alone *)
  executes (rule_step ex_ctx (mkCmd 7 true false false false) None ex_ins [false; false; false] [ex_out]) = false.
Proof. vm_compute. split; reflexivity. Qed.

Example newest_instance :
  newest_mod_time ex_ins = (2, 5) /\
  newest_mod_time [(CExplicit, NExistingInput ex_src); (CExplicit, NMissingInput); (CImplicit, NSuccessfulCommand 3 [missing_info])] = (1, 0) /\
  newest_mod_time [(COrderOnly, NExistingInput ex_out)] = (0, 0).
Proof. vm_compute. repeat split; reflexivity. Qed.

Example phony_alias_instance :
  let alias := mkCmd 9 false true false false in
  decide ex_ctx alias None [(CExplicit, NSuccessfulCommand 3 [ex_mid])] [missing_info] = DPhony true /\
  decide ex_ctx (ex_cmd 7) (Some (NSuccessfulCommand 7 [ex_out]))
         [(CExplicit, NExistingInput ex_src); (CImplicit, NSuccessfulCommand 9 [missing_info])] [ex_out] = DRun /\
  (* as an order-only input the alias is harmless *)
  decide ex_ctx (ex_cmd 7) (Some (NSuccessfulCommand 7 [ex_out]))
         [(CExplicit, NExistingInput ex_src); (COrderOnly, NSuccessfulCommand 9 [missing_info])] [ex_out] = DUpdateOnly.
Proof. vm_compute. repeat split; reflexivity. Qed.

Example run_complete_instances :
  run_complete (ex_cmd 7) false true true [ex_out] = (NSuccessfulCommand 7 [ex_out], true) /\
  run_complete (mkCmd 7 false false false true) false true true [ex_out] = (NSuccessfulCommand 7 [ex_out], false) /\
  run_complete (ex_cmd 7) false true false [ex_out] = (NFailedCommand, true) /\
  run_complete (ex_cmd 7) true true true [ex_out] = (NSkippedCommand, false) /\
  select_result (NSuccessfulCommand 7 [ex_out; ex_mid]) 1 = Some (NSuccessfulCommand 7 [ex_mid], false) /\
  select_result NFailedCommand 1 = Some (NFailedCommand, true).
Proof. vm_compute. repeat split; reflexivity. Qed.

(* a phony statement with several outputs: any of its outputs among the inputs is left out in default mode, not only the first *)
Example start_keys_multi_output_instance :
  start_keys false true [[97]; [98]; [99]] [[105]; [97]] = [[105]] /\
  start_keys false true [[97]; [98]; [99]] [[105]; [98]] = [[105]] /\
  start_keys false true [[97]; [98]; [99]] [[105]; [99]] = [[105]] /\
  start_keys true true [[97]; [98]; [99]] [[105]; [99]] = [[105]; [99]].
Proof. vm_compute. repeat split; reflexivity. Qed.
