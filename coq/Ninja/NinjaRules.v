(* Model of the rules of `llbuild ninja build` (lib/Commands/NinjaBuildCommand.cpp): the Ninja driver's own
   BuildValue, the command task (start / provideValue / providePriorValue / inputsAvailable /
   canUpdateIfNewerWithResult / executeCommand's completion), buildInputIsResultValid,
   buildCommandIsResultValid, the select rules of commands with several outputs.  Definitions only.

   Transliteration notes (the quirks are kept):
   * order-only inputs are requested with TaskInterface::mustFollow: the engine never hands their values to
     provideValue, so neither their timestamps nor their FAILURE reach the task;
   * a failed / missing / skipped input sets shouldSkip AND clears canUpdateIfNewer (repair a03bdd8; before
     it shouldSkip was examined only after the update-if-newer shortcut: [provide_unrepaired]);
   * the command hash is getCommandHash(command) (repair 66b1a7c): command line, number of explicit and of
     implicit inputs, canonical path of every input in order ([hash_material]); it is an opaque number here;
   * a phony command completes with a successful value whatever its inputs delivered;
   * FileInfo and its `missing' sentinel / operator== are the ones of Codec.FileObs (tied to the code by C13). *)
From LLB Require Import Base.Bytes Codec.Codec Codec.FileObs.
Local Open Scope N_scope.

(* ---- FileTimestamp (include/llbuild/Basic/FileInfo.h): (seconds, nanoseconds), lexicographic ---- *)
Definition ts := (N * N)%type.
Definition ts_eqb (a b : ts) : bool := N.eqb (fst a) (fst b) && N.eqb (snd a) (snd b).
Definition ts_ltb (a b : ts) : bool :=
  N.ltb (fst a) (fst b) || (N.eqb (fst a) (fst b) && N.ltb (snd a) (snd b)).
Definition ts_leb (a b : ts) : bool :=
  N.ltb (fst a) (fst b) || (N.eqb (fst a) (fst b) && N.leb (snd a) (snd b)).
Definition mod_time (f : fileinfo) : ts := (fi_sec f, fi_nsec f).

(* ---- BuildValue of the Ninja driver (l.154-340): kind, output infos, command hash ---- *)
Inductive nvalue :=
| NExistingInput (f : fileinfo)
| NMissingInput
| NSuccessfulCommand (h : N) (infos : list fileinfo)   (* numOutputInfos = length infos *)
| NFailedCommand
| NSkippedCommand.

(* getOutputInfo(): the single attached info.  Values handed to a command task are always singletons
   (the select rules split commands with several outputs); the C++ asserts it. *)
Definition singleton_value (v : nvalue) : Prop :=
  match v with NSuccessfulCommand _ infos => length infos = 1%nat | _ => True end.
Definition output_info (v : nvalue) : fileinfo :=
  match v with
  | NExistingInput f => f
  | NSuccessfulCommand _ (f :: _) => f
  | _ => missing_info
  end.

(* getNthOutputInfo(n) without the asserts (NDEBUG): a value with ONE info answers every n with that
   info; a value with several infos indexes its array, and an index past the stored count reads past it *)
Inductive nth_info_result := NthInfo (f : fileinfo) | NthOverRead.
Definition nth_output_info (infos : list fileinfo) (n : nat) : nth_info_result :=
  match infos with
  | [] => NthInfo missing_info                  (* numOutputInfos = 0: the zero-initialised union member *)
  | [f] => NthInfo f
  | _ => match nth_error infos n with Some f => NthInfo f | None => NthOverRead end
  end.

(* ---- the command and the build context ---- *)
Record cmd := mkCmd {
  c_hash : N;             (* getCommandHash(command), see hash_material *)
  c_generator : bool;     (* generator binding non-empty *)
  c_phony : bool;         (* rule == manifest->getPhonyRule() *)
  c_has_deps : bool;      (* getDepsStyle() != None  (deps = gcc, or a depfile) *)
  c_restat : bool }.
Record ctx := mkCtx {
  x_strict : bool;        (* --strict *)
  x_simulate : bool;      (* --simulate *)
  x_cancelled : bool }.   (* context.isCancelled when inputsAvailable runs *)

Inductive iclass := CExplicit | CImplicit | COrderOnly.
Definition input := (iclass * nvalue)%type.
Definition is_order_only (c : iclass) : bool := match c with COrderOnly => true | _ => false end.

(* start(): explicit then implicit inputs are requested (ti.request); order-only ones only mustFollow.
   The values that reach provideValue, in request order: *)
Definition requested (ins : list input) : list nvalue :=
  map snd (filter (fun i => negb (is_order_only (fst i))) ins).

(* ---- the task's fields ---- *)
Record tstate := mkT { t_should_skip : bool; t_has_missing : bool; t_can_update : bool; t_newest : ts }.

(* constructor: canUpdateIfNewer = true unless the command uses discovered dependencies *)
Definition init_state (c : cmd) : tstate := mkT false false (negb (c_has_deps c)) (0, 0).

(* provideValue *)
Definition provide (st : tstate) (v : nvalue) : tstate :=
  match v with
  | NExistingInput _ | NSuccessfulCommand _ _ =>
      let f := output_info v in
      if is_missing f then mkT (t_should_skip st) (t_has_missing st) false (t_newest st)
      else if ts_ltb (t_newest st) (mod_time f)      (* outputInfo.modTime > newestModTime *)
           then mkT (t_should_skip st) (t_has_missing st) (t_can_update st) (mod_time f)
           else st
  | NMissingInput => mkT true true false (t_newest st)
  | NFailedCommand | NSkippedCommand => mkT true (t_has_missing st) false (t_newest st)
  end.

(* provideValue before the repair: canUpdateIfNewer was left alone by failed / missing / skipped inputs *)
Definition provide_unrepaired (st : tstate) (v : nvalue) : tstate :=
  match v with
  | NMissingInput => mkT true true (t_can_update st) (t_newest st)
  | NFailedCommand | NSkippedCommand => mkT true (t_has_missing st) (t_can_update st) (t_newest st)
  | _ => provide st v
  end.

Definition provide_all_with (prov : tstate -> nvalue -> tstate) (c : cmd) (ins : list input) : tstate :=
  fold_left prov (requested ins) (init_state c).
Definition provide_all := provide_all_with provide.

(* newestModTime after all inputs have been delivered *)
Definition newest_mod_time (ins : list input) : ts :=
  fold_left (fun acc v =>
               match v with
               | NExistingInput _ | NSuccessfulCommand _ _ =>
                   let f := output_info v in
                   if is_missing f then acc else if ts_ltb acc (mod_time f) then mod_time f else acc
               | _ => acc
               end) (requested ins) (0, 0).

(* providePriorValue: (hasPriorResult, priorCommandHash) *)
Definition prior_hash (prior : option nvalue) : option N :=
  match prior with Some (NSuccessfulCommand h _) => Some h | _ => None end.

(* computeCommandResult: stat of every output, current hash *)
Definition command_result (c : cmd) (outs : list fileinfo) : nvalue := NSuccessfulCommand (c_hash c) outs.

(* canUpdateIfNewerWithResult: strict mode re-runs on equal timestamps, otherwise only on older outputs *)
Definition output_fresh (strict : bool) (newest : ts) (f : fileinfo) : bool :=
  negb (is_missing f) &&
  (if strict then negb (ts_leb (mod_time f) newest) else negb (ts_ltb (mod_time f) newest)).
Definition can_update_with_result (strict : bool) (newest : ts) (outs : list fileinfo) : bool :=
  forallb (output_fresh strict newest) outs.

(* ---- inputsAvailable ---- *)
Inductive decision :=
| DCancelled                       (* build cancelled: complete(Skipped) *)
| DPhony (force_change : bool)     (* complete(result, forceChange = some output missing) *)
| DUpdateOnly                      (* complete(result) without executing (numCommandsUpdated) *)
| DSimulate                        (* --simulate: description only, complete(Skipped) *)
| DSkip (missing_input : bool)     (* shouldSkip: complete(Skipped); true = "cannot build ... due to missing input" *)
| DRun.                            (* the external command is spawned *)

Definition hash_allows_update (c : cmd) (prior : option nvalue) : bool :=
  c_generator c || match prior_hash prior with Some h => N.eqb h (c_hash c) | None => false end.

Definition decide_with (prov : tstate -> nvalue -> tstate)
           (x : ctx) (c : cmd) (prior : option nvalue) (ins : list input) (outs : list fileinfo) : decision :=
  if x_cancelled x then DCancelled
  else if c_phony c then DPhony (existsb is_missing outs)
  else
    let st := provide_all_with prov c ins in
    if t_can_update st && hash_allows_update c prior && can_update_with_result (x_strict x) (t_newest st) outs
    then DUpdateOnly
    else if x_simulate x then DSimulate
    else if t_should_skip st then DSkip (t_has_missing st)
    else DRun.

Definition decide := decide_with provide.
Definition decide_unrepaired := decide_with provide_unrepaired.

(* the value the task completes with when no process is spawned *)
Definition produced (c : cmd) (outs : list fileinfo) (d : decision) : option nvalue :=
  match d with
  | DCancelled | DSimulate | DSkip _ => Some NSkippedCommand
  | DPhony _ | DUpdateOnly => Some (command_result c outs)
  | DRun => None
  end.

(* executeCommand and its completion: (value, forceChange).  outs_after = stat of the outputs after the process *)
Definition run_complete (c : cmd) (cancelled_before_spawn process_ok deps_ok : bool) (outs_after : list fileinfo)
  : nvalue * bool :=
  if cancelled_before_spawn then (NSkippedCommand, false)
  else if negb process_ok then (NFailedCommand, true)
  else if negb deps_ok then (NFailedCommand, true)
  else (command_result c outs_after, negb (c_restat c)).

(* ---- validity of stored results ---- *)

(* buildInputIsResultValid *)
Definition input_valid (stored : nvalue) (cur : fileinfo) : bool :=
  match stored with
  | NExistingInput f => negb (is_missing cur) && info_eqb f cur
  | _ => false
  end.

(* buildInput: the value of an input node *)
Definition input_value (cur : fileinfo) : nvalue := if is_missing cur then NMissingInput else NExistingInput cur.

(* buildCommandIsResultValid: None = getNthOutputInfo indexed past the stored infos *)
Fixpoint outputs_valid (infos : list fileinfo) (i : nat) (cur : list fileinfo) : option bool :=
  match cur with
  | [] => Some true
  | f :: cur' =>
      if is_missing f then Some false
      else match nth_output_info infos i with
           | NthOverRead => None
           | NthInfo s => if info_eqb s f then outputs_valid infos (S i) cur' else Some false
           end
  end.

Definition command_valid (c : cmd) (stored : nvalue) (cur_outs : list fileinfo) : option bool :=
  match stored with
  | NSuccessfulCommand h infos =>
      if negb (c_generator c) && negb (N.eqb h (c_hash c)) then Some false
      else outputs_valid infos 0 cur_outs
  | _ => Some false
  end.

(* selectCompositeBuildResult (one rule per output of a command with several outputs) and its validity *)
Definition select_result (composite : nvalue) (i : nat) : option (nvalue * bool) :=
  match composite with
  | NFailedCommand | NSkippedCommand => Some (composite, true)
  | NSuccessfulCommand h infos =>
      match nth_output_info infos i with NthInfo f => Some (NSuccessfulCommand h [f], false) | NthOverRead => None end
  | _ => None                          (* asserted unreachable *)
  end.
Definition select_valid (c : cmd) (stored : nvalue) : bool :=
  match stored with NSuccessfulCommand h _ => N.eqb h (c_hash c) | _ => false end.

(* ---- the engine around the rule (what lib/Core/BuildEngine.cpp does with these callbacks) ----
   A task is created for the rule iff its stored result is missing/invalid or the value of one of the inputs
   it REQUESTED changed; must-follow (order-only) inputs never cause it. *)
Inductive step := SUpToDate | STask (d : decision) | SOverRead.

Definition any_requested_changed (ins : list input) (changed : list bool) : bool :=
  existsb (fun p => negb (is_order_only (fst (fst p))) && snd p) (combine ins changed).

Definition rule_step (x : ctx) (c : cmd) (prior : option nvalue) (ins : list input) (changed : list bool)
           (outs : list fileinfo) : step :=
  match prior with
  | None => STask (decide x c prior ins outs)
  | Some v =>
      if x_simulate x then
        (if any_requested_changed ins changed then STask (decide x c prior ins outs) else SUpToDate)
      else
      match command_valid c v outs with
      | None => SOverRead
      | Some ok => if negb ok || any_requested_changed ins changed
                   then STask (decide x c prior ins outs) else SUpToDate
      end
  end.

Definition executes (s : step) : bool := match s with STask DRun => true | _ => false end.

(* ---- vocabulary of the theorem statements (specification side) ---- *)

Definition ts_lt (a b : ts) : Prop := fst a < fst b \/ (fst a = fst b /\ snd a < snd b).

Definition ts_le (a b : ts) : Prop := fst a < fst b \/ (fst a = fst b /\ snd a <= snd b).

(* a value that makes provideValue set shouldSkip *)
Definition is_bad (v : nvalue) : bool :=
  match v with NMissingInput | NFailedCommand | NSkippedCommand => true | _ => false end.
Definition is_missing_input (v : nvalue) : bool := match v with NMissingInput => true | _ => false end.
(* an existing input / successful command whose attached info is the `missing' record *)
Definition delivers_missing (v : nvalue) : bool :=
  match v with NExistingInput _ | NSuccessfulCommand _ _ => is_missing (output_info v) | _ => false end.
(* a value that takes part in newestModTime *)
Definition stamped (v : nvalue) : bool := negb (is_bad v) && negb (delivers_missing v).

Definition shortcut (x : ctx) (c : cmd) (prior : option nvalue) (ins : list input) (outs : list fileinfo) : bool :=
  negb (c_has_deps c) && forallb stamped (requested ins) &&
  hash_allows_update c prior && can_update_with_result (x_strict x) (newest_mod_time ins) outs.

Definition fi_at (ino sec nsec : N) : fileinfo := mkFI 1 ino 33188 1 sec nsec zeros32.

(* the comparison the code makes: non-strict: output STRICTLY older than the newest input; strict: older or equal *)
Definition stale_against (strict : bool) (o : fileinfo) (newest : ts) : Prop :=
  if strict then ts_le (mod_time o) newest else ts_lt (mod_time o) newest.

Definition remap_order_only (g : nvalue -> nvalue) (i : input) : input :=
  if is_order_only (fst i) then (fst i, g (snd i)) else i.

Definition reclass (r : iclass -> iclass) (i : input) : input := (r (fst i), snd i).

Definition swap_explicit_implicit (k : iclass) : iclass :=
  match k with CExplicit => CImplicit | CImplicit => CExplicit | COrderOnly => COrderOnly end.

(* every output strictly newer than every delivered input (a logical clock) *)
Definition all_newer (ins : list input) (outs : list fileinfo) : Prop :=
  forall o v, In o outs -> In v (requested ins) -> stamped v = true -> ts_lt (mod_time (output_info v)) (mod_time o).

(* ---- what getCommandHash(command) hashes (repairs 66b1a7c, c54418f) ----
   CommandSignature(commandString).combine(numExplicit).combine(numImplicit).combine(path) for EVERY input, in the
   order explicit, implicit, order-only, then .combine(numOutputs).combine(path) for every output.
   The signature function itself is opaque; this is its argument. *)
Record cmd_def := mkDef { d_command : bytes; d_explicit : list bytes; d_implicit : list bytes; d_order_only : list bytes;
                          d_outputs : list bytes }.
Definition hash_material (d : cmd_def) : bytes * nat * nat * list bytes * nat * list bytes :=
  (d_command d, length (d_explicit d), length (d_implicit d), d_explicit d ++ d_implicit d ++ d_order_only d,
   length (d_outputs d), d_outputs d).
(* ... before 66b1a7c (command line only) and before c54418f (no outputs) *)
Definition hash_material_unrepaired (d : cmd_def) : bytes := d_command d.
Definition hash_material_no_outputs (d : cmd_def) : bytes * nat * nat * list bytes :=
  (d_command d, length (d_explicit d), length (d_implicit d), d_explicit d ++ d_implicit d ++ d_order_only d).

(* ---- start(): which declared inputs reach the engine (ti.request / ti.mustFollow) ----
   In default mode a PHONY statement that lists one of its own outputs among its inputs (CMake writes such statements)
   does not request that input; every other statement, and every statement under --strict, requests all of them, so a
   declared self-reference reaches the engine and is reported as a cycle. *)
Definition skips_cyclic_input (strict phony : bool) (outs : list bytes) (i : bytes) : bool :=
  negb strict && phony && mem_bytes i outs.
Definition start_keys (strict phony : bool) (outs ins : list bytes) : list bytes :=
  filter (fun i => negb (skips_cyclic_input strict phony outs i)) ins.
