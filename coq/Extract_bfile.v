(* Extraction of the build-description loader model (area "bfile": build-description part of C19). *)
Require Extraction.
Require Import ExtrOcamlBasic.
From LLB Require Import Base.Bytes Parse.BuildFileRoot.
Extraction "extracted/Model_bfile.ml" load_parse_cmd errors_of is_ok is_crash keys_subseq section_order doc_count.
