(* Extraction of the C binding-layer model (property C20) to OCaml (ExtrOcamlBasic only; N, positive, nat stay inductive). *)
Require Extraction.
Require Import ExtrOcamlBasic.
From LLB Require Import Base.Bytes Engine.CApi.
Extraction "extracted/Model_capi.ml" forward_tagged backward_provide backward_lookup backward_cycle
  copy_n copy_cstr build_result forward forward_v0 tag_of_cpp ccall_of_tag.
