(* Extraction of the Ninja build-rule model (area "ninjabuild": C18). *)
Require Extraction.
Require Import ExtrOcamlBasic.
From LLB Require Import Base.Bytes Codec.Codec Codec.FileObs Ninja.NinjaRules.
Extraction "extracted/Model_ninjabuild.ml" decide decide_unrepaired produced rule_step executes command_valid input_valid input_value
  newest_mod_time run_complete select_result select_valid missing_info is_missing zeros32.
