(* Extraction of the file-system removal model (area fsrm) to OCaml. *)
Require Extraction.
Require Import ExtrOcamlBasic.
From LLB Require Import Base.Bytes Path.PathPrefix Path.FsRemove.
Extraction "extracted/Model_fsrm.ml" remove_path stale_apply to_delete wf get remove_spec no_link_on_the_way plain_comps comps.
