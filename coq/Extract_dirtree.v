(* Extraction of the directory-tree model (area dirtree) to OCaml. *)
Require Extraction.
Require Import ExtrOcamlBasic.
From LLB Require Import Base.Bytes Codec.Codec Codec.FileObs BSys.DirTree.
Extraction "extracted/Model_dirtree.ml" observe observe_unrepaired observe_truncating observe_unprotected rebuild forget_listings clean_build prune excluded filtered_listing
  tree_toks struct_toks struct_toks_unrepaired s_children names nonempty eff sort_by.
