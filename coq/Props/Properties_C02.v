(* C02 - within one build each rule is executed at most once, and only for a true, reported reason.
   Only theorem statements over the specification engine (Engine/Spec.v); each is closed by [exact <lemma>] and followed
   by Print Assumptions.  All statements quantify over all rule tables, environments, task functions F, dependency-order
   oracles and fuels; the only hypothesis on the oracle (null builds only) is that it returns no dependency that was not
   requested.  [ostate o = Some s'] means: the build returned [Ok s'] or [Cycle s' _] (not OutOfFuel).
   [new_log s s'] = the events added to the ghost log between s and s', most recent first; [creates l] = the keys of the
   ECreate events (task created = rule executed), [needs l] = the keys of the ENeed events (reported reasons). *)
From LLB Require Import Engine.Rules Engine.Spec Engine.Exec Engine.SpecOnceFrame Engine.SpecOnce1 Engine.SpecOnce2
  Engine.SpecOnce3 Engine.SpecOnce4 Engine.SpecOnce5 Engine.SpecOnce6 Engine.SpecOnce7 Engine.SpecOnce8 Engine.SpecOnce9
  Engine.SpecOnce10 Engine.SpecOnce11 Engine.SpecOnce12.
Local Open Scope N_scope.

(* ---------- 1. at most once ---------- *)

Theorem c02_at_most_once : forall rules env F order fuel s k s',
  ostate (build rules env F order fuel s k) = Some s' -> NoDup (creates (new_log s s')).
Proof. exact build_at_most_once. Qed.
Print Assumptions c02_at_most_once.

(* the same for every nested call, with any stack *)
Theorem c02_at_most_once_ensure : forall rules env F order fuel stack s k s',
  ostate (ensure rules env F order fuel stack s k) = Some s' -> NoDup (creates (new_log s s')).
Proof. exact ensure_at_most_once. Qed.
Print Assumptions c02_at_most_once_ensure.

(* what a successful build executed is complete afterwards *)
Theorem c02_created_complete : forall rules env F order fuel s k s',
  build rules env F order fuel s k = Ok s' ->
  forall x, In x (creates (new_log s s')) -> res_builtAt (get (st_mem s') x) = st_epoch s'.
Proof. exact build_created_complete. Qed.
Print Assumptions c02_created_complete.

(* ---------- 2. one reported reason per execution ---------- *)

(* every ECreate x is immediately preceded in time (followed in the list) by an ENeed x; every ENeed x is immediately
   followed in time by ECreate x; so reasons and executions are the same keys in the same order, each at most once *)
Theorem c02_create_has_reason : forall rules env F order fuel s k s',
  ostate (build rules env F order fuel s k) = Some s' ->
  let l := new_log s s' in
  (forall l1 x l2, l = l1 ++ ECreate x :: l2 -> exists rs inp l3, l2 = ENeed x rs inp :: l3) /\
  (forall l1 x rs inp l2, l = l1 ++ ENeed x rs inp :: l2 -> exists l0, l1 = l0 ++ [ECreate x]) /\
  needs l = creates l /\ NoDup (needs l).
Proof. exact build_create_has_reason. Qed.
Print Assumptions c02_create_has_reason.

(* ---------- 3. the reported reason is true ---------- *)

(* r0 = the result x had when the build started (nothing touches a rule before its one decision), fl = whether it was
   flagged as interrupted; dependencies are judged by their results once brought up to date (they are complete and
   frozen from then on, so this is their state in s') *)
Theorem c02_reason_true : forall rules env F order fuel s k s',
  ostate (build rules env F order fuel s k) = Some s' ->
  forall x rs inp, In (ENeed x rs inp) (new_log s s') ->
  let r0 := get (st_mem s) x in let fl := flagged s x in
  (rs = NeverBuilt /\ inp = None /\ res_builtAt r0 = 0)
  \/ (rs = Forced /\ inp = None /\ res_builtAt r0 <> 0 /\ fl = true)
  \/ (rs = SignatureChanged /\ inp = None /\ res_builtAt r0 <> 0 /\ fl = false /\ r_sig (rules x) <> res_sig r0)
  \/ (rs = InvalidValue /\ inp = None /\ res_builtAt r0 <> 0 /\ fl = false /\ r_sig (rules x) = res_sig r0 /\
      valid rules env x r0 = false)
  \/ (rs = InputRebuilt /\ res_builtAt r0 <> 0 /\ fl = false /\ r_sig (rules x) = res_sig r0 /\
      valid rules env x r0 = true /\
      exists d pre post, inp = Some (d_key d) /\ drop_single (res_deps r0) = pre ++ d :: post /\
        d_order d = false /\ d_single d = false /\
        res_builtAt (get (st_mem s') (d_key d)) = st_epoch s' /\
        res_builtAt r0 < res_computedAt (get (st_mem s') (d_key d)) /\
        forall d', In d' pre ->
          res_builtAt (get (st_mem s') (d_key d')) = st_epoch s' /\
          (d_order d' = true \/ res_computedAt (get (st_mem s') (d_key d')) <= res_builtAt r0)).
Proof. exact build_reason_true. Qed.
Print Assumptions c02_reason_true.

(* the same as a lemma about one step [ensure_body], for any recursive call [ens] that satisfies the frame, the pairing
   and the statement itself (this is how it is lifted to [ensure] by induction on fuel) *)
Theorem c02_reason_true_step : forall rules env F order ens,
  (forall stack s k, frame stack s k (ens stack s k)) ->
  (forall stack s k, pair_o s (ens stack s k)) ->
  (forall stack s k, reason_o rules env s (ens stack s k)) ->
  forall stack s k, reason_o rules env s (ensure_body rules env F order ens stack s k).
Proof. exact ensure_body_reason. Qed.
Print Assumptions c02_reason_true_step.

(* ---------- 4. executed only for a reason ---------- *)

(* if none of the five conditions holds of x (built before, not flagged, same signature, valid, and every recorded
   non-order-only dependency, once brought up to date, was not computed after x was built) then x is not executed, and
   after a successful build its result is untouched or only validated (builtAt := epoch, single-use dependencies
   dropped; value, signature and computedAt unchanged) *)
Theorem c02_only_if : forall rules env F order fuel s k s' x,
  build rules env F order fuel s k = Ok s' ->
  (let r0 := get (st_mem s) x in
   res_builtAt r0 <> 0 /\ flagged s x = false /\ r_sig (rules x) = res_sig r0 /\ valid rules env x r0 = true /\
   forall d, In d (drop_single (res_deps r0)) -> d_order d = false ->
             res_computedAt (get (st_mem s') (d_key d)) <= res_builtAt r0) ->
  ~ In x (creates (new_log s s')) /\
  (get (st_mem s') x = get (st_mem s) x \/
   get (st_mem s') x = (let r0 := get (st_mem s) x in
                        mkRes (res_value r0) (res_sig r0) (res_computedAt r0) (st_epoch s') (drop_single (res_deps r0)))).
Proof. exact build_only_if. Qed.
Print Assumptions c02_only_if.

Theorem c02_only_if_any_outcome : forall rules env F order fuel s k s' x,
  ostate (build rules env F order fuel s k) = Some s' -> no_reason rules env s s' x ->
  ~ In x (creates (new_log s s')).
Proof. exact build_only_if_not_created. Qed.
Print Assumptions c02_only_if_any_outcome.

(* ---------- 5. computedAt moves exactly when the value changes ---------- *)

(* taskIsComplete + finished-task processing: r is the result the rule had when the task was created *)
Theorem c02_changed_value_iff_computedAt : forall order s k rl r bk v,
  let r' := get (st_mem (complete order s k rl r bk v)) k in
  res_value r' = Some v /\ res_sig r' = r_sig rl /\ res_builtAt r' = st_epoch s /\
  (res_value r = Some v -> res_computedAt r' = res_computedAt r) /\
  (res_value r <> Some v -> res_computedAt r' = st_epoch s) /\
  get (st_db (complete order s k rl r bk v)) k = r'.
Proof. exact complete_result. Qed.
Print Assumptions c02_changed_value_iff_computedAt.

Theorem c02_changed_value_iff_computedAt_iff : forall order s k rl r bk v, res_computedAt r <> st_epoch s ->
  (res_computedAt (get (st_mem (complete order s k rl r bk v)) k) = st_epoch s <-> res_value r <> Some v).
Proof. exact complete_computedAt_iff. Qed.
Print Assumptions c02_changed_value_iff_computedAt_iff.

(* over a whole build, for every rule: computedAt is unchanged, or it is the build's epoch and the value differs *)
Theorem c02_computedAt_changes_only_with_value : forall rules env F order fuel s k s',
  ostate (build rules env F order fuel s k) = Some s' ->
  forall x, res_computedAt (get (st_mem s') x) = res_computedAt (get (st_mem s) x) \/
            (res_computedAt (get (st_mem s') x) = st_epoch s' /\ res_value (get (st_mem s') x) <> res_value (get (st_mem s) x)).
Proof. exact build_computedAt_moves_only_to_now. Qed.
Print Assumptions c02_computedAt_changes_only_with_value.

(* the result an execution leaves: new value stamped with the current observation, current signature, builtAt = epoch,
   computedAt = epoch iff the value changed, the requested dependencies in the oracle's order plus the discovered ones *)
Theorem c02_created_ran : forall rules env F order fuel s k s' x,
  build rules env F order fuel s k = Ok s' -> In x (creates (new_log s s')) ->
  exists v bk, snd v = obs rules env x /\
    get (st_mem s') x =
    mkRes (Some v) (r_sig (rules x))
          (if (match res_value (get (st_mem s) x) with Some old => negb (value_eqb old v) | None => true end)
           then st_epoch s' else res_computedAt (get (st_mem s) x))
          (st_epoch s')
          (order (st_epoch s') x (requested_deps (rules x) bk) ++ map (fun y => mkDep y false false) (r_disc (rules x))).
Proof. exact build_created_ran. Qed.
Print Assumptions c02_created_ran.

(* ---------- 6. an identical recomputation does not re-run dependents ---------- *)

Theorem c02_identical_recompute_no_rerun : forall rules env F order fuel s k s' x,
  ostate (build rules env F order fuel s k) = Some s' ->
  let r0 := get (st_mem s) x in
  res_builtAt r0 <> 0 -> flagged s x = false -> r_sig (rules x) = res_sig r0 -> valid rules env x r0 = true ->
  (forall d, In d (drop_single (res_deps r0)) -> d_order d = false ->
     res_computedAt (get (st_mem s) (d_key d)) <= res_builtAt r0 /\
     res_value (get (st_mem s') (d_key d)) = res_value (get (st_mem s) (d_key d))) ->
  ~ In x (creates (new_log s s')).
Proof. exact build_identical_recompute_no_rerun. Qed.
Print Assumptions c02_identical_recompute_no_rerun.

(* one step of the scan: a dependency that is order-only, or whose computedAt is not later than the dependent's builtAt,
   does not trigger; otherwise it does, with itself as the reported input *)
Theorem c02_scan_step_quiet : forall rules env F order ens k stack r d ds s s1,
  ens (k :: stack) s (d_key d) = Ok s1 ->
  d_order d = true \/ res_computedAt (get (st_mem s1) (d_key d)) <= res_builtAt r ->
  scan rules env F order ens k stack r (d :: ds) s = scan rules env F order ens k stack r ds s1.
Proof. exact scan_step_quiet. Qed.
Print Assumptions c02_scan_step_quiet.

Theorem c02_scan_step_trigger : forall rules env F order ens k stack r d ds s s1,
  ens (k :: stack) s (d_key d) = Ok s1 -> d_order d = false ->
  res_builtAt r < res_computedAt (get (st_mem s1) (d_key d)) ->
  scan rules env F order ens k stack r (d :: ds) s =
  run rules env F order ens k stack r (emit s1 (ENeed k InputRebuilt (Some (d_key d)))).
Proof. exact scan_step_trigger. Qed.
Print Assumptions c02_scan_step_trigger.

(* ---------- 7. order-only dependencies never trigger ---------- *)

(* if every recorded (non-single-use) dependency on d is order-only, then setting d's computedAt to ANY value c leaves
   the whole log of the build (every decision, reason, creation and value) unchanged *)
Theorem c02_order_only_never_triggers : forall rules env F order fuel s k d c,
  (forall x dd, In dd (drop_single (res_deps (get (st_mem s) x))) -> d_key dd = d -> d_order dd = true) ->
  same_log (build rules env F order fuel s k)
           (build rules env F order fuel (set_mem s d (with_computedAt (get (st_mem s) d) c)) k).
Proof. exact build_order_only_never_triggers. Qed.
Print Assumptions c02_order_only_never_triggers.

(* the general form: any two states that agree except on the computedAt of a set D of keys that incomplete rules depend
   on only through order-only edges run in lockstep *)
Theorem c02_order_only_simulation : forall D rules env F order fuel s t k,
  sim D s t -> safe D (bump_epoch s) ->
  sim_o D (build rules env F order fuel s k) (build rules env F order fuel t k).
Proof. exact build_sim. Qed.
Print Assumptions c02_order_only_simulation.

(* ---------- 8. the null build ---------- *)

(* [bounded s]: no stored epoch exceeds the current one; it holds in every state a history reaches (below) *)
Theorem c02_null_build : forall rules env F order, (forall e k l d, In d (order e k l) -> In d l) ->
  forall fuel1 fuel2 s k s1 k' s2, bounded s ->
  build rules env F order fuel1 s k = Ok s1 ->
  res_builtAt (get (st_mem s1) k') = st_epoch s1 ->          (* k' was brought up to date by the first build *)
  ostate (build rules env F order fuel2 s1 k') = Some s2 ->
  creates (new_log s1 s2) = [].
Proof. exact null_build. Qed.
Print Assumptions c02_null_build.

Theorem c02_null_build_same_key : forall rules env F order, (forall e k l d, In d (order e k l) -> In d l) ->
  forall fuel1 fuel2 s k s1 s2, bounded s ->
  build rules env F order fuel1 s k = Ok s1 ->
  ostate (build rules env F order fuel2 s1 k) = Some s2 ->
  creates (new_log s1 s2) = [].
Proof. exact null_build_same_key. Qed.
Print Assumptions c02_null_build_same_key.

(* [dbinv s]: the invariant relating database rows to memory results between builds *)
Theorem c02_null_build_after_restart : forall rules env F order, (forall e k l d, In d (order e k l) -> In d l) ->
  forall fuel1 fuel2 s k s1 k' s2, dbinv s ->
  build rules env F order fuel1 s k = Ok s1 ->
  res_builtAt (get (st_mem s1) k') = st_epoch s1 ->
  ostate (build rules env F order fuel2 (restart s1) k') = Some s2 ->
  creates (new_log (restart s1) s2) = [].
Proof. exact null_build_after_restart. Qed.
Print Assumptions c02_null_build_after_restart.

(* the invariant: initially, across builds with ANY rule table and environment (successful or not), across restarts *)
Theorem c02_invariant_init : dbinv init_state.
Proof. exact dbinv_init. Qed.
Print Assumptions c02_invariant_init.

Theorem c02_invariant_build : forall rules env F order fuel s k s1,
  dbinv s -> ostate (build rules env F order fuel s k) = Some s1 -> dbinv s1.
Proof. exact dbinv_build. Qed.
Print Assumptions c02_invariant_build.

Theorem c02_invariant_restart : forall s, dbinv s -> dbinv (restart s) /\ dbinv (restart_nodb s).
Proof. exact (fun s H => conj (dbinv_restart s H) (dbinv_restart_nodb s)). Qed.
Print Assumptions c02_invariant_restart.

Theorem c02_invariant_history : forall F order fuel ops,
  dbinv (h_st (run_history F order fuel ops)) /\ bounded (h_st (run_history F order fuel ops)).
Proof. exact (fun F order fuel ops => conj (history_dbinv F order fuel ops) (history_bounded F order fuel ops)). Qed.
Print Assumptions c02_invariant_history.

(* after ANY history (external changes, rule edits, restarts, failed builds): OBuild k succeeding, then OBuild k again
   - the states are exactly those [hstep] produces - executes nothing; also with ORestart true in between *)
Theorem c02_history_null_build : forall F order fuel, (forall e k l d, In d (order e k l) -> In d l) ->
  forall ops k s1 s2,
  let h := run_history F order fuel ops in
  let rules := rules_of (h_rules h) in let env := env_of (h_env h) in
  build rules env F order fuel (emit (h_st h) (EBuildStart k)) k = Ok s1 ->
  let t := emit (emit s1 (EResult (result_of s1 k) false)) (EBuildStart k) in
  ostate (build rules env F order fuel t k) = Some s2 ->
  creates (new_log t s2) = [].
Proof. exact history_null_build. Qed.
Print Assumptions c02_history_null_build.

Theorem c02_history_null_build_after_restart : forall F order fuel, (forall e k l d, In d (order e k l) -> In d l) ->
  forall ops k s1 s2,
  let h := run_history F order fuel ops in
  let rules := rules_of (h_rules h) in let env := env_of (h_env h) in
  build rules env F order fuel (emit (h_st h) (EBuildStart k)) k = Ok s1 ->
  let t := emit (emit (restart (emit s1 (EResult (result_of s1 k) false))) ERestart) (EBuildStart k) in
  ostate (build rules env F order fuel t k) = Some s2 ->
  creates (new_log t s2) = [].
Proof. exact history_null_build_after_restart. Qed.
Print Assumptions c02_history_null_build_after_restart.

(* ---------- non-vacuity (Engine/SpecOnce12.v): 8 rules with a branch, an order-only, a single-use and a discovered edge;
   three builds with changes of the external state of rule 1 in between, a null build, a null build after restart ---------- *)

Example c02_ex_builds_succeed :
  build ex_rules env0 mixF ex_order ex_fuel init_state 7 = Ok ex_s1 /\
  build ex_rules env1 mixF ex_order ex_fuel ex_s1 7 = Ok ex_s2 /\
  build ex_rules env2 mixF ex_order ex_fuel ex_s2 7 = Ok ex_s3 /\
  build ex_rules env2 mixF ex_order ex_fuel ex_s3 7 = Ok ex_s4 /\
  build ex_rules env2 mixF ex_order ex_fuel (restart ex_s3) 7 = Ok ex_s4r.
Proof. exact (conj ex_build1 (conj ex_build2 (conj ex_build3 (conj ex_build4 ex_build4r)))). Qed.

Example c02_ex_executions :
  creates (new_log init_state ex_s1) = [6; 5; 8; 2; 1; 3; 4; 7] /\
  creates (new_log ex_s1 ex_s2) = [4; 7; 5; 3; 1] /\
  creates (new_log ex_s2 ex_s3) = [7; 5; 3; 1] /\      (* 3 re-ran, produced the same value: 4 did not run *)
  creates (new_log ex_s3 ex_s4) = [] /\
  creates (new_log (restart ex_s3) ex_s4r) = [].
Proof. exact ex_creates. Qed.

Example c02_ex_reasons :
  need_events (new_log ex_s2 ex_s3) =
  [ENeed 7 InputRebuilt (Some 5); ENeed 5 InputRebuilt (Some 1); ENeed 3 InputRebuilt (Some 1); ENeed 1 InvalidValue None].
Proof. exact ex_reasons_build3. Qed.

Example c02_ex_reason_signature :
  need_events (new_log ex_s3 (st_of (build ex_rules_sig env2 mixF ex_order ex_fuel ex_s3 7))) =
  [ENeed 4 InputRebuilt (Some 3); ENeed 7 InputRebuilt (Some 5); ENeed 5 InputRebuilt (Some 3); ENeed 3 SignatureChanged None].
Proof. exact ex_reason_signature. Qed.

Example c02_ex_reason_forced :
  need_events (new_log ex_s3_flagged (st_of (build ex_rules env2 mixF ex_order ex_fuel ex_s3_flagged 7))) = [ENeed 4 Forced None].
Proof. exact ex_reason_forced. Qed.

Example c02_ex_identical_recompute_hyps :
  In 3 (creates (new_log ex_s2 ex_s3)) /\
  res_value (get (st_mem ex_s3) 3) = res_value (get (st_mem ex_s2) 3) /\
  let r0 := get (st_mem ex_s2) 4 in
  res_builtAt r0 <> 0 /\ flagged ex_s2 4 = false /\ r_sig (ex_rules 4) = res_sig r0 /\ valid ex_rules env2 4 r0 = true /\
  (forall d, In d (drop_single (res_deps r0)) -> d_order d = false ->
     res_computedAt (get (st_mem ex_s2) (d_key d)) <= res_builtAt r0 /\
     res_value (get (st_mem ex_s3) (d_key d)) = res_value (get (st_mem ex_s2) (d_key d))).
Proof. exact ex_identical_recompute_hyps. Qed.

Example c02_ex_only_if_hyps : no_reason ex_rules env2 ex_s2 ex_s3 4.
Proof. exact ex_no_reason_4. Qed.

Example c02_ex_order_only_hyps :
  (forall x dd, In dd (drop_single (res_deps (get (st_mem ex_s2) x))) -> d_key dd = 8 -> d_order dd = true) /\
  (let t := set_mem ex_s3 3 (with_computedAt (get (st_mem ex_s3) 3) 99) in   (* a USED dependency does matter *)
   creates (new_log t (st_of (build ex_rules env2 mixF ex_order ex_fuel t 7))) = [4; 5]).
Proof. exact (conj ex_order_only_hyp (proj2 ex_used_dependency_matters)). Qed.

Example c02_ex_null_build_hyps :
  (forall e k l d, In d (ex_order e k l) -> In d l) /\ bounded init_state /\ dbinv init_state.
Proof. exact (conj ex_order_incl (conj ex_bounded_init dbinv_init)). Qed.
