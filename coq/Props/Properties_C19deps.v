(* C19 (dependency-file parsers' part) - for EVERY byte string given as a Makefile-style dependency file or as a
   dependency-info file, parsing terminates, reads no memory outside the supplied buffer, and reports problems
   only through its error callback.
   Only theorem statements; each is closed by [exact <lemma>] and followed by Print Assumptions.

   How the three clauses are carried by the models (Parse/MakeDeps.v, Parse/DepInfo.v):
   - termination: the loops run on explicit fuel; OutOfFuel / DOutOfFuel is an explicit event, proved unreachable;
   - in-bounds reads: the cursor is the remaining suffix of the buffer, every read is a pattern match on it, so a
     read at or beyond `end` cannot be written down; the one scan of the C++ that has no bounds test of its own
     (the operand scan of the dependency-info parser) yields the explicit event DOverRead, proved unreachable;
   - errors only through the callback: the result of a parse IS the list of callback invocations; reported
     offsets are proved to lie inside the buffer. *)
From LLB Require Import Base.Bytes Parse.MakeDeps Parse.DepInfo Parse.MakeDepsProofs Parse.DepInfoProofs.
Local Open Scope N_scope.

Theorem c19_makedeps_total : forall ignoreSubsequent data, ~ In OutOfFuel (md_parse ignoreSubsequent data).
Proof. exact md_parse_total. Qed.
Print Assumptions c19_makedeps_total.

Theorem c19_makedeps_positions_in_bounds : forall ignoreSubsequent data code pos,
  In (Err code pos) (md_parse ignoreSubsequent data) -> pos <= N.of_nat (length data).
Proof. exact md_positions_in_bounds. Qed.
Print Assumptions c19_makedeps_positions_in_bounds.

Theorem c19_depinfo_total : forall data, ~ In DOutOfFuel (di_parse data) /\ ~ In DOverRead (di_parse data).
Proof. exact di_parse_total. Qed.
Print Assumptions c19_depinfo_total.

Theorem c19_depinfo_positions_in_bounds : forall data code pos,
  In (DErr code pos) (di_parse data) -> pos <= N.of_nat (length data).
Proof. exact di_positions_in_bounds. Qed.
Print Assumptions c19_depinfo_positions_in_bounds.
