(* C18 - Ninja builds converge and do no unnecessary work: the decision logic of the command rule of
   `llbuild ninja build` (model Ninja/NinjaRules.v, transliterated from lib/Commands/NinjaBuildCommand.cpp).
   Only theorem statements; each is closed by [exact <lemma>] and followed by Print Assumptions.
   PARTIAL by design: what is proved here is the per-rule decision and validity logic for ALL argument values;
   system-level convergence is checked by the CLI differential of harness/py/props/c18.py.
   Theorems named *_refuted are clauses the code does NOT satisfy (known findings, witnesses replayed on the
   binary by the check) or, with "unrepaired" in the name, did not satisfy before a repair in /repo. *)
From LLB Require Import Base.Bytes Codec.Codec Codec.FileObs Ninja.NinjaRules Ninja.NinjaRulesProofs.
Local Open Scope N_scope.

(* ---- a changed command line re-runs its command ---- *)

(* hash differs (or no stored successful value) and not a generator: never completed without execution *)
Theorem c18_decide_hash_changed_never_updates : forall x c prior ins outs,
  c_generator c = false -> prior_hash prior <> Some (c_hash c) ->
  decide x c prior ins outs <> DUpdateOnly.
Proof. exact decide_hash_changed_never_updates. Qed.
Print Assumptions c18_decide_hash_changed_never_updates.

(* ... and it is executed unless the build is cancelled/simulated or an input forces the skip *)
Theorem c18_decide_hash_changed_runs : forall x c prior ins outs,
  c_generator c = false -> prior_hash prior <> Some (c_hash c) ->
  x_cancelled x = false -> c_phony c = false -> x_simulate x = false ->
  existsb is_bad (requested ins) = false ->
  decide x c prior ins outs = DRun.
Proof. exact decide_hash_changed_runs. Qed.
Print Assumptions c18_decide_hash_changed_runs.

(* the stored value of the old command line is invalid, so the engine does create the task *)
Theorem c18_command_valid_hash_changed : forall c h infos outs,
  c_generator c = false -> h <> c_hash c -> command_valid c (NSuccessfulCommand h infos) outs = Some false.
Proof. exact command_valid_hash_changed. Qed.
Print Assumptions c18_command_valid_hash_changed.

(* what the hash covers (getCommandHash, repairs 66b1a7c and c54418f): the command line, the three declared input
   lists and the output list; so "changed command line" includes every rewiring of the inputs and outputs *)
Theorem c18_hash_material_injective : forall d1 d2, hash_material d1 = hash_material d2 -> d1 = d2.
Proof. exact hash_material_injective. Qed.
Print Assumptions c18_hash_material_injective.

Theorem c18_hash_material_unrepaired_refuted :
  exists d1 d2, d1 <> d2 /\ hash_material_unrepaired d1 = hash_material_unrepaired d2 /\ hash_material d1 <> hash_material d2.
Proof. exact hash_material_unrepaired_refuted. Qed.
Print Assumptions c18_hash_material_unrepaired_refuted.

Theorem c18_hash_material_no_outputs_refuted :
  exists d1 d2, d1 <> d2 /\ hash_material_no_outputs d1 = hash_material_no_outputs d2 /\ hash_material d1 <> hash_material d2.
Proof. exact hash_material_no_outputs_refuted. Qed.
Print Assumptions c18_hash_material_no_outputs_refuted.

(* a declared self-reference is handed to the engine (which reports the cycle) by every statement except a phony one in
   default mode *)
Theorem c18_start_keys_self_reference : forall strict phony outs ins o,
  strict = true \/ phony = false -> In o ins -> In o (start_keys strict phony outs ins).
Proof. exact start_keys_self_reference. Qed.
Print Assumptions c18_start_keys_self_reference.

Theorem c18_start_keys_phony_lenient : forall outs ins,
  start_keys false true outs ins = filter (fun i => negb (mem_bytes i outs)) ins.
Proof. exact start_keys_phony_lenient. Qed.
Print Assumptions c18_start_keys_phony_lenient.

(* ---- a failing command stops its dependents and is retried ---- *)

(* a failed / missing / skipped (non order-only) input: the external command is never executed *)
Theorem c18_decide_failed_input_never_runs : forall x c prior ins outs,
  existsb is_bad (requested ins) = true -> decide x c prior ins outs <> DRun.
Proof. exact decide_failed_input_never_runs. Qed.
Print Assumptions c18_decide_failed_input_never_runs.

(* ... it is skipped (the flag says whether a MISSING input is reported as a command failure) ... *)
Theorem c18_decide_failed_input_skips : forall x c prior ins outs,
  existsb is_bad (requested ins) = true ->
  x_cancelled x = false -> c_phony c = false -> x_simulate x = false ->
  decide x c prior ins outs = DSkip (existsb is_missing_input (requested ins)).
Proof. exact decide_failed_input_skips. Qed.
Print Assumptions c18_decide_failed_input_skips.

(* ... and never completed as up to date, whatever the flags *)
Theorem c18_decide_failed_input_never_updates : forall x c prior ins outs,
  existsb is_bad (requested ins) = true -> decide x c prior ins outs <> DUpdateOnly.
Proof. exact decide_failed_input_never_updates. Qed.
Print Assumptions c18_decide_failed_input_never_updates.

Theorem c18_shortcut_false_reasons : forall x c prior ins outs,
  c_has_deps c = true \/ (c_generator c = false /\ prior_hash prior <> Some (c_hash c)) \/
  existsb is_missing outs = true ->
  shortcut x c prior ins outs = false.
Proof. exact shortcut_false_reasons. Qed.
Print Assumptions c18_shortcut_false_reasons.

(* the code before repair a03bdd8 (shouldSkip examined only after the shortcut): a command with a MISSING
   input, unchanged hash and outputs newer than its other inputs was completed as successful and that value
   was valid afterwards; the witness (corpus of the check) is skipped by the current code *)
Theorem c18_decide_unrepaired_failed_input_refuted :
  exists x c prior ins outs,
    x_cancelled x = false /\ x_simulate x = false /\ c_phony c = false /\
    In (CExplicit, NMissingInput) ins /\
    decide_unrepaired x c prior ins outs = DUpdateOnly /\
    produced c outs (decide_unrepaired x c prior ins outs) = Some (command_result c outs) /\
    command_valid c (command_result c outs) outs = Some true /\
    decide x c prior ins outs = DSkip true.
Proof. exact decide_unrepaired_failed_input_refuted. Qed.
Print Assumptions c18_decide_unrepaired_failed_input_refuted.

Theorem c18_skip_never_valid : forall c outs, command_valid c NSkippedCommand outs = Some false.
Proof. exact skip_never_valid. Qed.
Print Assumptions c18_skip_never_valid.

Theorem c18_failed_never_valid : forall c outs, command_valid c NFailedCommand outs = Some false.
Proof. exact failed_never_valid. Qed.
Print Assumptions c18_failed_never_valid.

(* a failing process yields the failed value with the change forced downstream; it is never valid *)
Theorem c18_run_failed_never_valid : forall c deps_ok outs_after outs',
  run_complete c false false deps_ok outs_after = (NFailedCommand, true) /\
  command_valid c (fst (run_complete c false false deps_ok outs_after)) outs' = Some false.
Proof. exact run_failed_never_valid. Qed.
Print Assumptions c18_run_failed_never_valid.

(* ---- outputs missing or older than an input ---- *)

(* the exact comparison: default mode re-runs when an output is STRICTLY older than a delivered input
   (ts_lt), --strict also on equal stamps (ts_le); a missing output always re-runs *)
Theorem c18_decide_older_output_runs : forall x c prior ins outs,
  x_cancelled x = false -> c_phony c = false -> x_simulate x = false ->
  existsb is_bad (requested ins) = false ->
  (existsb is_missing outs = true \/
   exists o k v, In o outs /\ In (k, v) ins /\ is_order_only k = false /\ stamped v = true /\
                 stale_against (x_strict x) o (mod_time (output_info v))) ->
  decide x c prior ins outs = DRun.
Proof. exact decide_older_output_runs. Qed.
Print Assumptions c18_decide_older_output_runs.

(* boundary: with EQUAL stamps the default mode does not re-run (Ninja compatibility, see the comment in
   canUpdateIfNewerWithResult) *)
Theorem c18_decide_equal_stamp_nonstrict_refuted :
  exists x c prior ins outs o f,
    x_strict x = false /\ x_cancelled x = false /\ x_simulate x = false /\ c_phony c = false /\
    ins = [(CExplicit, NExistingInput f)] /\ outs = [o] /\ mod_time o = mod_time f /\
    decide x c prior ins outs = DUpdateOnly.
Proof. exact decide_equal_stamp_nonstrict_refuted. Qed.
Print Assumptions c18_decide_equal_stamp_nonstrict_refuted.

Theorem c18_command_valid_missing_output : forall c v outs,
  existsb is_missing outs = true -> command_valid c v outs <> Some true.
Proof. exact command_valid_missing_output. Qed.
Print Assumptions c18_command_valid_missing_output.

(* newestModTime is the maximum over the delivered existing inputs *)
Theorem c18_newest_upper_bound : forall ins v, In v (requested ins) -> stamped v = true ->
  ts_le (mod_time (output_info v)) (newest_mod_time ins).
Proof. exact newest_upper_bound. Qed.
Print Assumptions c18_newest_upper_bound.

Theorem c18_newest_attained : forall ins,
  newest_mod_time ins = (0, 0) \/
  exists v, In v (requested ins) /\ stamped v = true /\ newest_mod_time ins = mod_time (output_info v).
Proof. exact newest_attained. Qed.
Print Assumptions c18_newest_attained.

Theorem c18_newest_is_task_field : forall c ins, t_newest (provide_all c ins) = newest_mod_time ins.
Proof. exact provide_all_newest. Qed.
Print Assumptions c18_newest_is_task_field.

(* ---- order-only inputs impose ordering without triggering rebuilds ---- *)

(* function equality: whatever order-only inputs deliver (any stamps, missing, failed) the decision is the same *)
Theorem c18_decide_order_only_ignored : forall g x c prior ins outs,
  decide x c prior (map (remap_order_only g) ins) outs = decide x c prior ins outs.
Proof. exact decide_order_only_ignored. Qed.
Print Assumptions c18_decide_order_only_ignored.

(* the whole rule step (is the task created, and what does it decide) ignores them and their changes *)
Theorem c18_rule_step_order_only_ignored : forall g x c prior ins changed changed' outs,
  length changed = length ins -> length changed' = length ins ->
  (forall n k v, nth_error ins n = Some (k, v) -> is_order_only k = false -> nth_error changed n = nth_error changed' n) ->
  rule_step x c prior (map (remap_order_only g) ins) changed' outs = rule_step x c prior ins changed outs.
Proof. exact rule_step_order_only_ignored. Qed.
Print Assumptions c18_rule_step_order_only_ignored.

(* "a failed order-only input still skips" does not hold for the code: mustFollow never delivers the value *)
Theorem c18_decide_order_only_failed_skips_refuted :
  exists x c prior ins outs,
    x_cancelled x = false /\ x_simulate x = false /\ c_phony c = false /\
    In (COrderOnly, NFailedCommand) ins /\ decide x c prior ins outs = DRun.
Proof. exact decide_order_only_failed_skips_refuted. Qed.
Print Assumptions c18_decide_order_only_failed_skips_refuted.

(* a phony command turns a failed input into a successful value for its own dependents *)
Theorem c18_decide_phony_failed_input_refuted :
  exists x c prior ins outs v,
    x_cancelled x = false /\ c_phony c = true /\ In (CExplicit, NFailedCommand) ins /\
    produced c outs (decide x c prior ins outs) = Some v /\ is_bad v = false.
Proof. exact decide_phony_failed_input_refuted. Qed.
Print Assumptions c18_decide_phony_failed_input_refuted.

(* ---- implicit inputs trigger rebuilds exactly like explicit ones ---- *)

Theorem c18_decide_class_insensitive : forall r x c prior ins outs,
  (forall k, is_order_only (r k) = is_order_only k) ->
  decide x c prior (map (reclass r) ins) outs = decide x c prior ins outs.
Proof. exact decide_class_insensitive. Qed.
Print Assumptions c18_decide_class_insensitive.

Theorem c18_decide_implicit_triggers : forall x c prior ins outs o v,
  x_cancelled x = false -> c_phony c = false -> x_simulate x = false ->
  existsb is_bad (requested ins) = false ->
  In o outs -> In (CImplicit, v) ins -> stamped v = true ->
  stale_against (x_strict x) o (mod_time (output_info v)) ->
  decide x c prior ins outs = DRun.
Proof. exact decide_implicit_triggers. Qed.
Print Assumptions c18_decide_implicit_triggers.

(* ---- an immediate rebuild runs no command ---- *)

(* right after a successful run under a logical clock (all outputs exist and are stamped later than every
   delivered input, every delivered input is an existing file, same hash): the stored value is valid, and even
   if the task is created it does not run *)
Theorem c18_decide_fresh_no_run : forall x c ins outs,
  c_has_deps c = false ->
  forallb (fun f => negb (is_missing f)) outs = true ->
  (forall o, In o outs -> ts_lt (0, 0) (mod_time o)) ->
  forallb stamped (requested ins) = true ->
  all_newer ins outs ->
  decide x c (Some (command_result c outs)) ins outs <> DRun /\
  (x_cancelled x = false -> c_phony c = false -> decide x c (Some (command_result c outs)) ins outs = DUpdateOnly) /\
  command_valid c (command_result c outs) outs = Some true.
Proof. exact decide_fresh_no_run. Qed.
Print Assumptions c18_decide_fresh_no_run.

(* every command, also one with discovered dependencies: valid stored value + no requested input changed
   => the engine leaves it alone *)
Theorem c18_fresh_up_to_date : forall x c ins changed outs,
  x_simulate x = false ->
  forallb (fun f => negb (is_missing f)) outs = true ->
  any_requested_changed ins changed = false ->
  rule_step x c (Some (command_result c outs)) ins changed outs = SUpToDate /\
  executes (rule_step x c (Some (command_result c outs)) ins changed outs) = false.
Proof. exact fresh_up_to_date. Qed.
Print Assumptions c18_fresh_up_to_date.

(* an UpdateOnly completion leaves a value that is valid at once *)
Theorem c18_update_only_valid : forall x c prior ins outs,
  decide x c prior ins outs = DUpdateOnly ->
  produced c outs DUpdateOnly = Some (command_result c outs) /\
  command_valid c (command_result c outs) outs = Some true.
Proof. exact update_only_valid. Qed.
Print Assumptions c18_update_only_valid.

(* boundary of the null-build clause: without the database there is no stored value and every
   non-generator command is executed on every build *)
Theorem c18_no_prior_runs : forall x c ins changed outs,
  c_generator c = false -> x_cancelled x = false -> c_phony c = false -> x_simulate x = false ->
  existsb is_bad (requested ins) = false ->
  executes (rule_step x c None ins changed outs) = true.
Proof. exact no_prior_runs. Qed.
Print Assumptions c18_no_prior_runs.

(* the null-build clause FAILS for commands that have a phony alias (whose name is not a file) among their
   explicit / implicit inputs: the alias is never valid, forces its change, delivers the `missing' record *)
Theorem c18_phony_alias_never_valid : forall x c prior ins,
  x_cancelled x = false -> c_phony c = true ->
  decide x c prior ins [missing_info] = DPhony true /\
  produced c [missing_info] (decide x c prior ins [missing_info]) = Some (command_result c [missing_info]) /\
  command_valid c (command_result c [missing_info]) [missing_info] = Some false.
Proof. exact phony_alias_never_valid. Qed.
Print Assumptions c18_phony_alias_never_valid.

Theorem c18_phony_alias_dependent_runs : forall x c prior ins outs k h,
  x_cancelled x = false -> c_phony c = false -> x_simulate x = false ->
  existsb is_bad (requested ins) = false ->
  In (k, NSuccessfulCommand h [missing_info]) ins -> is_order_only k = false ->
  decide x c prior ins outs = DRun.
Proof. exact phony_alias_dependent_runs. Qed.
Print Assumptions c18_phony_alias_dependent_runs.

Theorem c18_phony_alias_dependent_reruns_refuted :
  exists x c ins outs,
    x_cancelled x = false /\ x_simulate x = false /\ c_phony c = false /\ c_has_deps c = false /\
    forallb (fun f => negb (is_missing f)) outs = true /\
    existsb is_bad (requested ins) = false /\
    decide x c (Some (command_result c outs)) ins outs = DRun.
Proof. exact phony_alias_dependent_reruns_refuted. Qed.
Print Assumptions c18_phony_alias_dependent_reruns_refuted.

(* ---- memory safety of the validity check ---- *)

Theorem c18_command_valid_defined : forall c v outs,
  match v with NSuccessfulCommand _ infos => length infos = length outs | _ => True end ->
  command_valid c v outs <> None.
Proof. exact command_valid_defined. Qed.
Print Assumptions c18_command_valid_defined.

Theorem c18_command_valid_overread_witness : exists c v outs, command_valid c v outs = None.
Proof. exact command_valid_overread_witness. Qed.
Print Assumptions c18_command_valid_overread_witness.

(* ---- input nodes ---- *)

Theorem c18_input_valid_self : forall f, is_missing f = false -> input_valid (input_value f) f = true.
Proof. exact input_valid_self. Qed.
Print Assumptions c18_input_valid_self.

Theorem c18_input_valid_detects : forall f cur,
  input_valid (NExistingInput f) cur = true -> is_missing cur = false /\ mod_time f = mod_time cur /\ fi_size f = fi_size cur.
Proof. exact input_valid_detects. Qed.
Print Assumptions c18_input_valid_detects.
