(* C03 - build state survives restarts exactly (database transparency).
   Only theorem statements; each is closed by [exact <lemma>] and followed by Print Assumptions.
   Models: Codec/DepBlob.v (the dependency blob of SQLiteBuildDB::setRuleResult / lookupRuleResult),
   Engine/DbTables.v (key_names / rule_results / info with the two id caches, the version gate of open(), the
   exclusive-transaction lock), Engine/Restart.v (restart simulation over the specification engine). *)
From LLB Require Import Base.Bytes Codec.DepBlob Codec.DepBlobProofs Engine.DbTables Engine.DbTablesProofs.
From LLB Require Import Engine.Rules Engine.Spec Engine.Exec Engine.SpecOnceFrame Engine.Restart Engine.RestartProofs.
Local Open Scope N_scope.

(* ---- the dependency blob ---- *)

(* order, order-only flag and single-use flag of every entry are read back identically, for all database ids
   below 2^62 (the id is shifted left by two in a uint64) *)
Theorem c03_blob_roundtrip : forall l, ids_ok l -> decode_deps (encode_deps l) = Some l.
Proof. exact depblob_roundtrip. Qed.
Print Assumptions c03_blob_roundtrip.

Theorem c03_blob_length : forall l, length (encode_deps l) = (8 * length l)%nat.
Proof. exact depblob_length. Qed.
Print Assumptions c03_blob_length.

Theorem c03_blob_injective : forall l1 l2, ids_ok l1 -> ids_ok l2 -> encode_deps l1 = encode_deps l2 -> l1 = l2.
Proof. exact depblob_injective. Qed.
Print Assumptions c03_blob_injective.

(* the guard is needed: id 2^62 is silently read back as id 0 *)
Theorem c03_blob_id_guard_needed :
  exists l, ~ ids_ok l /\ decode_deps (encode_deps l) <> Some l /\
            decode_deps (encode_deps l) = Some [(0, true, false)].
Proof. exact depblob_id_guard_needed. Qed.
Print Assumptions c03_blob_id_guard_needed.

(* a blob with a trailing partial entry is rejected as a whole; a blob of whole entries always decodes (the
   decoding loop cannot read past the end) *)
Theorem c03_blob_partial_rejected : forall l, (length l mod 8 <> 0)%nat -> decode_deps l = None.
Proof. exact decode_deps_partial. Qed.
Print Assumptions c03_blob_partial_rejected.

Theorem c03_blob_whole_decodes : forall l, (length l mod 8 = 0)%nat ->
  exists ds, decode_deps l = Some ds /\ length ds = Nat.div (length l) 8.
Proof. exact decode_deps_total. Qed.
Print Assumptions c03_blob_whole_decodes.

(* ---- the tables ---- *)

(* whatever setRuleResult stores under a key - value bytes, signature, both epochs, the dependency list in order
   with both flags, dependency keys being arbitrary byte strings - lookupRuleResult returns identically; [WI] is the
   id invariant that c03_ids_inverse shows to hold after any operation sequence, [room]: fewer than 2^62 keys *)
Theorem c03_table_roundtrip : forall t k r,
  WI t -> room t r -> lookup_rule_result (set_rule_result t k r) k = Found r.
Proof. exact tables_roundtrip. Qed.
Print Assumptions c03_table_roundtrip.

Theorem c03_table_frame : forall t k r k',
  WF t -> k' <> k -> lookup_rule_result (set_rule_result t k r) k' = lookup_rule_result t k'.
Proof. exact tables_frame. Qed.
Print Assumptions c03_table_frame.

Theorem c03_table_wf_preserved : forall t k r, WF t -> room t r -> WF (set_rule_result t k r).
Proof. exact set_rule_result_WF. Qed.
Print Assumptions c03_table_wf_preserved.

(* after ANY sequence of setRuleResult / lookupRuleResult / setCurrentIteration / process restarts on a database
   created empty: name->id and id->name are mutually inverse, each injective, both caches agree with the table,
   ids are non-zero *)
Theorem c03_ids_inverse : forall s c ops, ids_coherent (db_run (empty_tables s c) ops).
Proof. exact ids_inverse. Qed.
Print Assumptions c03_ids_inverse.

Theorem c03_version_gate : forall stored cur rc,
  (open_decision stored cur rc = UseStored <-> stored = Some cur) /\
  (stored <> Some cur -> open_decision stored cur rc = if rc then Recreate else Reject).
Proof. exact version_gate. Qed.
Print Assumptions c03_version_gate.

Theorem c03_version_gate_open : forall file cur rc,
  match open_db file cur rc with
  | Some t => (exists f, file = Some f /\ fst (info f) = cur /\ t = fresh_process f) \/
              (stored_versions file <> Some cur /\ rc = true /\ t = empty_tables (fst cur) (snd cur))
  | None => stored_versions file <> Some cur /\ rc = false
  end.
Proof. exact open_db_gate. Qed.
Print Assumptions c03_version_gate_open.

(* under a mismatch the outcome does not depend on the file at all *)
Theorem c03_version_gate_blind : forall file1 file2 cur rc,
  stored_versions file1 <> Some cur -> stored_versions file2 <> Some cur ->
  open_db file1 cur rc = open_db file2 cur rc.
Proof. exact open_db_mismatch_blind. Qed.
Print Assumptions c03_version_gate_blind.

(* no two holders, after any sequence of buildStarted / buildComplete calls by any connections; a second
   buildStarted fails; a writer other than the holder gets an error and writes nothing *)
Theorem c03_lock : forall ops c1 c2, In c1 (lock_run ops) -> In c2 (lock_run ops) -> c1 = c2.
Proof. exact lock_excludes. Qed.
Print Assumptions c03_lock.

Theorem c03_lock_second_start_fails : forall l c c', In c' l -> build_started l c = (l, false).
Proof. exact lock_second_start_fails. Qed.
Print Assumptions c03_lock_second_start_fails.

Theorem c03_lock_blocks_writer : forall l c c' t k r, In c' l -> c <> c' -> db_write l c t k r = None.
Proof. exact lock_blocks_writer. Qed.
Print Assumptions c03_lock_blocks_writer.

(* ---- database transparency over the specification engine ---- *)

(* [Rb s1 s2] (Engine/Restart.v): same database, iteration, epoch, no interruption flags; for every key the memory
   results agree on value, signature, computedAt and dependencies up to dropped single-use entries; builtAt of s2 is
   <= the one of s1 and no recorded non-order-only dependency was computed in the gap; builtAt <= epoch; and the
   two sides have completed the same rules in the current epoch.  From related states [ensure] has the same outcome,
   logs the same new events (same executions, same reasons, same values) and ends in related states. *)
Theorem c03_ensure_simulation : forall rules env F order fuel stack s1 s2 k, Rb s1 s2 ->
  (forall s1', ensure rules env F order fuel stack s1 k = Ok s1' ->
     exists s2', ensure rules env F order fuel stack s2 k = Ok s2' /\ Rb s1' s2' /\ new_log s1 s1' = new_log s2 s2') /\
  (forall s1' p, ensure rules env F order fuel stack s1 k = Cycle s1' p ->
     exists s2', ensure rules env F order fuel stack s2 k = Cycle s2' p /\ Rb s1' s2' /\ new_log s1 s1' = new_log s2 s2') /\
  (ensure rules env F order fuel stack s1 k = OutOfFuel -> ensure rules env F order fuel stack s2 k = OutOfFuel).
Proof. exact ensure_simulation. Qed.
Print Assumptions c03_ensure_simulation.

(* one whole build, between build boundaries (relation R: Rb without the same-epoch clause) *)
Theorem c03_build_simulation : forall rules env F order fuel s1 s2 k, R s1 s2 ->
  osimR s1 s2 (build rules env F order fuel s1 k) (build rules env F order fuel s2 k).
Proof. exact build_sim. Qed.
Print Assumptions c03_build_simulation.

(* the literal statement (a restart inserted at ANY build boundary) fails in the history model when a rule edit is
   pending, because a new engine instance is also what activates pending rule edits *)
Theorem c03_restart_with_pending_edit_refuted :
  exists ops ops',
    ops = [ORule 1 (mkRule 5 false [] [] [] None []); OBuild 1] /\
    ops' = [ORule 1 (mkRule 5 false [] [] [] None []); ORestart true; OBuild 1] /\
    observed (run_history mixF ord_id 10 ops) <> observed (run_history mixF ord_id 10 ops').
Proof. exact restart_with_pending_edit_refuted. Qed.
Print Assumptions c03_restart_with_pending_edit_refuted.

(* the database-consistency invariant of ONE engine at build boundaries ([DbOk], Engine/Restart.v: stored iteration =
   epoch, no flags, every row equals the memory result except possibly a larger memory builtAt and dropped single-use
   entries, with no recorded dependency computed in the gap, builtAt <= epoch): holds initially, is preserved by
   every build that returns (Ok or Cycle) and by restarts; under it the restarted engine simulates the running one *)
Theorem c03_DbOk_init : DbOk init_state.
Proof. exact DbOk_init. Qed.
Print Assumptions c03_DbOk_init.

Theorem c03_DbOk_build : forall rules env F order fuel s k,
  DbOk s -> oinv DbOk (build rules env F order fuel s k).
Proof. exact build_DbOk. Qed.
Print Assumptions c03_DbOk_build.

Theorem c03_DbOk_restart : forall s, DbOk s -> DbOk (restart s).
Proof. exact DbOk_restart. Qed.
Print Assumptions c03_DbOk_restart.

Theorem c03_restart_R : forall s, DbOk s -> R s (restart s).
Proof. exact restart_R. Qed.
Print Assumptions c03_restart_R.

Theorem c03_history_restart_R : forall F order fuel ops,
  R (h_st (run_history F order fuel ops)) (restart (h_st (run_history F order fuel ops))).
Proof. exact history_restart_R. Qed.
Print Assumptions c03_history_restart_R.

(* C03 over histories: for every task computation F, every dependency-order oracle, every fuel and every operation
   list, inserting [ORestart true] at any set of positions at which no rule edit is pending ([ins false ops ops'];
   see c03_restart_with_pending_edit_refuted for why the side condition is there) leaves the sequence of logged
   events other than ERestart unchanged: the same executions, for the same reasons, with the same values, the same
   build results and the same reported cycles, whether the builds run in one engine or are split across processes
   sharing the database. *)
Theorem c03_restart_transparent : forall F order fuel ops ops', ins false ops ops' ->
  observed (run_history F order fuel ops') = observed (run_history F order fuel ops).
Proof. exact restart_transparent. Qed.
Print Assumptions c03_restart_transparent.
