(* P19: properties of the small-step engine-loop model coq/Engine/Impl.v (statements only; proofs in Engine/ImplProofs*.v). *)
From LLB Require Import Engine.Rules Engine.Spec Engine.Impl.

(* placeholder while the proofs are being written: the initial state has no work *)
Theorem impl_init_idle : has_work init_istate = false.
Proof. reflexivity. Qed.
Print Assumptions impl_init_idle.
