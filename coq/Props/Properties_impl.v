(* P19: properties of the small-step engine-loop model coq/Engine/Impl.v (statements only; proofs in Engine/ImplProofs*.v).
   The model is tied to lib/Core/BuildEngine.cpp by the exact-interleaving differential of harness/py/props/impl.py.
   [msteps]: any sequence of the steps the loop is made of (a completion arriving, one item of one of the five queues), in ANY
   order - the loop under every schedule is such a sequence (impl_loop_iteration_steps).  [is_fault s = None]: no assert of the
   code has failed so far (impl_no_fault: holds for every state reachable in a build). *)
From LLB Require Import Engine.Rules Engine.Spec Engine.Impl.
From LLB Require Import Engine.ImplProofs Engine.ImplProofsMono Engine.ImplProofsLoop Engine.ImplProofsInv9 Engine.ImplProofsStall Engine.ImplProofsRun Engine.ImplProofsExamples Engine.ImplProofsAvail Engine.ImplProofsProto.
From LLB Require Import Engine.Protocol.
From LLB Require Import Engine.Exec.
From LLB Require Engine.FindCycle.
Local Open Scope N_scope.

(* one iteration of the loop, under any schedule, is a sequence of steps *)
Theorem impl_loop_iteration_steps : forall rules env F ord syncp stalled fuel s comps,
  is_fault (fst (loop_iteration_gen rules env F ord syncp stalled fuel s comps)) = None ->
  msteps rules env F ord syncp s (fst (loop_iteration_gen rules env F ord syncp stalled fuel s comps)).
Proof. exact loop_iteration_msteps. Qed.
Print Assumptions impl_loop_iteration_steps.

(* within one build a rule's state kind only moves forward in the order
   Incomplete < IsScanning < {NeedsToRun, DoesNotNeedToRun} < InProgressWaiting < InProgressComputing < Complete(current epoch) *)
Theorem impl_state_monotone : forall rules env F ord syncp s s',
  msteps rules env F ord syncp s s' -> is_fault s' = None ->
  is_fault s = None /\ is_epoch s' = is_epoch s /\ forall k, (krank s k <= krank s' k)%nat.
Proof. exact state_monotone. Qed.
Print Assumptions impl_state_monotone.

(* C02 on the small-step model: at most one createTask (and at most one inputsAvailable) per key and build *)
Theorem impl_at_most_once : forall rules env F ord syncp s s',
  msteps rules env F ord syncp s s' -> is_fault s' = None ->
  exists l, is_log s' = l ++ is_log s /\
            forall k, (count_ev (is_create k) l <= 1)%nat /\ (count_ev (is_avail k) l <= 1)%nat.
Proof. exact at_most_once. Qed.
Print Assumptions impl_at_most_once.

(* no assert of the code fails in any state of a build ([in_build]: the engine was quiescent, then any sequence of steps);
   covered asserts: see the fault codes of Impl.v (task exists, rule IsScanning / InProgressWaiting / InProgressComputing where the
   code assumes it, demandRule only on scanned rules, --waitCount never at 0, scan index in range) *)
Theorem impl_no_fault : forall rules env F ord syncp s0 root s,
  in_build rules env F ord syncp s0 root s -> is_fault s = None.
Proof. exact no_fault. Qed.
Print Assumptions impl_no_fault.

(* the waitCount identity: a task's waitCount is the number of its requests in inputRequests, in the pausedInputRequests of rules
   being scanned, in the requestedBy lists of tasks, and in finishedInputRequests *)
Theorem impl_waitcount : forall rules env F ord syncp s0 root s,
  in_build rules env F ord syncp s0 root s ->
  forall t ti, aget (is_tasks s) t = Some ti -> ti_wait ti = outstanding_count s t.
Proof. exact waitcount. Qed.
Print Assumptions impl_waitcount.

(* inputsAvailable (C06): at most once per task and build (impl_at_most_once), and only when waitCount = 0 and NONE of the task's
   requests is outstanding anywhere - so every requested input has been delivered and every must-follow key has completed
   (an order-only request leaves finishedInputRequests only when its rule is complete).  [l]: the events of this step. *)
Theorem impl_inputs_available_at_zero : forall rules env F ord syncp s0 root s s' l k,
  in_build rules env F ord syncp s0 root s -> mstep rules env F ord syncp s s' -> is_log s' = l ++ is_log s -> In (EAvail k) l ->
  exists ti, aget (is_tasks s) k = Some ti /\ kind_of s k = KWaiting /\ ti_wait ti = 0%nat /\ outstanding_count s k = 0%nat.
Proof. exact inputs_available_at_zero. Qed.
Print Assumptions impl_inputs_available_at_zero.

(* Link to the protocol automaton of C06 (Protocol.proto_prefix_ok), PARTIAL.  [projl k l]: what task k observes of the events l of the
   build, in order.  Proved: the observation is accepted as a prefix - start first and once, the prior value only directly after start,
   provides only between start and inputsAvailable, inputsAvailable at most once, complete only after it and once - for the request
   multiset [provided ...] = the slots that were provided.
   FULL statement (not proved): the same with the request multiset of the rule, i.e. slots 0 .. |req|+|single|-1 plus the slots of the
   branch requests that were issued.  Gap: the invariant counts a task's outstanding requests (impl_waitcount) but does not track their
   slot ids; with impl_inputs_available_at_zero it gives "no request outstanding at inputsAvailable", not "each slot exactly once". *)
Theorem impl_protocol_partial : forall rules env F ord syncp s0 root s,
  in_build rules env F ord syncp s0 root s ->
  exists l, is_log s = l ++ is_log (start_build (iemit (bump s0) (EBuildStart root)) root) /\
            forall k, proto_prefix_ok (provided (projl k l)) (projl k l) = true.
Proof. exact protocol_prefix. Qed.
Print Assumptions impl_protocol_partial.

(* The stalled engine (C07).  If an iteration does no work, nothing is computing and the stall test fires, and the requested key is
   itself unfinished (it has a task or is being scanned), then every node reachable from it in findCycle's successor graph waits on
   something - the premise no_dead_end of Properties_C07.c07_fc_stall_finds_cycle - and findCycle (with the linear fuel the model
   gives it) reports a non-empty cycle.  Without "the requested key is unfinished" the statement is false: impl_stall_dead_end_witness. *)
Theorem impl_stall_no_dead_end : forall rules env F ord syncp stalled s0 root s fuel comps s',
  in_build rules env F ord syncp s0 root s ->
  loop_iteration_gen rules env F ord syncp stalled fuel s comps = (s', StStall) ->
  (aget (is_tasks s') root <> None \/ kind_of s' root = KScanning) ->
  FindCycle.no_dead_end (wait_graph s') root /\
  exists l, FindCycle.findcycle_names (wait_graph s') root (fc_linear_fuel (wait_graph s')) = FindCycle.FcDone l /\ l <> [].
Proof. exact stall_finds_cycle. Qed.
Print Assumptions impl_stall_no_dead_end.

(* every edge (a, b) of that graph ("b waits on a") is real: a is a key the rule of b may request (request, single-use request,
   must-follow, branch request) or a recorded dependency of b *)
Theorem impl_edges_real : forall rules env F ord syncp s0 root s a b,
  in_build rules env F ord syncp s0 root s -> In (a, b) (wait_graph s) ->
  In a (requestable (rules b)) \/ In a (map d_key (res_deps (res_of s b))).
Proof. exact edges_real. Qed.
Print Assumptions impl_edges_real.

(* when executeTasks returns true (repaired stall test, commit e39d106) the engine is quiescent again: no task, nothing queued, no
   rule left IsScanning - so the next build starts from a state all the theorems above apply to *)
Theorem impl_done_quiescent : forall rules env F ord syncp s0 root s fuel comps s',
  in_build rules env F ord syncp s0 root s ->
  loop_iteration rules env F ord syncp fuel s comps = (s', StDone) -> quiescent s'.
Proof. exact done_quiescent. Qed.
Print Assumptions impl_done_quiescent.

(* the same for a whole build: BuildEngine::build returned a value and no assert failed => quiescent, so the next build is again
   covered by in_build (induction over the iterations of executeTasks, every schedule) *)
Theorem impl_build_done_quiescent : forall rules env F ord syncp fuel pfuel s0 root sched sf m,
  quiescent s0 -> ibuild rules env F ord syncp fuel pfuel s0 root sched = (RDone sf, m) -> is_fault sf = None -> quiescent sf.
Proof. exact build_done_quiescent. Qed.
Print Assumptions impl_build_done_quiescent.

(* REFUTED (full strength of impl_stall_no_dead_end, without "the requested key is unfinished"): the requested key 4 completes and
   discovers the derived key 5 that must follow itself; the engine stalls with the graph 5>5, which has a dead end at 4, and
   reports the EMPTY cycle (known finding C07 disc-cycle-empty-list; replayed on the implementation by harness/py/props/impl.py) *)
Theorem impl_stall_no_dead_end_refuted :
  exists rules env root s g,
    fst (ibuild rules env mixF (fun _ => [RReq; RSingle; RFollow]) (fun _ => true) 200 200 init_istate root [])
      = RCycle s g (FindCycle.FcDone []) /\ ~ FindCycle.no_dead_end g root.
Proof. exact stall_no_dead_end_refuted. Qed.
Print Assumptions impl_stall_no_dead_end_refuted.

(* REFUTED for the code before commit e39d106 (stall test on the requested rule only, Impl.ibuild_v0): a build returns success from a
   quiescent engine and leaves rules IsScanning (the implementation then crashed in the next build) *)
Theorem impl_done_quiescent_v0_refuted :
  exists rules env s0 root s,
    quiescent s0 /\ fst (ibuild_v0 rules env mixF (fun _ => [RReq; RSingle; RFollow]) (fun _ => true) 200 200 s0 root []) = RDone s /\ ~ quiescent s.
Proof. exact done_quiescent_v0_refuted_ex. Qed.
Print Assumptions impl_done_quiescent_v0_refuted.

(* ---------- P19b: the VALUES of the small-step engine, for every schedule ---------- *)
From LLB Require Import Engine.SpecInv1 Engine.ImplVal6 Engine.ImplVal7.

(* Stage 1.  An engine that has never built anything ([fresh]: quiescent, no database, no stored result - e.g. init_istate:
   impl_fresh_init), a rule set that is ranked in the sense of C01 (wf_rank: every key a rule mentions - requests, single-use,
   must-follow, both branch lists, discovered - has smaller rank), a task that calls request() in start (In RReq (ord k): the call order
   `ord=` of the scenario language is a permutation of r/s/f), any env, task function, completion policy and schedule: if the build
   returns a value and no assert failed, the value stored for the requested key is its clean value Spec.cv, the requested key is Complete,
   and so is the stored value of EVERY key that is Complete. *)
Theorem impl_first_build_values : forall rules env ord F rank syncp,
  wf_rank rules rank -> (forall k, In RReq (ord k)) ->
  forall fuel pfuel cfuel s0 root sched sf m, fresh s0 ->
  ibuild rules env F ord syncp fuel pfuel s0 root sched = (RDone sf, m) -> is_fault sf = None ->
  ((rank root < cfuel)%nat -> kind_of sf root = KComplete /\ res_value (res_of sf root) = cv rules env F cfuel root) /\
  forall k, kind_of sf k = KComplete -> (rank k < cfuel)%nat -> res_value (res_of sf k) = cv rules env F cfuel k.
Proof. exact first_build_values. Qed.
Print Assumptions impl_first_build_values.

Theorem impl_fresh_init : fresh init_istate.
Proof. exact fresh_init. Qed.
Print Assumptions impl_fresh_init.

(* Stage 2.  Two first builds of the same key under any two schedules (completion policies, completion orders, fuels): equal values for
   the requested key and for every key both completed. *)
Theorem impl_values_schedule_independent : forall rules env ord F rank,
  wf_rank rules rank -> (forall k, In RReq (ord k)) ->
  forall syncp1 syncp2 fuel1 pfuel1 fuel2 pfuel2 s0 root sched1 sched2 sf1 m1 sf2 m2, fresh s0 ->
  ibuild rules env F ord syncp1 fuel1 pfuel1 s0 root sched1 = (RDone sf1, m1) -> is_fault sf1 = None ->
  ibuild rules env F ord syncp2 fuel2 pfuel2 s0 root sched2 = (RDone sf2, m2) -> is_fault sf2 = None ->
  res_value (res_of sf1 root) = res_value (res_of sf2 root) /\
  forall k, kind_of sf1 k = KComplete -> kind_of sf2 k = KComplete -> res_value (res_of sf1 k) = res_value (res_of sf2 k).
Proof. exact values_schedule_independent. Qed.
Print Assumptions impl_values_schedule_independent.

(* ---------- P19b stage 3a/3b: incremental builds (rule scanning), for every schedule ---------- *)
From LLB Require Import Engine.ImplInc1 Engine.ImplInc9 Engine.ImplInc10.

(* [HInv F R s]: the engine instance is at rest (quiescent), no rule is marked cancelled or left in the state
   "does not need to run", every stored result has computedAt <= builtAt <= the epoch and is a true row RELATIVE TO THE RULE
   R k sg OF ITS KEY AND SIGNATURE (R: a table of rules by key and signature, as in Properties_C01; table_ok rules R: the rule table
   of the build agrees with it - for a table that is never edited take R := fixedR rules) (ImplInc1.rowok: its value is what the task function gives for the values now stored for its recorded inputs, provided
   none of them - single-use inputs apart - was recomputed after the row was built; its recorded inputs are keys the rule may request or discover).
   HInv does not mention the environment: the world may change arbitrarily between builds.  impl_hinv_init: a new engine satisfies it.

   PARTIAL - the exact gap to the full statement `impl_build_values_clean`: every earlier build returned normally (no cancelled
   rule is left behind: part of HInv).  Under the premises of these theorems a build never reports a cycle and never cancels a task
   (impl_build_never_cycles below), so within histories all of whose rule tables are ranked the gap is empty; it concerns histories
   in which an earlier build ran with an UNRANKED (cyclic) table and failed.  The rule table may be edited between builds (HInv does not mention `rules`; each build
   needs table_ok for its own table: impl_history_rule_edits_values_clean_partial; an edited rule has a new signature).
   The builds are builds of one engine instance, with or without a database attached (HInv does not say which); a restart from the
   database is the subject of impl_restart_from_database / impl_history_restarts_values_clean_partial below (stage 3b-3).
   wf_disc (discovered dependencies are rules that observe external state) is the premise of Properties_C01.
   Single-use requests and discovered dependencies (stages 3b-1, 3b-2: the restrictions r_single = [] and r_disc = [] of the first
   version are lifted), must-follow inputs, branch requests, observation of external state (r_obs), changes of the environment
   between builds, every completion policy [syncp], every schedule and all fuels are covered. *)
Theorem impl_build_values_clean_partial : forall rules F rank R ord syncp,
  wf_rank rules rank -> wf_disc rules -> table_ok rules R -> (forall k, In RReq (ord k)) ->
  forall env fuel pfuel cfuel s0 root sched sf m, HInv F R s0 ->
  ibuild rules env F ord syncp fuel pfuel s0 root sched = (RDone sf, m) -> is_fault sf = None ->
  ((rank root < cfuel)%nat -> res_value (res_of sf root) = cv rules env F cfuel root) /\ HInv F R sf.
Proof. exact build_values_clean. Qed.
Print Assumptions impl_build_values_clean_partial.

(* ... and the value stored for EVERY key that is complete in the epoch of the build is its clean value *)
Theorem impl_build_values_clean_all_partial : forall rules F rank R ord syncp,
  wf_rank rules rank -> wf_disc rules -> table_ok rules R -> (forall k, In RReq (ord k)) ->
  forall env fuel pfuel cfuel s0 root sched sf m, HInv F R s0 ->
  ibuild rules env F ord syncp fuel pfuel s0 root sched = (RDone sf, m) -> is_fault sf = None ->
  forall k, kind_of sf k = KComplete -> res_builtAt (res_of sf k) = is_epoch sf -> (rank k < cfuel)%nat ->
  res_value (res_of sf k) = cv rules env F cfuel k.
Proof. exact build_values_clean_all. Qed.
Print Assumptions impl_build_values_clean_all_partial.

Theorem impl_hinv_init : forall F R, HInv F R init_istate.
Proof. exact HInv_init. Qed.
Print Assumptions impl_hinv_init.

(* Any history of builds on one engine instance starting from a new engine, each build with its own environment, requested key,
   schedule and fuels ([run_builds]: every build returns a value and no assert fails): every build returns the clean value of its
   requested key for ITS environment.  Same restrictions as above. *)
Theorem impl_history_values_clean_partial : forall rules F rank R ord syncp,
  wf_rank rules rank -> wf_disc rules -> table_ok rules R -> (forall k, In RReq (ord k)) ->
  forall cfuel bs s sf vs, HInv F R s -> run_builds rules F ord syncp s bs = Some (sf, vs) ->
  (forall b, In b bs -> (rank (bs_root b) < cfuel)%nat) ->
  vs = map (fun b => cv rules (bs_env b) F cfuel (bs_root b)) bs /\ HInv F R sf.
Proof. exact history_values_clean. Qed.
Print Assumptions impl_history_values_clean_partial.

(* The rule table is edited between builds: every build has its own table (and rank function), all of them agreeing with one table R
   of rules by key and signature ([rb_ok]: wf_rank, wf_disc, table_ok, rank of the requested key < cfuel).  Every build returns the
   clean value of its requested key for ITS table and ITS environment. *)
Theorem impl_history_rule_edits_values_clean_partial : forall F R ord syncp, (forall k, In RReq (ord k)) ->
  forall cfuel bs s sf vs, (forall rb, In rb bs -> rb_ok R cfuel rb) -> HInv F R s ->
  run_rbuilds F ord syncp s bs = Some (sf, vs) ->
  vs = map (fun rb => cv (rb_rules rb) (bs_env (rb_build rb)) F cfuel (bs_root (rb_build rb))) bs /\ HInv F R sf.
Proof. exact rhistory_values_clean. Qed.
Print Assumptions impl_history_rule_edits_values_clean_partial.

(* ---------- P19b stage 4 (under the premises of stage 3a): the small-step engine refines the specification engine in its VALUES ---------- *)
From LLB Require Import Engine.SpecC01 Engine.ImplInc11.

(* One build.  The specification engine Spec.build from any of its states at rest (AtRest, Properties_C01) and the small-step engine
   from any of its states at rest (HInv), the same rule table, environment and requested key: if both return, they return the same
   value - for every dependency-order oracle of the one and every completion policy, schedule and fuels of the other.
   PARTIAL: the restriction of impl_build_values_clean_partial (no cancelled build before); the table of rules by key and signature
   is fixedR rules here (the specification engine is given the same, unedited, rule table). *)
Theorem impl_refines_spec_values_partial : forall rules F rank ord syncp order,
  wf_rank rules rank -> wf_disc rules -> (forall k, In RReq (ord k)) ->
  wf_order order ->
  forall env fuel ss k ss' ifuel pfuel s sched sf m, (rank k < fuel)%nat ->
  AtRest F (fixedR rules) ss -> build rules env F order fuel ss k = Ok ss' ->
  ImplInc1.HInv F (fixedR rules) s -> ibuild rules env F ord syncp ifuel pfuel s k sched = (RDone sf, m) -> is_fault sf = None ->
  res_value (res_of sf k) = result_of ss' k.
Proof. exact refines_spec_values. Qed.
Print Assumptions impl_refines_spec_values_partial.

(* Histories.  Both engines from their initial states, the same list of builds (each with its own environment and requested key):
   the lists of returned values are equal. *)
Theorem impl_refines_spec_history_partial : forall rules F rank ord syncp order,
  wf_rank rules rank -> wf_disc rules -> (forall k, In RReq (ord k)) ->
  wf_order order ->
  forall fuel bs ssf vs1 sf vs2, (forall b, In b bs -> (rank (bs_root b) < fuel)%nat) ->
  spec_builds rules F order fuel init_state bs = Some (ssf, vs1) ->
  run_builds rules F ord syncp init_istate bs = Some (sf, vs2) -> vs2 = vs1.
Proof. exact refines_spec_history. Qed.
Print Assumptions impl_refines_spec_history_partial.

(* ---------- P19b stage 3b-3: engines with a database, restart from the database ---------- *)
From LLB Require Import Engine.ImplInc13 Engine.ImplInc14.

(* [DInv F R s]: HInv, the engine has a database (is_usedb = true) whose stored iteration is the epoch, and memory and database are
   in step (ImplInc13.DBI): for every rule the database row has the value, signature, computedAt of the memory row, a builtAt that
   is not larger (a rule found not to need to run is stamped in memory only), and the dependencies of the memory row plus,
   possibly, single-use dependencies the memory row has dropped.  impl_dinv_new: a new engine over an empty database.
   A build keeps DInv and returns the clean value; so does a restart (irestart true: a new instance, nothing loaded, every rule
   record read from is_db on first use).  Together with impl_build_values_clean_partial this lifts the restriction "no restart
   from the database"; what remains is that every build returns normally. *)
Theorem impl_dinv_new : forall F R, DInv F R (irestart true init_istate).
Proof. exact DInv_new. Qed.
Print Assumptions impl_dinv_new.

Theorem impl_build_values_clean_db_partial : forall rules F rank R ord syncp,
  wf_rank rules rank -> wf_disc rules -> table_ok rules R -> (forall k, In RReq (ord k)) ->
  forall env fuel pfuel cfuel s0 root sched sf m, DInv F R s0 ->
  ibuild rules env F ord syncp fuel pfuel s0 root sched = (RDone sf, m) -> is_fault sf = None ->
  ((rank root < cfuel)%nat -> res_value (res_of sf root) = cv rules env F cfuel root) /\ DInv F R sf.
Proof. exact build_DInv. Qed.
Print Assumptions impl_build_values_clean_db_partial.

Theorem impl_restart_from_database : forall F R s, DInv F R s -> DInv F R (irestart true s).
Proof. exact restart_DInv. Qed.
Print Assumptions impl_restart_from_database.

(* a restart without a database is a new engine *)
Theorem impl_restart_nodb : forall F R s, is_fault s = None -> ImplInc1.HInv F R (irestart false s).
Proof. exact restart_nodb_HInv. Qed.
Print Assumptions impl_restart_nodb.

(* Any history of builds and restarts of an engine with a database, from a new engine over an empty database: every build returns
   the clean value of its requested key for its environment. *)
Theorem impl_history_restarts_values_clean_partial : forall rules F rank R ord syncp,
  wf_rank rules rank -> wf_disc rules -> table_ok rules R -> (forall k, In RReq (ord k)) ->
  forall cfuel ops s sf vs, DInv F R s -> run_hops rules F ord syncp s ops = Some (sf, vs) ->
  (forall b, In b (hop_roots ops) -> (rank (bs_root b) < cfuel)%nat) ->
  vs = map (fun b => cv rules (bs_env b) F cfuel (bs_root b)) (hop_roots ops) /\ DInv F R sf.
Proof. exact hops_values_clean. Qed.
Print Assumptions impl_history_restarts_values_clean_partial.

(* The same for engines with a database: both engines from a new instance over an empty database, the same list of builds and
   restarts (Spec.restart / irestart true): the lists of returned values are equal. *)
From LLB Require Import Engine.ImplInc15.
Theorem impl_refines_spec_history_restarts_partial : forall rules F rank ord syncp order,
  wf_rank rules rank -> wf_disc rules -> (forall k, In RReq (ord k)) -> wf_order order ->
  forall fuel ops ssf vs1 sf vs2, (forall b, In b (hop_roots ops) -> (rank (bs_root b) < fuel)%nat) ->
  spec_hops rules F order fuel (restart init_state) ops = Some (ssf, vs1) ->
  run_hops rules F ord syncp (irestart true init_istate) ops = Some (sf, vs2) -> vs2 = vs1.
Proof. exact refines_spec_hops. Qed.
Print Assumptions impl_refines_spec_history_restarts_partial.

(* ---------- the engine with the queue DISCIPLINE left open (Engine/ImplGen.v) ----------
   [mstep_gen]: a completion arriving from a task, or ANY item (position i) of one of the five queues; the steps of Impl.v (heads of
   the queues) are the positions 0.  Refactors of the implementation that only change the order in which a queue is drained stay
   inside msteps_gen.  Method of all proofs below: a step at position i is the head step of the state whose queue has the picked
   element moved to the front, and every invariant used looks at the queues as multisets (counts, Forall, In, NoDup). *)
From LLB Require Import Engine.ImplGen Engine.ImplGenProofs Engine.ImplGenInv Engine.ImplGenThms Engine.ImplGenVal.

(* the enumerator of enabled steps lists steps only; every run of Impl.v's steps, in particular every iteration of its loop, is a
   run of general steps *)
Theorem impl_enabled_gen_sound : forall rules env F ord syncp s l s',
  In (l, s') (enabled_gen rules env F ord syncp s) -> mstep_gen rules env F ord syncp s s'.
Proof. exact enabled_gen_sound. Qed.
Print Assumptions impl_enabled_gen_sound.
Theorem impl_msteps_are_gen : forall rules env F ord syncp s s',
  msteps rules env F ord syncp s s' -> msteps_gen rules env F ord syncp s s'.
Proof. exact msteps_msteps_gen. Qed.
Print Assumptions impl_msteps_are_gen.
Theorem impl_loop_iteration_steps_gen : forall rules env F ord syncp stalled fuel s comps,
  is_fault (fst (loop_iteration_gen rules env F ord syncp stalled fuel s comps)) = None ->
  msteps_gen rules env F ord syncp s (fst (loop_iteration_gen rules env F ord syncp stalled fuel s comps)).
Proof. exact loop_iteration_msteps_gen. Qed.
Print Assumptions impl_loop_iteration_steps_gen.

(* the first-stage theorems, for every queue discipline *)
Theorem impl_state_monotone_gen : forall rules env F ord syncp s s',
  msteps_gen rules env F ord syncp s s' -> is_fault s' = None ->
  is_fault s = None /\ is_epoch s' = is_epoch s /\ forall k, (krank s k <= krank s' k)%nat.
Proof. exact state_monotone_gen. Qed.
Print Assumptions impl_state_monotone_gen.
Theorem impl_at_most_once_gen : forall rules env F ord syncp s s',
  msteps_gen rules env F ord syncp s s' -> is_fault s' = None ->
  exists l, is_log s' = l ++ is_log s /\
            forall k, (count_ev (is_create k) l <= 1)%nat /\ (count_ev (is_avail k) l <= 1)%nat.
Proof. exact at_most_once_gen. Qed.
Print Assumptions impl_at_most_once_gen.
Theorem impl_no_fault_gen : forall rules env F ord syncp s0 root s,
  in_build_gen rules env F ord syncp s0 root s -> is_fault s = None.
Proof. exact no_fault_gen. Qed.
Print Assumptions impl_no_fault_gen.
Theorem impl_waitcount_gen : forall rules env F ord syncp s0 root s,
  in_build_gen rules env F ord syncp s0 root s ->
  forall t ti, aget (is_tasks s) t = Some ti -> ti_wait ti = outstanding_count s t.
Proof. exact waitcount_gen. Qed.
Print Assumptions impl_waitcount_gen.
Theorem impl_inputs_available_at_zero_gen : forall rules env F ord syncp s0 root s s' l k,
  in_build_gen rules env F ord syncp s0 root s -> mstep_gen rules env F ord syncp s s' -> is_log s' = l ++ is_log s -> In (EAvail k) l ->
  exists ti, aget (is_tasks s) k = Some ti /\ kind_of s k = KWaiting /\ ti_wait ti = 0%nat /\ outstanding_count s k = 0%nat.
Proof. exact inputs_available_at_zero_gen. Qed.
Print Assumptions impl_inputs_available_at_zero_gen.
(* PARTIAL in the same sense as impl_protocol_partial *)
Theorem impl_protocol_gen_partial : forall rules env F ord syncp s0 root s,
  in_build_gen rules env F ord syncp s0 root s ->
  exists l, is_log s = l ++ is_log (start_build (iemit (bump s0) (EBuildStart root)) root) /\
            forall k, proto_prefix_ok (provided (projl k l)) (projl k l) = true.
Proof. exact protocol_prefix_gen. Qed.
Print Assumptions impl_protocol_gen_partial.
(* the loop of Impl.v entered in a state that was reached under any discipline *)
Theorem impl_stall_no_dead_end_gen : forall rules env F ord syncp stalled s0 root s fuel comps s',
  in_build_gen rules env F ord syncp s0 root s ->
  loop_iteration_gen rules env F ord syncp stalled fuel s comps = (s', StStall) ->
  (aget (is_tasks s') root <> None \/ kind_of s' root = KScanning) ->
  FindCycle.no_dead_end (wait_graph s') root /\
  exists l, FindCycle.findcycle_names (wait_graph s') root (fc_linear_fuel (wait_graph s')) = FindCycle.FcDone l /\ l <> [].
Proof. exact stall_finds_cycle_gen. Qed.
Print Assumptions impl_stall_no_dead_end_gen.
Theorem impl_edges_real_gen : forall rules env F ord syncp s0 root s a b,
  in_build_gen rules env F ord syncp s0 root s -> In (a, b) (wait_graph s) ->
  In a (requestable (rules b)) \/ In a (map d_key (res_deps (res_of s b))).
Proof. exact edges_real_gen. Qed.
Print Assumptions impl_edges_real_gen.
Theorem impl_done_quiescent_gen : forall rules env F ord syncp s0 root s fuel comps s',
  in_build_gen rules env F ord syncp s0 root s ->
  loop_iteration rules env F ord syncp fuel s comps = (s', StDone) -> quiescent s'.
Proof. exact done_quiescent_gen. Qed.
Print Assumptions impl_done_quiescent_gen.

(* the values, for every queue discipline: ANY run of general steps from the start of a build (engine at rest: HInv) that reaches a
   quiescent state has stored the clean value for the requested key and for every key completed in this epoch, and ends in a state
   at rest again.  PARTIAL as impl_build_values_clean_partial (no cancelled build before). *)
Theorem impl_run_gen_values_clean_partial : forall rules F rank R ord syncp,
  wf_rank rules rank -> wf_disc rules -> table_ok rules R -> (forall k, In RReq (ord k)) ->
  forall env cfuel s0 root sf, ImplInc1.HInv F R s0 -> in_build_gen rules env F ord syncp s0 root sf -> quiescent sf ->
  ((rank root < cfuel)%nat -> res_value (res_of sf root) = cv rules env F cfuel root) /\ ImplInc1.HInv F R sf /\
  forall k, kind_of sf k = KComplete -> res_builtAt (res_of sf k) = is_epoch sf -> (rank k < cfuel)%nat ->
            res_value (res_of sf k) = cv rules env F cfuel k.
Proof. exact run_gen_values_clean. Qed.
Print Assumptions impl_run_gen_values_clean_partial.
(* ... and memory and database stay in step (engines with a database) *)
Theorem impl_run_gen_db_in_step : forall rules F rank R ord syncp,
  wf_rank rules rank -> wf_disc rules -> table_ok rules R -> (forall k, In RReq (ord k)) ->
  forall env s0 root sf, ImplInc1.HInv F R s0 -> is_usedb s0 = true -> DBI R s0 -> in_build_gen rules env F ord syncp s0 root sf ->
  DBI R sf /\ is_usedb sf = true.
Proof. exact run_gen_DBI. Qed.
Print Assumptions impl_run_gen_db_in_step.

(* ---------- no stall, no cycle report, no cancelled task under the rank hypothesis ---------- *)
From LLB Require Import Engine.ImplInc16.
(* The analogue of Properties_C01.c01_no_cycle_when_ranked for the small-step engine: from a state at rest, with a ranked rule table
   (and wf_disc, table_ok), no iteration of the loop ends "stalled" - every edge of findCycle's wait graph goes down in rank
   (ImplInc16.edge_rank), so with all queues idle no task and no scanning rule is left - hence BuildEngine::build never reports a
   cycle and never calls cancelRemainingTasks.  Consequence for the value theorems: in a history ALL of whose rule tables are ranked
   the premise "no cancelled build before" (part of HInv) holds by itself; a cycle-failed build needs an unranked table, for which
   the clean value Spec.cv is not defined by these theorems.  (impl_stall_no_dead_end_refuted is such a table.) *)
Theorem impl_never_stalls : forall rules F rank R ord syncp,
  wf_rank rules rank -> wf_disc rules -> table_ok rules R -> (forall k, In RReq (ord k)) ->
  forall env s0 root s fuel comps s' st, ImplInc1.HInv F R s0 -> in_build rules env F ord syncp s0 root s ->
  loop_iteration rules env F ord syncp fuel s comps = (s', st) -> is_fault s' = None -> st <> StStall.
Proof. exact never_stalls. Qed.
Print Assumptions impl_never_stalls.
Theorem impl_build_never_cycles : forall rules F rank R ord syncp,
  wf_rank rules rank -> wf_disc rules -> table_ok rules R -> (forall k, In RReq (ord k)) ->
  forall env fuel pfuel s0 root sched sC g c m, ImplInc1.HInv F R s0 ->
  ibuild rules env F ord syncp fuel pfuel s0 root sched = (RCycle sC g c, m) -> is_fault sC = None -> False.
Proof. exact build_never_cycles. Qed.
Print Assumptions impl_build_never_cycles.

(* builds with their own rule tables, restarts from the database and rule edits mixed, from a new engine over an empty database:
   every build returns the clean value of its requested key for its table and its environment (ImplInc17) *)
From LLB Require Import Engine.ImplInc17.
Theorem impl_history_edits_restarts_values_clean_partial : forall F R ord syncp, (forall k, In RReq (ord k)) ->
  forall cfuel ops s sf vs, (forall rb, In rb (gop_builds ops) -> rb_ok R cfuel rb) -> DInv F R s ->
  run_gops F ord syncp s ops = Some (sf, vs) ->
  vs = map (fun rb => cv (rb_rules rb) (bs_env (rb_build rb)) F cfuel (bs_root (rb_build rb))) (gop_builds ops) /\ DInv F R sf.
Proof. exact gops_values_clean. Qed.
Print Assumptions impl_history_edits_restarts_values_clean_partial.

(* After a build that REPORTED A CYCLE (any rule table, ranked or not: executeTasks returned false after cancelRemainingTasks) the
   engine is quiescent again, so the next build is again covered by in_build and all first-stage theorems (Engine/ImplCycle.v).
   The VALUES of builds after a cycle-failed build are not covered (the cancelled rules carry the flag "cancelled", excluded by HInv). *)
From LLB Require Import Engine.ImplCycle.
Theorem impl_build_cycle_quiescent : forall rules env F ord syncp fuel pfuel s0 root sched sC g c m,
  quiescent s0 -> ibuild rules env F ord syncp fuel pfuel s0 root sched = (RCycle sC g c, m) -> is_fault sC = None -> quiescent sC.
Proof. exact build_cycle_quiescent. Qed.
Print Assumptions impl_build_cycle_quiescent.
