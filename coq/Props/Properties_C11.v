(* C11 - dependencies discovered while a command runs are honoured on later builds: what a dependency file
   (Makefile style or dependency-info) says is recovered byte for byte, a malformed file fails the command, and
   every recovered path becomes the key of the path the command meant.
   Only theorem statements; each is closed by [exact <lemma>] and followed by Print Assumptions.
   Models: Parse/MakeDeps.v, Parse/DepInfo.v, Parse/DepsGlue.v (transliterations of the current sources, tied to
   the code by harness/py/props/c11.py). *)
From LLB Require Import Base.Bytes Parse.MakeDeps Parse.DepInfo Parse.DepsGlue
  Parse.MakeDepsProofs Parse.DepInfoProofs Parse.DepsGlueProofs.
Local Open Scope N_scope.

(* Paths written with the documented escaping are recovered byte for byte: for ALL targets and ALL lists of
   paths that the format can express (non-empty, no NUL/TAB/CR/LF, not starting with ':'; targets also without
   ':'), for every separator (blank, line continuation, CRLF line continuation).  The conditions are exact:
   MakeDepsProofs.wf_path_needs_* / wf_target_needs_* give a failing round trip for each one dropped. *)
Theorem c11_roundtrip : forall target paths sep,
  wf_target target = true -> forallb wf_path paths = true ->
  md_deps (md_parse false (md_write target paths sep)) = paths.
Proof. exact md_roundtrip. Qed.
Print Assumptions c11_roundtrip.

(* ... and no error is reported for such a file, with either setting of ignoreSubsequentOutputs *)
Theorem c11_roundtrip_no_error : forall ign target paths sep,
  wf_target target = true -> forallb wf_path paths = true ->
  md_has_error (md_parse ign (md_write target paths sep)) = false.
Proof. exact md_write_no_error. Qed.
Print Assumptions c11_roundtrip_no_error.

(* the same for every line end: LF, CRLF, or the end of the file right after the last path *)
Theorem c11_roundtrip_line_ends : forall target paths sep eol,
  wf_target target = true -> forallb wf_path paths = true ->
  md_deps (md_parse false (md_write_eol target paths sep eol)) = paths /\
  md_has_error (md_parse false (md_write_eol target paths sep eol)) = false.
Proof. exact md_roundtrip_eol. Qed.
Print Assumptions c11_roundtrip_line_ends.

(* interior and trailing colons (which compilers do not escape) are part of the recovered path *)
Theorem c11_colon_paths : forall target p q sep,
  wf_target target = true -> wf_path p = true -> forallb path_byte_ok q = true ->
  md_deps (md_parse false (md_write target [p ++ 58 :: q] sep)) = [p ++ 58 :: q].
Proof. exact md_colon_paths. Qed.
Print Assumptions c11_colon_paths.

(* several rules in one file: all rules' prerequisites in order; with ignoreSubsequentOutputs only the first
   rule's *)
Theorem c11_multi_rule : forall rules,
  forallb wf_rule rules = true ->
  md_deps (md_parse false (md_write_rules rules)) = flat_map rule_paths rules /\
  md_deps (md_parse true (md_write_rules rules)) = match rules with [] => [] | r :: _ => rule_paths r end.
Proof. exact md_multi_rule. Qed.
Print Assumptions c11_multi_rule.

(* several rules, each ended by LF or CRLF, and a last rule with any line end *)
Theorem c11_multi_rule_line_ends : forall rules target paths sep eol,
  forallb (fun r => wf_rule (fst r)) rules = true -> wf_target target = true -> forallb wf_path paths = true ->
  md_deps (md_parse false (md_write_rules_eol rules ++ md_write_eol target paths sep eol)) =
  flat_map (fun r => rule_paths (fst r)) rules ++ paths.
Proof. exact md_multi_rule_eol. Qed.
Print Assumptions c11_multi_rule_line_ends.

(* a malformed file is reported: a first word that is not followed by ':' gives error 2 where the colon was
   expected (for EVERY byte string of that shape) ... *)
Theorem c11_missing_colon_reported : forall ign data u c2,
  lex_word (skip_ws data) = (u, c2) ->
  progressed (skip_ws data) c2 = true ->
  head_is (skip_nnws c2) 58 = false ->
  In (Err 2 (pos_of (length data) (skip_nnws c2))) (md_parse ign data).
Proof. exact md_error_reported. Qed.
Print Assumptions c11_missing_colon_reported.

(* ... a prerequisite that starts with ':', NUL or a '$' that is not doubled gives error 3 at its offset ... *)
Theorem c11_bad_prerequisite_reported : forall ign t x rest,
  wf_target t = true -> bad_word_start x rest ->
  In (Err 3 (N.of_nat (length (md_escape t) + 2))) (md_parse ign (md_escape t ++ 58 :: 32 :: x :: rest)).
Proof. exact md_bad_prereq_reported. Qed.
Print Assumptions c11_bad_prerequisite_reported.

(* ... and ANY reported error (Makefile style or dependency-info), in any of the command's dependency files,
   fails the command; so does a dependency file that cannot be read.  The command succeeds exactly when every
   file was read and parsed without error. *)
Theorem c11_malformed_fails : forall style cwd wd files data,
  In (Some data) files -> file_has_error style data = true ->
  command_result style cwd wd files = CmdFailed.
Proof. exact glue_error_fails. Qed.
Print Assumptions c11_malformed_fails.

Theorem c11_result_exact : forall style cwd wd files,
  files <> [] ->
  (command_result style cwd wd files = CmdSucceeded <-> forallb (file_ok style) files = true).
Proof. exact glue_result_spec. Qed.
Print Assumptions c11_result_exact.

(* a command with SEVERAL dependency files: its result is the conjunction over all of them, its discovered set the
   union (in order) of what each names *)
Theorem c11_all_deps_files_count : forall style cwd wd files,
  style <> StyleUnused ->
  snd (process_discovered style cwd wd files) = forallb (file_ok style) files /\
  (forallb (file_ok style) files = true ->
   fst (process_discovered style cwd wd files) = flat_map (file_keys style cwd wd) files).
Proof. exact glue_all_files_count. Qed.
Print Assumptions c11_all_deps_files_count.

Theorem c11_no_colon_fails : forall ign cwd wd files data,
  In (Some data) files -> ~ In 58 data -> skip_ws data <> [] ->
  command_result (makefile_style ign) cwd wd files = CmdFailed.
Proof. exact glue_no_colon_fails. Qed.
Print Assumptions c11_no_colon_fails.

(* dependency-info: a written file is read back exactly, for all non-empty NUL-free operands *)
Theorem c11_depinfo_roundtrip : forall version recs,
  wf_operand version = true -> wf_recs recs = true ->
  di_parse (di_write version recs) = Version version :: map di_event_of recs.
Proof. exact di_roundtrip. Qed.
Print Assumptions c11_depinfo_roundtrip.

(* dependency-info: missing terminator and missing version record yield that error and nothing else; an empty
   operand yields the records before it, error 3, and nothing after it; an unknown opcode (or a second version
   record) yields error 5 (4) in place of the record *)
Theorem c11_depinfo_malformed :
  (forall data, ends_with_nul data = false -> di_parse data = [DErr 1 (N.of_nat (length data))]) /\
  (forall data, ends_with_nul data = true -> (hd 1 data =? 0) = false -> di_parse data = [DErr 2 0]) /\
  (forall v rr op rest,
     wf_operand v = true -> wf_raw rr = true -> nul_ended rest ->
     di_parse (raw_bytes ((0, v) :: rr) ++ op :: 0 :: rest) =
     raw_events 0 ((0, v) :: rr) ++ [DErr 3 (N.of_nat (length (raw_bytes ((0, v) :: rr))))]) /\
  (forall v recs op s recs2,
     wf_operand v = true -> wf_recs recs = true -> wf_operand s = true -> wf_recs recs2 = true ->
     (known_opcode op = false \/ op = 0) ->
     di_parse (di_write v recs ++ di_record op s ++ raw_bytes (map raw_of_rec recs2)) =
     Version v :: map di_event_of recs ++
     DErr (if op =? 0 then 4 else 5) (N.of_nat (length (di_write v recs))) :: map di_event_of recs2).
Proof. exact di_malformed. Qed.
Print Assumptions c11_depinfo_malformed.

Theorem c11_depinfo_error_fails : forall cwd wd files data c p,
  In (Some data) files -> In (DErr c p) (di_parse data) ->
  command_result StyleDependencyInfo cwd wd files = CmdFailed.
Proof. exact glue_di_error_fails. Qed.
Print Assumptions c11_depinfo_error_fails.

(* Makefile style: every written path becomes a key, the command succeeds, and the key is the path resolved
   against the command's working directory: an absolute word is kept, a relative word is appended to the working
   directory (to the current directory of llbuild when the command has none). *)
Theorem c11_relative_resolution : forall cwd wd target paths sep,
  wf_target target = true -> forallb wf_path paths = true ->
  process_discovered StyleMakefile cwd wd [Some (md_write target paths sep)] = (map (glue_path cwd wd) paths, true).
Proof. exact glue_written_file. Qed.
Print Assumptions c11_relative_resolution.

Theorem c11_relative_word : forall cwd wd word,
  simple_abs wd = true -> head_sep word = false -> glue_path cwd wd word = join_dir wd word.
Proof. exact glue_path_relative. Qed.
Print Assumptions c11_relative_word.

Theorem c11_relative_word_default_wd : forall cwd word,
  simple_abs cwd = true -> head_sep word = false -> glue_path cwd [] word = join_dir cwd word.
Proof. exact glue_path_relative_default. Qed.
Print Assumptions c11_relative_word_default_wd.

(* "." and ".." are left to the file system: no lexical folding (which is wrong across symbolic links) *)
Theorem c11_dot_components_kept : forall cwd wd rest,
  simple_abs wd = true -> last_is_sep wd = false ->
  glue_path cwd wd (46 :: 46 :: 47 :: rest) = wd ++ 47 :: 46 :: 46 :: 47 :: rest.
Proof. exact glue_path_keeps_dots. Qed.
Print Assumptions c11_dot_components_kept.

Theorem c11_absolute_word : forall cwd wd word, is_absolute word = true -> glue_path cwd wd word = word.
Proof. exact glue_path_absolute. Qed.
Print Assumptions c11_absolute_word.

(* dependency-info: the inputs of a written file become keys, resolved exactly like Makefile-style words
   (c11_relative_word, c11_relative_word_default_wd, c11_absolute_word apply to them), and the command succeeds *)
Theorem c11_depinfo_relative_resolution : forall cwd wd version recs,
  wf_operand version = true -> wf_recs recs = true ->
  process_discovered StyleDependencyInfo cwd wd [Some (di_write version recs)] =
  (map (glue_path cwd wd) (flat_map (fun r => match fst r with KInput => [snd r] | _ => [] end) recs), true).
Proof. exact glue_written_depinfo. Qed.
Print Assumptions c11_depinfo_relative_resolution.

(* The glue as it was before /repo commit ba34c0a (process_depinfo_v0: operands VERBATIM as keys) violated this
   clause; kept as documentation of what the fix changed.  The witness history is in the corpus of c11.py
   (dependency-info, relative path, working-directory): input [h] reported from [/w/sub] was keyed [h]. *)
Theorem c11_depinfo_v0_relative_resolution_refuted :
  exists cwd wd data p,
    simple_abs cwd = true /\ simple_abs wd = true /\ head_sep p = false /\
    di_parse data = [Version [118]; Input p] /\
    process_depinfo_v0 data = ([p], true) /\
    p <> glue_path cwd wd p /\
    process_discovered StyleDependencyInfo cwd wd [Some data] = ([[47; 119; 47; 115; 117; 98; 47; 104]], true).
Proof. exact depinfo_v0_relative_resolution_refuted. Qed.
Print Assumptions c11_depinfo_v0_relative_resolution_refuted.
