(* C19 - assembled by tools/assemble_props.py from Properties_C19bfile.v (build-description loader, dependency-file parsers) and the
   c19_* theorems of Properties_c17lex.v (Ninja lexer: termination, bounds, tiling, EndOfFile).  Statements only. *)
(* C19 - no input can crash, hang or over-read a parser.
   Only theorem statements; each is closed by [exact <lemma>] and followed by Print Assumptions.

   Part 1: the build-description loader (lib/BuildSystem/BuildFile.cpp) over the node tree llvm's YAML parser hands
           over (model Parse/BuildFileRoot.v; [load true ...] is the code as it is, after the repairs b1642a5 - empty
           top-level mapping - and c91b855 - null key / value nodes after a scanner error).  "Crash" is the explicit
           outcome of dereferencing the end iterator of a mapping or a null node pointer.  The delegate (client
           configuration, tool lookup, command creation, attribute acceptance, ownership analysis) is universally
           quantified.
   Part 2: re-exports of the theorems of the hand-written parsers (owned by the areas c11 / c17lex). *)
From LLB Require Import Base.Bytes Parse.BuildFileRoot Parse.BuildFileRootProofs.
From LLB Require Import Parse.MakeDeps Parse.MakeDepsProofs Parse.DepInfo Parse.DepInfoProofs.
Local Open Scope N_scope.

(* ---------------------------------------------------------------- Part 1: build descriptions *)

(* For EVERY stream of documents of EVERY shape - wrong node kinds anywhere, missing / duplicated / misordered
   sections, null keys, values and document roots (what a failed YAML scanner produces) - and every delegate, loading
   ends in a description or in a failure; no absent entry is dereferenced.  (Sequence elements are the one thing that
   cannot be null: the sequence iterator ends instead, see [tree_ok].) *)
Theorem c19_root_total : forall client_ok tool_known tool_creates attr_ok ownership_ok docs,
  Forall (tree_ok true) docs ->
  load true client_ok tool_known tool_creates attr_ok ownership_ok docs <> LoadCrash.
Proof. exact (load_no_crash true). Qed.
Print Assumptions c19_root_total.

(* the property as worded: every well-formed document (no null node anywhere) *)
Theorem c19_root_total_wellformed : forall client_ok tool_known tool_creates attr_ok ownership_ok docs,
  Forall wf_node docs ->
  load true client_ok tool_known tool_creates attr_ok ownership_ok docs <> LoadCrash.
Proof. exact (load_no_crash_wellformed true). Qed.
Print Assumptions c19_root_total_wellformed.

(* the code before c91b855 was safe on well-formed documents only ... *)
Theorem c19_root_total_unrepaired_wellformed : forall client_ok tool_known tool_creates attr_ok ownership_ok docs,
  Forall wf_node docs ->
  load false client_ok tool_known tool_creates attr_ok ownership_ok docs <> LoadCrash.
Proof. exact (load_no_crash_wellformed false). Qed.
Print Assumptions c19_root_total_unrepaired_wellformed.

(* ... and dereferenced the null value of `client: ?x` (a well-formed YAML text that llvm's scanner rejects); the
   repaired code reports it.  Kept as documentation; the text is in the check's corpus. *)
Theorem c19_root_unrepaired_refuted :
  load_parse_cmd false null_value_doc = LoadCrash
  /\ errors_of (load_parse_cmd true null_value_doc) = [E_malformed]
  /\ is_ok (load_parse_cmd true null_value_doc) = false.
Proof. exact load_unrepaired_refuted. Qed.
Print Assumptions c19_root_unrepaired_refuted.

(* root_requires_client + root_sections_order: a description is produced only from ONE document whose root mapping
   starts with 'client' bound to a mapping and continues with a subsequence of tools, targets, default, nodes,
   commands (each at most once, in this order, nothing else). *)
Theorem c19_root_requires_client_and_section_order :
  forall guarded client_ok tool_known tool_creates attr_ok ownership_ok docs s,
  load guarded client_ok tool_known tool_creates attr_ok ownership_ok docs = LoadOk s ->
  exists cl more, docs = [YMapping ((YScalar s_client, YMapping cl) :: more)]
                  /\ keys_subseq section_order (map fst more) = true.
Proof. exact load_ok_shape. Qed.
Print Assumptions c19_root_requires_client_and_section_order.

(* problems are reported through the error callback: a load that fails has called delegate.error at least once
   (a rejected attribute and an ownership conflict are reported by the party that rejects: excluded by hypothesis) *)
Theorem c19_root_failure_is_reported :
  forall guarded client_ok tool_known tool_creates attr_ok ownership_ok,
  (forall o a v, attr_ok o a v = true) -> (forall cs, ownership_ok cs = true) ->
  forall docs s,
  load guarded client_ok tool_known tool_creates attr_ok ownership_ok docs = LoadError s -> st_errs s <> [].
Proof. exact load_error_reported. Qed.
Print Assumptions c19_root_failure_is_reported.

(* non-vacuity: a complete valid description is well-formed and loads; its sections are in order *)
Example c19_root_instance :
  wf_node valid_doc
  /\ summary (load_parse_cmd true [valid_doc]) = Some ([], (2%nat, 2%nat, 3%nat, 2%nat), [116])
  /\ load true yes3 yes1 yes2 yes3 yes1 [valid_doc] <> LoadCrash.
Proof. exact root_instance. Qed.

(* ---------------------------------------------------------------- Part 2 *)
(* re-exports from Parse/MakeDepsProofs, Parse/DepInfoProofs, Parse/NinjaLexProofs *)

(* Makefile-style dependency files: for EVERY byte string both loops end within the fuel md_parse supplies
   (the cursor is the remaining suffix: a read outside the buffer cannot be expressed), ... *)
Theorem c19_makedeps_total : forall ignoreSubsequent data, ~ In OutOfFuel (md_parse ignoreSubsequent data).
Proof. exact md_parse_total. Qed.
Print Assumptions c19_makedeps_total.

(* ... and every reported error position is an offset into (or just past) the supplied buffer. *)
Theorem c19_makedeps_positions_in_bounds : forall ignoreSubsequent data code pos,
  In (Err code pos) (md_parse ignoreSubsequent data) -> pos <= N.of_nat (length data).
Proof. exact md_positions_in_bounds. Qed.
Print Assumptions c19_makedeps_positions_in_bounds.

(* dependency-info files: termination and no read past the end (the operand scan is the one loop of the C++ without
   a bounds test of its own: explicit event DOverRead), for EVERY byte string *)
Theorem c19_depinfo_total : forall data, ~ In DOutOfFuel (di_parse data) /\ ~ In DOverRead (di_parse data).
Proof. exact di_parse_total. Qed.
Print Assumptions c19_depinfo_total.

Theorem c19_depinfo_positions_in_bounds : forall data code pos,
  In (DErr code pos) (di_parse data) -> pos <= N.of_nat (length data).
Proof. exact di_positions_in_bounds. Qed.
Print Assumptions c19_depinfo_positions_in_bounds.

(* Ninja lexer (tokens tile the input, end-of-file only at the true end): stated and proved in
   Props/Properties_c17lex.v by the lexer area; re-export lines go here once Parse/NinjaLexProofs exports the C19
   theorems under stable names. *)
(* end of re-exports *)

(* ---------------------------------------------------------------- Ninja lexer part *)
Module Lex.
From LLB Require Import Base.Bytes Parse.NinjaLex Parse.NinjaLexProofs Path.ShellQuote Path.ShellQuoteProofs
  gen.Gen_NinjaKeywords gen.Gen_ShellWhitelist.
Local Open Scope N_scope.


(* ================================ C19: the lexer terminates, stays inside the buffer, tiles it ================ *)

(* no lex call runs out of fuel: from any state, in any mode *)
Theorem c19_lex_total : forall m s, exists t s', lex m s = Ok (t, s').
Proof. exact lex_total. Qed.
Print Assumptions c19_lex_total.

(* lex_progress: EndOfFile with the cursor at the very end, or a non-empty token and a strictly larger position *)
Theorem c19_lex_progress : forall data m s t s', at_data data s -> lex m s = Ok (t, s') ->
  (tk_kind t = TkEndOfFile /\ tk_len t = 0%nat /\ tk_start t = length data /\ l_pos s' = length data /\ l_rest s' = []) \/
  (tk_kind t <> TkEndOfFile /\ (0 < tk_len t)%nat /\ (l_pos s < l_pos s')%nat /\ (l_pos s' <= length data)%nat).
Proof. exact lex_progress. Qed.
Print Assumptions c19_lex_progress.

Theorem c19_lex_call_facts : forall data m s t s', at_data data s -> lex m s = Ok (t, s') ->
  at_data data s' /\ (l_pos s <= tk_start t)%nat /\ l_pos s' = (tk_start t + tk_len t)%nat /\
  (l_pos s' <= length data)%nat /\
  gap_units (slice data (l_pos s) (tk_start t)) /\ token_facts data m t.
Proof. exact lex_call_facts. Qed.
Print Assumptions c19_lex_call_facts.

(* end-of-file is reported only at the true end of the buffer, and always there *)
Theorem c19_lex_eof_iff_at_end : forall data m s t s', at_data data s -> lex m s = Ok (t, s') ->
  (tk_kind t = TkEndOfFile <-> tk_start t = length data).
Proof. exact lex_eof_iff_at_end. Qed.
Print Assumptions c19_lex_eof_iff_at_end.

(* lex_all_total: ~ OutOfFuel for ALL byte strings and all modes *)
Theorem c19_lex_all_total : forall m data, exists toks, lex_all m data = Ok toks.
Proof. exact lex_all_total. Qed.
Print Assumptions c19_lex_all_total.

Theorem c19_lex_stream_total : forall modes data, exists toks, lex_stream modes data = Ok toks.
Proof. exact lex_stream_total. Qed.
Print Assumptions c19_lex_stream_total.

Theorem c19_lex_stream_length : forall modes data toks, lex_stream modes data = Ok toks -> length toks = length modes.
Proof. exact lex_stream_length. Qed.
Print Assumptions c19_lex_stream_length.

(* lex_all is a lex_stream with a constant mode sequence (every lex_stream theorem applies) that ends at the first
   EndOfFile *)
Theorem c19_lex_all_stream : forall m data toks, lex_all m data = Ok toks ->
  lex_stream (repeat m (length toks)) data = Ok toks /\ eof_last toks.
Proof. exact lex_all_stream. Qed.
Print Assumptions c19_lex_all_stream.

(* in bounds + ordered + gaps blank, for an adversarial mode sequence *)
Theorem c19_lex_stream_chain : forall modes data toks, lex_stream modes data = Ok toks -> tok_chain data 0 toks.
Proof. exact lex_stream_chain. Qed.
Print Assumptions c19_lex_stream_chain.

Theorem c19_lex_in_bounds : forall modes data toks t, lex_stream modes data = Ok toks -> In t toks ->
  (tk_start t + tk_len t <= length data)%nat.
Proof. exact lex_in_bounds. Qed.
Print Assumptions c19_lex_in_bounds.

(* lex_tokens_ordered + lex_gaps_blank *)
Theorem c19_lex_tokens_ordered : forall modes data l1 t1 t2 l2, lex_stream modes data = Ok (l1 ++ t1 :: t2 :: l2) ->
  (tk_start t1 + tk_len t1 <= tk_start t2)%nat /\ gap_units (slice data (tk_start t1 + tk_len t1) (tk_start t2)).
Proof. exact lex_tokens_ordered. Qed.
Print Assumptions c19_lex_tokens_ordered.

Theorem c19_lex_gaps_blank : forall modes data l1 t1 t2 l2, lex_stream modes data = Ok (l1 ++ t1 :: t2 :: l2) ->
  gap_units (slice data (tk_start t1 + tk_len t1) (tk_start t2)).
Proof. exact lex_gaps_blank. Qed.
Print Assumptions c19_lex_gaps_blank.

Theorem c19_lex_first_gap : forall modes data t ts, lex_stream modes data = Ok (t :: ts) -> gap_units (slice data 0 (tk_start t)).
Proof. exact lex_first_gap. Qed.
Print Assumptions c19_lex_first_gap.

(* the exact set of byte sequences a gap is made of *)
Theorem c19_gap_units_inv : forall c, gap_units c ->
  c = [] \/ (exists b r, c = b :: r /\ is_nn_space b = true /\ gap_units r) \/
  (exists r, c = 36 :: 10 :: r /\ gap_units r) \/ (exists r, c = 36 :: 10 :: 13 :: r /\ gap_units r) \/
  (exists r, c = 36 :: 13 :: 10 :: r /\ gap_units r).
Proof. exact gap_units_inv. Qed.
Print Assumptions c19_gap_units_inv.

(* no byte is lost or duplicated: gaps and token bodies in order are exactly the bytes the calls went over *)
Theorem c19_lex_stream_tiles : forall modes data toks, lex_stream modes data = Ok toks ->
  data = rebuild data 0 toks ++ skipn (toks_end 0 toks) data /\ toks_end 0 toks = length (rebuild data 0 toks).
Proof. exact lex_stream_tiles. Qed.
Print Assumptions c19_lex_stream_tiles.

(* the tokens of lex_all tile the whole input and the last one (EndOfFile) ends at length data *)
Theorem c19_lex_all_tiles : forall m data toks, lex_all m data = Ok toks ->
  rebuild data 0 toks = data /\ toks_end 0 toks = length data /\ tok_chain data 0 toks.
Proof. exact lex_all_tiles. Qed.
Print Assumptions c19_lex_all_tiles.

(* lex_eof_only_at_end, and every other token is non-empty *)
Theorem c19_lex_eof_only_at_end : forall modes data toks t, lex_stream modes data = Ok toks -> In t toks ->
  (tk_kind t = TkEndOfFile -> tk_start t = length data /\ tk_len t = 0%nat) /\
  (tk_kind t <> TkEndOfFile -> (0 < tk_len t)%nat).
Proof. exact lex_eof_only_at_end. Qed.
Print Assumptions c19_lex_eof_only_at_end.

(* the full lexical description of every token of a stream *)
Theorem c19_lex_stream_token_facts : forall modes data toks, lex_stream modes data = Ok toks ->
  Forall2 (token_facts data) modes toks.
Proof. exact lex_stream_token_facts. Qed.
Print Assumptions c19_lex_stream_token_facts.

End Lex.

(* ---------------------------------------------------------------- Ninja parser part: termination, bounds, no silent drop, whole-manifest loading *)
Module Parse.
From LLB Require Import Base.Bytes Parse.NinjaLex Parse.NinjaLexProofs Parse.NinjaEval Parse.NinjaEvalProofs
  Parse.NinjaParse Parse.NinjaParseProofs Parse.NinjaParseProofsEx.
Local Open Scope N_scope.


(* getNextNonCommentToken never runs out of fuel, from any parser state *)
Theorem ninjaparse_next_total : forall p, exists p', next p = Ok p'.
Proof. exact next_total. Qed.
Print Assumptions ninjaparse_next_total.

(* parse_total: for EVERY byte string the parser model terminates within its fuel ([parse_fuel data] =
   S (S (length data)) rounds of the loop of Parser::parse; S (S (unread bytes)) rounds of every inner loop):
   OutOfFuel is unreachable *)
Theorem ninjaparse_parse_tokens_total : forall data, exists ds, parse_tokens data = Ok ds.
Proof. exact parse_tokens_total. Qed.
Print Assumptions ninjaparse_parse_tokens_total.

Theorem ninjaparse_parse_total : forall data, exists ds, parse data = Ok ds.
Proof. exact parse_total. Qed.
Print Assumptions ninjaparse_parse_total.

Theorem ninjaparse_skip_past_eol_total : forall p, exists p', skip_past_eol p = Ok p'.
Proof. exact skip_past_eol_total. Qed.
Print Assumptions ninjaparse_skip_past_eol_total.

(* one parseDecl call: total, consumes input (strictly unless it stops at EndOfFile), and re-establishes the lexing
   mode None that `assert(lexer.getMode() == Lexer::LexingMode::None)` demands at the head of the loop *)
Theorem ninjaparse_parse_decl_total : forall p, p_mode p = MNone ->
  exists ds p', parse_decl p = Ok (ds, p') /\ p_mode p' = MNone /\
    (unread (p_lex p') <= unread (p_lex p))%nat /\
    (cur_kind p' <> TkEndOfFile -> (unread (p_lex p') < unread (p_lex p))%nat).
Proof. exact parse_decl_total. Qed.
Print Assumptions ninjaparse_parse_decl_total.

(* ================================ token bounds ================================ *)

(* every Token handed to an action, and the `at` token of every error call, lies inside the buffer
   ([in_buf data t] : tk_start t + tk_len t <= length data; [tdecl_P Q d] : every token of d satisfies Q) *)
Theorem ninjaparse_parse_tokens_in_buffer : forall data ds,
  parse_tokens data = Ok ds -> Forall (tdecl_P (in_buf data)) ds.
Proof. exact parse_tokens_in_buffer. Qed.
Print Assumptions ninjaparse_parse_tokens_in_buffer.

(* parse_tokens_in_bounds: every token text handed to the actions is a slice of the input
   ([is_slice data x] : exists a b, a <= b <= length data /\ x = slice data a b /\ length x = b - a) *)
Theorem ninjaparse_parse_tokens_in_bounds : forall data ds d x,
  parse data = Ok ds -> In d ds -> In x (decl_texts d) -> is_slice data x.
Proof. exact parse_tokens_in_bounds. Qed.
Print Assumptions ninjaparse_parse_tokens_in_bounds.

(* ================================ no silent drop, recovery ================================ *)

(* the recovery rule: skipPastEOL drops tokens (lexed in the current mode, comments included) up to the next Newline
   or EndOfFile token, consumes that, and stops at the first token behind it that is not a comment *)
Theorem ninjaparse_skip_past_eol_rule : forall p p', skip_past_eol p = Ok p' ->
  exists t s, lex_to_eol (p_mode p) (p_tok p) (p_lex p) t s /\
              lex_past_comments (p_mode p) s (p_tok p') (p_lex p') /\ p_mode p' = p_mode p.
Proof. exact skip_past_eol_rule. Qed.
Print Assumptions ninjaparse_skip_past_eol_rule.

(* ... and the rule determines the state after recovery *)
Theorem ninjaparse_skip_past_eol_exact : forall p t s t' s',
  lex_to_eol (p_mode p) (p_tok p) (p_lex p) t s -> lex_past_comments (p_mode p) s t' s' ->
  skip_past_eol p = Ok (mkP t' s' (p_mode p)).
Proof. exact skip_past_eol_exact. Qed.
Print Assumptions ninjaparse_skip_past_eol_exact.

(* parse_error_or_decl: a parseDecl call on a blank line only consumes the Newline; on any other token it makes
   exactly one top-level call, a declaration or an error; after an error it has recovered from the state at which the
   error was raised (current token = the error's token, mode None) by skipPastEOL - repeated while the next line is
   indented when a build / pool / rule specifier failed *)
Theorem ninjaparse_parse_error_or_decl : forall p ds p', p_mode p = MNone -> parse_decl p = Ok (ds, p') ->
  (cur_kind p = TkNewline /\ ds = [] /\ next p = Ok p') \/
  (cur_kind p <> TkNewline /\ exists d, ds = [d] /\
     forall c a, d = TDPErr c a ->
       exists pe, raised_at pe a /\
         if is_block_kw (cur_kind p) then skip_lines pe p' else skip_past_eol pe = Ok p').
Proof. exact parse_error_or_decl. Qed.
Print Assumptions ninjaparse_parse_error_or_decl.

(* a failing binding (top-level or indented) reports one error and recovers by skipPastEOL from the offending token *)
Theorem ninjaparse_binding_error_recovery : forall p c a p', parse_binding_internal p = Ok (BRErr c a, p') ->
  exists pe, raised_at pe a /\ skip_past_eol pe = Ok p'.
Proof. exact binding_error_recovery. Qed.
Print Assumptions ninjaparse_binding_error_recovery.

(* every indented line of a block: blank -> skipped; anything else -> exactly one item (binding or error) *)
Theorem ninjaparse_block_line_item : forall f p l p', block_loop (S f) p = Ok (l, p') -> cur_kind p = TkIndentation ->
  exists p1, next (set_mode MIdentifierSpecific p) = Ok p1 /\
    ((cur_kind p1 = TkNewline /\ exists p2, next (set_mode MNone p1) = Ok p2 /\ block_loop f p2 = Ok (l, p')) \/
     (cur_kind p1 <> TkNewline /\ exists r p2 l', parse_binding_internal p1 = Ok (r, p2) /\
        l = tbitem_of_bres r :: l' /\ block_loop f p2 = Ok (l', p'))).
Proof. exact block_line_item. Qed.
Print Assumptions ninjaparse_block_line_item.

(* ================================ parser + loader ================================ *)

(* parse_load_total: bytes -> parser model -> loader model (NinjaEval.load) never runs out of fuel, for any byte
   strings as files, with the loader's include depth (64) and recursive-include guards *)
Theorem ninjaparse_parse_load_total : forall fuel wd raw main, (max_include_depth <= fuel)%nat ->
  exists m, parse_load fuel wd raw main = Ok m /\ has_out_of_fuel (mf_errors m) = false.
Proof. exact parse_load_total. Qed.
Print Assumptions ninjaparse_parse_load_total.

(* ================================ the model on the repository's parser tests ================================ *)

(* the five manifests of /repo/tests/Ninja/Parser (bytes and expected action lists in Parse/NinjaParseProofsEx.v) parse,
   by computation of the lexer + parser models, to the action lists the real parser makes on them *)
Theorem ninjaparse_repo_tests_parse :
  parse basic_bytes = Ok basic_ast /\
  parse identifier_names_bytes = Ok identifier_names_ast /\
  parse identifier_specific_parsing_bytes = Ok identifier_specific_parsing_ast /\
  parse path_string_parsing_bytes = Ok path_string_parsing_ast /\
  parse variable_string_parsing_bytes = Ok variable_string_parsing_ast.
Proof.
  exact (conj basic_parses (conj identifier_names_parses (conj identifier_specific_parsing_parses
        (conj path_string_parsing_parses variable_string_parsing_parses)))).
Qed.
Print Assumptions ninjaparse_repo_tests_parse.

End Parse.
