(* C09 - null builds run nothing; a command re-runs exactly when its definition changed.
   Only theorem statements; each is closed by [exact <lemma>] and followed by Print Assumptions.
   The hash (llvm::hash_value / llvm::hash_combine) is a pair of functions H0, HC quantified in every statement;
   its collision-freedom appears as an explicit premise (ideal_hash / ideal_chain / ideal_fold0, or - weakest -
   "no collision on the two token sequences compared"). *)
From LLB Require Import Base.Bytes Codec.Codec Codec.FileObs BSys.Sig BSys.SigProofs.
Local Open Scope N_scope.

(* ---- unique decoding: the token sequence fed to the hash determines every signature-relevant part,
        for ALL definitions (unbounded lists, arbitrary bytes) ---- *)
Theorem c09_sig_tokens_injective : forall d1 d2, sig_tokens d1 = sig_tokens d2 -> relevant d1 = relevant d2.
Proof. exact sig_tokens_injective. Qed.
Print Assumptions c09_sig_tokens_injective.

(* ... and nothing else: definitions with the same relevant part feed the same tokens *)
Theorem c09_sig_tokens_of_relevant : forall d1 d2, relevant d1 = relevant d2 -> sig_tokens d1 = sig_tokens d2.
Proof. exact sig_tokens_of_relevant. Qed.
Print Assumptions c09_sig_tokens_of_relevant.

(* phony / mkdir commands (ExternalCommand::getSignature alone) *)
Theorem c09_ext_sig_tokens_injective : forall d1 d2,
  ext_sig_tokens d1 = ext_sig_tokens d2 -> ext_relevant d1 = ext_relevant d2.
Proof. exact ext_sig_tokens_injective. Qed.
Print Assumptions c09_ext_sig_tokens_injective.

(* ---- signatures ---- *)

(* weakest premise: the hash does not collide on the two token sequences that are compared *)
Theorem c09_sig_injective_pair : forall H0 HC d1 d2,
  (shell_sig H0 HC d1 = shell_sig H0 HC d2 -> sig_tokens d1 = sig_tokens d2) ->
  shell_sig H0 HC d1 = shell_sig H0 HC d2 -> relevant d1 = relevant d2.
Proof. exact sig_injective_pair. Qed.
Print Assumptions c09_sig_injective_pair.

Theorem c09_sig_injective : forall H0 HC, ideal_hash H0 HC ->
  forall d1 d2, shell_sig H0 HC d1 = shell_sig H0 HC d2 -> relevant d1 = relevant d2.
Proof. exact sig_injective. Qed.
Print Assumptions c09_sig_injective.

(* the signature is a function of the relevant part of the definition and of nothing else
   (no address, no per-process seed): same value in every process *)
Theorem c09_sig_deterministic : forall H0 HC d1 d2,
  relevant d1 = relevant d2 -> shell_sig H0 HC d1 = shell_sig H0 HC d2.
Proof. exact sig_deterministic. Qed.
Print Assumptions c09_sig_deterministic.

Theorem c09_sig_changes_iff : forall H0 HC, ideal_hash H0 HC ->
  forall d1 d2, shell_sig H0 HC d1 <> shell_sig H0 HC d2 <-> relevant d1 <> relevant d2.
Proof. exact sig_changes_iff. Qed.
Print Assumptions c09_sig_changes_iff.

Theorem c09_ext_sig_injective : forall H0 HC, ideal_chain H0 HC ->
  forall d1 d2, ext_sig H0 HC d1 = ext_sig H0 HC d2 -> ext_relevant d1 = ext_relevant d2.
Proof. exact ext_sig_injective. Qed.
Print Assumptions c09_ext_sig_injective.

Theorem c09_symlink_sig_injective : forall H0 HC, ideal_chain H0 HC ->
  forall o1 c1 i1 o2 c2 i2, symlink_sig H0 HC o1 c1 i1 = symlink_sig H0 HC o2 c2 i2 -> o1 = o2 /\ c1 = c2 /\ i1 = i2.
Proof. exact symlink_sig_injective. Qed.
Print Assumptions c09_symlink_sig_injective.

(* the premises are satisfiable: a (slow, unbounded) hash that meets all three *)
Theorem c09_ideal_hash_satisfiable : ideal_hash toy_H0 toy_HC /\ ideal_chain toy_H0 toy_HC /\ ideal_fold0 toy_HC.
Proof. exact (conj toy_ideal_hash (conj toy_ideal_chain toy_ideal_fold0)). Qed.
Print Assumptions c09_ideal_hash_satisfiable.

(* ---- boundary moves and single-attribute edits change the token sequence ---- *)

Theorem c09_move_input_to_output : forall d ins x outs,
  sig_tokens (set_outputs (set_inputs d (ins ++ [x])) outs) <> sig_tokens (set_outputs (set_inputs d ins) (x :: outs)).
Proof. exact move_input_to_output. Qed.
Print Assumptions c09_move_input_to_output.

Theorem c09_move_args_to_env : forall d a k v e, c_sigdata d = [] ->
  sig_tokens (set_env (set_args d (a ++ [k; v])) e) <> sig_tokens (set_env (set_args d a) (e ++ [(k, v)])).
Proof. exact move_args_to_env. Qed.
Print Assumptions c09_move_args_to_env.

Theorem c09_merge_adjacent_args : forall d a x y b, c_sigdata d = [] ->
  sig_tokens (set_args d (a ++ [x; y] ++ b)) <> sig_tokens (set_args d (a ++ [x ++ y] ++ b)).
Proof. exact merge_adjacent_args. Qed.
Print Assumptions c09_merge_adjacent_args.

Theorem c09_shift_arg_boundary : forall d a x c y b, c_sigdata d = [] -> c <> [] ->
  sig_tokens (set_args d (a ++ [x ++ c; y] ++ b)) <> sig_tokens (set_args d (a ++ [x; c ++ y] ++ b)).
Proof. exact shift_arg_boundary. Qed.
Print Assumptions c09_shift_arg_boundary.

Theorem c09_change_deps_style : forall d s1 s2, c_sigdata d = [] -> s1 <> s2 ->
  sig_tokens (set_deps_style d s1) <> sig_tokens (set_deps_style d s2).
Proof. exact change_deps_style. Qed.
Print Assumptions c09_change_deps_style.

Theorem c09_flip_one_flag : forall d i, (i < 3)%nat \/ ((i < 5)%nat /\ c_sigdata d = []) ->
  sig_tokens (flip_flag d i) <> sig_tokens d.
Proof. exact flip_one_flag. Qed.
Print Assumptions c09_flip_one_flag.

Theorem c09_change_name : forall d n1 n2, n1 <> n2 -> sig_tokens (set_name d n1) <> sig_tokens (set_name d n2).
Proof. exact change_name. Qed.
Print Assumptions c09_change_name.

Theorem c09_change_sigdata : forall d s1 s2, s1 <> s2 -> sig_tokens (set_sigdata d s1) <> sig_tokens (set_sigdata d s2).
Proof. exact change_sigdata. Qed.
Print Assumptions c09_change_sigdata.

(* the documented exception: with explicit signature data, args / env / deps / deps-style / inherit-env /
   can-safely-interrupt do not take part *)
Theorem c09_explicit_signature_hides : forall d a e p s ie csi, c_sigdata d <> [] ->
  sig_tokens (mkCdef (c_name d) (c_inputs d) (c_outputs d) (c_allow_missing_inputs d) (c_allow_modified_outputs d)
                     (c_always_out_of_date d) (c_sigdata d) a e p s ie csi) = sig_tokens d.
Proof. exact explicit_signature_hides. Qed.
Print Assumptions c09_explicit_signature_hides.

(* ---- the chain as it was before the repairs (no list lengths; integers collapsed to bool) ---- *)

Theorem c09_sig_tokens_v0_not_injective :
  exists d1 d2, relevant d1 <> relevant d2 /\ sig_tokens_v0 d1 = sig_tokens_v0 d2.
Proof. exact sig_tokens_v0_not_injective. Qed.
Print Assumptions c09_sig_tokens_v0_not_injective.

Theorem c09_v0_collides_inputs_outputs :
  relevant v0_w1a <> relevant v0_w1b /\ sig_tokens_v0 v0_w1a = sig_tokens_v0 v0_w1b.
Proof. exact sig_tokens_v0_collides_io. Qed.
Print Assumptions c09_v0_collides_inputs_outputs.

Theorem c09_v0_collides_args_env :
  relevant v0_w2a <> relevant v0_w2b /\ sig_tokens_v0 v0_w2a = sig_tokens_v0 v0_w2b.
Proof. exact sig_tokens_v0_collides_args_env. Qed.
Print Assumptions c09_v0_collides_args_env.

Theorem c09_v0_collides_deps_style :
  relevant v0_w3a <> relevant v0_w3b /\ sig_tokens_v0 v0_w3a = sig_tokens_v0 v0_w3b.
Proof. exact sig_tokens_v0_collides_deps_style. Qed.
Print Assumptions c09_v0_collides_deps_style.

Theorem c09_v0_witnesses_now_differ :
  sig_tokens v0_w1a <> sig_tokens v0_w1b /\ sig_tokens v0_w2a <> sig_tokens v0_w2b /\ sig_tokens v0_w3a <> sig_tokens v0_w3b.
Proof. exact v0_witnesses_now_differ. Qed.
Print Assumptions c09_v0_witnesses_now_differ.

(* ---- nodes ---- *)

Theorem c09_node_sig_tokens_injective : forall n1 n2, node_sig_tokens n1 = node_sig_tokens n2 -> n1 = n2.
Proof. exact node_sig_tokens_injective. Qed.
Print Assumptions c09_node_sig_tokens_injective.

Theorem c09_node_sig_injective : forall HC, ideal_fold0 HC ->
  forall n1 n2, node_sig HC n1 = node_sig HC n2 -> n1 = n2.
Proof. exact node_sig_injective. Qed.
Print Assumptions c09_node_sig_injective.

Theorem c09_node_sig_tokens_v0_not_injective :
  exists n1 n2, n1 <> n2 /\ node_sig_tokens_v0 n1 = node_sig_tokens_v0 n2.
Proof. exact node_sig_tokens_v0_not_injective. Qed.
Print Assumptions c09_node_sig_tokens_v0_not_injective.

(* ---- symlink commands as definitions: what the signature must cover ---- *)

(* a loadable symlink command (exactly one declared output) has a signature: outputs[0] is not read past the vector *)
Theorem c09_symlink_tokens_defined : forall s, symlink_wf s -> exists p, sdef_sig_tokens s = Some p.
Proof. exact sdef_sig_tokens_defined. Qed.
Print Assumptions c09_symlink_tokens_defined.

(* every signature-relevant part of a symlink command - declared output, contents, declared inputs - is determined
   by the tokens, whatever link-output-path / repair-via-ownership-analysis / the name are *)
Theorem c09_symlink_tokens_injective : forall s1 s2, symlink_wf s1 -> symlink_wf s2 ->
  sdef_sig_tokens s1 = sdef_sig_tokens s2 -> symlink_relevant s1 = symlink_relevant s2.
Proof. exact sdef_sig_tokens_injective. Qed.
Print Assumptions c09_symlink_tokens_injective.

Theorem c09_symlink_tokens_of_relevant : forall s1 s2,
  symlink_relevant s1 = symlink_relevant s2 -> sdef_sig_tokens s1 = sdef_sig_tokens s2.
Proof. exact sdef_sig_tokens_of_relevant. Qed.
Print Assumptions c09_symlink_tokens_of_relevant.

Theorem c09_symlink_def_sig_injective : forall H0 HC, ideal_chain H0 HC ->
  forall s1 s2, symlink_wf s1 -> symlink_wf s2 ->
  sdef_sig H0 HC s1 = sdef_sig H0 HC s2 -> symlink_relevant s1 = symlink_relevant s2.
Proof. exact sdef_sig_injective. Qed.
Print Assumptions c09_symlink_def_sig_injective.

(* single-attribute edits; the first one also when link-output-path is set (virtual declared output pattern) *)
Theorem c09_symlink_change_output : forall n i o1 o2 c l r, o1 <> o2 ->
  sdef_sig_tokens (mkSdef n i [o1] c l r) <> sdef_sig_tokens (mkSdef n i [o2] c l r).
Proof. exact sdef_change_output. Qed.
Print Assumptions c09_symlink_change_output.

Theorem c09_symlink_change_contents : forall n i o c1 c2 l r, c1 <> c2 ->
  sdef_sig_tokens (mkSdef n i [o] c1 l r) <> sdef_sig_tokens (mkSdef n i [o] c2 l r).
Proof. exact sdef_change_contents. Qed.
Print Assumptions c09_symlink_change_contents.

Theorem c09_symlink_change_inputs : forall n i1 i2 o c l r, i1 <> i2 ->
  sdef_sig_tokens (mkSdef n i1 [o] c l r) <> sdef_sig_tokens (mkSdef n i2 [o] c l r).
Proof. exact sdef_change_inputs. Qed.
Print Assumptions c09_symlink_change_inputs.

(* the current code does not hash the name, link-output-path and the repair flag (a moved link is re-created because
   the stored link info no longer matches, not because of the signature) *)
Theorem c09_symlink_unhashed_parts : forall n1 n2 i o c l1 l2 r1 r2,
  sdef_sig_tokens (mkSdef n1 i o c l1 r1) = sdef_sig_tokens (mkSdef n2 i o c l2 r2).
Proof. exact sdef_unhashed_parts. Qed.
Print Assumptions c09_symlink_unhashed_parts.

(* ---- the re-run decision (BuildEngine scanRule + ExternalCommand::isResultValid) ---- *)

(* index alignment of ExternalCommand::isResultValid: with one stored info per declared output, the outputs are valid
   iff every NON-VIRTUAL output i matches stored info i (same index, also after virtual outputs) *)
Theorem c09_outputs_valid_aligned : forall outs infos, length infos = length outs ->
  (outputs_valid outs infos = Valid <->
   forall i o s, nth_error outs i = Some o -> nth_error infos i = Some s -> on_virtual o = false -> output_matches o s = true).
Proof. exact outputs_valid_aligned. Qed.
Print Assumptions c09_outputs_valid_aligned.

Theorem c09_outputs_invalid_aligned : forall outs infos, length infos = length outs ->
  (outputs_valid outs infos = Invalid <-> output_differs outs infos).
Proof. exact outputs_valid_invalid_aligned. Qed.
Print Assumptions c09_outputs_invalid_aligned.

(* whatever is stored at a virtual position, at any place of the list, is ignored *)
Theorem c09_outputs_valid_virtual_ignored : forall o1 s1 v o2 x y s2,
  length s1 = length o1 -> on_virtual v = true ->
  outputs_valid (o1 ++ v :: o2) (s1 ++ x :: s2) = outputs_valid (o1 ++ v :: o2) (s1 ++ y :: s2).
Proof. exact outputs_valid_virtual_ignored. Qed.
Print Assumptions c09_outputs_valid_virtual_ignored.

(* output infos are compared in full for every non-virtual, non-mutated output, whatever its type: a match forces
   device, inode, size, both time stamp fields and the checksum to be equal; and the verdict does not depend on the
   mode (which carries the file type) of either info: there is no special case for directories *)
Theorem c09_output_matches_full : forall o s, on_mutated o = false -> output_matches o s = true ->
  fi_device s = fi_device (on_current o) /\ fi_inode s = fi_inode (on_current o) /\ fi_size s = fi_size (on_current o) /\
  fi_sec s = fi_sec (on_current o) /\ fi_nsec s = fi_nsec (on_current o) /\ fi_checksum s = fi_checksum (on_current o) /\
  is_missing s = is_missing (on_current o).
Proof. exact output_matches_full. Qed.
Print Assumptions c09_output_matches_full.

Theorem c09_output_matches_type_agnostic : forall v mu c s m1 m2,
  m1 <> 0 -> m2 <> 0 -> fi_mode c <> 0 -> fi_mode s <> 0 ->
  output_matches (mkOnode v mu (mkFI (fi_device c) (fi_inode c) m1 (fi_size c) (fi_sec c) (fi_nsec c) (fi_checksum c)))
                 (mkFI (fi_device s) (fi_inode s) m2 (fi_size s) (fi_sec s) (fi_nsec s) (fi_checksum s)) =
  output_matches (mkOnode v mu (mkFI (fi_device c) (fi_inode c) (fi_mode c) (fi_size c) (fi_sec c) (fi_nsec c) (fi_checksum c)))
                 (mkFI (fi_device s) (fi_inode s) (fi_mode s) (fi_size s) (fi_sec s) (fi_nsec s) (fi_checksum s)).
Proof. exact output_matches_type_agnostic. Qed.
Print Assumptions c09_output_matches_type_agnostic.

(* a rule built before by a task that was not cancelled, whose recorded dependencies report no change: the command
   executes iff the signature changed, or it is always-out-of-date, or the stored value is not a successful command
   result, or some non-virtual output no longer matches its stored info; and the check never reads past the stored
   infos (the answer exists) *)
Theorem c09_rerun_iff : forall st cur_sig aood outs,
  st_built_at st <> 0 -> st_cancelled st = false ->
  (cur_sig = st_sig st -> is_successful (bv_kind (st_value st)) = true ->
   length (bv_infos (st_value st)) = length outs) ->
  exists b, reexecutes false (rerun_decision st cur_sig aood outs) = Some b /\
            (b = true <-> cur_sig <> st_sig st \/ aood = true \/ is_successful (bv_kind (st_value st)) = false \/
                          output_differs outs (bv_infos (st_value st))).
Proof. exact rerun_iff. Qed.
Print Assumptions c09_rerun_iff.

Theorem c09_rerun_first_time : forall st cur_sig aood outs ic, st_built_at st = 0 \/ st_cancelled st = true ->
  reexecutes ic (rerun_decision st cur_sig aood outs) = Some true.
Proof. exact rerun_first_time. Qed.
Print Assumptions c09_rerun_first_time.

(* null build *)
Theorem c09_null_build_skips : forall st cur_sig outs,
  st_built_at st <> 0 -> st_cancelled st = false -> cur_sig = st_sig st ->
  is_successful (bv_kind (st_value st)) = true ->
  Forall2 (fun o s => on_virtual o = true \/ s = on_current o) outs (bv_infos (st_value st)) ->
  reexecutes false (rerun_decision st cur_sig false outs) = Some false.
Proof. exact null_build_skips. Qed.
Print Assumptions c09_null_build_skips.

(* both layers: with an ideal hash, "signature changed" is "the relevant part of the definition changed" *)
Theorem c09_rerun_iff_definition : forall H0 HC, ideal_hash H0 HC ->
  forall st d_then d_now outs,
  st_built_at st <> 0 -> st_cancelled st = false -> st_sig st = shell_sig H0 HC d_then ->
  (relevant d_now = relevant d_then -> is_successful (bv_kind (st_value st)) = true ->
   length (bv_infos (st_value st)) = length outs) ->
  exists b, reexecutes false (rerun_decision st (shell_sig H0 HC d_now) (c_always_out_of_date d_now) outs) = Some b /\
            (b = true <-> relevant d_now <> relevant d_then \/ c_always_out_of_date d_now = true \/
                          is_successful (bv_kind (st_value st)) = false \/ output_differs outs (bv_infos (st_value st))).
Proof. exact rerun_iff_definition. Qed.
Print Assumptions c09_rerun_iff_definition.

(* ---- non-vacuity: concrete instances meeting the hypotheses ---- *)

(* the exact token order of the current code *)
Example c09_tokens_instance :
  sig_tokens ex_def =
  ([67;49], [TU64 2; TStr [97;46;99]; TStr [104]; TU64 1; TStr [97;46;111]; TBool false; TBool true; TBool false;
             TU64 3; TStr [99;99]; TStr [45;99]; TStr [97;46;99]; TU64 1; TStr [75]; TStr [86];
             TU64 1; TStr [97;46;100]; TU64 1; TBool true; TBool false]).
Proof. vm_compute. reflexivity. Qed.

Example c09_explicit_tokens_instance :
  sig_tokens (set_sigdata ex_def [120]) =
  ([67;49], [TU64 2; TStr [97;46;99]; TStr [104]; TU64 1; TStr [97;46;111]; TBool false; TBool true; TBool false; TStr [120]]).
Proof. vm_compute. reflexivity. Qed.

(* the injectivity theorems instantiated at the toy hash: no premise is left *)
Example c09_sig_injective_instance :
  forall d1 d2, shell_sig toy_H0 toy_HC d1 = shell_sig toy_H0 toy_HC d2 -> relevant d1 = relevant d2.
Proof. exact (sig_injective toy_H0 toy_HC toy_ideal_hash). Qed.

Example c09_boundary_instances :
  sig_tokens (set_outputs (set_inputs ex_def ([[97;46;99]] ++ [[104]])) []) <> sig_tokens (set_outputs (set_inputs ex_def [[97;46;99]]) [[104]]) /\
  sig_tokens (set_deps_style ex_def 1) <> sig_tokens (set_deps_style ex_def 2) /\
  sig_tokens (flip_flag ex_def 4) <> sig_tokens ex_def.
Proof. exact boundary_instances. Qed.

(* a stored successful result with one output; unchanged output: skipped; changed size: re-executed *)
Example c09_rerun_instance_unchanged :
  reexecutes false (rerun_decision ex_stored 42 false [mkOnode false false (ex_info 10)]) = Some false.
Proof. vm_compute. reflexivity. Qed.

Example c09_rerun_instance_output_changed :
  reexecutes false (rerun_decision ex_stored 42 false [mkOnode false false (ex_info 11)]) = Some true
  /\ output_differs [mkOnode false false (ex_info 11)] (bv_infos (st_value ex_stored)).
Proof. exact rerun_instance_output_changed. Qed.

Example c09_rerun_instance_signature_changed :
  reexecutes false (rerun_decision ex_stored 43 false [mkOnode false false (ex_info 10)]) = Some true.
Proof. vm_compute. reflexivity. Qed.

(* the hypotheses of c09_rerun_iff hold for the instance *)
Example c09_rerun_hypotheses_instance :
  st_built_at ex_stored <> 0 /\ st_cancelled ex_stored = false /\
  length (bv_infos (st_value ex_stored)) = length [mkOnode false false (ex_info 10)].
Proof. exact rerun_hypotheses_instance. Qed.

(* the over-read the length premise excludes: two declared outputs, one stored info *)
Example c09_overread_instance :
  rerun_decision ex_stored 42 false [mkOnode false false (ex_info 10); mkOnode false false (ex_info 10)] = DOverRead.
Proof. vm_compute. reflexivity. Qed.

(* a symlink command with a virtual declared output and link-output-path; and the over-read of a command written
   without an "outputs:" key *)
Example c09_symlink_instance :
  symlink_wf ex_sdef /\ sdef_sig_tokens ex_sdef = Some ([60;97;62], [TStr [116]; TStr [105]]) /\
  sdef_sig_tokens (mkSdef [76] [] [] [116] [108] false) = None.
Proof. exact sdef_instance. Qed.

(* output lists mixing virtual and file nodes: file / virtual / file and virtual / file / file are valid when every file
   output matches the info stored at ITS index; a tampered last output is found; all-virtual lists are valid; infos
   shifted by one position (what a counter that skips virtual outputs would compare) are NOT accepted *)
Example c09_mixed_layout_instance :
  let a := mkOnode false false (ex_info 10) in let v := mkOnode true false (ex_info 0) in
  let b := mkOnode false false (ex_info 20) in
  outputs_valid [a; v; b] [ex_info 10; ex_info 99; ex_info 20] = Valid /\
  outputs_valid [v; a; b] [ex_info 99; ex_info 10; ex_info 20] = Valid /\
  outputs_valid [a; v; b] [ex_info 10; ex_info 99; ex_info 21] = Invalid /\
  outputs_valid [v; v] [ex_info 1; ex_info 2] = Valid /\
  outputs_valid [v; a; b] [ex_info 10; ex_info 20; ex_info 99] = Invalid.
Proof. exact mixed_layout_instance. Qed.

(* a directory output: unchanged -> valid; time stamp or size moved (an entry was added or removed) with the same
   device and inode -> invalid; replaced by a file -> invalid *)
Example c09_directory_output_instance :
  outputs_valid [mkOnode false false (ex_dirinfo 100 4096)] [ex_dirinfo 100 4096] = Valid /\
  outputs_valid [mkOnode false false (ex_dirinfo 101 4096)] [ex_dirinfo 100 4096] = Invalid /\
  outputs_valid [mkOnode false false (ex_dirinfo 100 4097)] [ex_dirinfo 100 4096] = Invalid /\
  outputs_valid [mkOnode false false (ex_info 10)] [ex_dirinfo 100 4096] = Invalid.
Proof. exact directory_output_instance. Qed.
