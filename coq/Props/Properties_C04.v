(* C04 - killing the process at any instant leaves a usable, consistent database.
   Only theorem statements; each is closed by [exact <lemma>] and followed by Print Assumptions.
   Model: Engine/Crash.v (operation trace of one build as /repo/lib/Core/SQLiteBuildDB.cpp + BuildEngine.cpp issue it;
   [recover] = state as of the last Commit among the operations issued before the process died - atomicity of a
   SQLite transaction under process death is the stated assumption, built into [recover]). *)
From Coq Require Import Arith.
From LLB Require Import Engine.Rules Engine.Crash Engine.CrashProofs.
Local Open Scope N_scope.

(* The trace the code emits for a build of epoch e = stored epoch + 1 whose stored results all carry builtAt = e and
   computedAt <= e is well-formed; so is the trace of a build refused at entry. *)
Theorem c04_trace_of_build_wf : forall st e results,
  e = iteration st + 1 -> results_ok e results = true -> wf_trace st (trace_of_build e results) = true.
Proof. exact trace_of_build_wf. Qed.
Print Assumptions c04_trace_of_build_wf.

Theorem c04_trace_refused_wf : forall st, wf_trace st trace_refused = true.
Proof. exact trace_refused_wf. Qed.
Print Assumptions c04_trace_refused_wf.

(* Atomicity at the level of database operations: after ANY number n of issued operations of a well-formed build
   trace the next process finds exactly the pre-build state (n < length) or exactly the post-build state. *)
Theorem c04_prefix_atomic : forall st ops n, wf_trace st ops = true ->
  recover st (firstn n ops) = if Nat.ltb n (length ops) then st else apply_committed st ops.
Proof. exact prefix_atomic. Qed.
Print Assumptions c04_prefix_atomic.

(* A completed build preserves the invariant (stored epoch >= every row's epochs; every row key and every stored
   dependency is a stored key). *)
Theorem c04_committed_inv : forall st ops, DbInv st -> wf_trace st ops = true -> DbInv (apply_committed st ops).
Proof. exact committed_inv. Qed.
Print Assumptions c04_committed_inv.

(* Any number of builds, each killed at any point or not, then a build killed after n operations: the database is
   the recovery of that prefix, satisfies the invariant, and is exactly the pre-build or the post-build state. *)
Theorem c04_prefix_consistent : forall st0 rs tr n,
  DbInv st0 -> wf_history st0 (rs ++ [mkRun tr (Some n)]) = true ->
  let st1 := after_history st0 rs in
  let st := after_history st0 (rs ++ [mkRun tr (Some n)]) in
  st = recover st1 (firstn n tr) /\ DbInv st /\
  ((n < length tr)%nat -> st = st1) /\ ((length tr <= n)%nat -> st = apply_committed st1 tr).
Proof. exact prefix_consistent. Qed.
Print Assumptions c04_prefix_consistent.

(* Whole histories: the invariant holds at the end, and every stored row is the last (key, result) pair - value,
   epochs and dependency list of one task execution - emitted by a setRuleResult call of a build that committed. *)
Theorem c04_history_consistent : forall rs st0 log0,
  DbInv st0 -> Provenance log0 st0 -> wf_history st0 rs = true ->
  DbInv (after_history st0 rs) /\ Provenance (log0 ++ committed_log rs) (after_history st0 rs).
Proof. exact history_consistent. Qed.
Print Assumptions c04_history_consistent.

(* A history with kills leaves the same file as the history in which the killed builds never started (which reduces
   "builds continued from that database return clean-build results" to the uninterrupted case, property C01). *)
Theorem c04_history_equiv_uncrashed : forall rs st0, wf_history st0 rs = true ->
  after_history st0 rs = after_history st0 (uncrashed rs) /\ wf_history st0 (uncrashed rs) = true.
Proof. exact history_equiv_uncrashed. Qed.
Print Assumptions c04_history_equiv_uncrashed.

(* The epoch the next process will issue (stored epoch + 1) is carried by no stored row. *)
Theorem c04_no_epoch_reuse_hazard : forall st k r,
  DbInv st -> lookup (rows st) k = Some r ->
  res_builtAt r <> iteration st + 1 /\ res_computedAt r <> iteration st + 1.
Proof. exact no_epoch_reuse_hazard. Qed.
Print Assumptions c04_no_epoch_reuse_hazard.

Theorem c04_no_epoch_reuse_after_kill : forall st0 ops n k r,
  DbInv st0 -> wf_trace st0 ops = true -> (n < length ops)%nat ->
  let st := recover st0 (firstn n ops) in
  iteration st = iteration st0 /\
  (lookup (rows st) k = Some r -> res_builtAt r <> iteration st0 + 1 /\ res_computedAt r <> iteration st0 + 1).
Proof. exact no_epoch_reuse_after_kill. Qed.
Print Assumptions c04_no_epoch_reuse_after_kill.

(* The executable invariant the check evaluates on observed database files is the stated one. *)
Theorem c04_db_inv_b_iff : forall st, db_inv_b st = true <-> DbInv st.
Proof. exact db_inv_b_iff. Qed.
Print Assumptions c04_db_inv_b_iff.

(* What the code must not do: with the iteration in a second transaction, or with one transaction per result, some
   kill point leaves a file that violates the invariant (rows of epoch e under stored epoch e - 1). *)
Theorem c04_needs_single_txn_refuted :
  (exists st0 e results n,
     DbInv st0 /\ e = iteration st0 + 1 /\ results_ok e results = true /\
     ~ DbInv (recover st0 (firstn n (trace_iteration_after_commit e results)))) /\
  (exists st0 e results n,
     DbInv st0 /\ e = iteration st0 + 1 /\ results_ok e results = true /\
     ~ DbInv (recover st0 (firstn n (trace_commit_per_result e results)))).
Proof. exact needs_single_txn_refuted. Qed.
Print Assumptions c04_needs_single_txn_refuted.

(* Cancelled and cycle-failed builds (only the tasks that finished are stored, the iteration is still written):
   well-formed, hence atomic under a kill and invariant-preserving, for every subset of finished tasks. *)
Theorem c04_cancelled_build_wf : forall st e results (finished : key * result -> bool),
  e = iteration st + 1 -> results_ok e results = true ->
  wf_trace st (trace_of_build e (filter finished results)) = true.
Proof. exact cancelled_build_wf. Qed.
Print Assumptions c04_cancelled_build_wf.

Theorem c04_cancelled_build_inv : forall st e results (finished : key * result -> bool) n,
  DbInv st -> e = iteration st + 1 -> results_ok e results = true ->
  DbInv (recover st (firstn n (trace_of_build e (filter finished results)))).
Proof. exact cancelled_build_inv. Qed.
Print Assumptions c04_cancelled_build_inv.

(* A failed build that commits its rows without the iteration violates the invariant with no kill at all. *)
Theorem c04_failed_build_no_iteration_refuted :
  exists st0 e completed,
    DbInv st0 /\ e = iteration st0 + 1 /\ results_ok e completed = true /\
    wf_trace st0 (trace_failed_no_iteration e completed) = false /\
    ~ DbInv (recover st0 (trace_failed_no_iteration e completed)) /\
    exists k r, lookup (rows (recover st0 (trace_failed_no_iteration e completed))) k = Some r /\
                res_builtAt r = iteration (recover st0 (trace_failed_no_iteration e completed)) + 1.
Proof. exact failed_build_no_iteration_refuted. Qed.
Print Assumptions c04_failed_build_no_iteration_refuted.

Theorem c04_commit_per_result_not_atomic :
  exists st0 e results n,
    DbInv st0 /\ e = iteration st0 + 1 /\ results_ok e results = true /\
    ~ DbInv (recover st0 (firstn n (trace_commit_per_result e results))) /\
    recover st0 (firstn n (trace_commit_per_result e results)) <> st0 /\
    recover st0 (firstn n (trace_commit_per_result e results)) <> apply_committed st0 (trace_commit_per_result e results).
Proof. exact commit_per_result_refuted. Qed.
Print Assumptions c04_commit_per_result_not_atomic.

(* non-vacuity: a non-empty database, a two-result build with a dependency on a new key, cut just before the Commit *)
Example c04_instance_cut : recover ex_st0 (firstn 8 ex_trace) = ex_st0 /\ wf_trace ex_st0 ex_trace = true /\ DbInv ex_st0.
Proof. split; [reflexivity|]. split; [reflexivity | exact ex_st0_inv]. Qed.
Example c04_instance_full : iteration (recover ex_st0 (firstn 9 ex_trace)) = 4 /\ key_names (recover ex_st0 (firstn 9 ex_trace)) = [5; 6; 8; 9].
Proof. split; reflexivity. Qed.
