(* C17 (manifest evaluation part) - Ninja manifests mean what Ninja says.
   Only theorem statements; each is closed by [exact <lemma>] and followed by Print Assumptions. *)
From LLB Require Import Base.Bytes Path.ShellQuote Parse.NinjaEval Parse.NinjaEvalProofs.
Local Open Scope N_scope.

(* text without '$' evaluates to itself, whatever the Lookup and Error callbacks are *)
Theorem c17_eval_string_literal : forall (E : Type) (wrap : eval_err -> E) (lookup : bytes -> bytes * list E) s,
  no_dollar s -> eval_string wrap lookup s = (s, []).
Proof. exact @eval_string_literal. Qed.
Print Assumptions c17_eval_string_literal.
