(* C17 (manifest evaluation part) - Ninja manifests mean what Ninja says: the loaded build statements equal those
   given by Ninja's evaluation rules (build-level over rule-level over file-level scoping, lazily evaluated rule
   variables, shell-quoted $in and $out, $-escapes and line continuations, include sharing and subninja nesting
   scopes).  The theorems are about the model Parse/NinjaEval.v of lib/Ninja/ManifestLoader.cpp, for ALL token
   texts, scopes, rules, manifests and file maps.
   Only theorem statements; each is closed by [exact <lemma>] and followed by Print Assumptions. *)
From LLB Require Import Base.Bytes Path.ShellQuote Parse.NinjaEval Parse.NinjaEvalProofs.
From LLB Require Parse.NinjaLex.
Local Open Scope N_scope.

(* ---------------------------------------------------------------- the $-escape language of evalString
   (for every Error and Lookup callback, i.e. for top-level bindings, paths and rule expansions alike) *)

(* text without '$' evaluates to itself *)
Theorem c17_eval_string_literal : forall (E : Type) (wrap : eval_err -> E) (lookup : bytes -> bytes * list E) s,
  no_dollar s -> eval_string wrap lookup s = (s, []).
Proof. exact @eval_string_literal. Qed.
Print Assumptions c17_eval_string_literal.

(* literal text in front is copied and the rest is evaluated on its own: the escape theorems below apply at every
   position of a text *)
Theorem c17_eval_text_prefix : forall (E : Type) (wrap : eval_err -> E) (lookup : bytes -> bytes * list E) t s,
  no_dollar t -> eval_string wrap lookup (t ++ s) = (t ++ fst (eval_string wrap lookup s), snd (eval_string wrap lookup s)).
Proof. exact @eval_text_prefix. Qed.
Print Assumptions c17_eval_text_prefix.

(* $$  $<space>  $:  stand for the second character *)
Theorem c17_eval_escape_char : forall (E : Type) (wrap : eval_err -> E) (lookup : bytes -> bytes * list E) c s,
  c = 36 \/ c = 32 \/ c = 58 -> eval_string wrap lookup (36 :: c :: s) = ev_emit c (eval_string wrap lookup s).
Proof. exact @eval_escape_char. Qed.
Print Assumptions c17_eval_escape_char.

(* $<newline> and all the white space that follows it vanish *)
Theorem c17_eval_line_continuation : forall (E : Type) (wrap : eval_err -> E) (lookup : bytes -> bytes * list E) ws s,
  all_space ws -> not_space_head s -> eval_string wrap lookup (36 :: 10 :: ws ++ s) = eval_string wrap lookup s.
Proof. exact @eval_line_continuation. Qed.
Print Assumptions c17_eval_line_continuation.

(* ${name}: the Lookup callback on name if name consists of identifier characters, else an error; then the rest *)
Theorem c17_eval_braced : forall (E : Type) (wrap : eval_err -> E) (lookup : bytes -> bytes * list E) name s,
  no_close_brace name ->
  eval_string wrap lookup (36 :: 123 :: name ++ 125 :: s) =
  ev_then (if forallb NinjaLex.is_ident_char name then lookup name else ([], [wrap EvBadVarName]))
          (eval_string wrap lookup s).
Proof. exact @eval_braced. Qed.
Print Assumptions c17_eval_braced.

Theorem c17_eval_braced_unterminated : forall (E : Type) (wrap : eval_err -> E) (lookup : bytes -> bytes * list E) name,
  no_close_brace name -> eval_string wrap lookup (36 :: 123 :: name) = ([], [wrap EvMissingBrace]).
Proof. exact @eval_braced_unterminated. Qed.
Print Assumptions c17_eval_braced_unterminated.

(* $name takes the LONGEST run of simple identifier characters [a-zA-Z0-9_-] (so "$x.y" is $x followed by ".y",
   and "$x-y" is the variable "x-y") *)
Theorem c17_eval_simple_var_longest : forall (E : Type) (wrap : eval_err -> E) (lookup : bytes -> bytes * list E) b name s,
  all_simple (b :: name) -> not_simple_head s ->
  eval_string wrap lookup (36 :: (b :: name) ++ s) = ev_then (lookup (b :: name)) (eval_string wrap lookup s).
Proof. exact @eval_simple_var_longest. Qed.
Print Assumptions c17_eval_simple_var_longest.

(* the error cases, as the code has them: evaluation stops, what was written so far is kept *)
Theorem c17_eval_dollar_at_end : forall (E : Type) (wrap : eval_err -> E) (lookup : bytes -> bytes * list E),
  eval_string wrap lookup [36] = ([], [wrap EvDollarAtEnd]).
Proof. exact @eval_dollar_at_end. Qed.
Print Assumptions c17_eval_dollar_at_end.

Theorem c17_eval_bad_escape : forall (E : Type) (wrap : eval_err -> E) (lookup : bytes -> bytes * list E) b s,
  b <> 10 -> b <> 32 -> b <> 58 -> b <> 36 -> b <> 123 -> NinjaLex.is_simple_ident_char b = false ->
  eval_string wrap lookup (36 :: b :: s) = ([], [wrap EvBadEscape]).
Proof. exact @eval_bad_escape. Qed.
Print Assumptions c17_eval_bad_escape.

(* ---------------------------------------------------------------- scoping: build-level over rule-level over file-level *)

(* for a name other than in / in_newline / out: the build-level binding if present; else the rule-level text
   evaluated in the build's own context (with the cycle guard); else the scope chain; as an equation on the model,
   for all contexts *)
Theorem c17_lookup_order : forall fuel cx active name, ~ special_name name ->
  lookup_var (S fuel) cx active name =
  match aget name (bx_params cx) with
  | Some v => (v, [])
  | None =>
    match aget name (bx_rule cx) with
    | Some text =>
      if mem_bytes name active then ([], [ECycle name])
      else eval_string (fun e => EEvalDuring e name) (lookup_var fuel cx (name :: active)) text
    | None => (lookup_binding (bx_scopes cx) name, [])
    end
  end.
Proof. exact lookup_order. Qed.
Print Assumptions c17_lookup_order.

(* file-level: the innermost scope first, then its parents (the including files of a subninja chain) *)
Theorem c17_scope_chain : forall f ps name,
  lookup_binding (f :: ps) name = match aget name (f_vars f) with Some v => v | None => lookup_binding ps name end.
Proof. exact lookup_binding_inner_first. Qed.
Print Assumptions c17_scope_chain.

(* the strings stored in a command ARE those lookups, in the context made of the command's explicit inputs, its
   outputs, its build-level bindings (evaluated in the current scope), the rule found through the scope chain and
   the scope at the build statement *)
Theorem c17_build_strings_are_lookups : forall wd sc st outs rname ex im oo binds,
  let st' := run_build wd sc st outs rname ex im oo binds in
  let rr := resolve_rule sc rname in
  let po := eval_paths wd sc EEmptyOutput outs (m_nodes st) in
  let pe := eval_paths wd sc EEmptyInput ex (p_map po) in
  exists c, m_commands st' = m_commands st ++ [c] /\
    c_command c = fst (lookup_named (screens (p_nodes pe)) (screens (p_nodes po)) (fst (build_bindings sc binds []))
                                    (snd (fst rr)) sc nm_command) /\
    c_description c = fst (lookup_named (screens (p_nodes pe)) (screens (p_nodes po)) (fst (build_bindings sc binds []))
                                        (snd (fst rr)) sc nm_description).
Proof. exact run_build_command. Qed.
Print Assumptions c17_build_strings_are_lookups.

(* ---------------------------------------------------------------- rule variables are lazy *)

(* the rule block keeps its texts unevaluated, whatever the scope holds at that point *)
Theorem c17_rule_text_stored_verbatim : forall sc st n binds,
  lookup_rule (fst (run_rule sc st n binds)) n = Some (fst (rule_bindings binds [])).
Proof. exact rule_text_stored_verbatim. Qed.
Print Assumptions c17_rule_text_stored_verbatim.

(* x = v1; rule rn: command = $x; x = v2; build out: rn   gives the command v2: the rule text is evaluated at the
   build statement against the scope at that point - from every starting scope and manifest state *)
Theorem c17_rule_vars_lazy : forall wd fs fuel stack sc0 st0 x v1 v2 rn out,
  x <> [] -> all_simple x -> ~ special_name x -> x <> nm_command -> no_dollar v1 -> no_dollar v2 ->
  exists cs c,
    m_commands (snd (run_decls fuel stack wd fs
                       [DBinding x v1; DRule rn [BBind nm_command (36 :: x)]; DBinding x v2; DBuild [out] rn [] [] [] []]
                       (sc0, st0))) = cs ++ [c] /\ c_command c = v2.
Proof. exact rule_vars_lazy. Qed.
Print Assumptions c17_rule_vars_lazy.

(* ... and a build-level binding of x shadows both *)
Theorem c17_build_level_binding_shadows : forall wd fs fuel stack sc0 st0 x v1 v2 v3 rn out,
  x <> [] -> all_simple x -> ~ special_name x -> x <> nm_command -> no_dollar v1 -> no_dollar v2 -> no_dollar v3 ->
  exists cs c,
    m_commands (snd (run_decls fuel stack wd fs
                       [DBinding x v1; DRule rn [BBind nm_command (36 :: x)]; DBinding x v2;
                        DBuild [out] rn [] [] [] [BBind x v3]]
                       (sc0, st0))) = cs ++ [c] /\ c_command c = v3.
Proof. exact build_level_binding_shadows. Qed.
Print Assumptions c17_build_level_binding_shadows.

(* ---------------------------------------------------------------- $in, $in_newline, $out *)

(* $in: the explicit inputs only, joined by a space; each shell-escaped iff the context says so *)
Theorem c17_in_expansion : forall fuel ex outs ps rule sc esc active,
  lookup_var fuel (mkCtx ex outs ps rule sc esc) active nm_in =
  (join_with 32 (map (fun p => if esc then shell_escaped p else p) ex), []).
Proof. exact in_expansion. Qed.
Print Assumptions c17_in_expansion.

Theorem c17_in_newline_expansion : forall fuel ex outs ps rule sc esc active,
  lookup_var fuel (mkCtx ex outs ps rule sc esc) active nm_in_newline =
  (join_with 10 (map (fun p => if esc then shell_escaped p else p) ex), []).
Proof. exact in_newline_expansion. Qed.
Print Assumptions c17_in_newline_expansion.

Theorem c17_out_expansion : forall fuel ex outs ps rule sc esc active,
  lookup_var fuel (mkCtx ex outs ps rule sc esc) active nm_out =
  (join_with 32 (map (fun p => if esc then shell_escaped p else p) outs), []).
Proof. exact out_expansion. Qed.
Print Assumptions c17_out_expansion.

(* the context of the expansion of a named build variable escapes unless the name is depfile or rspfile (like
   Ninja: only the file-name variables see the unescaped paths); the context holds the explicit inputs only
   (c17_build_strings_are_lookups), so implicit and order-only inputs never reach $in *)
Theorem c17_in_out_quoting : forall ex outs ps rule sc name,
  lookup_named ex outs ps rule sc name =
  lookup_var (S (length rule)) (mkCtx ex outs ps rule sc (escapes_in_out name)) [] name /\
  (escapes_in_out name = false <-> name = nm_depfile \/ name = nm_rspfile).
Proof. exact in_out_quoting. Qed.
Print Assumptions c17_in_out_quoting.

(* ---------------------------------------------------------------- include shares the scope, subninja nests *)

(* include: the file's decls run in place, in the same scope; the rest of the includer continues from what they left *)
Theorem c17_include_shares_scope : forall f stack wd fs sc st ptext path es ds rest,
  eval_in_scope sc ptext = (path, es) -> enterable stack wd fs path ds ->
  run_decls (S f) stack wd fs (DInclude true ptext :: rest) (sc, st) =
  run_decls (S f) stack wd fs rest (run_decls f (make_absolute wd path :: stack) wd fs ds (sc, add_errors st es)).
Proof. exact include_shares_scope. Qed.
Print Assumptions c17_include_shares_scope.

Theorem c17_include_binding_visible : forall f stack wd fs sc st ptext path es ds0 x v,
  eval_in_scope sc ptext = (path, es) -> enterable stack wd fs path (ds0 ++ [DBinding x v]) -> no_dollar v ->
  lookup_binding (fst (run_decls (S f) stack wd fs [DInclude true ptext] (sc, st))) x = v.
Proof. exact include_binding_visible. Qed.
Print Assumptions c17_include_binding_visible.

Theorem c17_include_rule_visible : forall f stack wd fs sc st ptext path es ds0 rn binds,
  eval_in_scope sc ptext = (path, es) -> enterable stack wd fs path (ds0 ++ [DRule rn binds]) ->
  lookup_rule (fst (run_decls (S f) stack wd fs [DInclude true ptext] (sc, st))) rn = Some (fst (rule_bindings binds [])).
Proof. exact include_rule_visible. Qed.
Print Assumptions c17_include_rule_visible.

(* subninja: the file runs in a fresh scope whose parent is the current one; the rest of the parent continues in
   the parent's scope as it was *)
Theorem c17_subninja_nests : forall f stack wd fs sc st ptext path es ds rest,
  eval_in_scope sc ptext = (path, es) -> enterable stack wd fs path ds ->
  run_decls (S f) stack wd fs (DInclude false ptext :: rest) (sc, st) =
  run_decls (S f) stack wd fs rest
            (sc, snd (run_decls f (make_absolute wd path :: stack) wd fs ds (empty_frame :: sc, add_errors st es))).
Proof. exact subninja_nests. Qed.
Print Assumptions c17_subninja_nests.

(* no binding and no rule of a subninja file is visible afterwards, for EVERY file content *)
Theorem c17_subninja_scope_restored : forall fuel stack wd fs sc st ptext,
  fst (run_decls fuel stack wd fs [DInclude false ptext] (sc, st)) = sc.
Proof. exact subninja_scope_restored. Qed.
Print Assumptions c17_subninja_scope_restored.

(* ... and while the file runs, the enclosing scopes stay what they were (only the innermost frame changes) *)
Theorem c17_subninja_cannot_touch_parent : forall wd fs fuel stack ds sc st,
  exists fr', fst (run_decls fuel stack wd fs ds (empty_frame :: sc, st)) = fr' :: sc.
Proof. exact subninja_cannot_touch_parent. Qed.
Print Assumptions c17_subninja_cannot_touch_parent.

(* the parent's earlier bindings and rules ARE visible in the child *)
Theorem c17_subninja_child_sees_parent : forall sc x rn,
  lookup_binding (empty_frame :: sc) x = lookup_binding sc x /\ lookup_rule (empty_frame :: sc) rn = lookup_rule sc rn.
Proof. exact subninja_child_sees_parent. Qed.
Print Assumptions c17_subninja_child_sees_parent.

(* ---------------------------------------------------------------- cycles and totality *)

(* a rule variable that (transitively, through rule-level variables) refers to itself yields a cycle error; the
   fuel S (number of rule variables) that the loader passes is never exhausted *)
Theorem c17_rule_cycle_reports_error : forall cx n fuel,
  reaches_cycle cx [] n -> (length (bx_rule cx) < fuel)%nat ->
  exists v, In (ECycle v) (snd (lookup_var fuel cx [] n)).
Proof. exact rule_cycle_reports_error. Qed.
Print Assumptions c17_rule_cycle_reports_error.

Theorem c17_rule_expansion_fuel_suffices : forall cx fuel name,
  (length (bx_rule cx) < fuel)%nat -> ~ In EOutOfFuel (snd (lookup_var fuel cx [] name)).
Proof. exact rule_expansion_fuel_suffices. Qed.
Print Assumptions c17_rule_expansion_fuel_suffices.

(* for every AST and every file map (self-including and mutually including files too): with fuel 64 - the
   include bound of the code - or more, evaluation returns without ever running out of fuel *)
Theorem c17_eval_total : forall fuel wd fs main, (max_include_depth <= fuel)%nat ->
  has_out_of_fuel (mf_errors (load fuel wd fs main)) = false.
Proof. exact eval_total. Qed.
Print Assumptions c17_eval_total.

(* ---------------------------------------------------------------- the model's "null node" outcome is unreachable *)

(* Manifest::normalize_path succeeds on every path when the working directory is "/..." (not the //net form), so
   findOrCreateNode never yields the null pointer the loader would store and dereference *)
Theorem c17_normalize_path_some : forall wd p, simple_abs wd -> exists q, normalize_path wd p = Some q.
Proof. exact normalize_path_some. Qed.
Print Assumptions c17_normalize_path_some.

Theorem c17_no_null_node : forall wd sc e, simple_abs wd -> e <> ENullNode ->
  forall toks nodes, ~ In ENullNode (p_errs (eval_paths wd sc e toks nodes)).
Proof. exact no_null_node. Qed.
Print Assumptions c17_no_null_node.

(* ---------------------------------------------------------------- two rules stated explicitly *)

(* every indented binding of a build statement is evaluated in the enclosing FILE-level scope: the bindings the
   statement has already made are never consulted (bindings of one build statement do not see each other) *)
Theorem c17_build_bindings_see_file_scope_only : forall sc binds params,
  fst (build_bindings sc binds params) = fold_left (bind_in_file_scope sc) binds params.
Proof. exact build_bindings_see_file_scope_only. Qed.
Print Assumptions c17_build_bindings_see_file_scope_only.

(* x = v1 then y = $x in one build statement: y is the file-level value of x *)
Theorem c17_build_binding_ignores_earlier_binding : forall sc x y v1,
  x <> [] -> all_simple x -> x <> y -> no_dollar v1 ->
  aget y (fst (build_bindings sc [BBind x v1; BBind y (36 :: x)] [])) = Some (lookup_binding sc x) /\
  aget x (fst (build_bindings sc [BBind x v1; BBind y (36 :: x)] [])) = Some v1.
Proof. exact build_binding_ignores_earlier_binding. Qed.
Print Assumptions c17_build_binding_ignores_earlier_binding.

(* the shell-quoting mode of $in / $out belongs to the QUERIED variable and is kept through every nested
   expansion: with command = $depfile and depfile = $out<suffix>, the command gets the quoted outputs (also though
   it reaches them through $depfile), the depfile attribute itself gets them unquoted *)
Theorem c17_quote_mode_is_per_query : forall ex outs ps rule sc suffix,
  @aget bytes nm_command ps = None -> @aget bytes nm_depfile ps = None ->
  @aget bytes nm_command rule = Some (36 :: nm_depfile) ->
  @aget bytes nm_depfile rule = Some (36 :: nm_out ++ suffix) ->
  no_dollar suffix -> not_simple_head suffix ->
  fst (lookup_named ex outs ps rule sc nm_command) = join_with 32 (map shell_escaped outs) ++ suffix /\
  fst (lookup_named ex outs ps rule sc nm_depfile) = join_with 32 outs ++ suffix.
Proof. exact quote_mode_is_per_query. Qed.
Print Assumptions c17_quote_mode_is_per_query.

(* an indented binding whose value is, or evaluates to, the EMPTY string is recorded like any other and shadows the
   rule-level text and the file-level value of its name: the lookup finds the binding, not its emptiness *)
Theorem c17_empty_build_binding_shadows : forall sc n v ps fuel ex outs rule sc' esc active,
  ~ special_name n -> fst (eval_in_scope sc v) = [] ->
  lookup_var (S fuel) (mkCtx ex outs (fst (build_bindings sc [BBind n v] ps)) rule sc' esc) active n = ([], []).
Proof. exact empty_build_binding_shadows. Qed.
Print Assumptions c17_empty_build_binding_shadows.
