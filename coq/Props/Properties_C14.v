(* C14 - stale-file removal deletes exactly the obsolete outputs inside the allowed roots.
   Only theorem statements; each is closed by [exact <lemma>] and followed by Print Assumptions. *)
From LLB Require Import Base.Bytes Path.PathPrefix Path.PathPrefixProofs.
Local Open Scope N_scope.

(* Nothing outside the roots: for ALL byte strings, an accepted path lies at or beneath the prefix by
   whole components. *)
Theorem c14_pip_sound : forall path pre,
  pip path pre = true -> comp_prefix (comps pre) (comps path) = true.
Proof. exact pip_sound. Qed.
Print Assumptions c14_pip_sound.

(* Every path extending a root by whole components is accepted (canonical absolute spellings, any
   number of trailing separators on the root, anything after a separator on the path). *)
Theorem c14_pip_complete : forall cs ds t1 t2,
  forallb comp_ok cs = true -> all_seps t2 -> head_is_sep_or_end t1 = true ->
  pip (join (cs ++ ds) ++ t1) (join cs ++ t2) = true.
Proof. exact pip_complete. Qed.
Print Assumptions c14_pip_complete.

(* A root spelled with or without a trailing separator behaves the same, for ALL strings. *)
Theorem c14_trailing_sep_invariant : forall path pre, pip path (pre ++ [47]) = pip path pre.
Proof. exact pip_trailing_sep. Qed.
Print Assumptions c14_trailing_sep_invariant.

(* The exact set that is removed. *)
Theorem c14_exact_set : forall prior expected roots p,
  In p (to_delete prior expected roots) <->
  In p prior /\ ~ In p expected /\ allowed roots p = true.
Proof. exact to_delete_spec. Qed.
Print Assumptions c14_exact_set.

Theorem c14_nothing_outside_roots : forall prior expected roots p,
  roots <> [] -> In p (to_delete prior expected roots) ->
  absolute p = true /\ exists r, In r roots /\ comp_prefix (comps r) (comps p) = true.
Proof. exact nothing_outside_roots. Qed.
Print Assumptions c14_nothing_outside_roots.

(* Histories: the first run removes nothing; run i+1 removes a function of run i's list, its own list
   and its own roots only (any number of earlier runs, any prior value). *)
Theorem c14_history_first : forall expected roots runs,
  hd [] (stale_history None ((expected, roots) :: runs)) = [].
Proof. exact stale_history_first. Qed.
Print Assumptions c14_history_first.

Theorem c14_history_step : forall runs0 prior e0 r0 e1 r1 rest,
  nth (S (length runs0)) (stale_history prior (runs0 ++ (e0, r0) :: (e1, r1) :: rest)) [] = to_delete e0 e1 r1.
Proof. exact stale_history_step. Qed.
Print Assumptions c14_history_step.

(* The function as it was before the repair (no normalisation of the prefix) violates the
   trailing-separator clause: witness path "/a/b", root "/a/". Kept as documentation of what the
   proof uses; the witness is in corpus/C14. *)
Theorem c14_unrepaired_refuted :
  exists path pre, pip_unrepaired path pre = true /\ pip_unrepaired (path ++ [47; 98]) (pre ++ [47]) = false
                   /\ pip_unrepaired (path ++ [47; 98]) pre = true.
Proof. exact pip_unrepaired_refuted. Qed.
Print Assumptions c14_unrepaired_refuted.

(* non-vacuity: the hypotheses of c14_pip_complete are met by a concrete non-trivial instance *)
Example c14_complete_instance :
  pip (join ([[102;111;111]] ++ [[98;97;114]]) ++ [47]) (join [[102;111;111]] ++ [47;47]) = true.
Proof. vm_compute. reflexivity. Qed.

(* ====== the file-system side (P23): LocalFileSystem::remove and the removal loop on a tree with symbolic links ======
   Model: Path/FsRemove.v (the system calls the code issues, each resolving its path as the kernel does).
   [get fs q] is the object at the canonical path q (no link followed): every object of the tree has exactly one.
   Scope of the lexical statements: the path has a component, none is "." or "..", and no component before the
   last one is a symbolic link ([no_link_on_the_way]); outside that scope see the two *_refuted theorems. *)
From LLB Require Import Path.FsRemove Path.FsRemoveProofs.

(* the model of the code equals "the entry and everything beneath it disappears" (remove_spec) *)
Theorem c14_fs_remove_is_spec : forall fs cs trail,
  wf fs = true -> cs <> [] -> plain_comps cs = true -> no_link_on_the_way fs cs = true ->
  outcome (remove fs cs trail) = remove_spec fs cs trail.
Proof. exact remove_nolink_spec. Qed.
Print Assumptions c14_fs_remove_is_spec.

(* nothing outside the removed path is touched: what lstat reports of ANY canonical path that does not have the
   removed path as a component-prefix is the same before and after (so the target of a removed link, and the
   targets of links inside a removed directory, are untouched) *)
Theorem c14_fs_remove_frame : forall fs cs trail q,
  wf fs = true -> cs <> [] -> plain_comps cs = true -> no_link_on_the_way fs cs = true ->
  comp_prefix cs q = false ->
  option_map shallow (get (fst (remove fs cs trail)) q) = option_map shallow (get fs q).
Proof. exact remove_frame. Qed.
Print Assumptions c14_fs_remove_frame.

Theorem c14_fs_remove_frame_subtree : forall fs cs trail q,
  wf fs = true -> cs <> [] -> plain_comps cs = true -> no_link_on_the_way fs cs = true ->
  comp_prefix cs q = false -> comp_prefix q cs = false ->
  get (fst (remove fs cs trail)) q = get fs q.
Proof. exact remove_frame_subtree. Qed.
Print Assumptions c14_fs_remove_frame_subtree.

(* a directory together with everything beneath it: after success nothing at or beneath the path is left *)
Theorem c14_fs_remove_complete : forall fs cs trail x,
  wf fs = true -> cs <> [] -> plain_comps cs = true -> no_link_on_the_way fs cs = true ->
  snd (remove fs cs trail) = None ->
  get (fst (remove fs cs trail)) (cs ++ x) = None.
Proof. exact remove_complete. Qed.
Print Assumptions c14_fs_remove_complete.

Theorem c14_fs_remove_error_unchanged : forall fs cs trail e,
  wf fs = true -> cs <> [] -> plain_comps cs = true -> no_link_on_the_way fs cs = true ->
  snd (remove fs cs trail) = Some e ->
  fst (remove fs cs trail) = fs.
Proof. exact remove_error_unchanged. Qed.
Print Assumptions c14_fs_remove_error_unchanged.

Theorem c14_fs_remove_succeeds_iff : forall fs cs trail,
  wf fs = true -> cs <> [] -> plain_comps cs = true -> no_link_on_the_way fs cs = true ->
  (snd (remove fs cs trail) = None <-> removable_at fs cs trail = true).
Proof. exact remove_succeeds_iff. Qed.
Print Assumptions c14_fs_remove_succeeds_iff.

(* the removal loop of StaleFileRemovalCommand::execute over a deletion list ds, exactly: afterwards ANY canonical
   path q reports "nothing" when a listed path that named something removable is a component-prefix of q, and
   reports what it reported before otherwise *)
Theorem c14_fs_stale_apply_exact : forall fs ds q,
  wf fs = true -> stale_scope fs ds ->
  option_map shallow (get (stale_apply fs ds) q) =
    if covered fs ds q then None else option_map shallow (get fs q).
Proof. exact stale_apply_exact. Qed.
Print Assumptions c14_fs_stale_apply_exact.

Theorem c14_fs_stale_gone_iff : forall fs ds q x,
  wf fs = true -> stale_scope fs ds -> get fs q = Some x ->
  (get (stale_apply fs ds) q = None <->
   exists d, In d ds /\ removable fs d = true /\ comp_prefix (comps d) q = true).
Proof. exact stale_apply_gone_iff. Qed.
Print Assumptions c14_fs_stale_gone_iff.

Theorem c14_fs_stale_untouched : forall fs ds q,
  wf fs = true -> stale_scope fs ds ->
  (forall d, In d ds -> comp_prefix (comps d) q = false) ->
  option_map shallow (get (stale_apply fs ds) q) = option_map shallow (get fs q).
Proof. exact stale_apply_untouched. Qed.
Print Assumptions c14_fs_stale_untouched.

(* the code walks the list in std::set order, the model in the order of the prior list: no difference *)
Theorem c14_fs_stale_order_irrelevant : forall fs ds ds' q,
  wf fs = true -> stale_scope fs ds -> (forall d, In d ds <-> In d ds') ->
  option_map shallow (get (stale_apply fs ds) q) = option_map shallow (get (stale_apply fs ds') q).
Proof. exact stale_apply_order_irrelevant. Qed.
Print Assumptions c14_fs_stale_order_irrelevant.

(* with roots given: every path of the tree that lies lexically under none of the roots is unchanged after the run *)
Theorem c14_fs_nothing_outside_roots : forall fs prior expected roots q,
  roots <> [] -> wf fs = true -> stale_scope fs (to_delete prior expected roots) ->
  (forall r, In r roots -> comp_prefix (comps r) q = false) ->
  option_map shallow (get (stale_apply fs (to_delete prior expected roots)) q) = option_map shallow (get fs q).
Proof. exact fs_nothing_outside_roots. Qed.
Print Assumptions c14_fs_nothing_outside_roots.

(* WITHOUT "no link on the way" (everything else kept) the conclusion fails: prior ["/root/lnk/x"] with
   /root/lnk -> /elsewhere and roots ["/root"] removes /elsewhere/x.  The real code does the same; the path IS
   lexically inside the root, so this is within the letter of the property. *)
Theorem c14_fs_link_on_the_way_refuted :
  exists fs prior expected roots q x,
    roots <> [] /\ wf fs = true /\
    (forall d, In d (to_delete prior expected roots) -> comps d <> [] /\ plain_comps (comps d) = true) /\
    (forall r, In r roots -> comp_prefix (comps r) q = false) /\
    get fs q = Some x /\ get (stale_apply fs (to_delete prior expected roots)) q = None.
Proof. exact fs_link_on_the_way_refuted. Qed.
Print Assumptions c14_fs_link_on_the_way_refuted.

(* WITHOUT it an error result does not imply an unchanged tree: /a/l -> "/" and the path /a/l/a *)
Theorem c14_fs_remove_error_unchanged_refuted :
  exists fs s fs' e,
    wf fs = true /\ comps s <> [] /\ plain_comps (comps s) = true /\
    remove_path fs s = (fs', Some e) /\ fs' <> fs.
Proof. exact remove_error_unchanged_refuted. Qed.
Print Assumptions c14_fs_remove_error_unchanged_refuted.

(* non-vacuity: a tree with a link to an outside directory as the stale path itself, a dangling link, a link to a
   file and a directory containing a link meets the hypotheses; the outside directory keeps its content *)
Example c14_fs_instance_scope : wf ex_tree = true /\ stale_scope ex_tree ex_stale.
Proof. exact ex_scope. Qed.
Example c14_fs_instance_result :
  stale_apply ex_tree ex_stale =
  Dir [(n_root, Dir [(n_x, File 1)]); (n_else, Dir [(n_x, File 3)]); (n_keep, File 5)].
Proof. exact ex_stale_result. Qed.
Example c14_fs_instance_trailing_sep :
  remove_path ex_tree (s_abs [n_root; n_out] ++ [47]) = (ex_tree, Some ENOTDIR).
Proof. exact ex_remove_link_trailing_sep. Qed.

(* ------ ANY tree, ANY path: links on the way, "." and ".." included (no scope premise at all) ------ *)

(* LocalFileSystem::remove either changes nothing, or the path resolves - as the kernel does it, a final link not
   followed - to a canonical location L and everything that changes lies at or beneath L *)
Theorem c14_fs_remove_only_beneath_target : forall fs cs trail fs' r,
  wf fs = true -> remove fs cs trail = (fs', r) ->
  wf fs' = true /\ (fs' = fs \/ exists L, walk maxlinks fs false [] cs = WOk L /\ below L fs' fs).
Proof. exact remove_below. Qed.
Print Assumptions c14_fs_remove_only_beneath_target.

(* the premise asked for, stated exactly: "no link on the way to a deleted path leaves the roots" = the location
   that each listed path names in the tree lies at or beneath a root.  Then nothing beneath none of the roots changes. *)
Theorem c14_fs_nothing_outside_roots_physical : forall fs ds roots q,
  wf fs = true ->
  (forall d L, In d ds -> walk maxlinks fs false [] (comps d) = WOk L -> inside roots L = true) ->
  inside roots q = false ->
  option_map shallow (get (stale_apply fs ds) q) = option_map shallow (get fs q).
Proof. exact stale_apply_physical. Qed.
Print Assumptions c14_fs_nothing_outside_roots_physical.

(* the lexical scope meets that premise (so c14_fs_nothing_outside_roots is the special case) *)
Theorem c14_fs_scope_meets_physical_premise : forall fs prior expected roots,
  roots <> [] -> stale_scope fs (to_delete prior expected roots) ->
  forall d L, In d (to_delete prior expected roots) -> walk maxlinks fs false [] (comps d) = WOk L -> inside roots L = true.
Proof. exact scope_inside. Qed.
Print Assumptions c14_fs_scope_meets_physical_premise.

(* non-vacuity: a listed path through a link that stays inside the root meets the premise; the witness of
   c14_fs_link_on_the_way_refuted is exactly a path whose location is outside *)
Example c14_fs_instance_physical :
  wf ex_inside = true /\
  (forall d L, In d [s_abs [n_root; n_lnk; n_x]] -> walk maxlinks ex_inside false [] (comps d) = WOk L ->
               inside [s_abs [n_root]] L = true) /\
  inside [s_abs [n_root]] [n_else; n_x] = false /\
  get (stale_apply ex_inside [s_abs [n_root; n_lnk; n_x]]) [n_root; n_real; n_x] = None /\
  get (stale_apply ex_inside [s_abs [n_root; n_lnk; n_x]]) [n_else; n_x] = Some (File 8).
Proof. exact ex_physical_instance. Qed.
Example c14_fs_instance_physical_outside :
  walk maxlinks ex_through false [] (comps (s_abs [n_root; n_lnk; n_x])) = WOk [n_else; n_x] /\
  inside [s_abs [n_root]] [n_else; n_x] = false /\
  inside [s_abs [n_root]] [n_root; n_lnk] = true.
Proof. exact ex_physical_premise. Qed.

(* ====== the lower bound on the remove() calls (round 3; the oracle of the recording-file-system family) ======
   Every obsolete path under a canonically spelled root is in the deletion list - at any position of any history. *)
Theorem c14_must_delete : forall prior expected roots p r cs ds t1 t2,
  In p prior -> ~ In p expected -> In r roots ->
  forallb comp_ok cs = true -> all_seps t2 -> head_is_sep_or_end t1 = true ->
  r = join cs ++ t2 -> p = join (cs ++ ds) ++ t1 -> absolute p = true ->
  In p (to_delete prior expected roots).
Proof. exact must_delete. Qed.
Print Assumptions c14_must_delete.

Theorem c14_must_delete_no_roots : forall prior expected p,
  In p prior -> ~ In p expected -> In p (to_delete prior expected []).
Proof. exact must_delete_no_roots. Qed.
Print Assumptions c14_must_delete_no_roots.

Theorem c14_must_delete_history : forall runs0 prior e0 r0 e1 r1 rest p r cs ds t1 t2,
  In p e0 -> ~ In p e1 -> In r r1 ->
  forallb comp_ok cs = true -> all_seps t2 -> head_is_sep_or_end t1 = true ->
  r = join cs ++ t2 -> p = join (cs ++ ds) ++ t1 -> absolute p = true ->
  In p (nth (S (length runs0)) (stale_history prior (runs0 ++ (e0, r0) :: (e1, r1) :: rest)) []).
Proof. exact must_delete_history. Qed.
Print Assumptions c14_must_delete_history.

Example c14_must_delete_instance : In [47;47;97] (to_delete [[47;47;97]; [98]] [[98]] [[47]]).
Proof. exact must_delete_instance. Qed.

(* the upper bound at any position of any history (the other half of the recording oracle) *)
Theorem c14_may_delete_history : forall runs0 prior e0 r0 e1 r1 rest p,
  In p (nth (S (length runs0)) (stale_history prior (runs0 ++ (e0, r0) :: (e1, r1) :: rest)) []) ->
  In p e0 /\ ~ In p e1 /\
  (r1 <> [] -> absolute p = true /\ exists r, In r r1 /\ comp_prefix (comps r) (comps p) = true).
Proof. exact may_delete_history. Qed.
Print Assumptions c14_may_delete_history.
