(* C14 - stale-file removal deletes exactly the obsolete outputs inside the allowed roots.
   Only theorem statements; each is closed by [exact <lemma>] and followed by Print Assumptions. *)
From LLB Require Import Base.Bytes Path.PathPrefix Path.PathPrefixProofs.
Local Open Scope N_scope.

(* Nothing outside the roots: for ALL byte strings, an accepted path lies at or beneath the prefix by
   whole components. *)
Theorem c14_pip_sound : forall path pre,
  pip path pre = true -> comp_prefix (comps pre) (comps path) = true.
Proof. exact pip_sound. Qed.
Print Assumptions c14_pip_sound.

(* Every path extending a root by whole components is accepted (canonical absolute spellings, any
   number of trailing separators on the root, anything after a separator on the path). *)
Theorem c14_pip_complete : forall cs ds t1 t2,
  forallb comp_ok cs = true -> all_seps t2 -> head_is_sep_or_end t1 = true ->
  pip (join (cs ++ ds) ++ t1) (join cs ++ t2) = true.
Proof. exact pip_complete. Qed.
Print Assumptions c14_pip_complete.

(* A root spelled with or without a trailing separator behaves the same, for ALL strings. *)
Theorem c14_trailing_sep_invariant : forall path pre, pip path (pre ++ [47]) = pip path pre.
Proof. exact pip_trailing_sep. Qed.
Print Assumptions c14_trailing_sep_invariant.

(* The exact set that is removed. *)
Theorem c14_exact_set : forall prior expected roots p,
  In p (to_delete prior expected roots) <->
  In p prior /\ ~ In p expected /\ allowed roots p = true.
Proof. exact to_delete_spec. Qed.
Print Assumptions c14_exact_set.

Theorem c14_nothing_outside_roots : forall prior expected roots p,
  roots <> [] -> In p (to_delete prior expected roots) ->
  absolute p = true /\ exists r, In r roots /\ comp_prefix (comps r) (comps p) = true.
Proof. exact nothing_outside_roots. Qed.
Print Assumptions c14_nothing_outside_roots.

(* Histories: the first run removes nothing; run i+1 removes a function of run i's list, its own list
   and its own roots only (any number of earlier runs, any prior value). *)
Theorem c14_history_first : forall expected roots runs,
  hd [] (stale_history None ((expected, roots) :: runs)) = [].
Proof. exact stale_history_first. Qed.
Print Assumptions c14_history_first.

Theorem c14_history_step : forall runs0 prior e0 r0 e1 r1 rest,
  nth (S (length runs0)) (stale_history prior (runs0 ++ (e0, r0) :: (e1, r1) :: rest)) [] = to_delete e0 e1 r1.
Proof. exact stale_history_step. Qed.
Print Assumptions c14_history_step.

(* The function as it was before the repair (no normalisation of the prefix) violates the
   trailing-separator clause: witness path "/a/b", root "/a/". Kept as documentation of what the
   proof uses; the witness is in corpus/C14. *)
Theorem c14_unrepaired_refuted :
  exists path pre, pip_unrepaired path pre = true /\ pip_unrepaired (path ++ [47; 98]) (pre ++ [47]) = false
                   /\ pip_unrepaired (path ++ [47; 98]) pre = true.
Proof. exact pip_unrepaired_refuted. Qed.
Print Assumptions c14_unrepaired_refuted.

(* non-vacuity: the hypotheses of c14_pip_complete are met by a concrete non-trivial instance *)
Example c14_complete_instance :
  pip (join ([[102;111;111]] ++ [[98;97;114]]) ++ [47]) (join [[102;111;111]] ++ [47;47]) = true.
Proof. vm_compute. reflexivity. Qed.
