(* C05 - cancellation never poisons later builds.
   Only theorem statements about Engine/Cancel.v (cancellation on top of the specification engine Engine/Spec.v:
   `ensure_c` aborts with `Cycle s []` at the first nested call made after `n` events of the build have been logged;
   `cancel_reset` is `cancelRemainingTasks`; `build_cancel` is `build()` with a cancellation request seen after n events);
   each is closed by [exact <lemma>] and followed by Print Assumptions.  `rules`, `env`, the task arithmetic `F` and
   the dependency-order oracle `order` are universally quantified everywhere. *)
From LLB Require Import Engine.Rules Engine.Spec Engine.Exec Engine.Cancel
  Engine.CancelProofs Engine.CancelProofs2 Engine.CancelProofs3 Engine.CancelProofs4 Engine.CancelProofs5.
From LLB Require Import Engine.SpecInv1 Engine.SpecC01 Engine.CancelProofs6 Engine.CancelProofs7.
From Coq Require Import List NArith Bool Lia Arith.
Local Open Scope N_scope.

(* ---------- c05_returns_failure ---------- *)

(* For every budget n: either the request came too late to be noticed and the outcome is that of the plain build, or
   the build FAILS (`Cycle _ []`, reported as `EResult None true`): it stopped at a state s1 that the plain build
   passes through, at which at least n events had been logged, in the new epoch, and the state left behind is
   `cancel_reset s1` with the iteration committed. *)
Theorem c05_returns_failure : forall rules env F order n fuel s k,
  build_cancel rules env F order n fuel s k = build rules env F order fuel s k \/
  exists s1, build_cancel rules env F order n fuel s k = Cycle (commit_epoch (cancel_reset s1 (length (st_log s)))) [] /\
             (n <= events_since (length (st_log s)) s1)%nat /\
             ext s s1 /\ st_epoch s1 = st_epoch s + 1 /\ grows s1 (build rules env F order fuel s k).
Proof. exact returns_failure. Qed.
Print Assumptions c05_returns_failure.

(* cancellation after the end is a no-op *)
Theorem c05_cancel_after_end : forall rules env F order n fuel s k o,
  build rules env F order fuel s k = o -> o <> OutOfFuel ->
  (events_of (length (st_log s)) o < n)%nat -> build_cancel rules env F order n fuel s k = o.
Proof. exact cancel_after_end. Qed.
Print Assumptions c05_cancel_after_end.

(* a request pending at the first test: failure, nothing ran, nothing flagged *)
Theorem c05_cancel_at_once : forall rules env F order fuel s k,
  build_cancel rules env F order 0 (S fuel) s k = Cycle (commit_epoch (bump_epoch s)) [].
Proof. exact cancel_at_once. Qed.
Print Assumptions c05_cancel_at_once.

(* "every budget smaller than the number of events of the full build aborts" is false: the request is noticed only at
   the next test (top of the engine loop = entry of a nested call), and there is none after the last one *)
Theorem c05_returns_failure_literal_refuted :
  exists rules env F order n fuel s k s',
    build rules env F order fuel s k = Ok s' /\ (n < events_of (length (st_log s)) (Ok s'))%nat /\
    build_cancel rules env F order n fuel s k = Ok s'.
Proof. exact returns_failure_literal_refuted. Qed.
Print Assumptions c05_returns_failure_literal_refuted.

(* ---------- c05_persisted_only_completed ---------- *)

(* Whatever the outcome of a build with a cancellation request (completed, cancelled, real cycle): a database row
   differs from the one before the build only for a key x that has an `EComplete x v` event in THIS build's log, and
   the row is then exactly what that completion recorded: value v, the rule's signature, builtAt = the build's epoch,
   the dependency list of that same execution (requested dependencies in recorded order ++ discovered ones).
   Keys without completion in this build - in particular the tasks in progress - keep their old rows. *)
Theorem c05_persisted_only_completed : forall rules env F order n fuel s k o s',
  build_cancel rules env F order n fuel s k = o -> has_state o s' ->
  (forall x, get (st_db s') x = get (st_db s) x \/
             exists v, In (EComplete x v) (build_log s' (length (st_log s))) /\
                       row_of_completion rules order (st_epoch s + 1) x v (get (st_db s') x)) /\
  (forall x, completed_in (build_log s' (length (st_log s))) x = false -> get (st_db s') x = get (st_db s) x).
Proof. exact persisted_only_completed. Qed.
Print Assumptions c05_persisted_only_completed.

(* ---------- c05_flags_exact ---------- *)

(* after a cancelled build a key is flagged iff it was flagged before or was created in this build, and did not complete *)
Theorem c05_flags_exact : forall rules env F order n fuel s k s',
  build_cancel rules env F order n fuel s k = Cycle s' [] ->
  forall x, let l := build_log s' (length (st_log s)) in
  flagged s' x = true <->
  (flagged s x = true /\ ~ (exists v, In (EComplete x v) l)) \/
  (In (ECreate x) l /\ ~ (exists v, In (EComplete x v) l)).
Proof. exact flags_exact_iff. Qed.
Print Assumptions c05_flags_exact.

(* ---------- c05_flagged_reruns ---------- *)

(* In any later traversal (any fuel, any stack, any state): a flagged key that is reached (not on the stack) and not
   complete in the current epoch is executed - the events `ENeed k Forced None` (`NeverBuilt` if it never built) and
   `ECreate k` are the first two of the traversal - and if the traversal ends well the key has completed and is no
   longer flagged. *)
Theorem c05_flagged_reruns : forall rules env F order fuel stack s k o s',
  ensure rules env F order fuel stack s k = o -> has_state o s' ->
  flagged s k = true -> res_builtAt (get (st_mem s) k) <> st_epoch s -> ~ In k stack ->
  exists l, st_log s' = l ++ ECreate k :: ENeed k (if N.eqb (res_builtAt (get (st_mem s) k)) 0 then NeverBuilt else Forced) None :: st_log s /\
            (o = Ok s' -> flagged s' k = false /\ exists v, In (EComplete k v) l).
Proof. exact flagged_reruns. Qed.
Print Assumptions c05_flagged_reruns.

(* the same inside a build that may itself be cancelled, when the budget is not yet reached on entry *)
Theorem c05_flagged_reruns_cancellable : forall rules env F order n base fuel stack s k o s',
  ensure_c rules env F order n base fuel stack s k = o -> has_state o s' -> budget_reached n base s = false ->
  flagged s k = true -> res_builtAt (get (st_mem s) k) <> st_epoch s -> ~ In k stack ->
  exists l, st_log s' = l ++ ECreate k :: ENeed k (if N.eqb (res_builtAt (get (st_mem s) k)) 0 then NeverBuilt else Forced) None :: st_log s /\
            (o = Ok s' -> flagged s' k = false /\ exists v, In (EComplete k v) l).
Proof. exact flagged_reruns_c. Qed.
Print Assumptions c05_flagged_reruns_cancellable.

(* No spurious work from cancellation (1): reason Forced is only ever given to keys flagged when the traversal began. *)
Theorem c05_forced_only_flagged : forall rules env F order fuel stack s k o s' l,
  ensure rules env F order fuel stack s k = o -> has_state o s' -> st_log s' = l ++ st_log s ->
  forall x inp, In (ENeed x Forced inp) l -> flagged s x = true.
Proof. exact forced_only_flagged. Qed.
Print Assumptions c05_forced_only_flagged.

Theorem c05_forced_only_flagged_cancellable : forall rules env F order n base fuel stack s k o s' l,
  ensure_c rules env F order n base fuel stack s k = o -> has_state o s' -> st_log s' = l ++ st_log s ->
  forall x inp, In (ENeed x Forced inp) l -> flagged s x = true.
Proof. exact forced_only_flagged_c. Qed.
Print Assumptions c05_forced_only_flagged_cancellable.

(* No spurious work (2): a key that is not flagged, has been built, whose signature is unchanged and whose value is
   valid is executed only because one of its recorded non-order-only inputs was rebuilt (reason InputRebuilt). *)
Theorem c05_unflagged_runs_only_for_input : forall rules env F order fuel stack s k o s' l,
  ensure rules env F order fuel stack s k = o -> has_state o s' -> st_log s' = l ++ st_log s ->
  flagged s k = false -> res_builtAt (get (st_mem s) k) <> 0 ->
  r_sig (rules k) = res_sig (get (st_mem s) k) -> valid rules env k (get (st_mem s) k) = true ->
  In (ECreate k) l ->
  exists d, In d (drop_single (res_deps (get (st_mem s) k))) /\ d_order d = false /\
            In (ENeed k InputRebuilt (Some (d_key d))) l.
Proof. exact unflagged_runs_only_for_input. Qed.
Print Assumptions c05_unflagged_runs_only_for_input.

(* ---------- the two refutations (replayable histories; task arithmetic mixF, identity order oracle, fuel 20) ----------
   w_last ops  = last_result (st_log (h_st (run_chistory mixF ord_id 20 ops))) : (value, failed) of the last build of ops;
   w_clean ops k = clean_value mixF 20 (run_chistory mixF ord_id 20 ops) k     : cv of k in the world ops has reached. *)

(* c05_same_engine_v0_refuted: WITHOUT the flag (`cancel_reset_v0`: the engine before the fix, where a rule in progress
   keeps value and epochs and the dependency list re-recorded so far) there is a history
   build; change an input; cancelled build; build   whose last build succeeds with a value different from the clean
   one.  Witness (CancelProofs5.s1_prefix): rules 1 = {req [2;4]}, 2 and 4 observe; set 2 5; set 4 7; new engine (db);
   build 1; set 4 8; build 1 cancelled after 14 events; build 1 -> (891684,0), clean (888378,0). *)
Theorem c05_same_engine_v0_refuted :
  exists (ops : list cop) (k : key) (n : nat) (v : value),
    w_last (ops ++ [CBuildCancelV0 k n]) = Some (None, true) /\
    w_last (ops ++ [CBuildCancelV0 k n; CPlain (OBuild k)]) = Some (Some v, false) /\
    w_clean (ops ++ [CBuildCancelV0 k n; CPlain (OBuild k)]) k <> Some v.
Proof. exact same_engine_v0_refuted_ex. Qed.
Print Assumptions c05_same_engine_v0_refuted.

(* the exact values of that witness, and the same history WITH the flag: repaired, key 1 re-runs with reason Forced *)
Theorem c05_same_engine_v0_witness :
  w_last (s1_prefix ++ [CPlain (OBuild 1)]) = Some (Some (888378, 0), false) /\
  w_last (s1_prefix ++ [CBuildCancelV0 1 14]) = Some (None, true) /\
  w_last s1_history_v0 = Some (Some (891684, 0), false) /\
  w_clean s1_history_v0 1 = Some (888378, 0).
Proof. exact same_engine_v0_refuted. Qed.
Print Assumptions c05_same_engine_v0_witness.

Theorem c05_same_engine_flagged_ok :
  w_last (s1_prefix ++ [CBuildCancel 1 14]) = Some (None, true) /\
  st_flag (h_st (w_run (s1_prefix ++ [CBuildCancel 1 14]))) = [1] /\
  w_last s1_history = Some (Some (888378, 0), false) /\
  w_clean s1_history 1 = Some (888378, 0) /\
  In (ENeed 1 Forced None) (firstn 12 (st_log (h_st (w_run s1_history)))).
Proof. exact same_engine_flagged_ok. Qed.
Print Assumptions c05_same_engine_flagged_ok.

(* c05_discovered_window_refuted (KNOWN finding `discovered-window`): even WITH the flag.  A task that completed in the
   cancelled build (persisted, builtAt = that epoch) whose discovered dependency had not yet been brought up to date:
   when that input returns to its earlier stamp, every later build keeps the stale value - on the same engine and on
   a new engine over the same database.  Witness (CancelProofs5.s2_prefix): rules 1 = {req [2], disc [5]}, 2 and 5
   observe; set 2 5; set 5 7; new engine (db); build 1; set 2 6; set 5 8; build 1 cancelled after 15 events (right after
   `EComplete 1 (462296,0)`); set 5 7; build 1 -> (462296,0), clean (464033,0); same after a restart. *)
Theorem c05_discovered_window_refuted :
  exists (ops : list cop) (k d : key) (n : nat) (x : N) (v : value),
    w_last (ops ++ [CBuildCancel k n]) = Some (None, true) /\
    w_last (ops ++ [CBuildCancel k n; CPlain (OSet d x); CPlain (OBuild k)]) = Some (Some v, false) /\
    w_clean (ops ++ [CBuildCancel k n; CPlain (OSet d x); CPlain (OBuild k)]) k <> Some v /\
    w_last (ops ++ [CBuildCancel k n; CPlain (OSet d x); CPlain (ORestart true); CPlain (OBuild k)]) = Some (Some v, false) /\
    w_clean (ops ++ [CBuildCancel k n; CPlain (OSet d x); CPlain (ORestart true); CPlain (OBuild k)]) k <> Some v.
Proof. exact discovered_window_refuted_ex. Qed.
Print Assumptions c05_discovered_window_refuted.

Theorem c05_discovered_window_witness :
  w_last (s2_prefix ++ [CBuildCancel 1 15]) = Some (None, true) /\
  st_flag (h_st (w_run (s2_prefix ++ [CBuildCancel 1 15]))) = [] /\
  w_last s2_same_engine = Some (Some (462296, 0), false) /\
  w_clean s2_same_engine 1 = Some (464033, 0) /\
  w_last s2_new_engine = Some (Some (462296, 0), false) /\
  w_clean s2_new_engine 1 = Some (464033, 0).
Proof. exact discovered_window_refuted. Qed.
Print Assumptions c05_discovered_window_witness.

(* the excluding hypothesis of the positive statement, `no_pending_discovered`, is exactly what fails in that witness *)
Theorem c05_discovered_window_pending :
  ensure_c s2_rules s2_env mixF ord_id 15 (length (st_log s2_before)) w_fuel [] (bump_epoch s2_before) 1 = Cycle s2_abort [] /\
  ~ no_pending_discovered s2_rules s2_abort (length (st_log s2_before)).
Proof. exact discovered_window_pending. Qed.
Print Assumptions c05_discovered_window_pending.

(* ---------- c05_later_builds_clean (on top of the C01 invariant: Engine/SpecInv1-3.v, Engine/SpecC01.v) ----------
   Hypotheses, exactly those of C01 (`rank`: the rules are acyclic; discovered dependencies are observing rules; the
   order oracle permutes; `R`/`table_ok`: one rule per (key, signature)) plus: the state before the build is at rest
   (`AtRest`: true of `init_state`, preserved by every build, restart and - this theorem - cancelled build), and the
   excluding hypothesis `no_pending_discovered` (without it: c05_discovered_window_refuted). *)

(* with ranked rules a build with a cancellation request ends well or is cancelled (no real cycle, enough fuel) *)
Theorem c05_build_cancel_outcomes : forall rules env F order rank R,
  table_ok rules R -> wf_rank rules rank -> wf_disc rules -> wf_order order ->
  forall n fuel s k, (rank k < fuel)%nat -> AtRest F R s ->
  (exists s', build_cancel rules env F order n fuel s k = Ok s') \/
  (exists s', build_cancel rules env F order n fuel s k = Cycle s' []).
Proof. exact build_cancel_outcomes. Qed.
Print Assumptions c05_build_cancel_outcomes.

(* the state it leaves behind is at rest again *)
Theorem c05_cancelled_build_at_rest : forall rules env F order rank R,
  table_ok rules R -> wf_rank rules rank -> wf_disc rules -> wf_order order ->
  forall n fuel s k o s', (rank k < fuel)%nat -> AtRest F R s ->
  build_cancel rules env F order n fuel s k = o ->
  (o = Ok s' \/ (o = Cycle s' [] /\ no_pending_discovered rules s' (length (st_log s)))) ->
  AtRest F R s'.
Proof. exact cancelled_build_at_rest. Qed.
Print Assumptions c05_cancelled_build_at_rest.

(* the next build, on the same engine (db = false) or on a new engine over the same database (db = true), for ANY
   external state env' of that moment: succeeds, returns the clean-build value cv, and is at rest again *)
Theorem c05_later_builds_clean : forall rules env F order rank R,
  table_ok rules R -> wf_rank rules rank -> wf_disc rules -> wf_order order ->
  forall n fuel s k o s', (rank k < fuel)%nat -> AtRest F R s ->
  build_cancel rules env F order n fuel s k = o ->
  (o = Ok s' \/ (o = Cycle s' [] /\ no_pending_discovered rules s' (length (st_log s)))) ->
  forall (env' : key -> N) (db : bool) (fuel2 : nat) (k2 : key), (rank k2 < fuel2)%nat ->
  exists s'', build rules env' F order fuel2 (if db then restart s' else s') k2 = Ok s'' /\
              result_of s'' k2 = cv rules env' F fuel2 k2 /\ AtRest F R s''.
Proof. exact later_builds_clean. Qed.
Print Assumptions c05_later_builds_clean.

(* history form: after a cancelled build, EVERY later build - after any changes of external state, restarts and
   builds - reports the clean value of its moment *)
Theorem c05_later_history_clean : forall F order fuel rank tbl,
  wf_rank (rules_of tbl) rank -> wf_disc (rules_of tbl) -> wf_order order ->
  forall h k n, HInv tbl F h -> (rank k < fuel)%nat -> pending_free F order fuel tbl h k n ->
  forall ops k2, Forall no_rule_op ops -> Forall (build_ranked rank fuel) ops -> (rank k2 < fuel)%nat ->
  let h' := fold_left (hstep F order fuel) ops (chstep F order fuel h (CBuildCancel k n)) in
  exists s1, h_st (hstep F order fuel h' (OBuild k2)) =
             emit s1 (EResult (cv (rules_of tbl) (env_of (h_env h')) F fuel k2) false).
Proof. exact later_history_clean. Qed.
Print Assumptions c05_later_history_clean.
