(* C17 - assembled by tools/assemble_props.py from Properties_C17eval.v (manifest evaluation) and the c17_* theorems of
   Properties_c17lex.v (keywords, bytes 0x80-0xFF, shell quoting).  Statements only. *)
(* C17 (manifest evaluation part) - Ninja manifests mean what Ninja says: the loaded build statements equal those
   given by Ninja's evaluation rules (build-level over rule-level over file-level scoping, lazily evaluated rule
   variables, shell-quoted $in and $out, $-escapes and line continuations, include sharing and subninja nesting
   scopes).  The theorems are about the model Parse/NinjaEval.v of lib/Ninja/ManifestLoader.cpp, for ALL token
   texts, scopes, rules, manifests and file maps.
   Only theorem statements; each is closed by [exact <lemma>] and followed by Print Assumptions. *)
From LLB Require Import Base.Bytes Path.ShellQuote Parse.NinjaEval Parse.NinjaEvalProofs.
From LLB Require Parse.NinjaLex.
Local Open Scope N_scope.

(* ---------------------------------------------------------------- the $-escape language of evalString
   (for every Error and Lookup callback, i.e. for top-level bindings, paths and rule expansions alike) *)

(* text without '$' evaluates to itself *)
Theorem c17_eval_string_literal : forall (E : Type) (wrap : eval_err -> E) (lookup : bytes -> bytes * list E) s,
  no_dollar s -> eval_string wrap lookup s = (s, []).
Proof. exact @eval_string_literal. Qed.
Print Assumptions c17_eval_string_literal.

(* literal text in front is copied and the rest is evaluated on its own: the escape theorems below apply at every
   position of a text *)
Theorem c17_eval_text_prefix : forall (E : Type) (wrap : eval_err -> E) (lookup : bytes -> bytes * list E) t s,
  no_dollar t -> eval_string wrap lookup (t ++ s) = (t ++ fst (eval_string wrap lookup s), snd (eval_string wrap lookup s)).
Proof. exact @eval_text_prefix. Qed.
Print Assumptions c17_eval_text_prefix.

(* $$  $<space>  $:  stand for the second character *)
Theorem c17_eval_escape_char : forall (E : Type) (wrap : eval_err -> E) (lookup : bytes -> bytes * list E) c s,
  c = 36 \/ c = 32 \/ c = 58 -> eval_string wrap lookup (36 :: c :: s) = ev_emit c (eval_string wrap lookup s).
Proof. exact @eval_escape_char. Qed.
Print Assumptions c17_eval_escape_char.

(* $<newline> and all the white space that follows it vanish *)
Theorem c17_eval_line_continuation : forall (E : Type) (wrap : eval_err -> E) (lookup : bytes -> bytes * list E) ws s,
  all_space ws -> not_space_head s -> eval_string wrap lookup (36 :: 10 :: ws ++ s) = eval_string wrap lookup s.
Proof. exact @eval_line_continuation. Qed.
Print Assumptions c17_eval_line_continuation.

(* ${name}: the Lookup callback on name if name consists of identifier characters, else an error; then the rest *)
Theorem c17_eval_braced : forall (E : Type) (wrap : eval_err -> E) (lookup : bytes -> bytes * list E) name s,
  no_close_brace name ->
  eval_string wrap lookup (36 :: 123 :: name ++ 125 :: s) =
  ev_then (if forallb NinjaLex.is_ident_char name then lookup name else ([], [wrap EvBadVarName]))
          (eval_string wrap lookup s).
Proof. exact @eval_braced. Qed.
Print Assumptions c17_eval_braced.

Theorem c17_eval_braced_unterminated : forall (E : Type) (wrap : eval_err -> E) (lookup : bytes -> bytes * list E) name,
  no_close_brace name -> eval_string wrap lookup (36 :: 123 :: name) = ([], [wrap EvMissingBrace]).
Proof. exact @eval_braced_unterminated. Qed.
Print Assumptions c17_eval_braced_unterminated.

(* $name takes the LONGEST run of simple identifier characters [a-zA-Z0-9_-] (so "$x.y" is $x followed by ".y",
   and "$x-y" is the variable "x-y") *)
Theorem c17_eval_simple_var_longest : forall (E : Type) (wrap : eval_err -> E) (lookup : bytes -> bytes * list E) b name s,
  all_simple (b :: name) -> not_simple_head s ->
  eval_string wrap lookup (36 :: (b :: name) ++ s) = ev_then (lookup (b :: name)) (eval_string wrap lookup s).
Proof. exact @eval_simple_var_longest. Qed.
Print Assumptions c17_eval_simple_var_longest.

(* the error cases, as the code has them: evaluation stops, what was written so far is kept *)
Theorem c17_eval_dollar_at_end : forall (E : Type) (wrap : eval_err -> E) (lookup : bytes -> bytes * list E),
  eval_string wrap lookup [36] = ([], [wrap EvDollarAtEnd]).
Proof. exact @eval_dollar_at_end. Qed.
Print Assumptions c17_eval_dollar_at_end.

Theorem c17_eval_bad_escape : forall (E : Type) (wrap : eval_err -> E) (lookup : bytes -> bytes * list E) b s,
  b <> 10 -> b <> 32 -> b <> 58 -> b <> 36 -> b <> 123 -> NinjaLex.is_simple_ident_char b = false ->
  eval_string wrap lookup (36 :: b :: s) = ([], [wrap EvBadEscape]).
Proof. exact @eval_bad_escape. Qed.
Print Assumptions c17_eval_bad_escape.

(* ---------------------------------------------------------------- scoping: build-level over rule-level over file-level *)

(* for a name other than in / in_newline / out: the build-level binding if present; else the rule-level text
   evaluated in the build's own context (with the cycle guard); else the scope chain; as an equation on the model,
   for all contexts *)
Theorem c17_lookup_order : forall fuel cx active name, ~ special_name name ->
  lookup_var (S fuel) cx active name =
  match aget name (bx_params cx) with
  | Some v => (v, [])
  | None =>
    match aget name (bx_rule cx) with
    | Some text =>
      if mem_bytes name active then ([], [ECycle name])
      else eval_string (fun e => EEvalDuring e name) (lookup_var fuel cx (name :: active)) text
    | None => (lookup_binding (bx_scopes cx) name, [])
    end
  end.
Proof. exact lookup_order. Qed.
Print Assumptions c17_lookup_order.

(* file-level: the innermost scope first, then its parents (the including files of a subninja chain) *)
Theorem c17_scope_chain : forall f ps name,
  lookup_binding (f :: ps) name = match aget name (f_vars f) with Some v => v | None => lookup_binding ps name end.
Proof. exact lookup_binding_inner_first. Qed.
Print Assumptions c17_scope_chain.

(* the strings stored in a command ARE those lookups, in the context made of the command's explicit inputs, its
   outputs, its build-level bindings (evaluated in the current scope), the rule found through the scope chain and
   the scope at the build statement *)
Theorem c17_build_strings_are_lookups : forall wd sc st outs rname ex im oo binds,
  let st' := run_build wd sc st outs rname ex im oo binds in
  let rr := resolve_rule sc rname in
  let po := eval_paths wd sc EEmptyOutput outs (m_nodes st) in
  let pe := eval_paths wd sc EEmptyInput ex (p_map po) in
  exists c, m_commands st' = m_commands st ++ [c] /\
    c_command c = fst (lookup_named (screens (p_nodes pe)) (screens (p_nodes po)) (fst (build_bindings sc binds []))
                                    (snd (fst rr)) sc nm_command) /\
    c_description c = fst (lookup_named (screens (p_nodes pe)) (screens (p_nodes po)) (fst (build_bindings sc binds []))
                                        (snd (fst rr)) sc nm_description).
Proof. exact run_build_command. Qed.
Print Assumptions c17_build_strings_are_lookups.

(* ---------------------------------------------------------------- rule variables are lazy *)

(* the rule block keeps its texts unevaluated, whatever the scope holds at that point *)
Theorem c17_rule_text_stored_verbatim : forall sc st n binds,
  lookup_rule (fst (run_rule sc st n binds)) n = Some (fst (rule_bindings binds [])).
Proof. exact rule_text_stored_verbatim. Qed.
Print Assumptions c17_rule_text_stored_verbatim.

(* x = v1; rule rn: command = $x; x = v2; build out: rn   gives the command v2: the rule text is evaluated at the
   build statement against the scope at that point - from every starting scope and manifest state *)
Theorem c17_rule_vars_lazy : forall wd fs fuel stack sc0 st0 x v1 v2 rn out,
  x <> [] -> all_simple x -> ~ special_name x -> x <> nm_command -> no_dollar v1 -> no_dollar v2 ->
  exists cs c,
    m_commands (snd (run_decls fuel stack wd fs
                       [DBinding x v1; DRule rn [BBind nm_command (36 :: x)]; DBinding x v2; DBuild [out] rn [] [] [] []]
                       (sc0, st0))) = cs ++ [c] /\ c_command c = v2.
Proof. exact rule_vars_lazy. Qed.
Print Assumptions c17_rule_vars_lazy.

(* ... and a build-level binding of x shadows both *)
Theorem c17_build_level_binding_shadows : forall wd fs fuel stack sc0 st0 x v1 v2 v3 rn out,
  x <> [] -> all_simple x -> ~ special_name x -> x <> nm_command -> no_dollar v1 -> no_dollar v2 -> no_dollar v3 ->
  exists cs c,
    m_commands (snd (run_decls fuel stack wd fs
                       [DBinding x v1; DRule rn [BBind nm_command (36 :: x)]; DBinding x v2;
                        DBuild [out] rn [] [] [] [BBind x v3]]
                       (sc0, st0))) = cs ++ [c] /\ c_command c = v3.
Proof. exact build_level_binding_shadows. Qed.
Print Assumptions c17_build_level_binding_shadows.

(* ---------------------------------------------------------------- $in, $in_newline, $out *)

(* $in: the explicit inputs only, joined by a space; each shell-escaped iff the context says so *)
Theorem c17_in_expansion : forall fuel ex outs ps rule sc esc active,
  lookup_var fuel (mkCtx ex outs ps rule sc esc) active nm_in =
  (join_with 32 (map (fun p => if esc then shell_escaped p else p) ex), []).
Proof. exact in_expansion. Qed.
Print Assumptions c17_in_expansion.

Theorem c17_in_newline_expansion : forall fuel ex outs ps rule sc esc active,
  lookup_var fuel (mkCtx ex outs ps rule sc esc) active nm_in_newline =
  (join_with 10 (map (fun p => if esc then shell_escaped p else p) ex), []).
Proof. exact in_newline_expansion. Qed.
Print Assumptions c17_in_newline_expansion.

Theorem c17_out_expansion : forall fuel ex outs ps rule sc esc active,
  lookup_var fuel (mkCtx ex outs ps rule sc esc) active nm_out =
  (join_with 32 (map (fun p => if esc then shell_escaped p else p) outs), []).
Proof. exact out_expansion. Qed.
Print Assumptions c17_out_expansion.

(* the context of the expansion of a named build variable escapes unless the name is depfile or rspfile (like
   Ninja: only the file-name variables see the unescaped paths); the context holds the explicit inputs only
   (c17_build_strings_are_lookups), so implicit and order-only inputs never reach $in *)
Theorem c17_in_out_quoting : forall ex outs ps rule sc name,
  lookup_named ex outs ps rule sc name =
  lookup_var (S (length rule)) (mkCtx ex outs ps rule sc (escapes_in_out name)) [] name /\
  (escapes_in_out name = false <-> name = nm_depfile \/ name = nm_rspfile).
Proof. exact in_out_quoting. Qed.
Print Assumptions c17_in_out_quoting.

(* ---------------------------------------------------------------- include shares the scope, subninja nests *)

(* include: the file's decls run in place, in the same scope; the rest of the includer continues from what they left *)
Theorem c17_include_shares_scope : forall f stack wd fs sc st ptext path es ds rest,
  eval_in_scope sc ptext = (path, es) -> enterable stack wd fs path ds ->
  run_decls (S f) stack wd fs (DInclude true ptext :: rest) (sc, st) =
  run_decls (S f) stack wd fs rest (run_decls f (make_absolute wd path :: stack) wd fs ds (sc, add_errors st es)).
Proof. exact include_shares_scope. Qed.
Print Assumptions c17_include_shares_scope.

Theorem c17_include_binding_visible : forall f stack wd fs sc st ptext path es ds0 x v,
  eval_in_scope sc ptext = (path, es) -> enterable stack wd fs path (ds0 ++ [DBinding x v]) -> no_dollar v ->
  lookup_binding (fst (run_decls (S f) stack wd fs [DInclude true ptext] (sc, st))) x = v.
Proof. exact include_binding_visible. Qed.
Print Assumptions c17_include_binding_visible.

Theorem c17_include_rule_visible : forall f stack wd fs sc st ptext path es ds0 rn binds,
  eval_in_scope sc ptext = (path, es) -> enterable stack wd fs path (ds0 ++ [DRule rn binds]) ->
  lookup_rule (fst (run_decls (S f) stack wd fs [DInclude true ptext] (sc, st))) rn = Some (fst (rule_bindings binds [])).
Proof. exact include_rule_visible. Qed.
Print Assumptions c17_include_rule_visible.

(* subninja: the file runs in a fresh scope whose parent is the current one; the rest of the parent continues in
   the parent's scope as it was *)
Theorem c17_subninja_nests : forall f stack wd fs sc st ptext path es ds rest,
  eval_in_scope sc ptext = (path, es) -> enterable stack wd fs path ds ->
  run_decls (S f) stack wd fs (DInclude false ptext :: rest) (sc, st) =
  run_decls (S f) stack wd fs rest
            (sc, snd (run_decls f (make_absolute wd path :: stack) wd fs ds (empty_frame :: sc, add_errors st es))).
Proof. exact subninja_nests. Qed.
Print Assumptions c17_subninja_nests.

(* no binding and no rule of a subninja file is visible afterwards, for EVERY file content *)
Theorem c17_subninja_scope_restored : forall fuel stack wd fs sc st ptext,
  fst (run_decls fuel stack wd fs [DInclude false ptext] (sc, st)) = sc.
Proof. exact subninja_scope_restored. Qed.
Print Assumptions c17_subninja_scope_restored.

(* ... and while the file runs, the enclosing scopes stay what they were (only the innermost frame changes) *)
Theorem c17_subninja_cannot_touch_parent : forall wd fs fuel stack ds sc st,
  exists fr', fst (run_decls fuel stack wd fs ds (empty_frame :: sc, st)) = fr' :: sc.
Proof. exact subninja_cannot_touch_parent. Qed.
Print Assumptions c17_subninja_cannot_touch_parent.

(* the parent's earlier bindings and rules ARE visible in the child *)
Theorem c17_subninja_child_sees_parent : forall sc x rn,
  lookup_binding (empty_frame :: sc) x = lookup_binding sc x /\ lookup_rule (empty_frame :: sc) rn = lookup_rule sc rn.
Proof. exact subninja_child_sees_parent. Qed.
Print Assumptions c17_subninja_child_sees_parent.

(* ---------------------------------------------------------------- cycles and totality *)

(* a rule variable that (transitively, through rule-level variables) refers to itself yields a cycle error; the
   fuel S (number of rule variables) that the loader passes is never exhausted *)
Theorem c17_rule_cycle_reports_error : forall cx n fuel,
  reaches_cycle cx [] n -> (length (bx_rule cx) < fuel)%nat ->
  exists v, In (ECycle v) (snd (lookup_var fuel cx [] n)).
Proof. exact rule_cycle_reports_error. Qed.
Print Assumptions c17_rule_cycle_reports_error.

Theorem c17_rule_expansion_fuel_suffices : forall cx fuel name,
  (length (bx_rule cx) < fuel)%nat -> ~ In EOutOfFuel (snd (lookup_var fuel cx [] name)).
Proof. exact rule_expansion_fuel_suffices. Qed.
Print Assumptions c17_rule_expansion_fuel_suffices.

(* for every AST and every file map (self-including and mutually including files too): with fuel 64 - the
   include bound of the code - or more, evaluation returns without ever running out of fuel *)
Theorem c17_eval_total : forall fuel wd fs main, (max_include_depth <= fuel)%nat ->
  has_out_of_fuel (mf_errors (load fuel wd fs main)) = false.
Proof. exact eval_total. Qed.
Print Assumptions c17_eval_total.

(* ---------------------------------------------------------------- the model's "null node" outcome is unreachable *)

(* Manifest::normalize_path succeeds on every path when the working directory is "/..." (not the //net form), so
   findOrCreateNode never yields the null pointer the loader would store and dereference *)
Theorem c17_normalize_path_some : forall wd p, simple_abs wd -> exists q, normalize_path wd p = Some q.
Proof. exact normalize_path_some. Qed.
Print Assumptions c17_normalize_path_some.

Theorem c17_no_null_node : forall wd sc e, simple_abs wd -> e <> ENullNode ->
  forall toks nodes, ~ In ENullNode (p_errs (eval_paths wd sc e toks nodes)).
Proof. exact no_null_node. Qed.
Print Assumptions c17_no_null_node.

(* ---------------------------------------------------------------- two rules stated explicitly *)

(* every indented binding of a build statement is evaluated in the enclosing FILE-level scope: the bindings the
   statement has already made are never consulted (bindings of one build statement do not see each other) *)
Theorem c17_build_bindings_see_file_scope_only : forall sc binds params,
  fst (build_bindings sc binds params) = fold_left (bind_in_file_scope sc) binds params.
Proof. exact build_bindings_see_file_scope_only. Qed.
Print Assumptions c17_build_bindings_see_file_scope_only.

(* x = v1 then y = $x in one build statement: y is the file-level value of x *)
Theorem c17_build_binding_ignores_earlier_binding : forall sc x y v1,
  x <> [] -> all_simple x -> x <> y -> no_dollar v1 ->
  aget y (fst (build_bindings sc [BBind x v1; BBind y (36 :: x)] [])) = Some (lookup_binding sc x) /\
  aget x (fst (build_bindings sc [BBind x v1; BBind y (36 :: x)] [])) = Some v1.
Proof. exact build_binding_ignores_earlier_binding. Qed.
Print Assumptions c17_build_binding_ignores_earlier_binding.

(* the shell-quoting mode of $in / $out belongs to the QUERIED variable and is kept through every nested
   expansion: with command = $depfile and depfile = $out<suffix>, the command gets the quoted outputs (also though
   it reaches them through $depfile), the depfile attribute itself gets them unquoted *)
Theorem c17_quote_mode_is_per_query : forall ex outs ps rule sc suffix,
  @aget bytes nm_command ps = None -> @aget bytes nm_depfile ps = None ->
  @aget bytes nm_command rule = Some (36 :: nm_depfile) ->
  @aget bytes nm_depfile rule = Some (36 :: nm_out ++ suffix) ->
  no_dollar suffix -> not_simple_head suffix ->
  fst (lookup_named ex outs ps rule sc nm_command) = join_with 32 (map shell_escaped outs) ++ suffix /\
  fst (lookup_named ex outs ps rule sc nm_depfile) = join_with 32 outs ++ suffix.
Proof. exact quote_mode_is_per_query. Qed.
Print Assumptions c17_quote_mode_is_per_query.

(* an indented binding whose value is, or evaluates to, the EMPTY string is recorded like any other and shadows the
   rule-level text and the file-level value of its name: the lookup finds the binding, not its emptiness *)
Theorem c17_empty_build_binding_shadows : forall sc n v ps fuel ex outs rule sc' esc active,
  ~ special_name n -> fst (eval_in_scope sc v) = [] ->
  lookup_var (S fuel) (mkCtx ex outs (fst (build_bindings sc [BBind n v] ps)) rule sc' esc) active n = ([], []).
Proof. exact empty_build_binding_shadows. Qed.
Print Assumptions c17_empty_build_binding_shadows.

(* ---------------------------------------------------------------- lexer and shell-quoting part *)
Module Lex.
From LLB Require Import Base.Bytes Parse.NinjaLex Parse.NinjaLexProofs Path.ShellQuote Path.ShellQuoteProofs
  gen.Gen_NinjaKeywords gen.Gen_ShellWhitelist.
Local Open Scope N_scope.

(* ================================ C17: bytes 0x80-0xFF are ordinary characters =============================== *)

Theorem c17_high_byte_classes : forall b, 128 <= b ->
  is_space b = false /\ is_nn_space b = false /\ is_nl b = false /\
  is_ident_char b = false /\ is_simple_ident_char b = false /\
  forall r pos line col, peek (mkL (b :: r) pos line col) = Some b /\
                         fst (getc (mkL (b :: r) pos line col)) = Some b.
Proof. exact high_byte_classes. Qed.
Print Assumptions c17_high_byte_classes.

Theorem c17_lex_high_byte_regular : forall m (b : byte) (r : bytes) pos line col, 128 <= b -> regular_mode m ->
  lex m (mkL (b :: r) pos line col) = Ok (mkTok TkUnknown pos 1 line col, mkL r (S pos) line (col + 1)).
Proof. exact lex_high_byte_regular. Qed.
Print Assumptions c17_lex_high_byte_regular.

Theorem c17_lex_high_byte_string : forall m (b : byte) (r : bytes) pos line col, 128 <= b ->
  m = MPathString \/ m = MVariableString ->
  exists n s', lex m (mkL (b :: r) pos line col) = Ok (mkTok TkString pos (S n) line col, s').
Proof. exact lex_high_byte_string. Qed.
Print Assumptions c17_lex_high_byte_string.

(* lex_high_bytes_ordinary: for every mode sequence, a byte >= 128 the calls went over is inside a String token
   (string modes), an Unknown token of length 1, or inside a comment (modes without strings) *)
Theorem c17_lex_high_bytes_ordinary : forall modes data toks i b,
  lex_stream modes data = Ok toks -> nth_error data i = Some b -> 128 <= b -> (i < toks_end 0 toks)%nat ->
  exists m t, In (m, t) (combine modes toks) /\ (tk_start t <= i < tk_start t + tk_len t)%nat /\
    ((tk_kind t = TkString /\ (m = MPathString \/ m = MVariableString)) \/
     (tk_kind t = TkComment /\ regular_mode m /\ (tk_start t < i)%nat) \/
     (tk_kind t = TkUnknown /\ regular_mode m /\ tk_start t = i /\ tk_len t = 1%nat)).
Proof. exact lex_high_bytes_ordinary. Qed.
Print Assumptions c17_lex_high_bytes_ordinary.

Theorem c17_lex_all_high_bytes_in_strings : forall m data toks i b,
  lex_all m data = Ok toks -> m = MPathString \/ m = MVariableString -> nth_error data i = Some b -> 128 <= b ->
  exists t, In t toks /\ tk_kind t = TkString /\ (tk_start t <= i < tk_start t + tk_len t)%nat.
Proof. exact lex_all_high_bytes_in_strings. Qed.
Print Assumptions c17_lex_all_high_bytes_in_strings.

Theorem c17_lex_all_high_bytes_unknown : forall m data toks i b,
  lex_all m data = Ok toks -> regular_mode m -> nth_error data i = Some b -> 128 <= b ->
  exists t, In t toks /\ (tk_start t <= i < tk_start t + tk_len t)%nat /\
            ((tk_kind t = TkUnknown /\ tk_start t = i /\ tk_len t = 1%nat) \/ (tk_kind t = TkComment /\ (tk_start t < i)%nat)).
Proof. exact lex_all_high_bytes_unknown. Qed.
Print Assumptions c17_lex_all_high_bytes_unknown.

(* ================================ C17: keywords are recognised only as whole words ============================ *)

Theorem c17_lex_keywords_whole : forall data m s t s', at_data data s -> lex m s = Ok (t, s') ->
  (is_keyword (tk_kind t) = true -> m = MNone /\ In (token_slice data t, tk_kind t) keyword_table) /\
  (m = MNone -> forall k, In (token_slice data t, k) keyword_table -> tk_kind t = k) /\
  (is_identlike (tk_kind t) = true ->
     token_slice data t <> [] /\ Forall (fun b => is_ident_char b = true) (token_slice data t) /\
     ends_with (fun b => negb (is_ident_char b)) (token_after data t)).
Proof. exact lex_keywords_whole. Qed.
Print Assumptions c17_lex_keywords_whole.

Theorem c17_lex_no_keywords_outside_none : forall data m s t s', at_data data s -> lex m s = Ok (t, s') ->
  m <> MNone -> is_keyword (tk_kind t) = false.
Proof. exact lex_no_keywords_outside_none. Qed.
Print Assumptions c17_lex_no_keywords_outside_none.

(* whole words to the left as well, for every mode sequence *)
Theorem c17_lex_identifier_left_boundary : forall modes data toks t, lex_stream modes data = Ok toks -> In t toks ->
  is_identlike (tk_kind t) = true -> left_boundary data t.
Proof. exact lex_identifier_left_boundary. Qed.
Print Assumptions c17_lex_identifier_left_boundary.

(* the probe-table property holds of the model's lexer on EVERY input *)
Theorem c17_lex_first_token_kw_ok : forall ic, charclass_matches is_ident_char ic = true ->
  forall mc w t s', mc < 4 -> lex (mode_of_code mc) (init w) = Ok (t, s') ->
    kw_entry_ok ic (mc, w, kind_code (tk_kind t), N.of_nat (tk_len t)) = true.
Proof. exact lex_first_token_kw_ok. Qed.
Print Assumptions c17_lex_first_token_kw_ok.

(* hence every table whose entries the model reproduces satisfies the keyword property *)
Theorem c17_keywords_match_model_ok : forall ic tbl, charclass_matches is_ident_char ic = true ->
  forallb (fun e => let '(m, _, _, _) := e in m <? 4) tbl = true ->
  keywords_match_model tbl = true -> keywords_ok ic tbl = true.
Proof. exact keywords_match_model_ok. Qed.
Print Assumptions c17_keywords_match_model_ok.

(* Over the tables probed from the rebuilt code on this run (coq/gen/Gen_NinjaKeywords.v): *)
Definition probed_keywords : list (N * bytes * N * N) :=
  expand_keyword_table probed_keyword_singles probed_keyword_families.

(* the table is complete: all 256 byte values at every position of every keyword, both one-byte extensions, both
   truncations, in the modes None and IdentifierSpecific; the exact keywords in all four modes *)
Theorem c17_probed_keywords_cover :
  families_complete probed_keyword_families = true /\ probes_cover probed_keyword_singles probed_keyword_families = true.
Proof. split; vm_compute; reflexivity. Qed.
Print Assumptions c17_probed_keywords_cover.

(* the code's identifier characters are the model's (all 256 values) *)
Theorem c17_probed_identchars_are_the_models :
  charclass_matches is_ident_char probed_identchars = true /\
  charclass_matches is_simple_ident_char probed_simple_identchars = true.
Proof. split; vm_compute; reflexivity. Qed.
Print Assumptions c17_probed_identchars_are_the_models.

(* the code's answers on the whole table satisfy the keyword property (checked against the keyword table and the
   probed identifier characters only, the lexer model is not involved) *)
Theorem c17_probed_keywords_ok : keywords_ok probed_identchars probed_keywords = true.
Proof. vm_compute. reflexivity. Qed.
Print Assumptions c17_probed_keywords_ok.

(* and the model answers every probed input as the code did *)
Theorem c17_probed_keywords_match_model : keywords_match_model probed_keywords = true.
Proof. vm_compute. reflexivity. Qed.
Print Assumptions c17_probed_keywords_match_model.

(* ================================ C17: shell quoting ========================================================== *)

(* shell_roundtrip, for every whitelist without shell metacharacters *)
Theorem c17_shell_roundtrip : forall wl p, whitelist_ok wl = true -> p <> [] -> ~ In 0 p ->
  sh_words (shell_escaped_gen wl p) = Some [p].
Proof. exact shell_roundtrip. Qed.
Print Assumptions c17_shell_roundtrip.

Theorem c17_shell_roundtrip_current : forall p, p <> [] -> ~ In 0 p -> sh_words (shell_escaped p) = Some [p].
Proof. exact shell_roundtrip_current. Qed.
Print Assumptions c17_shell_roundtrip_current.

(* the side conditions are needed *)
Theorem c17_shell_roundtrip_empty_refuted :
  exists p, p = [] /\ sh_words (shell_escaped p) = Some [] /\ sh_words (shell_escaped p) <> Some [p].
Proof. exact shell_roundtrip_empty_refuted. Qed.
Print Assumptions c17_shell_roundtrip_empty_refuted.

Theorem c17_shell_roundtrip_nul_refuted : exists p, In 0 p /\ sh_words (shell_escaped p) = None.
Proof. exact shell_roundtrip_nul_refuted. Qed.
Print Assumptions c17_shell_roundtrip_nul_refuted.

Theorem c17_whitelist_with_hash_refuted : exists p, p <> [] /\ ~ In 0 p /\
  shell_escaped_gen (35 :: whitelist) p = p /\ sh_words (shell_escaped_gen (35 :: whitelist) p) = Some [].
Proof. exact whitelist_with_hash_refuted. Qed.
Print Assumptions c17_whitelist_with_hash_refuted.

Theorem c17_whitelist_with_tilde_refuted : exists p, p <> [] /\ ~ In 0 p /\
  shell_escaped_gen (126 :: whitelist) p = p /\ sh_words (shell_escaped_gen (126 :: whitelist) p) = None.
Proof. exact whitelist_with_tilde_refuted. Qed.
Print Assumptions c17_whitelist_with_tilde_refuted.

Theorem c17_whitelist_ok_necessary : forall wl b, In b wl -> b <> 0 -> sh_meta b = true ->
  shell_escaped_gen wl [b] = [b] /\ sh_words (shell_escaped_gen wl [b]) <> Some [[b]].
Proof. exact whitelist_ok_necessary. Qed.
Print Assumptions c17_whitelist_ok_necessary.

(* shell_escaped_safe_chars *)
Theorem c17_shell_escaped_safe_chars : forall wl p,
  shell_escaped_gen wl p = p <-> forallb (fun b => mem_byte b wl) p = true.
Proof. exact shell_escaped_safe_chars. Qed.
Print Assumptions c17_shell_escaped_safe_chars.

Theorem c17_shell_escaped_quoted : forall wl p, forallb (fun b => mem_byte b wl) p = false ->
  exists mid, shell_escaped_gen wl p = 39 :: mid ++ [39].
Proof. exact shell_escaped_quoted. Qed.
Print Assumptions c17_shell_escaped_quoted.

Theorem c17_shell_escaped_gen_ext : forall wl1 wl2, whitelist_same wl1 wl2 = true ->
  forall s, shell_escaped_gen wl1 s = shell_escaped_gen wl2 s.
Proof. exact shell_escaped_gen_ext. Qed.
Print Assumptions c17_shell_escaped_gen_ext.

Theorem c17_shell_roundtrip_probed : forall pw p, whitelist_same pw whitelist = true -> p <> [] -> ~ In 0 p ->
  shell_escaped_gen pw p = shell_escaped p /\ sh_words (shell_escaped_gen pw p) = Some [p].
Proof. exact shell_roundtrip_probed. Qed.
Print Assumptions c17_shell_roundtrip_probed.

(* Over the whitelist probed from the rebuilt code on this run (coq/gen/Gen_ShellWhitelist.v): *)

(* no byte that shellEscaped leaves unquoted is a shell metacharacter
   ( | & ; < > ( ) $ ` \ double-quote single-quote space tab newline * ? [ NUL anywhere, # ~ at the start of a word ) *)
Theorem c17_probed_whitelist_ok : whitelist_ok probed_whitelist = true.
Proof. vm_compute. reflexivity. Qed.
Print Assumptions c17_probed_whitelist_ok.

Theorem c17_probed_whitelist_is_the_models : whitelist_same probed_whitelist whitelist = true.
Proof. vm_compute. reflexivity. Qed.
Print Assumptions c17_probed_whitelist_is_the_models.

Theorem c17_probed_shell_single_bytes : map (fun b => shell_escaped [b]) all_bytes = probed_shell_single.
Proof. vm_compute. reflexivity. Qed.
Print Assumptions c17_probed_shell_single_bytes.

(* hence the round trip for the function with the whitelist the code uses now *)
Theorem c17_shell_roundtrip_probed_whitelist : forall p, p <> [] -> ~ In 0 p ->
  sh_words (shell_escaped_gen probed_whitelist p) = Some [p].
Proof. intros p. apply shell_roundtrip. exact c17_probed_whitelist_ok. Qed.
Print Assumptions c17_shell_roundtrip_probed_whitelist.

End Lex.

(* ---------------------------------------------------------------- parser part (bytes -> declarations; composition with the loader) *)
Module Parse.
From LLB Require Import Base.Bytes Parse.NinjaLex Parse.NinjaLexProofs Parse.NinjaEval Parse.NinjaEvalProofs
  Parse.NinjaParse Parse.NinjaParseProofs Parse.NinjaParseProofsEx.
Local Open Scope N_scope.


(* getNextNonCommentToken never runs out of fuel, from any parser state *)
Theorem ninjaparse_next_total : forall p, exists p', next p = Ok p'.
Proof. exact next_total. Qed.
Print Assumptions ninjaparse_next_total.

(* parse_total: for EVERY byte string the parser model terminates within its fuel ([parse_fuel data] =
   S (S (length data)) rounds of the loop of Parser::parse; S (S (unread bytes)) rounds of every inner loop):
   OutOfFuel is unreachable *)
Theorem ninjaparse_parse_tokens_total : forall data, exists ds, parse_tokens data = Ok ds.
Proof. exact parse_tokens_total. Qed.
Print Assumptions ninjaparse_parse_tokens_total.

Theorem ninjaparse_parse_total : forall data, exists ds, parse data = Ok ds.
Proof. exact parse_total. Qed.
Print Assumptions ninjaparse_parse_total.

Theorem ninjaparse_skip_past_eol_total : forall p, exists p', skip_past_eol p = Ok p'.
Proof. exact skip_past_eol_total. Qed.
Print Assumptions ninjaparse_skip_past_eol_total.

(* one parseDecl call: total, consumes input (strictly unless it stops at EndOfFile), and re-establishes the lexing
   mode None that `assert(lexer.getMode() == Lexer::LexingMode::None)` demands at the head of the loop *)
Theorem ninjaparse_parse_decl_total : forall p, p_mode p = MNone ->
  exists ds p', parse_decl p = Ok (ds, p') /\ p_mode p' = MNone /\
    (unread (p_lex p') <= unread (p_lex p))%nat /\
    (cur_kind p' <> TkEndOfFile -> (unread (p_lex p') < unread (p_lex p))%nat).
Proof. exact parse_decl_total. Qed.
Print Assumptions ninjaparse_parse_decl_total.

(* ================================ token bounds ================================ *)

(* every Token handed to an action, and the `at` token of every error call, lies inside the buffer
   ([in_buf data t] : tk_start t + tk_len t <= length data; [tdecl_P Q d] : every token of d satisfies Q) *)
Theorem ninjaparse_parse_tokens_in_buffer : forall data ds,
  parse_tokens data = Ok ds -> Forall (tdecl_P (in_buf data)) ds.
Proof. exact parse_tokens_in_buffer. Qed.
Print Assumptions ninjaparse_parse_tokens_in_buffer.

(* parse_tokens_in_bounds: every token text handed to the actions is a slice of the input
   ([is_slice data x] : exists a b, a <= b <= length data /\ x = slice data a b /\ length x = b - a) *)
Theorem ninjaparse_parse_tokens_in_bounds : forall data ds d x,
  parse data = Ok ds -> In d ds -> In x (decl_texts d) -> is_slice data x.
Proof. exact parse_tokens_in_bounds. Qed.
Print Assumptions ninjaparse_parse_tokens_in_bounds.

(* ================================ no silent drop, recovery ================================ *)

(* the recovery rule: skipPastEOL drops tokens (lexed in the current mode, comments included) up to the next Newline
   or EndOfFile token, consumes that, and stops at the first token behind it that is not a comment *)
Theorem ninjaparse_skip_past_eol_rule : forall p p', skip_past_eol p = Ok p' ->
  exists t s, lex_to_eol (p_mode p) (p_tok p) (p_lex p) t s /\
              lex_past_comments (p_mode p) s (p_tok p') (p_lex p') /\ p_mode p' = p_mode p.
Proof. exact skip_past_eol_rule. Qed.
Print Assumptions ninjaparse_skip_past_eol_rule.

(* ... and the rule determines the state after recovery *)
Theorem ninjaparse_skip_past_eol_exact : forall p t s t' s',
  lex_to_eol (p_mode p) (p_tok p) (p_lex p) t s -> lex_past_comments (p_mode p) s t' s' ->
  skip_past_eol p = Ok (mkP t' s' (p_mode p)).
Proof. exact skip_past_eol_exact. Qed.
Print Assumptions ninjaparse_skip_past_eol_exact.

(* parse_error_or_decl: a parseDecl call on a blank line only consumes the Newline; on any other token it makes
   exactly one top-level call, a declaration or an error; after an error it has recovered from the state at which the
   error was raised (current token = the error's token, mode None) by skipPastEOL - repeated while the next line is
   indented when a build / pool / rule specifier failed *)
Theorem ninjaparse_parse_error_or_decl : forall p ds p', p_mode p = MNone -> parse_decl p = Ok (ds, p') ->
  (cur_kind p = TkNewline /\ ds = [] /\ next p = Ok p') \/
  (cur_kind p <> TkNewline /\ exists d, ds = [d] /\
     forall c a, d = TDPErr c a ->
       exists pe, raised_at pe a /\
         if is_block_kw (cur_kind p) then skip_lines pe p' else skip_past_eol pe = Ok p').
Proof. exact parse_error_or_decl. Qed.
Print Assumptions ninjaparse_parse_error_or_decl.

(* a failing binding (top-level or indented) reports one error and recovers by skipPastEOL from the offending token *)
Theorem ninjaparse_binding_error_recovery : forall p c a p', parse_binding_internal p = Ok (BRErr c a, p') ->
  exists pe, raised_at pe a /\ skip_past_eol pe = Ok p'.
Proof. exact binding_error_recovery. Qed.
Print Assumptions ninjaparse_binding_error_recovery.

(* every indented line of a block: blank -> skipped; anything else -> exactly one item (binding or error) *)
Theorem ninjaparse_block_line_item : forall f p l p', block_loop (S f) p = Ok (l, p') -> cur_kind p = TkIndentation ->
  exists p1, next (set_mode MIdentifierSpecific p) = Ok p1 /\
    ((cur_kind p1 = TkNewline /\ exists p2, next (set_mode MNone p1) = Ok p2 /\ block_loop f p2 = Ok (l, p')) \/
     (cur_kind p1 <> TkNewline /\ exists r p2 l', parse_binding_internal p1 = Ok (r, p2) /\
        l = tbitem_of_bres r :: l' /\ block_loop f p2 = Ok (l', p'))).
Proof. exact block_line_item. Qed.
Print Assumptions ninjaparse_block_line_item.

(* ================================ parser + loader ================================ *)

(* parse_load_total: bytes -> parser model -> loader model (NinjaEval.load) never runs out of fuel, for any byte
   strings as files, with the loader's include depth (64) and recursive-include guards *)
Theorem ninjaparse_parse_load_total : forall fuel wd raw main, (max_include_depth <= fuel)%nat ->
  exists m, parse_load fuel wd raw main = Ok m /\ has_out_of_fuel (mf_errors m) = false.
Proof. exact parse_load_total. Qed.
Print Assumptions ninjaparse_parse_load_total.

(* ================================ the model on the repository's parser tests ================================ *)

(* the five manifests of /repo/tests/Ninja/Parser (bytes and expected action lists in Parse/NinjaParseProofsEx.v) parse,
   by computation of the lexer + parser models, to the action lists the real parser makes on them *)
Theorem ninjaparse_repo_tests_parse :
  parse basic_bytes = Ok basic_ast /\
  parse identifier_names_bytes = Ok identifier_names_ast /\
  parse identifier_specific_parsing_bytes = Ok identifier_specific_parsing_ast /\
  parse path_string_parsing_bytes = Ok path_string_parsing_ast /\
  parse variable_string_parsing_bytes = Ok variable_string_parsing_ast.
Proof.
  exact (conj basic_parses (conj identifier_names_parses (conj identifier_specific_parsing_parses
        (conj path_string_parsing_parses variable_string_parsing_parses)))).
Qed.
Print Assumptions ninjaparse_repo_tests_parse.

End Parse.
