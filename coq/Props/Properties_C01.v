(* C01 - an incremental build returns exactly the value a brand-new engine computes.
   Only theorem statements; each is closed by [exact <lemma>] and followed by Print Assumptions.
   Model: Engine/Spec.v (specification engine [ensure]/[build]/[cv]), Engine/Exec.v (histories).
   Hypotheses carried by the theorems (all explicit premises):
     wf_rank rules rank : every key a rule mentions (requests, single-use, must-follow, BOTH branch lists, discovered)
                          has strictly smaller rank (the rule graph is acyclic);
     wf_disc rules      : discovered dependencies are rules that observe external state (r_obs = true);
     wf_order order     : the dependency-order oracle returns a permutation of the requested list;
     (rank k < fuel)    : the fuel suffices for the key that is built;
     AtRest rules F s   : the environment-free invariant of states between builds (bounds, memory/database
                          agreement, and the per-row consistency INV); it holds of [init_state] and is preserved by
                          every history operation.
   The task function F, the environment env and the oracle are universally quantified. *)
From Coq Require Import List NArith Arith.
From LLB Require Import Engine.Rules Engine.Spec Engine.Exec Engine.SpecFrame Engine.SpecInv1 Engine.SpecC01.
Local Open Scope N_scope.

(* a successful build of k from any state satisfying the invariant returns the clean value of k *)
Theorem c01_incremental_eq_clean : forall rules env F order rank,
  wf_rank rules rank -> wf_disc rules -> wf_order order ->
  forall fuel s k s', (rank k < fuel)%nat -> AtRest rules F s ->
  build rules env F order fuel s k = Ok s' -> result_of s' k = cv rules env F fuel k.
Proof. exact c01_incremental_eq_clean_thm. Qed.
Print Assumptions c01_incremental_eq_clean.

(* ... and leaves a state satisfying the invariant *)
Theorem c01_build_preserves : forall rules env F order rank,
  wf_rank rules rank -> wf_disc rules -> wf_order order ->
  forall fuel s k s', (rank k < fuel)%nat -> AtRest rules F s ->
  build rules env F order fuel s k = Ok s' -> AtRest rules F s'.
Proof. exact c01_build_preserves_thm. Qed.
Print Assumptions c01_build_preserves.

(* literally "a brand-new engine with no history" *)
Theorem c01_fresh : forall rules env F order rank,
  wf_rank rules rank -> wf_disc rules -> wf_order order ->
  forall fuel k s', (rank k < fuel)%nat ->
  build rules env F order fuel init_state k = Ok s' -> result_of s' k = cv rules env F fuel k.
Proof. exact c01_fresh_thm. Qed.
Print Assumptions c01_fresh.

(* under the rank hypothesis a build neither reports a cycle nor runs out of fuel *)
Theorem c01_no_cycle_when_ranked : forall rules env F order rank,
  wf_rank rules rank -> wf_disc rules -> wf_order order ->
  forall fuel s k, (rank k < fuel)%nat -> AtRest rules F s ->
  exists s', build rules env F order fuel s k = Ok s'.
Proof. exact c01_no_cycle_when_ranked_thm. Qed.
Print Assumptions c01_no_cycle_when_ranked.

(* every value handed to a task during the build is the current clean value of that input *)
Theorem c01_inputs_current : forall rules env F order rank,
  wf_rank rules rank -> wf_disc rules -> wf_order order ->
  forall fuel s k s', (rank k < fuel)%nat -> AtRest rules F s ->
  build rules env F order fuel s k = Ok s' ->
  exists l, st_log s' = l ++ st_log s /\
    forall k0 slot d v f, In (EProvide k0 slot d v) l -> (rank d < f)%nat -> v = cv rules env F f d.
Proof. exact c01_inputs_current_thm. Qed.
Print Assumptions c01_inputs_current.
