(* C01 - an incremental build returns exactly the value a brand-new engine computes.
   Only theorem statements; each is closed by [exact <lemma>] and followed by Print Assumptions.
   Model: Engine/Spec.v (specification engine [ensure]/[build]/[cv]), Engine/Exec.v (histories).
   Hypotheses carried by the theorems (all explicit premises):
     wf_rank rules rank : every key a rule mentions (requests, single-use, must-follow, BOTH branch lists, discovered)
                          has strictly smaller rank (the rule graph is acyclic);
     wf_disc rules      : discovered dependencies are rules that observe external state (r_obs = true);
     wf_order order     : the dependency-order oracle returns a permutation of the requested list;
     (rank k < fuel)    : the fuel suffices for the key that is built;
     table_ok rules R   : R k sg is THE rule of key k with signature sg, and the table agrees with it
                          (R k (r_sig (rules k)) = rules k); for a fixed rule table take R := fixedR rules,
                          for which table_ok holds trivially (fixedR_ok);
     AtRest F R s       : the environment-free invariant of states between builds (bounds, memory/database
                          agreement, and the per-row consistency INV relative to R); it holds of [init_state] and
                          is preserved by every history operation.
   The task function F, the environment env and the oracle are universally quantified. *)
From Coq Require Import List NArith Arith.
From LLB Require Import Engine.Rules Engine.Spec Engine.Exec Engine.SpecFrame Engine.SpecInv1 Engine.SpecC01.
Local Open Scope N_scope.

(* a successful build of k from any state satisfying the invariant returns the clean value of k *)
Theorem c01_incremental_eq_clean : forall rules env F order rank R,
  table_ok rules R -> wf_rank rules rank -> wf_disc rules -> wf_order order ->
  forall fuel s k s', (rank k < fuel)%nat -> AtRest F R s ->
  build rules env F order fuel s k = Ok s' -> result_of s' k = cv rules env F fuel k.
Proof. exact c01_incremental_eq_clean_thm. Qed.
Print Assumptions c01_incremental_eq_clean.

(* ... and leaves a state satisfying the invariant *)
Theorem c01_build_preserves : forall rules env F order rank R,
  table_ok rules R -> wf_rank rules rank -> wf_disc rules -> wf_order order ->
  forall fuel s k s', (rank k < fuel)%nat -> AtRest F R s ->
  build rules env F order fuel s k = Ok s' -> AtRest F R s'.
Proof. exact c01_build_preserves_thm. Qed.
Print Assumptions c01_build_preserves.

(* literally "a brand-new engine with no history" *)
Theorem c01_fresh : forall rules env F order rank,
  wf_rank rules rank -> wf_disc rules -> wf_order order ->
  forall fuel k s', (rank k < fuel)%nat ->
  build rules env F order fuel init_state k = Ok s' -> result_of s' k = cv rules env F fuel k.
Proof. exact c01_fresh_plain. Qed.
Print Assumptions c01_fresh.

(* under the rank hypothesis a build neither reports a cycle nor runs out of fuel *)
Theorem c01_no_cycle_when_ranked : forall rules env F order rank R,
  table_ok rules R -> wf_rank rules rank -> wf_disc rules -> wf_order order ->
  forall fuel s k, (rank k < fuel)%nat -> AtRest F R s ->
  exists s', build rules env F order fuel s k = Ok s'.
Proof. exact c01_no_cycle_when_ranked_thm. Qed.
Print Assumptions c01_no_cycle_when_ranked.

(* every value handed to a task during the build is the current clean value of that input *)
Theorem c01_inputs_current : forall rules env F order rank R,
  table_ok rules R -> wf_rank rules rank -> wf_disc rules -> wf_order order ->
  forall fuel s k s', (rank k < fuel)%nat -> AtRest F R s ->
  build rules env F order fuel s k = Ok s' ->
  exists l, st_log s' = l ++ st_log s /\
    forall k0 slot d v f, In (EProvide k0 slot d v) l -> (rank d < f)%nat -> v = cv rules env F f d.
Proof. exact c01_inputs_current_thm. Qed.
Print Assumptions c01_inputs_current.

(* ---- histories (Exec.v) over a fixed rule table ---- *)

(* the invariant holds of the initial state ... *)
Theorem c01_init : forall F R, AtRest F R init_state.
Proof. exact AtRest_init. Qed.
Print Assumptions c01_init.

(* ... does not mention the environment (so [OSet] preserves it trivially), and is preserved by a new engine
   instance with or without the database *)
Theorem c01_restart : forall F R s, AtRest F R s -> AtRest F R (restart s).
Proof. exact AtRest_restart. Qed.
Print Assumptions c01_restart.

Theorem c01_restart_nodb : forall F R s, AtRest F R (restart_nodb s).
Proof. exact AtRest_restart_nodb. Qed.
Print Assumptions c01_restart_nodb.

(* every operation of a history without rule edits preserves the invariant (HInv: the engine sees table tbl, no edit
   is pending, AtRest holds); builds of keys whose rank is below the fuel *)
Theorem c01_history : forall F order fuel rank tbl,
  wf_rank (rules_of tbl) rank -> wf_disc (rules_of tbl) -> wf_order order ->
  forall ops h, Forall no_rule_op ops -> Forall (build_ranked rank fuel) ops ->
  HInv tbl F h -> HInv tbl F (fold_left (hstep F order fuel) ops h).
Proof. exact c01_history_thm. Qed.
Print Assumptions c01_history.

(* hence after ANY such history a build returns (and logs as its result) the clean value of the key in the external
   state of that moment *)
Theorem c01_every_build_clean : forall F order fuel rank tbl,
  wf_rank (rules_of tbl) rank -> wf_disc (rules_of tbl) -> wf_order order ->
  forall ops k h0, Forall no_rule_op ops -> Forall (build_ranked rank fuel) ops ->
  HInv tbl F h0 -> (rank k < fuel)%nat ->
  let h := fold_left (hstep F order fuel) ops h0 in
  exists s1, h_st (hstep F order fuel h (OBuild k)) =
             emit s1 (EResult (cv (rules_of tbl) (env_of (h_env h)) F fuel k) false).
Proof. exact c01_every_build_clean_thm. Qed.
Print Assumptions c01_every_build_clean.

(* the same from the very beginning: define the rules, start an engine (with or without database), then any history *)
Theorem c01_run_history : forall F order fuel rank defs db ops k,
  wf_rank (rules_of (rev defs)) rank -> wf_disc (rules_of (rev defs)) -> wf_order order ->
  Forall no_rule_op ops -> Forall (build_ranked rank fuel) ops -> (rank k < fuel)%nat ->
  let h := run_history F order fuel (rule_ops defs ++ ORestart db :: ops) in
  exists s1, h_st (run_history F order fuel (rule_ops defs ++ ORestart db :: ops ++ [OBuild k])) =
             emit s1 (EResult (cv (rules_of (rev defs)) (env_of (h_env h)) F fuel k) false).
Proof. exact c01_run_history_thm. Qed.
Print Assumptions c01_run_history.

(* ---- non-vacuity: 8 rules with a branch, a must-follow, a single-use and a discovered edge; a 13-operation history
   with 6 builds, external changes and a restart over the database ---- *)
Example c01_example_hyps :
  wf_rank (rules_of (rev ex_defs)) ex_rank /\ wf_disc (rules_of (rev ex_defs)) /\ wf_order ex_order /\
  Forall no_rule_op ex_ops /\ Forall (build_ranked ex_rank 5) ex_ops.
Proof. exact (conj ex_wf_rank (conj ex_wf_disc (conj ex_wf_order ex_ops_ok))). Qed.
Print Assumptions c01_example_hyps.

Example c01_example_builds_clean : ex_build_checks = [true; true; true; true; true; true].
Proof. exact ex_history_clean. Qed.
Print Assumptions c01_example_builds_clean.

(* ---- histories WITH rule edits (ORule takes effect at the next ORestart) ----
   R k sg is the one rule of key k with signature sg; the premise "two different rules for the same key never share a
   signature" enters as [table_ok (rules_of tbl) R] for every table tbl an engine instance is started with.
   [tables_ok fuel R ops rl pd] states, over the rule tables only, that at every OBuild k of the history the table the
   engine sees satisfies table_ok, wf_disc and wf_rank for some rank with rank k < fuel. *)
Theorem c01_history_with_rule_edits : forall F order fuel R, wf_order order ->
  forall ops h, AtRest F R (h_st h) -> hist_ok F order fuel R ops h ->
  AtRest F R (h_st (fold_left (hstep F order fuel) ops h)).
Proof. exact c01_history_with_rule_edits_thm. Qed.
Print Assumptions c01_history_with_rule_edits.

Theorem c01_run_history_with_rule_edits : forall F order fuel R, wf_order order ->
  forall ops k, tables_ok fuel R (ops ++ [OBuild k]) [] [] ->
  let h := run_history F order fuel ops in
  AtRest F R (h_st h) /\
  exists s1, h_st (run_history F order fuel (ops ++ [OBuild k])) =
             emit s1 (EResult (cv (rules_of (h_rules h)) (env_of (h_env h)) F fuel k) false).
Proof. exact c01_run_history_with_rule_edits_thm. Qed.
Print Assumptions c01_run_history_with_rule_edits.

(* R can be built from the list of all rules ever defined when their (key, signature) pairs are pairwise distinct and
   no signature is 0 (the signature of the default rule of undefined keys) *)
Theorem c01_R_of_table_ok : forall all tbl,
  (forall p, In p all -> r_sig (snd p) <> 0) -> sig_unique all -> (forall p, In p tbl -> In p all) ->
  table_ok (rules_of tbl) (R_of all).
Proof. exact R_of_table_ok. Qed.
Print Assumptions c01_R_of_table_ok.

(* non-vacuity: the example history continued by an edit of rule 4, a restart over the database and three builds *)
Example c01_example_edit_hyps : wf_order ex_order /\ tables_ok 5 (R_of ex_all) ex_edit_history [] [].
Proof. exact (conj ex_wf_order ex_edit_tables_ok). Qed.
Print Assumptions c01_example_edit_hyps.

Example c01_example_edit_builds_clean : ex_edit_checks = [true; true; true; true; true; true; true; true; true].
Proof. exact ex_edit_history_clean. Qed.
Print Assumptions c01_example_edit_builds_clean.

(* ---- frame facts used above (Engine/SpecFrame.v), for the record ---- *)
Theorem c01_ensure_frame : forall rules env F order fuel stack s k,
  frame_o stack s k (ensure rules env F order fuel stack s k).
Proof. exact ensure_frame. Qed.
Print Assumptions c01_ensure_frame.

Theorem c01_ensure_fuel_mono : forall rules env F order f f' stack s k, (f <= f')%nat ->
  ensure rules env F order f stack s k <> OutOfFuel ->
  ensure rules env F order f' stack s k = ensure rules env F order f stack s k.
Proof. exact ensure_fuel_mono. Qed.
Print Assumptions c01_ensure_fuel_mono.
