(* C08 - on-disk outputs after any incremental build equal a clean build's: the rule-level facts (PARTIAL by design:
   the world invariant over the real file system is sampled at the CLI by harness/py/props/c08.py; the general
   incremental half rests on the engine-level theorem).
   Only theorem statements; each is closed by [exact <lemma>] and followed by Print Assumptions. *)
From LLB Require Import Base.Bytes Codec.Codec Codec.FileObs BSys.Sig BSys.RulesBS BSys.RulesBSProofs.
Local Open Scope N_scope.

(* ---------- c08_rules_meet_c01: what re-running a rule with a valid stored value does ---------- *)

(* Shell commands (deterministic function F of the input contents).  If the outputs already hold what the command
   computes from its inputs' current contents, running it again (same input values, no skip, not
   allow-modified-outputs) rewrites the outputs with the SAME content: no path changes content, paths other than
   the outputs are untouched, the world invariant for the command still holds, the re-recorded value is valid - but
   every non-virtual output carries a new stamp. *)
Theorem c08_rules_meet_c01 : forall F d e w c prior ins,
  cm_tool c = TShell -> wf_world w ->
  existsb is_unreachable (map (classify_input (c_allow_missing_inputs (cm_def c))) ins) = false ->
  existsb is_skip (map (classify_input (c_allow_missing_inputs (cm_def c))) ins) = false ->
  c_allow_modified_outputs (cm_def c) = false -> c_always_out_of_date (cm_def c) = false ->
  shell_outputs_hold F w c ->
  exists w',
    run_external F e w c prior ins = Some (w', command_result e w' (cm_outputs c), true) /\
    same_content w w' /\ wf_world w' /\ shell_outputs_hold F w' c /\
    cmd_valid d w' c (command_result e w' (cm_outputs c)) = Valid /\
    (forall p, (forall o, In o (cm_outputs c) -> node_virtual o = false -> o <> p) -> w_fs w' p = w_fs w p) /\
    (forall o, In o (cm_outputs c) -> node_virtual o = false -> info_eqb (stat_w w o) (stat_w w' o) = false).
Proof. exact shell_rerun. Qed.
Print Assumptions c08_rules_meet_c01.

(* ... so the value stored before (valid until then) is NOT valid afterwards: v' <> v as soon as the command has a
   non-virtual, non-mutated output; the recorded stamps change. *)
Theorem c08_rules_meet_c01_value_changes : forall d w w' c v o,
  cm_tool c = TShell -> cmd_valid d w c v = Valid ->
  In o (cm_outputs c) -> node_virtual o = false -> is_mutated d o = false ->
  info_eqb (stat_w w o) (stat_w w' o) = false ->
  cmd_valid d w' c v = Invalid.
Proof. exact shell_rerun_changes_value. Qed.
Print Assumptions c08_rules_meet_c01_value_changes.

(* ... and dependents compare the producer's VALUE: the node of such an output gets a value that is not equivalent
   to its previous one (ExistingInput with the new stamp), so the engine sees computedAt move and runs the
   consumers again (they recompute the same content: the cone re-runs, over-approximating but never stale). *)
Theorem c08_rules_meet_c01_dependents : forall d e0 w0 e w w' c o,
  cm_tool c = TShell -> cmd_valid d w c (command_result e0 w0 (cm_outputs c)) = Valid ->
  (forall o', In o' (cm_outputs c) -> is_mutated d o' = false) ->
  In o (cm_outputs c) -> node_virtual o = false ->
  is_missing (stat_w w o) = false -> is_missing (stat_w w' o) = false ->
  info_eqb (stat_w w o) (stat_w w' o) = false ->
  exists a b, result_for_output c o (command_result e0 w0 (cm_outputs c)) = Some a /\
              result_for_output c o (command_result e w' (cm_outputs c)) = Some b /\
              value_equiv a b = false.
Proof. exact shell_rerun_dependents_see_change. Qed.
Print Assumptions c08_rules_meet_c01_dependents.

(* a command all of whose outputs are virtual writes nothing and records the same value every time (v' = v) *)
Theorem c08_rules_meet_c01_virtual_only : forall F c ins outs j w e1 w1 e2 w2,
  outs <> [] -> forallb node_virtual outs = true ->
  write_outputs F c ins outs j w = w /\ command_result e1 w1 outs = command_result e2 w2 outs.
Proof. exact virtual_only_rerun. Qed.
Print Assumptions c08_rules_meet_c01_virtual_only.

(* phony: nothing is written; a valid recorded value is re-recorded as an equivalent value *)
Theorem c08_rules_meet_c01_phony : forall F d e0 w0 e w c prior ins,
  cm_tool c = TPhony -> cm_outputs c <> [] ->
  existsb is_unreachable (map (classify_input (c_allow_missing_inputs (cm_def c))) ins) = false ->
  existsb is_skip (map (classify_input (c_allow_missing_inputs (cm_def c))) ins) = false ->
  c_allow_modified_outputs (cm_def c) = false ->
  (forall o, In o (cm_outputs c) -> is_mutated d o = false) ->
  cmd_valid d w c (command_result e0 w0 (cm_outputs c)) = Valid ->
  run_external F e w c prior ins = Some (w, command_result e w (cm_outputs c), true) /\
  value_equiv (command_result e w (cm_outputs c)) (command_result e0 w0 (cm_outputs c)) = true.
Proof. exact phony_rerun. Qed.
Print Assumptions c08_rules_meet_c01_phony.

(* mkdir: valid means the directory exists; running again leaves the world as it is and re-records a valid value
   (its stamp may differ from the stored one: validity ignores it by design) *)
Theorem c08_rules_meet_c01_mkdir : forall F d e w c v prior ins,
  cm_tool c = TMkdir -> cmd_valid d w c v = Valid ->
  existsb is_unreachable (map (classify_input (c_allow_missing_inputs (cm_def c))) ins) = false ->
  existsb is_skip (map (classify_input (c_allow_missing_inputs (cm_def c))) ins) = false ->
  c_allow_modified_outputs (cm_def c) = false ->
  run_external F e w c prior ins = Some (w, command_result e w (cm_outputs c), true) /\
  cmd_valid d w c (command_result e w (cm_outputs c)) = Valid.
Proof. exact mkdir_rerun. Qed.
Print Assumptions c08_rules_meet_c01_mkdir.

(* symlink: the link is always created anew: same target (same content if it already pointed there), new stamp,
   nothing else touched, the re-recorded value is valid *)
Theorem c08_rules_meet_c01_symlink : forall d w c,
  cm_tool c = TSymlink -> wf_world w ->
  forall o, hd_error (cm_outputs c) = Some o -> o <> [] ->
  exists w' v',
    run_symlink w c = (w', v', true) /\ wf_world w' /\
    content_w w' o = Some (cm_contents c) /\
    (forall p, p <> o -> w_fs w' p = w_fs w p) /\
    info_eqb (stat_w w o) (stat_w w' o) = false /\
    cmd_valid d w' c v' = Valid /\
    (content_w w o = Some (cm_contents c) -> same_content w w').
Proof. exact symlink_rerun. Qed.
Print Assumptions c08_rules_meet_c01_symlink.

(* file input nodes: the task only stats; a valid stored value is re-observed as an equivalent value *)
Theorem c08_rules_meet_c01_file_input : forall w0 w n,
  wf_world w0 -> wf_world w ->
  file_valid w n (run_file_input w0 n) = true -> value_equiv (run_file_input w n) (run_file_input w0 n) = true.
Proof. exact file_input_rerun. Qed.
Print Assumptions c08_rules_meet_c01_file_input.

(* virtual input nodes: valid iff the stored value is VirtualInput, which is what the task completes with *)
Theorem c08_rules_meet_c01_virtual_input : forall v,
  kind_is v VVirtualInput = true -> bv_infos v = [] -> value_equiv (v_simple VVirtualInput) v = true.
Proof. exact virtual_input_rerun. Qed.
Print Assumptions c08_rules_meet_c01_virtual_input.

(* produced nodes: validity does not look at the world, and the value is a function of the producer's value that
   respects equivalence *)
Theorem c08_rules_meet_c01_produced_node : forall c n v1 v2,
  value_equiv v1 v2 = true -> opt_equiv (result_for_output c n v1) (result_for_output c n v2).
Proof. exact produced_value_congruent. Qed.
Print Assumptions c08_rules_meet_c01_produced_node.

Theorem c08_rules_meet_c01_produced_valid : forall d w1 w2 n v ps,
  lookup_rule d (KN n) = RProduced n ps -> rule_valid d w1 (KN n) v = rule_valid d w2 (KN n) v.
Proof. exact produced_valid_world_independent. Qed.
Print Assumptions c08_rules_meet_c01_produced_valid.

(* targets (and missing commands) are never valid: they run in every build and write nothing *)
Theorem c08_rules_meet_c01_target : forall d w t v, rule_valid d w (KT t) v = Invalid.
Proof. exact target_never_valid. Qed.
Print Assumptions c08_rules_meet_c01_target.

(* ---------- c08_tamper_detected ---------- *)

Theorem c08_tamper_detected : forall d w w' c v o,
  cmd_valid d w c v = Valid -> In o (cm_outputs c) -> node_virtual o = false ->
  match cm_tool c with
  | TShell | TPhony => tampered d w w' o
  | TMkdir => o = hd [] (cm_outputs c) /\ (is_missing (stat_w w' o) = true \/ fi_is_dir (stat_w w' o) = false)
  | TSymlink => o = hd [] (cm_outputs c) /\ info_eqb (stat_w w o) (stat_w w' o) = false
  end ->
  cmd_valid d w' c v = Invalid.
Proof. exact tamper_detected. Qed.
Print Assumptions c08_tamper_detected.

(* the two tamperings of the property text produce [tampered]: overwriting with a stamp not older than the clock
   (non-mutated output), deleting an existing output (any output) *)
Theorem c08_tamper_overwrite : forall d w o content s,
  wf_world w -> observable w s -> is_mutated d o = false -> tampered d w (put w o content s) o.
Proof. exact tamper_overwrite. Qed.
Print Assumptions c08_tamper_overwrite.

Theorem c08_tamper_delete : forall d w o, is_missing (stat_w w o) = false -> tampered d w (del w o) o.
Proof. exact tamper_delete. Qed.
Print Assumptions c08_tamper_delete.

(* ---------- c08_source_edit_detected ---------- *)

Theorem c08_source_edit_detected : forall w n v c s,
  wf_world w -> observable w s -> file_valid w n v = true -> file_valid (put w n c s) n v = false.
Proof. exact source_edit_detected. Qed.
Print Assumptions c08_source_edit_detected.

(* the general form: any change of the compared FileInfo fields, appearance and disappearance included *)
Theorem c08_source_change_detected : forall w w' n v,
  wf_world w -> wf_world w' -> file_valid w n v = true ->
  info_eqb (stat_w w n) (stat_w w' n) = false -> file_valid w' n v = false.
Proof. exact file_valid_detects. Qed.
Print Assumptions c08_source_change_detected.

(* the inode is one of the compared fields: a source REPLACED by another file (same size, same modification time,
   other inode) is detected *)
Theorem c08_source_replaced_detected : forall w w' n v,
  wf_world w -> wf_world w' -> file_valid w n v = true ->
  fi_inode (stat_w w n) <> fi_inode (stat_w w' n) -> file_valid w' n v = false.
Proof. exact source_replaced_detected. Qed.
Print Assumptions c08_source_replaced_detected.

Theorem c08_source_delete_detected : forall w n v,
  wf_world w -> is_missing (stat_w w n) = false -> file_valid w n v = true -> file_valid (del w n) n v = false.
Proof. exact source_delete_detected. Qed.
Print Assumptions c08_source_delete_detected.

(* ---------- c08_description_edit ---------- *)

(* a changed command definition changes the rule signature; the signature area's injectivity theorem is a premise *)
Theorem c08_description_edit : forall H0 HC d1 d2 name c1 c2,
  (forall x y, shell_sig H0 HC x = shell_sig H0 HC y -> relevant x = relevant y) ->
  find_cmd (d_cmds d1) name = Some c1 -> find_cmd (d_cmds d2) name = Some c2 ->
  cm_tool c1 = TShell -> cm_tool c2 = TShell ->
  relevant (cm_def c1) <> relevant (cm_def c2) ->
  rule_sig H0 HC d1 (KC name) <> rule_sig H0 HC d2 (KC name).
Proof. exact command_edit_changes_sig. Qed.
Print Assumptions c08_description_edit.

Theorem c08_description_edit_ext : forall H0 HC d1 d2 name c1 c2,
  (forall x y, ext_sig H0 HC x = ext_sig H0 HC y -> ext_relevant x = ext_relevant y) ->
  find_cmd (d_cmds d1) name = Some c1 -> find_cmd (d_cmds d2) name = Some c2 ->
  (cm_tool c1 = TPhony \/ cm_tool c1 = TMkdir) -> (cm_tool c2 = TPhony \/ cm_tool c2 = TMkdir) ->
  ext_relevant (cm_def c1) <> ext_relevant (cm_def c2) ->
  rule_sig H0 HC d1 (KC name) <> rule_sig H0 HC d2 (KC name).
Proof. exact ext_command_edit_changes_sig. Qed.
Print Assumptions c08_description_edit_ext.

(* an input node becoming produced, or the reverse, changes the node's signature (type + producer names) ... *)
Theorem c08_description_edit_node : forall H0 HC d1 d2 n, ideal_fold0 HC ->
  producers d1 n = [] -> producers d2 n <> [] ->
  rule_sig H0 HC d1 (KN n) <> rule_sig H0 HC d2 (KN n) /\ rule_sig H0 HC d2 (KN n) <> rule_sig H0 HC d1 (KN n).
Proof. exact input_becomes_produced. Qed.
Print Assumptions c08_description_edit_node.

Theorem c08_description_edit_producers : forall H0 HC d1 d2 n, ideal_fold0 HC ->
  map cm_name (producers d1 n) <> map cm_name (producers d2 n) ->
  rule_sig H0 HC d1 (KN n) <> rule_sig H0 HC d2 (KN n).
Proof. exact node_sig_changes. Qed.
Print Assumptions c08_description_edit_producers.

(* ... and the rule the key resolves to changes kind *)
Theorem c08_description_edit_node_rule : forall d1 d2 n, node_type n = 0 ->
  producers d1 n = [] -> producers d2 n <> [] ->
  lookup_rule d1 (KN n) = RFileInput n /\ lookup_rule d2 (KN n) = RProduced n (producers d2 n).
Proof. exact input_becomes_produced_rule. Qed.
Print Assumptions c08_description_edit_node_rule.

(* the same for a VIRTUAL node that gains (or loses) a producer: c08_description_edit_node above holds for every node
   name (the producer names are part of a virtual node's signature too); its rule changes from the virtual-input
   rule to the produced-node rule, which requests the producer *)
Theorem c08_description_edit_virtual_node_rule : forall d1 d2 n, node_type n = 3 ->
  producers d1 n = [] -> producers d2 n <> [] ->
  lookup_rule d1 (KN n) = RVirtualInput /\ lookup_rule d2 (KN n) = RProduced n (producers d2 n).
Proof. exact virtual_becomes_produced_rule. Qed.
Print Assumptions c08_description_edit_virtual_node_rule.

(* a removed command resolves to the missing-command rule, whose stored result is never valid *)
Theorem c08_description_edit_removed : forall d w name v,
  find_cmd (d_cmds d) name = None -> lookup_rule d (KC name) = RMissingCommand /\ rule_valid d w (KC name) v = Invalid.
Proof. exact removed_command. Qed.
Print Assumptions c08_description_edit_removed.

(* ---------- c08_clean_world_fixpoint ---------- *)

(* After a clean build (empty database, only the sources on disk) of a well-formed description: every recorded
   file-input / virtual node value is valid, every produced node value that is not a failure is valid, every
   successful command value is valid (unless the command is always-out-of-date), and every shell command's outputs
   hold what the command computes from what its inputs hold: a second build is a null build. *)
Theorem c08_clean_world_fixpoint : forall F d src t st,
  wf_desc d -> clean F d src t = BOk st ->
  wf_world (bs_world st) /\
  forall k v, lookup_val (bs_vals st) k = Some v ->
    match lookup_rule d k with
    | RFileInput _ | RVirtualInput => rule_valid d (bs_world st) k v = Valid
    | RProduced _ _ => produced_valid v = true -> rule_valid d (bs_world st) k v = Valid
    | RCommand c => is_successful (bv_kind v) = true ->
                    (c_always_out_of_date (cm_def c) = false -> rule_valid d (bs_world st) k v = Valid) /\
                    (cm_tool c = TShell -> shell_outputs_hold F (bs_world st) c)
    | _ => True
    end.
Proof. exact clean_world_fixpoint. Qed.
Print Assumptions c08_clean_world_fixpoint.

(* ---------- non-vacuity: the three-command description of RulesBSProofs.v ---------- *)

Example c08_example_wf : wf_desc ex_d3.
Proof. exact ex_wf_d3. Qed.

Example c08_example_clean : clean cat_fn ex_d3 ex_sources [] = BOk ex_state /\
  content_w (bs_world ex_state) ex_out = Some [66;48;40;65;48;40;49;41;50;41] /\
  content_w (bs_world ex_state) ex_out2 = Some [66;49;40;65;48;40;49;41;50;41].
Proof. split; [exact ex_clean_ok | vm_compute; split; reflexivity]. Qed.

Example c08_example_tamper_last_output :
  cmd_valid ex_d3 (bs_world ex_state) ex_cb (val_of ex_state (KC [67;46;98])) = Valid /\
  cmd_valid ex_d3 (del (bs_world ex_state) ex_out2) ex_cb (val_of ex_state (KC [67;46;98])) = Invalid.
Proof. vm_compute. split; reflexivity. Qed.

Example c08_example_source_edit :
  file_valid (bs_world ex_state) ex_src (val_of ex_state (KN ex_src)) = true /\
  file_valid (put (bs_world ex_state) ex_src [55;55] (fresh (bs_world ex_state) mode_file 2)) ex_src
             (val_of ex_state (KN ex_src)) = false.
Proof. vm_compute. split; reflexivity. Qed.

Example c08_example_input_becomes_produced :
  producers ex_d3 ex_src2 = [] /\ producers ex_d4 ex_src2 = [ex_cgen].
Proof. vm_compute. split; reflexivity. Qed.

Example c08_example_rerun_same_content_new_value :
  exists a b, result_for_output ex_cb ex_out (val_of ex_state (KC [67;46;98])) = Some a /\
              result_for_output ex_cb ex_out (command_result 2 ex_world_rerun (cm_outputs ex_cb)) = Some b /\
              value_equiv a b = false /\ content_w ex_world_rerun ex_out = content_w (bs_world ex_state) ex_out.
Proof. exact ex_dependents_see_change. Qed.

Example c08_example_mkdir_symlink_tamper :
  cmd_valid ex_d5 (bs_world ex_state5) ex_cmk (val_of ex_state5 (KC [67;46;109])) = Valid /\
  cmd_valid ex_d5 (del (bs_world ex_state5) ex_dir) ex_cmk (val_of ex_state5 (KC [67;46;109])) = Invalid /\
  cmd_valid ex_d5 (bs_world ex_state5) ex_cln (val_of ex_state5 (KC [67;46;108])) = Valid /\
  cmd_valid ex_d5 (del (bs_world ex_state5) ex_lnk) ex_cln (val_of ex_state5 (KC [67;46;108])) = Invalid.
Proof. vm_compute. repeat split; reflexivity. Qed.

Example c08_example_virtual_gains_producer :
  node_type ex_all = 3 /\ producers ex_d2 ex_all = [] /\ producers ex_d3 ex_all = [ex_call] /\
  node_sig_tokens (node_def ex_d2 ex_all) <> node_sig_tokens (node_def ex_d3 ex_all).
Proof. vm_compute. repeat split; try reflexivity. discriminate. Qed.

Example c08_example_source_replaced :
  let w' := put (bs_world ex_state) ex_src [57] ex_replaced_stamp in
  fi_size (stat_w w' ex_src) = fi_size (stat_w (bs_world ex_state) ex_src) /\
  fi_sec (stat_w w' ex_src) = fi_sec (stat_w (bs_world ex_state) ex_src) /\
  fi_nsec (stat_w w' ex_src) = fi_nsec (stat_w (bs_world ex_state) ex_src) /\
  fi_inode (stat_w w' ex_src) <> fi_inode (stat_w (bs_world ex_state) ex_src) /\
  file_valid (bs_world ex_state) ex_src (val_of ex_state (KN ex_src)) = true /\
  file_valid w' ex_src (val_of ex_state (KN ex_src)) = false.
Proof. exact ex_source_replaced. Qed.
