(* c17lex - the Ninja lexer and shell quoting parts of C19 and C17 (to be split into Properties_C19.v / Properties_C17.v).
   Only theorem statements; each is closed by [exact <lemma>] (or a vm_compute check of a regenerated table) and
   followed by Print Assumptions.  Names: c19_* belong to C19 (termination, bounds, tiling, EndOfFile), c17_* to C17
   (keywords, bytes 0x80-0xFF, shell quoting).
   Vocabulary (defined in Parse/NinjaLexProofs.v): [at_data data s] - the lexer state s is a cursor into the buffer
   data; [slice data a b] - data[a..b); [gap_units c] - c is a sequence of non-newline spaces (9, 11, 12, 32) and
   "$\n", "$\n\r", "$\r\n" continuations; [tok_chain data pos toks] - every token starts at or after the end of its
   predecessor (the first: after pos), ends inside the buffer, and the skipped bytes form a gap; [rebuild] - gaps
   and token bodies concatenated; [token_facts data m t] - the full lexical description of t (kind_facts). *)
From LLB Require Import Base.Bytes Parse.NinjaLex Parse.NinjaLexProofs Path.ShellQuote Path.ShellQuoteProofs
  gen.Gen_NinjaKeywords gen.Gen_ShellWhitelist.
Local Open Scope N_scope.

(* ================================ C19: the lexer terminates, stays inside the buffer, tiles it ================ *)

(* no lex call runs out of fuel: from any state, in any mode *)
Theorem c19_lex_total : forall m s, exists t s', lex m s = Ok (t, s').
Proof. exact lex_total. Qed.
Print Assumptions c19_lex_total.

(* lex_progress: EndOfFile with the cursor at the very end, or a non-empty token and a strictly larger position *)
Theorem c19_lex_progress : forall data m s t s', at_data data s -> lex m s = Ok (t, s') ->
  (tk_kind t = TkEndOfFile /\ tk_len t = 0%nat /\ tk_start t = length data /\ l_pos s' = length data /\ l_rest s' = []) \/
  (tk_kind t <> TkEndOfFile /\ (0 < tk_len t)%nat /\ (l_pos s < l_pos s')%nat /\ (l_pos s' <= length data)%nat).
Proof. exact lex_progress. Qed.
Print Assumptions c19_lex_progress.

Theorem c19_lex_call_facts : forall data m s t s', at_data data s -> lex m s = Ok (t, s') ->
  at_data data s' /\ (l_pos s <= tk_start t)%nat /\ l_pos s' = (tk_start t + tk_len t)%nat /\
  (l_pos s' <= length data)%nat /\
  gap_units (slice data (l_pos s) (tk_start t)) /\ token_facts data m t.
Proof. exact lex_call_facts. Qed.
Print Assumptions c19_lex_call_facts.

(* end-of-file is reported only at the true end of the buffer, and always there *)
Theorem c19_lex_eof_iff_at_end : forall data m s t s', at_data data s -> lex m s = Ok (t, s') ->
  (tk_kind t = TkEndOfFile <-> tk_start t = length data).
Proof. exact lex_eof_iff_at_end. Qed.
Print Assumptions c19_lex_eof_iff_at_end.

(* lex_all_total: ~ OutOfFuel for ALL byte strings and all modes *)
Theorem c19_lex_all_total : forall m data, exists toks, lex_all m data = Ok toks.
Proof. exact lex_all_total. Qed.
Print Assumptions c19_lex_all_total.

Theorem c19_lex_stream_total : forall modes data, exists toks, lex_stream modes data = Ok toks.
Proof. exact lex_stream_total. Qed.
Print Assumptions c19_lex_stream_total.

Theorem c19_lex_stream_length : forall modes data toks, lex_stream modes data = Ok toks -> length toks = length modes.
Proof. exact lex_stream_length. Qed.
Print Assumptions c19_lex_stream_length.

(* lex_all is a lex_stream with a constant mode sequence (every lex_stream theorem applies) that ends at the first
   EndOfFile *)
Theorem c19_lex_all_stream : forall m data toks, lex_all m data = Ok toks ->
  lex_stream (repeat m (length toks)) data = Ok toks /\ eof_last toks.
Proof. exact lex_all_stream. Qed.
Print Assumptions c19_lex_all_stream.

(* in bounds + ordered + gaps blank, for an adversarial mode sequence *)
Theorem c19_lex_stream_chain : forall modes data toks, lex_stream modes data = Ok toks -> tok_chain data 0 toks.
Proof. exact lex_stream_chain. Qed.
Print Assumptions c19_lex_stream_chain.

Theorem c19_lex_in_bounds : forall modes data toks t, lex_stream modes data = Ok toks -> In t toks ->
  (tk_start t + tk_len t <= length data)%nat.
Proof. exact lex_in_bounds. Qed.
Print Assumptions c19_lex_in_bounds.

(* lex_tokens_ordered + lex_gaps_blank *)
Theorem c19_lex_tokens_ordered : forall modes data l1 t1 t2 l2, lex_stream modes data = Ok (l1 ++ t1 :: t2 :: l2) ->
  (tk_start t1 + tk_len t1 <= tk_start t2)%nat /\ gap_units (slice data (tk_start t1 + tk_len t1) (tk_start t2)).
Proof. exact lex_tokens_ordered. Qed.
Print Assumptions c19_lex_tokens_ordered.

Theorem c19_lex_gaps_blank : forall modes data l1 t1 t2 l2, lex_stream modes data = Ok (l1 ++ t1 :: t2 :: l2) ->
  gap_units (slice data (tk_start t1 + tk_len t1) (tk_start t2)).
Proof. exact lex_gaps_blank. Qed.
Print Assumptions c19_lex_gaps_blank.

Theorem c19_lex_first_gap : forall modes data t ts, lex_stream modes data = Ok (t :: ts) -> gap_units (slice data 0 (tk_start t)).
Proof. exact lex_first_gap. Qed.
Print Assumptions c19_lex_first_gap.

(* the exact set of byte sequences a gap is made of *)
Theorem c19_gap_units_inv : forall c, gap_units c ->
  c = [] \/ (exists b r, c = b :: r /\ is_nn_space b = true /\ gap_units r) \/
  (exists r, c = 36 :: 10 :: r /\ gap_units r) \/ (exists r, c = 36 :: 10 :: 13 :: r /\ gap_units r) \/
  (exists r, c = 36 :: 13 :: 10 :: r /\ gap_units r).
Proof. exact gap_units_inv. Qed.
Print Assumptions c19_gap_units_inv.

(* no byte is lost or duplicated: gaps and token bodies in order are exactly the bytes the calls went over *)
Theorem c19_lex_stream_tiles : forall modes data toks, lex_stream modes data = Ok toks ->
  data = rebuild data 0 toks ++ skipn (toks_end 0 toks) data /\ toks_end 0 toks = length (rebuild data 0 toks).
Proof. exact lex_stream_tiles. Qed.
Print Assumptions c19_lex_stream_tiles.

(* the tokens of lex_all tile the whole input and the last one (EndOfFile) ends at length data *)
Theorem c19_lex_all_tiles : forall m data toks, lex_all m data = Ok toks ->
  rebuild data 0 toks = data /\ toks_end 0 toks = length data /\ tok_chain data 0 toks.
Proof. exact lex_all_tiles. Qed.
Print Assumptions c19_lex_all_tiles.

(* lex_eof_only_at_end, and every other token is non-empty *)
Theorem c19_lex_eof_only_at_end : forall modes data toks t, lex_stream modes data = Ok toks -> In t toks ->
  (tk_kind t = TkEndOfFile -> tk_start t = length data /\ tk_len t = 0%nat) /\
  (tk_kind t <> TkEndOfFile -> (0 < tk_len t)%nat).
Proof. exact lex_eof_only_at_end. Qed.
Print Assumptions c19_lex_eof_only_at_end.

(* the full lexical description of every token of a stream *)
Theorem c19_lex_stream_token_facts : forall modes data toks, lex_stream modes data = Ok toks ->
  Forall2 (token_facts data) modes toks.
Proof. exact lex_stream_token_facts. Qed.
Print Assumptions c19_lex_stream_token_facts.

(* ================================ C17: bytes 0x80-0xFF are ordinary characters =============================== *)

Theorem c17_high_byte_classes : forall b, 128 <= b ->
  is_space b = false /\ is_nn_space b = false /\ is_nl b = false /\
  is_ident_char b = false /\ is_simple_ident_char b = false /\
  forall r pos line col, peek (mkL (b :: r) pos line col) = Some b /\
                         fst (getc (mkL (b :: r) pos line col)) = Some b.
Proof. exact high_byte_classes. Qed.
Print Assumptions c17_high_byte_classes.

Theorem c17_lex_high_byte_regular : forall m (b : byte) (r : bytes) pos line col, 128 <= b -> regular_mode m ->
  lex m (mkL (b :: r) pos line col) = Ok (mkTok TkUnknown pos 1 line col, mkL r (S pos) line (col + 1)).
Proof. exact lex_high_byte_regular. Qed.
Print Assumptions c17_lex_high_byte_regular.

Theorem c17_lex_high_byte_string : forall m (b : byte) (r : bytes) pos line col, 128 <= b ->
  m = MPathString \/ m = MVariableString ->
  exists n s', lex m (mkL (b :: r) pos line col) = Ok (mkTok TkString pos (S n) line col, s').
Proof. exact lex_high_byte_string. Qed.
Print Assumptions c17_lex_high_byte_string.

(* lex_high_bytes_ordinary: for every mode sequence, a byte >= 128 the calls went over is inside a String token
   (string modes), an Unknown token of length 1, or inside a comment (modes without strings) *)
Theorem c17_lex_high_bytes_ordinary : forall modes data toks i b,
  lex_stream modes data = Ok toks -> nth_error data i = Some b -> 128 <= b -> (i < toks_end 0 toks)%nat ->
  exists m t, In (m, t) (combine modes toks) /\ (tk_start t <= i < tk_start t + tk_len t)%nat /\
    ((tk_kind t = TkString /\ (m = MPathString \/ m = MVariableString)) \/
     (tk_kind t = TkComment /\ regular_mode m /\ (tk_start t < i)%nat) \/
     (tk_kind t = TkUnknown /\ regular_mode m /\ tk_start t = i /\ tk_len t = 1%nat)).
Proof. exact lex_high_bytes_ordinary. Qed.
Print Assumptions c17_lex_high_bytes_ordinary.

Theorem c17_lex_all_high_bytes_in_strings : forall m data toks i b,
  lex_all m data = Ok toks -> m = MPathString \/ m = MVariableString -> nth_error data i = Some b -> 128 <= b ->
  exists t, In t toks /\ tk_kind t = TkString /\ (tk_start t <= i < tk_start t + tk_len t)%nat.
Proof. exact lex_all_high_bytes_in_strings. Qed.
Print Assumptions c17_lex_all_high_bytes_in_strings.

Theorem c17_lex_all_high_bytes_unknown : forall m data toks i b,
  lex_all m data = Ok toks -> regular_mode m -> nth_error data i = Some b -> 128 <= b ->
  exists t, In t toks /\ (tk_start t <= i < tk_start t + tk_len t)%nat /\
            ((tk_kind t = TkUnknown /\ tk_start t = i /\ tk_len t = 1%nat) \/ (tk_kind t = TkComment /\ (tk_start t < i)%nat)).
Proof. exact lex_all_high_bytes_unknown. Qed.
Print Assumptions c17_lex_all_high_bytes_unknown.

(* ================================ C17: keywords are recognised only as whole words ============================ *)

Theorem c17_lex_keywords_whole : forall data m s t s', at_data data s -> lex m s = Ok (t, s') ->
  (is_keyword (tk_kind t) = true -> m = MNone /\ In (token_slice data t, tk_kind t) keyword_table) /\
  (m = MNone -> forall k, In (token_slice data t, k) keyword_table -> tk_kind t = k) /\
  (is_identlike (tk_kind t) = true ->
     token_slice data t <> [] /\ Forall (fun b => is_ident_char b = true) (token_slice data t) /\
     ends_with (fun b => negb (is_ident_char b)) (token_after data t)).
Proof. exact lex_keywords_whole. Qed.
Print Assumptions c17_lex_keywords_whole.

Theorem c17_lex_no_keywords_outside_none : forall data m s t s', at_data data s -> lex m s = Ok (t, s') ->
  m <> MNone -> is_keyword (tk_kind t) = false.
Proof. exact lex_no_keywords_outside_none. Qed.
Print Assumptions c17_lex_no_keywords_outside_none.

(* whole words to the left as well, for every mode sequence *)
Theorem c17_lex_identifier_left_boundary : forall modes data toks t, lex_stream modes data = Ok toks -> In t toks ->
  is_identlike (tk_kind t) = true -> left_boundary data t.
Proof. exact lex_identifier_left_boundary. Qed.
Print Assumptions c17_lex_identifier_left_boundary.

(* the probe-table property holds of the model's lexer on EVERY input *)
Theorem c17_lex_first_token_kw_ok : forall ic, charclass_matches is_ident_char ic = true ->
  forall mc w t s', mc < 4 -> lex (mode_of_code mc) (init w) = Ok (t, s') ->
    kw_entry_ok ic (mc, w, kind_code (tk_kind t), N.of_nat (tk_len t)) = true.
Proof. exact lex_first_token_kw_ok. Qed.
Print Assumptions c17_lex_first_token_kw_ok.

(* hence every table whose entries the model reproduces satisfies the keyword property *)
Theorem c17_keywords_match_model_ok : forall ic tbl, charclass_matches is_ident_char ic = true ->
  forallb (fun e => let '(m, _, _, _) := e in m <? 4) tbl = true ->
  keywords_match_model tbl = true -> keywords_ok ic tbl = true.
Proof. exact keywords_match_model_ok. Qed.
Print Assumptions c17_keywords_match_model_ok.

(* Over the tables probed from the rebuilt code on this run (coq/gen/Gen_NinjaKeywords.v): *)
Definition probed_keywords : list (N * bytes * N * N) :=
  expand_keyword_table probed_keyword_singles probed_keyword_families.

(* the table is complete: all 256 byte values at every position of every keyword, both one-byte extensions, both
   truncations, in the modes None and IdentifierSpecific; the exact keywords in all four modes *)
Theorem c17_probed_keywords_cover :
  families_complete probed_keyword_families = true /\ probes_cover probed_keyword_singles probed_keyword_families = true.
Proof. split; vm_compute; reflexivity. Qed.
Print Assumptions c17_probed_keywords_cover.

(* the code's identifier characters are the model's (all 256 values) *)
Theorem c17_probed_identchars_are_the_models :
  charclass_matches is_ident_char probed_identchars = true /\
  charclass_matches is_simple_ident_char probed_simple_identchars = true.
Proof. split; vm_compute; reflexivity. Qed.
Print Assumptions c17_probed_identchars_are_the_models.

(* the code's answers on the whole table satisfy the keyword property (checked against the keyword table and the
   probed identifier characters only, the lexer model is not involved) *)
Theorem c17_probed_keywords_ok : keywords_ok probed_identchars probed_keywords = true.
Proof. vm_compute. reflexivity. Qed.
Print Assumptions c17_probed_keywords_ok.

(* and the model answers every probed input as the code did *)
Theorem c17_probed_keywords_match_model : keywords_match_model probed_keywords = true.
Proof. vm_compute. reflexivity. Qed.
Print Assumptions c17_probed_keywords_match_model.

(* ================================ C17: shell quoting ========================================================== *)

(* shell_roundtrip, for every whitelist without shell metacharacters *)
Theorem c17_shell_roundtrip : forall wl p, whitelist_ok wl = true -> p <> [] -> ~ In 0 p ->
  sh_words (shell_escaped_gen wl p) = Some [p].
Proof. exact shell_roundtrip. Qed.
Print Assumptions c17_shell_roundtrip.

Theorem c17_shell_roundtrip_current : forall p, p <> [] -> ~ In 0 p -> sh_words (shell_escaped p) = Some [p].
Proof. exact shell_roundtrip_current. Qed.
Print Assumptions c17_shell_roundtrip_current.

(* the side conditions are needed *)
Theorem c17_shell_roundtrip_empty_refuted :
  exists p, p = [] /\ sh_words (shell_escaped p) = Some [] /\ sh_words (shell_escaped p) <> Some [p].
Proof. exact shell_roundtrip_empty_refuted. Qed.
Print Assumptions c17_shell_roundtrip_empty_refuted.

Theorem c17_shell_roundtrip_nul_refuted : exists p, In 0 p /\ sh_words (shell_escaped p) = None.
Proof. exact shell_roundtrip_nul_refuted. Qed.
Print Assumptions c17_shell_roundtrip_nul_refuted.

Theorem c17_whitelist_with_hash_refuted : exists p, p <> [] /\ ~ In 0 p /\
  shell_escaped_gen (35 :: whitelist) p = p /\ sh_words (shell_escaped_gen (35 :: whitelist) p) = Some [].
Proof. exact whitelist_with_hash_refuted. Qed.
Print Assumptions c17_whitelist_with_hash_refuted.

Theorem c17_whitelist_with_tilde_refuted : exists p, p <> [] /\ ~ In 0 p /\
  shell_escaped_gen (126 :: whitelist) p = p /\ sh_words (shell_escaped_gen (126 :: whitelist) p) = None.
Proof. exact whitelist_with_tilde_refuted. Qed.
Print Assumptions c17_whitelist_with_tilde_refuted.

Theorem c17_whitelist_ok_necessary : forall wl b, In b wl -> b <> 0 -> sh_meta b = true ->
  shell_escaped_gen wl [b] = [b] /\ sh_words (shell_escaped_gen wl [b]) <> Some [[b]].
Proof. exact whitelist_ok_necessary. Qed.
Print Assumptions c17_whitelist_ok_necessary.

(* shell_escaped_safe_chars *)
Theorem c17_shell_escaped_safe_chars : forall wl p,
  shell_escaped_gen wl p = p <-> forallb (fun b => mem_byte b wl) p = true.
Proof. exact shell_escaped_safe_chars. Qed.
Print Assumptions c17_shell_escaped_safe_chars.

Theorem c17_shell_escaped_quoted : forall wl p, forallb (fun b => mem_byte b wl) p = false ->
  exists mid, shell_escaped_gen wl p = 39 :: mid ++ [39].
Proof. exact shell_escaped_quoted. Qed.
Print Assumptions c17_shell_escaped_quoted.

Theorem c17_shell_escaped_gen_ext : forall wl1 wl2, whitelist_same wl1 wl2 = true ->
  forall s, shell_escaped_gen wl1 s = shell_escaped_gen wl2 s.
Proof. exact shell_escaped_gen_ext. Qed.
Print Assumptions c17_shell_escaped_gen_ext.

Theorem c17_shell_roundtrip_probed : forall pw p, whitelist_same pw whitelist = true -> p <> [] -> ~ In 0 p ->
  shell_escaped_gen pw p = shell_escaped p /\ sh_words (shell_escaped_gen pw p) = Some [p].
Proof. exact shell_roundtrip_probed. Qed.
Print Assumptions c17_shell_roundtrip_probed.

(* Over the whitelist probed from the rebuilt code on this run (coq/gen/Gen_ShellWhitelist.v): *)

(* no byte that shellEscaped leaves unquoted is a shell metacharacter
   ( | & ; < > ( ) $ ` \ double-quote single-quote space tab newline * ? [ NUL anywhere, # ~ at the start of a word ) *)
Theorem c17_probed_whitelist_ok : whitelist_ok probed_whitelist = true.
Proof. vm_compute. reflexivity. Qed.
Print Assumptions c17_probed_whitelist_ok.

Theorem c17_probed_whitelist_is_the_models : whitelist_same probed_whitelist whitelist = true.
Proof. vm_compute. reflexivity. Qed.
Print Assumptions c17_probed_whitelist_is_the_models.

Theorem c17_probed_shell_single_bytes : map (fun b => shell_escaped [b]) all_bytes = probed_shell_single.
Proof. vm_compute. reflexivity. Qed.
Print Assumptions c17_probed_shell_single_bytes.

(* hence the round trip for the function with the whitelist the code uses now *)
Theorem c17_shell_roundtrip_probed_whitelist : forall p, p <> [] -> ~ In 0 p ->
  sh_words (shell_escaped_gen probed_whitelist p) = Some [p].
Proof. intros p. apply shell_roundtrip. exact c17_probed_whitelist_ok. Qed.
Print Assumptions c17_shell_roundtrip_probed_whitelist.

(* non-vacuity: instances meeting the hypotheses are the Examples ex_* of NinjaLexProofs.v and ShellQuoteProofs.v;
   two of them restated here *)
Example c17lex_lex_all_instance :
  lex_all MPathString [98; 117; 105; 108; 100; 32; 255; 36; 10; 32; 120; 58; 32; 36] =
  Ok [mkTok TkString 0 5 1 0; mkTok TkString 6 5 1 6; mkTok TkColon 11 1 2 2; mkTok TkString 13 1 2 4;
      mkTok TkEndOfFile 14 0 2 5].
Proof. vm_compute. reflexivity. Qed.

Example c17lex_shell_instance :
  sh_words (shell_escaped_gen probed_whitelist [35; 105; 116; 39; 115; 32; 255]) = Some [[35; 105; 116; 39; 115; 32; 255]].
Proof. vm_compute. reflexivity. Qed.
