(* C19 - no input can crash, hang or over-read a parser.
   Only theorem statements; each is closed by [exact <lemma>] and followed by Print Assumptions.

   Part 1: the build-description loader (lib/BuildSystem/BuildFile.cpp) over the node tree llvm's YAML parser hands
           over (model Parse/BuildFileRoot.v; [load true ...] is the code as it is, after the repairs b1642a5 - empty
           top-level mapping - and c91b855 - null key / value nodes after a scanner error).  "Crash" is the explicit
           outcome of dereferencing the end iterator of a mapping or a null node pointer.  The delegate (client
           configuration, tool lookup, command creation, attribute acceptance, ownership analysis) is universally
           quantified.
   Part 2: re-exports of the theorems of the hand-written parsers (owned by the areas c11 / c17lex). *)
From LLB Require Import Base.Bytes Parse.BuildFileRoot Parse.BuildFileRootProofs.
From LLB Require Import Parse.MakeDeps Parse.MakeDepsProofs Parse.DepInfo Parse.DepInfoProofs.
Local Open Scope N_scope.

(* ---------------------------------------------------------------- Part 1: build descriptions *)

(* For EVERY stream of documents of EVERY shape - wrong node kinds anywhere, missing / duplicated / misordered
   sections, null keys, values and document roots (what a failed YAML scanner produces) - and every delegate, loading
   ends in a description or in a failure; no absent entry is dereferenced.  (Sequence elements are the one thing that
   cannot be null: the sequence iterator ends instead, see [tree_ok].) *)
Theorem c19_root_total : forall client_ok tool_known tool_creates attr_ok ownership_ok docs,
  Forall (tree_ok true) docs ->
  load true client_ok tool_known tool_creates attr_ok ownership_ok docs <> LoadCrash.
Proof. exact (load_no_crash true). Qed.
Print Assumptions c19_root_total.

(* the property as worded: every well-formed document (no null node anywhere) *)
Theorem c19_root_total_wellformed : forall client_ok tool_known tool_creates attr_ok ownership_ok docs,
  Forall wf_node docs ->
  load true client_ok tool_known tool_creates attr_ok ownership_ok docs <> LoadCrash.
Proof. exact (load_no_crash_wellformed true). Qed.
Print Assumptions c19_root_total_wellformed.

(* the code before c91b855 was safe on well-formed documents only ... *)
Theorem c19_root_total_unrepaired_wellformed : forall client_ok tool_known tool_creates attr_ok ownership_ok docs,
  Forall wf_node docs ->
  load false client_ok tool_known tool_creates attr_ok ownership_ok docs <> LoadCrash.
Proof. exact (load_no_crash_wellformed false). Qed.
Print Assumptions c19_root_total_unrepaired_wellformed.

(* ... and dereferenced the null value of `client: ?x` (a well-formed YAML text that llvm's scanner rejects); the
   repaired code reports it.  Kept as documentation; the text is in the check's corpus. *)
Theorem c19_root_unrepaired_refuted :
  load_parse_cmd false null_value_doc = LoadCrash
  /\ errors_of (load_parse_cmd true null_value_doc) = [E_malformed]
  /\ is_ok (load_parse_cmd true null_value_doc) = false.
Proof. exact load_unrepaired_refuted. Qed.
Print Assumptions c19_root_unrepaired_refuted.

(* root_requires_client + root_sections_order: a description is produced only from ONE document whose root mapping
   starts with 'client' bound to a mapping and continues with a subsequence of tools, targets, default, nodes,
   commands (each at most once, in this order, nothing else). *)
Theorem c19_root_requires_client_and_section_order :
  forall guarded client_ok tool_known tool_creates attr_ok ownership_ok docs s,
  load guarded client_ok tool_known tool_creates attr_ok ownership_ok docs = LoadOk s ->
  exists cl more, docs = [YMapping ((YScalar s_client, YMapping cl) :: more)]
                  /\ keys_subseq section_order (map fst more) = true.
Proof. exact load_ok_shape. Qed.
Print Assumptions c19_root_requires_client_and_section_order.

(* problems are reported through the error callback: a load that fails has called delegate.error at least once
   (a rejected attribute and an ownership conflict are reported by the party that rejects: excluded by hypothesis) *)
Theorem c19_root_failure_is_reported :
  forall guarded client_ok tool_known tool_creates attr_ok ownership_ok,
  (forall o a v, attr_ok o a v = true) -> (forall cs, ownership_ok cs = true) ->
  forall docs s,
  load guarded client_ok tool_known tool_creates attr_ok ownership_ok docs = LoadError s -> st_errs s <> [].
Proof. exact load_error_reported. Qed.
Print Assumptions c19_root_failure_is_reported.

(* non-vacuity: a complete valid description is well-formed and loads; its sections are in order *)
Example c19_root_instance :
  wf_node valid_doc
  /\ summary (load_parse_cmd true [valid_doc]) = Some ([], (2%nat, 2%nat, 3%nat, 2%nat), [116])
  /\ load true yes3 yes1 yes2 yes3 yes1 [valid_doc] <> LoadCrash.
Proof. exact root_instance. Qed.

(* ---------------------------------------------------------------- Part 2 *)
(* re-exports from Parse/MakeDepsProofs, Parse/DepInfoProofs, Parse/NinjaLexProofs *)

(* Makefile-style dependency files: for EVERY byte string both loops end within the fuel md_parse supplies
   (the cursor is the remaining suffix: a read outside the buffer cannot be expressed), ... *)
Theorem c19_makedeps_total : forall ignoreSubsequent data, ~ In OutOfFuel (md_parse ignoreSubsequent data).
Proof. exact md_parse_total. Qed.
Print Assumptions c19_makedeps_total.

(* ... and every reported error position is an offset into (or just past) the supplied buffer. *)
Theorem c19_makedeps_positions_in_bounds : forall ignoreSubsequent data code pos,
  In (Err code pos) (md_parse ignoreSubsequent data) -> pos <= N.of_nat (length data).
Proof. exact md_positions_in_bounds. Qed.
Print Assumptions c19_makedeps_positions_in_bounds.

(* dependency-info files: termination and no read past the end (the operand scan is the one loop of the C++ without
   a bounds test of its own: explicit event DOverRead), for EVERY byte string *)
Theorem c19_depinfo_total : forall data, ~ In DOutOfFuel (di_parse data) /\ ~ In DOverRead (di_parse data).
Proof. exact di_parse_total. Qed.
Print Assumptions c19_depinfo_total.

Theorem c19_depinfo_positions_in_bounds : forall data code pos,
  In (DErr code pos) (di_parse data) -> pos <= N.of_nat (length data).
Proof. exact di_positions_in_bounds. Qed.
Print Assumptions c19_depinfo_positions_in_bounds.

(* Ninja lexer (tokens tile the input, end-of-file only at the true end): stated and proved in
   Props/Properties_c17lex.v by the lexer area; re-export lines go here once Parse/NinjaLexProofs exports the C19
   theorems under stable names. *)
(* end of re-exports *)
