(* C07 - dependency cycles are detected and reported accurately, never falsely.
   The pure part: BuildEngineImpl::findCycle from the completed successor graph (what hook point 3 dumps) to the key
   list handed to BuildEngineDelegate::cycleDetected.  Model: Engine/FindCycle.v.  An edge (a, b) of the graph means
   "b waits on a" (b is in successorGraph[a]);  dep g x y := In (y, x) g  reads "x waits on y".
   That the engine calls the function exactly when it has stalled, on a graph whose edges are real dependencies, is
   the correspondence part of the check (harness/py/props/c07.py).
   Only theorem statements; each is closed by [exact <lemma>] and followed by Print Assumptions.
   All theorems hold for EVERY finite graph (edge list over N, duplicates allowed), root and key order klt. *)
From Coq Require Import List NArith Permutation.
Import ListNotations.
From LLB Require Import Engine.FindCycle Engine.FindCycleProofs.

(* Accuracy of a report: a non-empty result starts with the requested key, every key is followed by a key it waits on
   (a predecessor, the direction the code traverses), the last key occurs earlier, and nothing else is repeated. *)
Theorem c07_fc_sound : forall (klt : key -> key -> bool) (g : graph) (root : key) (fuel : nat) (l : list key),
  findCycle klt g root fuel = FcDone l -> l <> [] ->
  exists pre z, l = pre ++ [z] /\ hd_error l = Some root /\ chain g l /\ In z pre /\ NoDup pre.
Proof. exact fc_sound. Qed.
Print Assumptions c07_fc_sound.

(* The loop ends: with fuel >= fc_fuel g root (exponential in the number of keys, see c07_fc_polynomial_fuel_refuted)
   the model never runs out of fuel. *)
Theorem c07_fc_terminates : forall (klt : key -> key -> bool) (g : graph) (root : key) (fuel : nat),
  fc_fuel g root <= fuel -> findCycle klt g root fuel <> FcOutOfFuel.
Proof. exact fc_terminates. Qed.
Print Assumptions c07_fc_terminates.

(* Fuel is immaterial for a finished run: whatever fuel it finished with, the result is the reference result. *)
Theorem c07_fc_any_fuel : forall (klt : key -> key -> bool) (g : graph) (root : key) (fuel : nat) (l : list key),
  findCycle klt g root fuel = FcDone l -> l = fc_reference klt g root.
Proof. exact fc_any_fuel. Qed.
Print Assumptions c07_fc_any_fuel.

(* The explicit-stack loop computes the recursive search "try the sorted predecessors in order, stop at the first key
   already on the current path". *)
Theorem c07_fc_is_recursive_search : forall (klt : key -> key -> bool) (g : graph) (root : key) (fuel : nat),
  fc_fuel g root <= fuel -> findCycle klt g root fuel = FcDone (fc_reference klt g root).
Proof. exact fc_exact. Qed.
Print Assumptions c07_fc_is_recursive_search.

(* Completeness: the result is empty exactly when no walk from the root along predecessor edges visits a key twice. *)
Theorem c07_fc_complete : forall (klt : key -> key -> bool) (g : graph) (root : key) (fuel : nat),
  fc_fuel g root <= fuel -> (findCycle klt g root fuel = FcDone [] <-> ~ cycle_reachable g root).
Proof. exact fc_complete. Qed.
Print Assumptions c07_fc_complete.

(* The same in the usual vocabulary: something is reported iff some key reachable from the root lies on a closed walk. *)
Theorem c07_fc_reports_iff_cycle : forall (klt : key -> key -> bool) (g : graph) (root : key) (fuel : nat),
  fc_fuel g root <= fuel ->
  ((exists l, findCycle klt g root fuel = FcDone l /\ l <> []) <-> exists y m, reachable g root y /\ closed_walk g y m).
Proof. exact fc_reports_iff_cycle. Qed.
Print Assumptions c07_fc_reports_iff_cycle.

(* A stalled engine (every key reachable from the root waits on something) always gets a cycle: the assert
   `!cycleList.empty()` in resolveCycle holds. *)
Theorem c07_fc_stall_finds_cycle : forall (klt : key -> key -> bool) (g : graph) (root : key) (fuel : nat),
  no_dead_end g root -> fc_fuel g root <= fuel -> exists l, findCycle klt g root fuel = FcDone l /\ l <> [].
Proof. exact fc_stall_finds_cycle. Qed.
Print Assumptions c07_fc_stall_finds_cycle.

(* ... and in that situation the search never backtracks: |V| + 1 iterations are enough. *)
Theorem c07_fc_stall_linear_fuel : forall (klt : key -> key -> bool) (g : graph) (root : key) (fuel : nat),
  no_dead_end g root -> S (length (fc_nodes g root)) <= fuel -> exists l, findCycle klt g root fuel = FcDone l /\ l <> [].
Proof. exact fc_stall_linear. Qed.
Print Assumptions c07_fc_stall_linear_fuel.

(* Never falsely: on an acyclic graph the function reports nothing (so an engine that reports a cycle had a cyclic
   wait-for graph; and a correct engine must not call it on an acyclic one, because resolveCycle asserts non-empty). *)
Theorem c07_fc_acyclic_empty : forall (klt : key -> key -> bool) (g : graph) (root : key) (fuel : nat) (l : list key),
  acyclic g -> findCycle klt g root fuel = FcDone l -> l = [].
Proof. exact fc_acyclic_empty. Qed.
Print Assumptions c07_fc_acyclic_empty.

(* Determinism: for a strict total key order the result does not depend on the order in which the edges are listed
   (the iteration order of the unordered_maps) ... *)
Theorem c07_fc_edge_order_irrelevant : forall klt : key -> key -> bool,
  (forall a b, klt a b = true -> klt b a = false) ->
  (forall a b c, klt a b = true -> klt b c = true -> klt a c = true) ->
  (forall a b, klt a b = false -> klt b a = false -> a = b) ->
  forall (g g' : graph) (root : key) (fuel : nat),
  Permutation g g' -> findCycle klt g root fuel = findCycle klt g' root fuel.
Proof. exact fc_edge_order_irrelevant. Qed.
Print Assumptions c07_fc_edge_order_irrelevant.

(* ... in particular for the byte-string order of the harness key names "k<decimal>". *)
Theorem c07_fc_names_edge_order_irrelevant : forall (g g' : graph) (root : key) (fuel : nat),
  Permutation g g' -> findcycle_names g root fuel = findcycle_names g' root fuel.
Proof. exact fc_names_edge_order_irrelevant. Qed.
Print Assumptions c07_fc_names_edge_order_irrelevant.

(* REFUTED: a fuel (= running time) bound polynomial in |V| and |E|.  The search keeps no set of finished keys, so a key
   whose predecessors are exhausted is explored again along every other path.  Witness: 8 layers of two keys, 17 keys,
   30 edges, acyclic: 1022 iterations; the bound |V|*(|E|+1)+1 = 528 of the design note is not enough, and the count
   doubles with every further layer. *)
Theorem c07_fc_polynomial_fuel_refuted :
  length (fc_nodes g_layers 0%N) = 17 /\ length g_layers = 30 /\
  findcycle_names g_layers 0%N (length (fc_nodes g_layers 0%N) * (length g_layers + 1) + 1) = FcOutOfFuel /\
  findcycle_names g_layers 0%N 1021 = FcOutOfFuel /\
  findcycle_names g_layers 0%N 1022 = FcDone [].
Proof. exact fc_polynomial_fuel_refuted. Qed.
Print Assumptions c07_fc_polynomial_fuel_refuted.

(* ---------- non-vacuity: concrete non-trivial instances meeting the hypotheses ---------- *)

(* c07_fc_sound / c07_fc_any_fuel: the SimpleCycle unit test (A = 1, B = 2) and CycleDuringScanningFromTop (A, B, C = 1, 2, 3) *)
Example c07_instance_simple_cycle : findcycle_names g_simple 1%N 10 = FcDone [1; 2; 1]%N.
Proof. exact ex_simple_cycle. Qed.
Example c07_instance_scanning_cycle : findcycle_names g_scanning 1%N 10 = FcDone [1; 2; 3; 2]%N.
Proof. exact ex_scanning_cycle. Qed.
(* the root outside the cycle, a self-loop, two cycles (the NAME order decides: "k10" < "k9"), a dead end left behind *)
Example c07_instance_root_outside : findcycle_names [(1, 0); (2, 1); (1, 2)]%N 0%N 10 = FcDone [0; 1; 2; 1]%N.
Proof. exact ex_root_outside. Qed.
Example c07_instance_self_loop : findcycle_names [(5, 5)]%N 5%N 10 = FcDone [5; 5]%N.
Proof. exact ex_self_loop. Qed.
Example c07_instance_two_cycles : findcycle_names g_two 1%N 10 = FcDone [1; 10; 1]%N /\ findCycle N.ltb g_two 1%N 10 = FcDone [1; 9; 1]%N.
Proof. exact (conj ex_two_cycles_names ex_two_cycles_numeric). Qed.
Example c07_instance_backtrack : findcycle_names [(2, 1); (3, 1); (1, 3)]%N 1%N 10 = FcDone [1; 3; 1]%N.
Proof. exact ex_backtrack. Qed.
(* c07_fc_terminates / c07_fc_complete / c07_fc_is_recursive_search: the fuel hypothesis is satisfiable by a small number *)
Example c07_instance_fuel : fc_fuel g_simple 1%N = 14.
Proof. vm_compute. reflexivity. Qed.
(* c07_fc_stall_finds_cycle / c07_fc_stall_linear_fuel: the SimpleCycle graph has no dead end *)
Example c07_instance_no_dead_end : no_dead_end g_simple 1%N /\ cycle_reachable g_simple 1%N.
Proof. exact (conj ex_simple_no_dead_end ex_simple_cycle_reachable). Qed.
(* c07_fc_acyclic_empty / c07_fc_complete (right to left): an acyclic diamond *)
Example c07_instance_acyclic : acyclic g_diamond /\ findcycle_names g_diamond 1%N 20 = FcDone [].
Proof. exact (conj ex_diamond_acyclic ex_diamond_empty). Qed.
(* c07_fc_names_edge_order_irrelevant *)
Example c07_instance_edge_order : findcycle_names (rev g_two) 1%N 10 = findcycle_names g_two 1%N 10.
Proof. exact ex_two_cycles_edge_order. Qed.
