(* ninjaparse - the Ninja parser model (Parse/NinjaParse.v) between the lexer model and the loader model: deepens C19
   (loading terminates for every byte string) and C17 (manifests mean what Ninja says).
   Only theorem statements; each is closed by [exact <lemma>] and followed by Print Assumptions. *)
From LLB Require Import Base.Bytes Parse.NinjaLex Parse.NinjaLexProofs Parse.NinjaEval Parse.NinjaEvalProofs
  Parse.NinjaParse Parse.NinjaParseProofs.
Local Open Scope N_scope.

(* getNextNonCommentToken never runs out of fuel, from any parser state *)
Theorem ninjaparse_next_total : forall p, exists p', next p = Ok p'.
Proof. exact next_total. Qed.
Print Assumptions ninjaparse_next_total.

(* parse_total: for EVERY byte string the parser model terminates within its fuel ([parse_fuel data] =
   S (S (length data)) rounds of the loop of Parser::parse; S (S (unread bytes)) rounds of every inner loop):
   OutOfFuel is unreachable *)
Theorem ninjaparse_parse_tokens_total : forall data, exists ds, parse_tokens data = Ok ds.
Proof. exact parse_tokens_total. Qed.
Print Assumptions ninjaparse_parse_tokens_total.

Theorem ninjaparse_parse_total : forall data, exists ds, parse data = Ok ds.
Proof. exact parse_total. Qed.
Print Assumptions ninjaparse_parse_total.

Theorem ninjaparse_skip_past_eol_total : forall p, exists p', skip_past_eol p = Ok p'.
Proof. exact skip_past_eol_total. Qed.
Print Assumptions ninjaparse_skip_past_eol_total.

(* one parseDecl call: total, consumes input (strictly unless it stops at EndOfFile), and re-establishes the lexing
   mode None that `assert(lexer.getMode() == Lexer::LexingMode::None)` demands at the head of the loop *)
Theorem ninjaparse_parse_decl_total : forall p, p_mode p = MNone ->
  exists ds p', parse_decl p = Ok (ds, p') /\ p_mode p' = MNone /\
    (unread (p_lex p') <= unread (p_lex p))%nat /\
    (cur_kind p' <> TkEndOfFile -> (unread (p_lex p') < unread (p_lex p))%nat).
Proof. exact parse_decl_total. Qed.
Print Assumptions ninjaparse_parse_decl_total.
