(* ninjaparse - the Ninja parser model (Parse/NinjaParse.v) between the lexer model and the loader model: deepens C19
   (loading terminates for every byte string) and C17 (manifests mean what Ninja says).
   Only theorem statements; each is closed by [exact <lemma>] and followed by Print Assumptions. *)
From LLB Require Import Base.Bytes Parse.NinjaLex Parse.NinjaLexProofs Parse.NinjaEval Parse.NinjaEvalProofs
  Parse.NinjaParse Parse.NinjaParseProofs.
Local Open Scope N_scope.

(* getNextNonCommentToken never runs out of fuel, from any parser state *)
Theorem ninjaparse_next_total : forall p, exists p', next p = Ok p'.
Proof. exact next_total. Qed.
Print Assumptions ninjaparse_next_total.
