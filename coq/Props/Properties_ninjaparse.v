(* ninjaparse - the Ninja parser model (Parse/NinjaParse.v) between the lexer model and the loader model: deepens C19
   (loading terminates for every byte string) and C17 (manifests mean what Ninja says).
   Only theorem statements; each is closed by [exact <lemma>] and followed by Print Assumptions. *)
From LLB Require Import Base.Bytes Parse.NinjaLex Parse.NinjaLexProofs Parse.NinjaEval Parse.NinjaEvalProofs
  Parse.NinjaParse Parse.NinjaParseProofs Parse.NinjaParseProofsEx.
Local Open Scope N_scope.

(* getNextNonCommentToken never runs out of fuel, from any parser state *)
Theorem ninjaparse_next_total : forall p, exists p', next p = Ok p'.
Proof. exact next_total. Qed.
Print Assumptions ninjaparse_next_total.

(* parse_total: for EVERY byte string the parser model terminates within its fuel ([parse_fuel data] =
   S (S (length data)) rounds of the loop of Parser::parse; S (S (unread bytes)) rounds of every inner loop):
   OutOfFuel is unreachable *)
Theorem ninjaparse_parse_tokens_total : forall data, exists ds, parse_tokens data = Ok ds.
Proof. exact parse_tokens_total. Qed.
Print Assumptions ninjaparse_parse_tokens_total.

Theorem ninjaparse_parse_total : forall data, exists ds, parse data = Ok ds.
Proof. exact parse_total. Qed.
Print Assumptions ninjaparse_parse_total.

Theorem ninjaparse_skip_past_eol_total : forall p, exists p', skip_past_eol p = Ok p'.
Proof. exact skip_past_eol_total. Qed.
Print Assumptions ninjaparse_skip_past_eol_total.

(* one parseDecl call: total, consumes input (strictly unless it stops at EndOfFile), and re-establishes the lexing
   mode None that `assert(lexer.getMode() == Lexer::LexingMode::None)` demands at the head of the loop *)
Theorem ninjaparse_parse_decl_total : forall p, p_mode p = MNone ->
  exists ds p', parse_decl p = Ok (ds, p') /\ p_mode p' = MNone /\
    (unread (p_lex p') <= unread (p_lex p))%nat /\
    (cur_kind p' <> TkEndOfFile -> (unread (p_lex p') < unread (p_lex p))%nat).
Proof. exact parse_decl_total. Qed.
Print Assumptions ninjaparse_parse_decl_total.

(* ================================ token bounds ================================ *)

(* every Token handed to an action, and the `at` token of every error call, lies inside the buffer
   ([in_buf data t] : tk_start t + tk_len t <= length data; [tdecl_P Q d] : every token of d satisfies Q) *)
Theorem ninjaparse_parse_tokens_in_buffer : forall data ds,
  parse_tokens data = Ok ds -> Forall (tdecl_P (in_buf data)) ds.
Proof. exact parse_tokens_in_buffer. Qed.
Print Assumptions ninjaparse_parse_tokens_in_buffer.

(* parse_tokens_in_bounds: every token text handed to the actions is a slice of the input
   ([is_slice data x] : exists a b, a <= b <= length data /\ x = slice data a b /\ length x = b - a) *)
Theorem ninjaparse_parse_tokens_in_bounds : forall data ds d x,
  parse data = Ok ds -> In d ds -> In x (decl_texts d) -> is_slice data x.
Proof. exact parse_tokens_in_bounds. Qed.
Print Assumptions ninjaparse_parse_tokens_in_bounds.

(* ================================ no silent drop, recovery ================================ *)

(* the recovery rule: skipPastEOL drops tokens (lexed in the current mode, comments included) up to the next Newline
   or EndOfFile token, consumes that, and stops at the first token behind it that is not a comment *)
Theorem ninjaparse_skip_past_eol_rule : forall p p', skip_past_eol p = Ok p' ->
  exists t s, lex_to_eol (p_mode p) (p_tok p) (p_lex p) t s /\
              lex_past_comments (p_mode p) s (p_tok p') (p_lex p') /\ p_mode p' = p_mode p.
Proof. exact skip_past_eol_rule. Qed.
Print Assumptions ninjaparse_skip_past_eol_rule.

(* ... and the rule determines the state after recovery *)
Theorem ninjaparse_skip_past_eol_exact : forall p t s t' s',
  lex_to_eol (p_mode p) (p_tok p) (p_lex p) t s -> lex_past_comments (p_mode p) s t' s' ->
  skip_past_eol p = Ok (mkP t' s' (p_mode p)).
Proof. exact skip_past_eol_exact. Qed.
Print Assumptions ninjaparse_skip_past_eol_exact.

(* parse_error_or_decl: a parseDecl call on a blank line only consumes the Newline; on any other token it makes
   exactly one top-level call, a declaration or an error; after an error it has recovered from the state at which the
   error was raised (current token = the error's token, mode None) by skipPastEOL - repeated while the next line is
   indented when a build / pool / rule specifier failed *)
Theorem ninjaparse_parse_error_or_decl : forall p ds p', p_mode p = MNone -> parse_decl p = Ok (ds, p') ->
  (cur_kind p = TkNewline /\ ds = [] /\ next p = Ok p') \/
  (cur_kind p <> TkNewline /\ exists d, ds = [d] /\
     forall c a, d = TDPErr c a ->
       exists pe, raised_at pe a /\
         if is_block_kw (cur_kind p) then skip_lines pe p' else skip_past_eol pe = Ok p').
Proof. exact parse_error_or_decl. Qed.
Print Assumptions ninjaparse_parse_error_or_decl.

(* a failing binding (top-level or indented) reports one error and recovers by skipPastEOL from the offending token *)
Theorem ninjaparse_binding_error_recovery : forall p c a p', parse_binding_internal p = Ok (BRErr c a, p') ->
  exists pe, raised_at pe a /\ skip_past_eol pe = Ok p'.
Proof. exact binding_error_recovery. Qed.
Print Assumptions ninjaparse_binding_error_recovery.

(* every indented line of a block: blank -> skipped; anything else -> exactly one item (binding or error) *)
Theorem ninjaparse_block_line_item : forall f p l p', block_loop (S f) p = Ok (l, p') -> cur_kind p = TkIndentation ->
  exists p1, next (set_mode MIdentifierSpecific p) = Ok p1 /\
    ((cur_kind p1 = TkNewline /\ exists p2, next (set_mode MNone p1) = Ok p2 /\ block_loop f p2 = Ok (l, p')) \/
     (cur_kind p1 <> TkNewline /\ exists r p2 l', parse_binding_internal p1 = Ok (r, p2) /\
        l = tbitem_of_bres r :: l' /\ block_loop f p2 = Ok (l', p'))).
Proof. exact block_line_item. Qed.
Print Assumptions ninjaparse_block_line_item.

(* ================================ parser + loader ================================ *)

(* parse_load_total: bytes -> parser model -> loader model (NinjaEval.load) never runs out of fuel, for any byte
   strings as files, with the loader's include depth (64) and recursive-include guards *)
Theorem ninjaparse_parse_load_total : forall fuel wd raw main, (max_include_depth <= fuel)%nat ->
  exists m, parse_load fuel wd raw main = Ok m /\ has_out_of_fuel (mf_errors m) = false.
Proof. exact parse_load_total. Qed.
Print Assumptions ninjaparse_parse_load_total.

(* ================================ the model on the repository's parser tests ================================ *)

(* the five manifests of /repo/tests/Ninja/Parser (bytes and expected action lists in Parse/NinjaParseProofsEx.v) parse,
   by computation of the lexer + parser models, to the action lists the real parser makes on them *)
Theorem ninjaparse_repo_tests_parse :
  parse basic_bytes = Ok basic_ast /\
  parse identifier_names_bytes = Ok identifier_names_ast /\
  parse identifier_specific_parsing_bytes = Ok identifier_specific_parsing_ast /\
  parse path_string_parsing_bytes = Ok path_string_parsing_ast /\
  parse variable_string_parsing_bytes = Ok variable_string_parsing_ast.
Proof.
  exact (conj basic_parses (conj identifier_names_parses (conj identifier_specific_parsing_parses
        (conj path_string_parsing_parses variable_string_parsing_parses)))).
Qed.
Print Assumptions ninjaparse_repo_tests_parse.
