(* C06 - schedule independence, task protocol, no lost wake-up.
   Only theorem statements; each is closed by [exact <lemma>] and followed by Print Assumptions.
   PARTIAL by nature: what is proved is the logic of the wait/notify handshake (Engine/Handshake.v, a transition system
   transliterated from executeTasks / cancelRemainingTasks / taskIsComplete, for ANY number of completing threads and ANY
   interleaving) and the language of the per-task protocol automaton (Engine/Protocol.v).  Data-race freedom is a property of
   the C++ memory model and is sampled under ThreadSanitizer by harness/py/props/c06.py, not proved. *)
From Coq Require Import List Arith Bool Permutation.
From LLB Require Import Engine.Handshake Engine.HandshakeProofs Engine.Protocol Engine.ProtocolProofs.
Import ListNotations.

(* ---- handshake ---- *)

(* The inductive invariant: in every reachable state in which the engine is blocked in condition_variable::wait, every element of
   the finished-task queue was pushed by a thread whose notify_one is still to come. *)
Theorem c06_no_lost_wakeup : forall s, reachable s ->
  forall m, pc s = EWaiting m ->
  forall i, In i (queue s) ->
  nth_error (threads s) i = Some CPushed \/ nth_error (threads s) i = Some CReleased.
Proof. exact no_lost_wakeup. Qed.
Print Assumptions c06_no_lost_wakeup.

(* never: engine asleep /\ queue non-empty /\ no notification can still arrive *)
Theorem c06_never_asleep_with_work : forall s, reachable s ->
  ~ (is_waiting (pc s) = true /\ queue s <> [] /\
     forall i, not_notified (nth_error (threads s) i) = false).
Proof. exact never_asleep_with_work. Qed.
Print Assumptions c06_never_asleep_with_work.

Theorem c06_never_asleep_all_done : forall s, reachable s ->
  ~ (is_waiting (pc s) = true /\ queue s <> [] /\ all_done s = true).
Proof. exact never_asleep_all_done. Qed.
Print Assumptions c06_never_asleep_all_done.

(* the engine only sleeps while some completer has not yet notified (it never waits for nobody) *)
Theorem c06_waiting_has_waker : forall s, reachable s -> is_waiting (pc s) = true ->
  exists j c, nth_error (threads s) j = Some c /\ c <> CDone.
Proof. exact waiting_has_waker. Qed.
Print Assumptions c06_waiting_has_waker.

(* no deadlock: from any reachable state every started completion is consumed by the engine after finitely many steps taken by the
   engine and the completers on their own (no spurious wake-up, no new task, no cancellation, no cycle break is needed) *)
Theorem c06_progress : forall s i, reachable s -> i < length (threads s) ->
  exists ls s', forallb internal ls = true /\ steps s ls = Some s' /\ In i (consumed s').
Proof. exact progress. Qed.
Print Assumptions c06_progress.

(* the proof uses the code's structure: with the emptiness check made before the mutex is taken, a wake-up is lost *)
Theorem c06_broken_variant_loses_wakeup :
  exists s, reachable_broken s /\ pc s = EWaiting Main /\ queue s <> [] /\ all_done s = true /\ outstanding s = 1.
Proof. exact broken_variant_loses_wakeup. Qed.
Print Assumptions c06_broken_variant_loses_wakeup.

(* ---- task protocol ---- *)

(* the language of the automaton: start, optionally the prior value, the requested inputs in any order each exactly once,
   inputs-available, complete - and nothing else *)
Theorem c06_proto_language : forall req evs,
  proto_accepts req evs = true <->
  exists pr ps, evs = PStart :: pr ++ map PProvide ps ++ [PAvail; PComplete] /\
                (pr = [] \/ pr = [PPrior]) /\ Permutation ps req.
Proof. exact proto_accepts_iff. Qed.
Print Assumptions c06_proto_language.

Theorem c06_proto_start_first : forall req evs, proto_accepts req evs = true ->
  exists rest, evs = PStart :: rest /\ ~ In PStart rest.
Proof. exact accepts_start_first. Qed.
Print Assumptions c06_proto_start_first.

Theorem c06_proto_prior_position : forall req evs, proto_accepts req evs = true ->
  forall n, nth_error evs n = Some PPrior -> n = 1.
Proof. exact accepts_prior_position. Qed.
Print Assumptions c06_proto_prior_position.

Theorem c06_proto_provided_exactly : forall req evs, proto_accepts req evs = true ->
  forall s, count_provide s evs = count_nat s req.
Proof. exact accepts_provided_exactly. Qed.
Print Assumptions c06_proto_provided_exactly.

Theorem c06_proto_avail_complete : forall req evs, proto_accepts req evs = true ->
  exists pre, evs = pre ++ [PAvail; PComplete] /\ ~ In PAvail pre /\ ~ In PComplete pre /\
              forall s, count_provide s pre = count_nat s req.
Proof. exact accepts_avail_complete. Qed.
Print Assumptions c06_proto_avail_complete.

(* tasks of a cancelled build: what they saw is an initial part of an accepted life, hence ... *)
Theorem c06_proto_prefix : forall req evs,
  proto_prefix_ok req evs = true <-> exists rest, proto_accepts req (evs ++ rest) = true.
Proof. exact prefix_ok_iff. Qed.
Print Assumptions c06_proto_prefix.

Theorem c06_proto_prefix_at_most : forall req evs, proto_prefix_ok req evs = true ->
  forall s, count_provide s evs <= count_nat s req.
Proof. exact prefix_provided_at_most. Qed.
Print Assumptions c06_proto_prefix_at_most.

Theorem c06_proto_prefix_avail_after_all : forall req evs, proto_prefix_ok req evs = true -> In PAvail evs ->
  forall s, count_provide s evs = count_nat s req.
Proof. exact prefix_avail_after_all. Qed.
Print Assumptions c06_proto_prefix_avail_after_all.

(* ---- non-vacuity ---- *)

(* a reachable state that meets the hypotheses of c06_no_lost_wakeup / c06_waiting_has_waker / c06_progress: two tasks started,
   the engine asleep, completer 1 between push and notify, completer 0 not started *)
Example c06_instance_waiting :
  reachable (mkState (EWaiting Main) None [1] [CIdle; CReleased] 2 []).
Proof. exact demo_reachable. Qed.

(* sync schedule: a task that completes inside inputsAvailable, on the engine thread, is consumed by the next poll *)
Example c06_instance_sync :
  steps init [LSpawn; LThrLock 0; LThrPush 0; LThrUnlock 0; LThrNotify 0; LPollLock; LPoll; LPollLock; LPoll; LContinue;
              LPollLock; LPoll; LExit]
  = Some (mkState EDone None [] [CDone] 0 [0]).
Proof. vm_compute. reflexivity. Qed.

(* cancellation drain with a completion arriving while the drain loop sleeps *)
Example c06_instance_drain :
  steps init [LSpawn; LSpawn; LCancel; LWaitLock; LCheck; LThrLock 1; LThrPush 1; LThrUnlock 1; LThrNotify 1; LReacquire; LWaitUnlock;
              LThrLock 0; LWaitLock; LThrPush 0; LThrUnlock 0; LWaitLock; LCheck; LThrNotify 0; LWaitUnlock; LExit]
  = None.     (* the engine cannot take the mutex while completer 0 holds it *)
Proof. vm_compute. reflexivity. Qed.

Example c06_instance_drain_ok :
  steps init [LSpawn; LSpawn; LCancel; LWaitLock; LCheck; LThrLock 1; LThrPush 1; LThrUnlock 1; LThrNotify 1; LReacquire; LWaitUnlock;
              LThrLock 0; LThrPush 0; LThrUnlock 0; LWaitLock; LCheck; LThrNotify 0; LWaitUnlock; LExit]
  = Some (mkState EDone None [] [CDone; CDone] 0 [0; 1]).
Proof. vm_compute. reflexivity. Qed.

Example c06_instance_proto_accept :
  proto_accepts [0; 1; 2] [PStart; PPrior; PProvide 2; PProvide 0; PProvide 1; PAvail; PComplete] = true.
Proof. vm_compute. reflexivity. Qed.

(* the breaking changes the task names are rejected: a slot provided twice; inputs-available before the last input; prior late *)
Example c06_instance_proto_reject :
  proto_prefix_ok [0; 1] [PStart; PProvide 0; PProvide 0] = false /\
  proto_prefix_ok [0; 1] [PStart; PProvide 0; PAvail] = false /\
  proto_prefix_ok [0; 1] [PStart; PProvide 0; PPrior] = false /\
  proto_prefix_ok [0; 1] [PStart; PProvide 0] = true.
Proof. vm_compute. repeat split; reflexivity. Qed.
