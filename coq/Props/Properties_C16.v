(* C16 - every job runs exactly once within the lane limit; every process is accounted for.
   Only theorem statements; each is closed by [exact <lemma>] and followed by Print Assumptions.
   PARTIAL by nature: the theorems are about the queue's bookkeeping (a transition system whose steps are the
   critical sections of LaneBasedExecutionQueue.cpp) and about the pure mappings (wait status -> ProcessStatus,
   environment construction).  Real thread interleavings, pipe ordering, signal delivery and reaping are sampled
   by harness/py/props/c16.py, not proved. *)
From Coq Require Import Permutation.
From LLB Require Import Base.Bytes Queue.Lanes Queue.LanesProofs Queue.ProcStatus Queue.ProcStatusProofs
  Queue.Env Queue.EnvProofs gen.Gen_ProcStatus.
Local Open Scope N_scope.

(* ---------------------------------------------------------------- lanes *)
(* Never more jobs in flight than lanes, one job per lane, over ALL label sequences the queue can perform. *)
Theorem c16_lanes_bound : forall n alg ls s,
  accepts (init n alg) ls = Some s ->
  (length (st_running s) <= N.to_nat n)%nat /\ NoDup (map fst (st_running s)) /\
  (forall l j, In (l, j) (st_running s) -> l < n).
Proof. exact lanes_bound. Qed.
Print Assumptions c16_lanes_bound.

Theorem c16_lanes_bound_always : forall n alg pre post s,
  accepts (init n alg) (pre ++ post) = Some s ->
  exists s1, accepts (init n alg) pre = Some s1 /\
             (length (st_running s1) <= N.to_nat n)%nat /\ NoDup (map fst (st_running s1)).
Proof. exact lanes_bound_always. Qed.
Print Assumptions c16_lanes_bound_always.

(* ---------------------------------------------------------------- exactly once *)
(* no job is taken twice ... *)
Theorem c16_taken_at_most_once : forall n alg ls s,
  accepts (init n alg) ls = Some s -> NoDup (takes ls).
Proof. exact takes_nodup. Qed.
Print Assumptions c16_taken_at_most_once.

(* ... and only after it was added *)
Theorem c16_take_after_add : forall n alg pre l j post s,
  accepts (init n alg) (pre ++ Take l j :: post) = Some s -> In j (adds pre) /\ ~ In j (takes pre).
Proof. exact take_after_add. Qed.
Print Assumptions c16_take_after_add.

(* Once the queue is destroyed (shutdown, nothing queued, nothing running) the finished jobs are exactly the added jobs.
   cancelAllJobs does not drop queued jobs: they are still taken and run (only executeProcess refuses to spawn). *)
Theorem c16_exactly_once : forall n alg ls s,
  accepts (init n alg) ls = Some s -> terminal s = true ->
  Permutation (st_finished s) (adds ls) /\ NoDup (st_finished s) /\ Permutation (takes ls) (adds ls).
Proof. exact exactly_once. Qed.
Print Assumptions c16_exactly_once.

Theorem c16_finished_subset : forall n alg ls s,
  accepts (init n alg) ls = Some s -> NoDup (st_finished s) /\ incl (st_finished s) (adds ls).
Proof. exact finished_subset. Qed.
Print Assumptions c16_finished_subset.

(* No job can be lost: every reachable state can be completed to a terminal one in which all jobs have finished. *)
Theorem c16_can_terminate : forall n alg ls s,
  0 < n -> accepts (init n alg) ls = Some s ->
  exists ls' s', accepts (init n alg) (ls ++ ls') = Some s' /\ terminal s' = true /\
                 Permutation (st_finished s') (adds (ls ++ ls')).
Proof. exact can_terminate. Qed.
Print Assumptions c16_can_terminate.

(* ---------------------------------------------------------------- progress *)
Theorem c16_no_take_lost : forall n alg ls s l,
  accepts (init n alg) ls = Some s -> lane_ok s l = true -> lane_busy s l = false -> queue_empty s = false ->
  exists j s', step s (Take l j) = Some s'.
Proof. exact no_take_lost. Qed.
Print Assumptions c16_no_take_lost.

Theorem c16_no_stuck : forall n alg ls s,
  accepts (init n alg) ls = Some s -> 0 < n -> queue_empty s = false ->
  exists l, lane_ok s l = true /\
            ((lane_busy s l = true /\ exists s', step s (Finish l) = Some s') \/
             (lane_busy s l = false /\ exists j s', step s (Take l j) = Some s')).
Proof. exact no_stuck. Qed.
Print Assumptions c16_no_stuck.

(* ---------------------------------------------------------------- scheduling order *)
Theorem c16_hi_order : forall n alg ls s,
  accepts (init n alg) ls = Some s ->
  hi_adds ls = filter (fun j => mem_n j (hi_adds ls)) (takes ls) ++ st_hi s.
Proof. exact hi_order. Qed.
Print Assumptions c16_hi_order.

Theorem c16_fifo_order : forall n ls s,
  accepts (init n Fifo) ls = Some s ->
  normal_adds ls = filter (fun j => mem_n j (normal_adds ls)) (takes ls) ++ map fst (st_ready s).
Proof. exact fifo_order. Qed.
Print Assumptions c16_fifo_order.

Theorem c16_fifo_pairwise : forall n pre l b post s x a y z,
  accepts (init n Fifo) (pre ++ Take l b :: post) = Some s ->
  normal_adds pre = x ++ a :: y ++ b :: z ->
  In a (takes pre).
Proof. exact fifo_pairwise. Qed.
Print Assumptions c16_fifo_pairwise.

Theorem c16_high_first : forall n alg pre l j post s,
  accepts (init n alg) (pre ++ Take l j :: post) = Some s -> In j (normal_adds pre) ->
  forall h, In h (hi_adds pre) -> In h (takes pre).
Proof. exact high_first. Qed.
Print Assumptions c16_high_first.

Theorem c16_priority_order : forall n pre l j post s,
  accepts (init n NamePrio) (pre ++ Take l j :: post) = Some s ->
  (forall h, In h (hi_adds pre) -> In h (takes pre)) ->
  exists o, In (j, o) (normal_entries pre) /\
            forall k ok, In (k, ok) (normal_entries pre) -> ~ In k (takes pre) -> bytes_ltb o ok = false.
Proof. exact priority_order. Qed.
Print Assumptions c16_priority_order.

Theorem c16_ready_spec : forall n alg ls s e,
  accepts (init n alg) ls = Some s ->
  (In e (st_ready s) <-> In e (normal_entries ls) /\ ~ In (fst e) (takes ls)).
Proof. exact ready_spec. Qed.
Print Assumptions c16_ready_spec.

(* ---------------------------------------------------------------- the serial queue *)
(* SerialExecutionQueue (one worker, FIFO, shutdown marker queued by the destructor): when the worker has left, every job
   ever added - also those the running job added after the destructor began - has finished exactly once. *)
Theorem c16_serial_exactly_once : forall ls s,
  saccepts sinit ls = Some s -> ss_exited s = true ->
  Permutation (ss_finished s) (ss_added s) /\ NoDup (ss_finished s) /\ slost s = [].
Proof. exact serial_exactly_once. Qed.
Print Assumptions c16_serial_exactly_once.

Theorem c16_serial_finished_subset : forall ls s,
  saccepts sinit ls = Some s -> NoDup (ss_finished s) /\ incl (ss_finished s) (ss_added s).
Proof. exact serial_finished_subset. Qed.
Print Assumptions c16_serial_finished_subset.

(* Before the repair 6dc9f85 the worker left at the marker and a job queued behind it was destroyed unrun. *)
Theorem c16_serial_v0_refuted :
  exists ls s, saccepts_v0 sinit ls = Some s /\ ss_exited s = true /\ ss_running s = None /\
               In 1 (ss_added s) /\ ~ In 1 (ss_finished s) /\ slost s = [1].
Proof. exact serial_v0_refuted. Qed.
Print Assumptions c16_serial_v0_refuted.

(* ---------------------------------------------------------------- cancellation *)
Theorem c16_no_spawn_after_cancel : forall n alg pre post s,
  accepts (init n alg) (pre ++ Cancel :: post) = Some s -> forallb (fun a => negb (is_spawn a)) post = true.
Proof. exact no_spawn_after_cancel. Qed.
Print Assumptions c16_no_spawn_after_cancel.

Theorem c16_launch_never_spawns_when_cancelled : forall cancelled closed no_args spawn wait_err,
  cancelled || closed = true -> fst (launch_outcome cancelled closed no_args spawn wait_err) = false.
Proof. exact launch_never_spawns_when_cancelled. Qed.
Print Assumptions c16_launch_never_spawns_when_cancelled.

Theorem c16_launch_after_cancel : forall closed no_args spawn wait_err,
  launch_outcome true closed no_args spawn wait_err = (false, Cancelled).
Proof. exact launch_after_cancel. Qed.
Print Assumptions c16_launch_after_cancel.

Theorem c16_launch_group_closed : forall spawn wait_err,
  launch_outcome false true false spawn wait_err = (false, Cancelled).
Proof. exact launch_group_closed. Qed.
Print Assumptions c16_launch_group_closed.

(* ---------------------------------------------------------------- status reflects the child's fate *)
Theorem c16_status_of_real_fate : forall f,
  fate_ok f = true -> status_of_wait (raw_of_fate f) = status_of_fate f.
Proof. exact status_of_real_fate. Qed.
Print Assumptions c16_status_of_real_fate.

Theorem c16_status_exit_zero : status_of_wait (raw_of_fate (Exited 0)) = Succeeded.
Proof. exact status_exit_zero. Qed.
Print Assumptions c16_status_exit_zero.

Theorem c16_status_exit_nonzero : forall c, 1 <= c -> c < 256 -> status_of_wait (raw_of_fate (Exited c)) = Failed.
Proof. exact status_exit_nonzero. Qed.
Print Assumptions c16_status_exit_nonzero.

Theorem c16_status_interrupt_or_kill : forall sg core,
  sg = SIGINT \/ sg = SIGKILL -> status_of_wait (raw_of_fate (Killed sg core)) = Cancelled.
Proof. exact status_interrupt_or_kill. Qed.
Print Assumptions c16_status_interrupt_or_kill.

Theorem c16_status_other_signal : forall sg core,
  1 <= sg -> sg <= 126 -> sg <> SIGINT -> sg <> SIGKILL -> status_of_wait (raw_of_fate (Killed sg core)) = Failed.
Proof. exact status_other_signal. Qed.
Print Assumptions c16_status_other_signal.

(* the whole 16-bit domain of wait statuses, by computation *)
Theorem c16_status_sweep16 : forall w, w < 65536 -> status_of_wait w = spec16 w.
Proof. exact status_sweep16. Qed.
Print Assumptions c16_status_sweep16.

(* for every N *)
Theorem c16_status_succeeded_iff : forall w, status_of_wait w = Succeeded <-> w = 0.
Proof. exact status_succeeded_iff. Qed.
Print Assumptions c16_status_succeeded_iff.

Theorem c16_status_cancelled_iff : forall w,
  status_of_wait w = Cancelled <-> (wtermsig w = SIGINT \/ wtermsig w = SIGKILL).
Proof. exact status_cancelled_iff. Qed.
Print Assumptions c16_status_cancelled_iff.

Theorem c16_status_failed_iff : forall w,
  status_of_wait w = Failed <-> (w <> 0 /\ wtermsig w <> SIGINT /\ wtermsig w <> SIGKILL).
Proof. exact status_failed_iff. Qed.
Print Assumptions c16_status_failed_iff.

Theorem c16_launch_spawn_error : forall wait_err, launch_outcome false false false None wait_err = (false, Failed).
Proof. exact launch_spawn_error. Qed.
Print Assumptions c16_launch_spawn_error.

Theorem c16_launch_real_fate : forall f,
  fate_ok f = true -> launch_outcome false false false (Some (raw_of_fate f)) false = (true, status_of_fate f).
Proof. exact launch_real_fate. Qed.
Print Assumptions c16_launch_real_fate.

(* Over the table probed from real children on this run (coq/gen/Gen_ProcStatus.v): every exit code 0..255 and every
   terminating or ignored signal 1..31 was observed, the raw status is the one [raw_of_fate] predicts and the status
   the implementation reported is [status_of_wait] of it and the one the property asks for. *)
Theorem c16_gen_status_ok : probe_complete probed_fates = true /\ forallb probe_entry_ok probed_fates = true.
Proof. vm_compute. split; reflexivity. Qed.
Print Assumptions c16_gen_status_ok.

(* ---------------------------------------------------------------- environment *)
Theorem c16_env_first_wins : forall bid lid tid requested inherit base cfd,
  build_env bid lid tid requested inherit base cfd = set_all [] (sources bid lid tid requested inherit base cfd).
Proof. exact build_env_first_wins. Qed.
Print Assumptions c16_env_first_wins.

Theorem c16_env_precedence : forall bid lid tid requested inherit base cfd k,
  lookup k (build_env bid lid tid requested inherit base cfd) =
  lookup k (sources bid lid tid requested inherit base cfd).
Proof. exact env_precedence. Qed.
Print Assumptions c16_env_precedence.

Theorem c16_env_keys_unique : forall bid lid tid requested inherit base cfd,
  NoDup (map fst (build_env bid lid tid requested inherit base cfd)).
Proof. exact env_keys_unique. Qed.
Print Assumptions c16_env_keys_unique.

Theorem c16_env_ids_first : forall bid lid tid requested inherit base cfd,
  lookup K_BUILD_ID (build_env bid lid tid requested inherit base cfd) = Some bid /\
  lookup K_LANE_ID (build_env bid lid tid requested inherit base cfd) = Some lid.
Proof. exact env_ids_first. Qed.
Print Assumptions c16_env_ids_first.

Theorem c16_env_requested_over_inherited : forall bid lid tid requested base cfd k v,
  lookup k requested = Some v -> bytes_eqb k K_BUILD_ID = false -> bytes_eqb k K_LANE_ID = false ->
  process_assigned k = false ->
  lookup k (build_env bid lid tid requested true base cfd) = Some v.
Proof. exact env_requested_over_inherited. Qed.
Print Assumptions c16_env_requested_over_inherited.

(* LLBUILD_TASK_ID and LLBUILD_CONTROL_FD are the process's own, whatever is requested or inherited (full strength:
   this is the statement that failed before the repair a51183e, see c16_env_v0_refuted). *)
Theorem c16_env_process_ids_own : forall bid lid tid requested inherit base cfd,
  lookup K_TASK_ID (build_env bid lid tid requested inherit base cfd) = Some tid /\
  lookup K_CONTROL_FD (build_env bid lid tid requested inherit base cfd) = cfd.
Proof. exact env_process_ids_own. Qed.
Print Assumptions c16_env_process_ids_own.

Theorem c16_env_child_view : forall bid lid tid requested inherit base cfd k,
  clean_key k = true -> forallb clean_key (map fst requested) = true ->
  getenv k (render (build_env bid lid tid requested inherit base cfd)) =
  lookup k (sources bid lid tid requested inherit base cfd).
Proof. exact env_child_view. Qed.
Print Assumptions c16_env_child_view.

(* The construction as it was before the repair: spawnProcess wrote LLBUILD_TASK_ID with setIfMissing after the
   unfiltered requested and inherited entries.  Witness: base environment containing LLBUILD_TASK_ID=z (what an llbuild
   started from an llbuild task inherits); kept in the check's corpus. *)
Theorem c16_env_v0_refuted :
  exists bid lid tid requested base,
    lookup K_TASK_ID (build_env_v0 bid lid tid requested true base None) <> Some tid.
Proof. exact env_v0_refuted. Qed.
Print Assumptions c16_env_v0_refuted.

(* a requested key containing '=' yields two entries for one name in the child *)
Theorem c16_env_unclean_key_refuted :
  exists requested k,
    forallb clean_key (map fst requested) = false /\
    getenv k (render (build_env [49] [48] [50] requested false [] None)) <>
    lookup k (sources [49] [48] [50] requested false [] None).
Proof. exact env_unclean_key_refuted. Qed.
Print Assumptions c16_env_unclean_key_refuted.

(* ---------------------------------------------------------------- non-vacuity *)
Example c16_run_instance :
  exists s, accepts (init 2 Fifo) ex_run = Some s /\ terminal s = true /\ st_finished s = [1; 3; 0; 2] /\
            adds ex_run = [0; 1; 2; 3] /\ takes ex_run = [2; 0; 1; 3].
Proof. eexists. split; [vm_compute; reflexivity|]. repeat split; reflexivity. Qed.

Example c16_prio_instance : exists s, accepts (init 1 NamePrio) ex_run_prio = Some s /\ terminal s = true.
Proof. exact ex_run_prio_accepted. Qed.

Example c16_serial_instance :
  exists s, saccepts sinit [SAdd 0 false; STake 0; SShutdown; SAdd 1 true; SFinish; STake 1; SFinish; SExit] = Some s /\
            ss_exited s = true /\ ss_finished s = [1; 0].
Proof. eexists. split; [vm_compute; reflexivity|]. split; reflexivity. Qed.

Example c16_fate_instance : fate_ok (Killed 11 true) = true /\ raw_of_fate (Killed 11 true) = 139 /\ status_of_wait 139 = Failed.
Proof. repeat split; reflexivity. Qed.

(* POSIX: two names that differ only in letter case are two variables; neither suppresses the other, whatever the source *)
Example c16_env_case_sensitive :
  let e := build_env [49] [48] [51] [([104;116;116;112], [114])] true [[72;84;84;80;61;98]; [72;116;116;112;61;109]] None in
  lookup [104;116;116;112] e = Some [114] /\ lookup [72;84;84;80] e = Some [98] /\ lookup [72;116;116;112] e = Some [109] /\
  render e = [K_BUILD_ID ++ [61;49]; K_LANE_ID ++ [61;48]; [104;116;116;112;61;114]; [72;84;84;80;61;98]; [72;116;116;112;61;109]; K_TASK_ID ++ [61;51]].
Proof. vm_compute. repeat split; reflexivity. Qed.

Example c16_env_instance :
  clean_key [97;98] = true /\
  getenv [97;98] (render (build_env [49] [48] [51] [([97;98], [99])] true [[97;98;61;122]] None)) = Some [99].
Proof. split; vm_compute; reflexivity. Qed.
