(* C10 - a failed or cancelled command never feeds dependents and is always retried.
   Only theorem statements; each is closed by [exact <lemma>] and followed by Print Assumptions.
   The model (BSys/Failure.v) is the code as it is; the hops through which the code does NOT carry failure on are
   excluded from the positive theorems by name ([launders], [uses_inputs], shouldCommandStart) and proved to be
   genuine exceptions by the [_refuted] witnesses. *)
From Coq Require Import List Bool Arith.
Import ListNotations.
From LLB Require Import BSys.Failure BSys.FailureProofs.

(* One hop, finite case analysis stated for all: a failing producer value (Failed / PropagatedFailure / Cancelled),
   every producer class, every kind of output node (except a phony command's virtual output), every consumer that
   reads its inputs, any other inputs before and after, any flags: the node is FailedInput, the consumer is not
   launched and its value is failing again. *)
Theorem c10_fail_propagates_one_hop :
  forall (pt : tool) (nk : node_kind) (pv : vkind) (pmissing presolved : bool)
         (ct : tool) (a c s u : bool) (before after : list vkind) (x : exec_result),
    is_failing_cmd pv = true -> launders pt nk = false ->
    uses_inputs ct = true -> (c || s) = true ->
    let nv := produced_node_value presolved pt nk pv pmissing in
    let o := run_command ct a c s u (before ++ nv :: after) x in
    nv = VFailedInput /\ o_executes o = false /\ is_failing_cmd (o_value o) = true.
Proof. exact fail_propagates_one_hop. Qed.
Print Assumptions c10_fail_propagates_one_hop.

(* ALL chains, any length: behind a FailedInput no command of a regular hop is launched, every command value is
   failing, every node value is FailedInput. *)
Theorem c10_fail_propagates_chain :
  forall hs : list hop, forallb regular_hop hs = true -> Forall blocked (run_chain VFailedInput hs).
Proof. exact fail_propagates_chain. Qed.
Print Assumptions c10_fail_propagates_chain.

(* ... starting at the command that fails or is cancelled itself, whatever the reason. *)
Theorem c10_fail_propagates_from_command :
  forall (nv : vkind) (h0 : hop) (hs : list hop),
    is_failing_cmd (o_value (fst (run_hop nv h0))) = true ->
    launders (h_tool h0) (h_out_kind h0) = false ->
    forallb regular_hop hs = true ->
    Forall blocked (tl (run_chain nv (h0 :: hs))).
Proof. exact fail_propagates_from_command. Qed.
Print Assumptions c10_fail_propagates_from_command.

(* The skip flag is sticky: inputs provided after a failing one (a second failing input included) cannot clear it. *)
Theorem c10_skip_flag_sticky :
  forall (a : bool) (vs ws : list vkind),
    cs_skip (provide_all a vs) = true -> cs_skip (provide_all a (vs ++ ws)) = true.
Proof. exact provide_all_skip_app. Qed.
Print Assumptions c10_skip_flag_sticky.

(* The transitive statement of the property is FALSE of the code through three kinds of hop. *)
Theorem c10_phony_virtual_refuted :
  exists hF hP hD : hop,
    uses_inputs (h_tool hD) = true /\ h_should_start hD = true /\ h_cancelled hD = false /\
    match run_chain VExistingInput [hF; hP; hD] with
    | [rF; rP; rD] =>
        o_value (fst rF) = VFailedCommand /\ snd rF = VFailedInput /\
        o_executes (fst rP) = false /\ o_value (fst rP) = VPropagatedFailureCommand /\ snd rP = VVirtualInput /\
        o_executes (fst rD) = true /\ o_value (fst rD) = VSuccessfulCommand
    | _ => False
    end.
Proof. exact phony_virtual_refuted. Qed.
Print Assumptions c10_phony_virtual_refuted.

Theorem c10_symlink_mustfollow_refuted :
  exists hF hS hE : hop,
    uses_inputs (h_tool hE) = true /\ h_should_start hS = true /\ h_should_start hE = true /\
    match run_chain VExistingInput [hF; hS; hE] with
    | [rF; rS; rE] =>
        o_value (fst rF) = VFailedCommand /\ snd rF = VFailedInput /\
        o_executes (fst rS) = true /\ o_value (fst rS) = VSuccessfulCommand /\ snd rS = VExistingInput /\
        o_executes (fst rE) = true /\ o_value (fst rE) = VSuccessfulCommand
    | _ => False
    end.
Proof. exact symlink_refuted. Qed.
Print Assumptions c10_symlink_mustfollow_refuted.

Theorem c10_delegate_skip_refuted :
  exists hF hC hD : hop,
    uses_inputs (h_tool hC) = true /\ uses_inputs (h_tool hD) = true /\ h_should_start hC = false /\
    h_should_start hD = true /\
    match run_chain VExistingInput [hF; hC; hD] with
    | [rF; rC; rD] =>
        o_value (fst rF) = VFailedCommand /\ snd rF = VFailedInput /\
        o_executes (fst rC) = false /\ o_value (fst rC) = VSkippedCommand /\ snd rC = VSkippedCommand /\
        o_executes (fst rD) = true /\ o_value (fst rD) = VSuccessfulCommand
    | _ => False
    end.
Proof. exact delegate_skip_refuted. Qed.
Print Assumptions c10_delegate_skip_refuted.

(* Recorded non-successful values are never up to date (then, by the engine property C02 - cited, not proved here -
   the next build runs the command again, and its consumers after it). *)
Theorem c10_never_valid :
  forall (t : tool) (always_out_of_date : bool) (v : vkind) (fs_ok fs_missing fs_same : bool),
    (is_failing_cmd v = true -> cmd_valid t always_out_of_date v fs_ok = false) /\
    node_valid RProduced VFailedInput fs_missing fs_same = false /\
    node_valid RProducedDirectory VFailedInput fs_missing fs_same = false /\
    node_valid RProduced VMissingInput fs_missing fs_same = false /\
    node_valid RProducedDirectory VMissingInput fs_missing fs_same = false /\
    (forall w, node_valid RTarget w fs_missing fs_same = false).
Proof. exact never_valid. Qed.
Print Assumptions c10_never_valid.

Theorem c10_never_valid_unless_successful :
  forall (t : tool) (always_out_of_date : bool) (v : vkind) (fs_ok : bool),
    is_successful v = false -> cmd_valid t always_out_of_date v fs_ok = false.
Proof. exact never_valid_cmd. Qed.
Print Assumptions c10_never_valid_unless_successful.

Theorem c10_skipped_never_valid :
  forall (t : tool) (always_out_of_date fs_ok : bool),
    cmd_valid t always_out_of_date VSkippedCommand fs_ok = false /\
    cmd_valid t always_out_of_date VInvalid fs_ok = false.
Proof. exact skipped_never_valid. Qed.
Print Assumptions c10_skipped_never_valid.

(* The update-if-newer shortcut (allow-modified-outputs) is never taken on a recorded result that is not a successful
   command value: the failed command is launched again. *)
Theorem c10_failed_prior_never_shortcuts :
  forall (t : tool) (a cu am oe : bool) (prior : option vkind) (ins : list vkind) (x : exec_result),
    (forall v, prior = Some v -> is_successful v = false) ->
    update_shortcut cu am oe prior ins = false /\
    (cs_skip (if uses_inputs t then provide_all a ins else cs_init) = false ->
     o_executes (run_command_prior t a false true cu am oe prior ins x) = true).
Proof. exact failed_prior_never_shortcuts. Qed.
Print Assumptions c10_failed_prior_never_shortcuts.

(* The target task reports exactly the missing inputs. *)
Theorem c10_target_reports_iff : forall vs : list vkind, target_reports vs = true <-> In VMissingInput vs.
Proof. exact target_reports_iff. Qed.
Print Assumptions c10_target_reports_iff.

(* A failing command value never appears silently. *)
Theorem c10_failing_value_is_reported :
  forall (hs : list hop) (nv : vkind),
    Exists failing_result (run_chain nv hs) ->
    nv = VFailedInput \/ Exists side_failed hs \/ Exists hop_cancelled hs \/
    0 < chain_failures (run_chain nv hs) + hop_node_failures hs.
Proof. exact failing_value_is_reported. Qed.
Print Assumptions c10_failing_value_is_reported.

(* The frontend's success flag is false whenever a failure originates inside the chain. *)
Theorem c10_build_reports_failure :
  forall (hs : list hop) (nv : vkind) (cancelled : bool) (other_failures errors : nat),
    Exists failing_result (run_chain nv hs) ->
    nv <> VFailedInput -> ~ Exists side_failed hs ->
    (Exists hop_cancelled hs -> cancelled = true) ->
    build_ok cancelled (chain_failures (run_chain nv hs) + hop_node_failures hs + other_failures) errors = false.
Proof. exact build_reports_failure. Qed.
Print Assumptions c10_build_reports_failure.

(* non-vacuity: a concrete five-hop chain meets the hypotheses of the chain theorem *)
Example c10_chain_instance :
  forallb regular_hop [tool_hop TPhony NCommandTimestamp; tool_hop TMkdir NDirectory; tool_hop TPhony NPlain;
                       shell_hop XOk NDirectoryStructure; shell_hop XOk NVirtual] = true.
Proof. vm_compute. reflexivity. Qed.
