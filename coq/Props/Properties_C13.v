(* C13 - file change detection is sound in every file-system mode. Statements only. *)
From LLB Require Import Base.Bytes Codec.Codec Codec.FileObs Codec.FileObsProofs.
Local Open Scope N_scope.

Theorem c13_detects_default : forall digest s1 s2, wf_state s1 -> wf_state s2 ->
  exists_ s1 <> exists_ s2 \/ size_of s1 <> size_of s2 \/ mtime_of s1 <> mtime_of s2 \/ dev_ino_of s1 <> dev_ino_of s2 ->
  info_eqb (observe digest MDefault s1) (observe digest MDefault s2) = false.
Proof. exact detects_default. Qed.
Print Assumptions c13_detects_default.

Theorem c13_detects_devagnostic : forall digest s1 s2, wf_state s1 -> wf_state s2 ->
  exists_ s1 <> exists_ s2 \/ size_of s1 <> size_of s2 \/ mtime_of s1 <> mtime_of s2 ->
  info_eqb (observe digest MDevAgnostic s1) (observe digest MDevAgnostic s2) = false.
Proof. exact detects_devagnostic. Qed.
Print Assumptions c13_detects_devagnostic.

Theorem c13_untouched_equal : forall digest m s, info_eqb (observe digest m s) (observe digest m s) = true.
Proof. exact untouched_equal. Qed.
Print Assumptions c13_untouched_equal.

Theorem c13_never_sentinel : forall digest m o, wf_obj o -> is_missing (observe digest m (Some o)) = false.
Proof. exact never_sentinel. Qed.
Print Assumptions c13_never_sentinel.

Theorem c13_devagnostic_ignores_dev_ino : forall digest o d i, wf_obj o ->
  info_eqb (observe digest MDevAgnostic (Some o))
           (observe digest MDevAgnostic (Some (mkObj (o_kind o) d i (o_mode o) (o_size o) (o_sec o) (o_nsec o) (o_content o) (o_readable o)))) = true.
Proof. exact devagnostic_ignores_dev_ino. Qed.
Print Assumptions c13_devagnostic_ignores_dev_ino.

(* checksum-only: equality depends exactly on existence, type class, size and content (digest idealised:
   injective on the compared contents and never the directory marker - premises, not axioms) *)
Theorem c13_checksum_mode : forall digest,
  (forall a b, pad32 (digest a) = pad32 (digest b) -> a = b) ->
  (forall a, pad32 (digest a) <> dir_marker) ->
  forall s1 s2, wf_state s1 -> wf_state s2 -> readable_state s1 -> readable_state s2 ->
  (info_eqb (observe digest MChecksumOnly s1) (observe digest MChecksumOnly s2) = true <->
   exists_ s1 = exists_ s2 /\ kind_class s1 = kind_class s2 /\ size_of s1 = size_of s2 /\ content_of s1 = content_of s2).
Proof. exact checksum_mode_equal_iff. Qed.
Print Assumptions c13_checksum_mode.

Theorem c13_checksum_mode_ignores_stamps : forall digest o d i sec nsec, wf_obj o ->
  info_eqb (observe digest MChecksumOnly (Some o))
           (observe digest MChecksumOnly (Some (mkObj (o_kind o) d i (o_mode o) (o_size o) sec nsec (o_content o) (o_readable o)))) = true.
Proof. exact checksum_mode_ignores_stamps. Qed.
Print Assumptions c13_checksum_mode_ignores_stamps.

(* what the comparison was before the repair: witness = existing empty file, mtime 0.0 *)
Theorem c13_devagnostic_epoch0_unrepaired_refuted :
  exists o, wf_obj o /\
    info_eqb_unrepaired (observe (fun _ => []) MDevAgnostic (Some o)) (observe (fun _ => []) MDevAgnostic None) = true.
Proof. exact devagnostic_epoch0_unrepaired_refuted. Qed.
Print Assumptions c13_devagnostic_epoch0_unrepaired_refuted.

Example c13_wf_instance : wf_state (Some (mkObj OFile 2049 77 33188 3 1700000000 5 [97;98;99] true)) /\ wf_state None.
Proof. split; cbn; unfold wf_obj; cbn; [lia | exact I]. Qed.
