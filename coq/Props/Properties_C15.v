(* C15 - keys and values encode canonically and decode losslessly.
   Only theorem statements; each closed by [exact <lemma>] (or a vm_compute check of a regenerated table). *)
From LLB Require Import Base.Bytes Base.LE Codec.Codec Codec.CodecProofs gen.Gen_Codec.
Local Open Scope N_scope.

Theorem c15_value_roundtrip : forall v, wf_value v -> dec_value (enc_value v) = Some v.
Proof. exact dec_value_enc. Qed.
Print Assumptions c15_value_roundtrip.

Theorem c15_value_injective : forall v1 v2, wf_value v1 -> wf_value v2 -> enc_value v1 = enc_value v2 -> v1 = v2.
Proof. exact enc_value_injective. Qed.
Print Assumptions c15_value_injective.

Theorem c15_key_roundtrip : forall k, wf_key k -> dec_key (enc_key k) = Some k.
Proof. exact dec_key_enc. Qed.
Print Assumptions c15_key_roundtrip.

Theorem c15_key_injective : forall k1 k2, wf_key k1 -> wf_key k2 -> enc_key k1 = enc_key k2 -> k1 = k2.
Proof. exact enc_key_injective. Qed.
Print Assumptions c15_key_injective.

(* the key round trip holds for names of ANY length below 2^32 ([wf_key] has no other bound): instances, checked by
   running the model, whose 32-bit size field has a byte >= 0x80 in the first (128) and in the second (32768, 33000) place *)
Example c15_key_roundtrip_len128 :
  wf_key key_len128 /\ firstn 5 (enc_key key_len128) = [88; 128; 0; 0; 0] /\
  dec_key (enc_key key_len128) = Some key_len128.
Proof. exact key_len128_roundtrip. Qed.
Example c15_key_roundtrip_len32768 :
  wf_key key_len32768 /\ firstn 5 (enc_key key_len32768) = [100; 0; 128; 0; 0] /\
  dec_key (enc_key key_len32768) = Some key_len32768.
Proof. exact key_len32768_roundtrip. Qed.
Example c15_key_roundtrip_len33000 :
  wf_key key_len32768s /\ firstn 5 (enc_key key_len32768s) = [115; 232; 128; 0; 0] /\
  dec_key (enc_key key_len32768s) = Some key_len32768s.
Proof. exact key_len32768s_roundtrip. Qed.

(* a BuildValue object that is re-used: whatever it held before ([dst], not even well-formed) and through whatever
   history of assignments, after receiving [src] it encodes exactly like a fresh [src], shows [src] through its
   accessors and decodes to [src] *)
Theorem c15_assign_canonical : forall dst src, enc_value (move_assign dst src) = enc_value src.
Proof. exact enc_move_assign. Qed.
Print Assumptions c15_assign_canonical.

Theorem c15_assign_roundtrip : forall dst src, wf_value src ->
  view (move_assign dst src) = src /\ dec_value (enc_value (move_assign dst src)) = Some src.
Proof. exact assign_roundtrip. Qed.
Print Assumptions c15_assign_roundtrip.

Theorem c15_assign_history_canonical : forall dst vs v,
  enc_value (assign_all dst (vs ++ [v])) = enc_value v /\ view (assign_all dst (vs ++ [v])) = view v.
Proof. exact assign_history. Qed.
Print Assumptions c15_assign_history_canonical.

(* non-vacuity of the three, and the reason for the `kindHasStringList()` guard: transferring the list only when it is
   non-empty is not canonical *)
Example c15_assign_instance :
  exists dst src, wf_value dst /\ wf_value src /\ bv_strs dst <> [] /\ bv_strs src = [] /\
                  enc_value (move_assign dst src) = enc_value src /\
                  enc_value (move_assign_if_nonempty dst src) <> enc_value src.
Proof. exact assign_instance. Qed.

(* a stored result can never be mistaken for one of another kind: the first byte differs *)
Theorem c15_cross_kind : forall v1 v2, bv_kind v1 <> bv_kind v2 -> hd 0 (enc_value v1) <> hd 0 (enc_value v2).
Proof. exact cross_kind. Qed.
Print Assumptions c15_cross_kind.

Theorem c15_empty_list_vs_empty_string : enc_strlist [] <> enc_strlist [[]].
Proof. exact strlist_empty_vs_one_empty. Qed.
Print Assumptions c15_empty_list_vs_empty_string.

(* Over the tables probed from the rebuilt code on this run (coq/gen/Gen_Codec.v): *)
Theorem c15_tags_distinct : NoDup probed_value_tags.
Proof. apply nodupb_NoDup. vm_compute. reflexivity. Qed.
Print Assumptions c15_tags_distinct.

Theorem c15_tags_are_the_models : probed_value_tags = map vtag all_vkinds /\ probed_key_char_of_kind = key_kind_tags.
Proof. split; apply list_N_eqb_eq; vm_compute; reflexivity. Qed.
Print Assumptions c15_tags_are_the_models.

Theorem c15_kind_char_bijection :
  (forall i, (i < 9)%nat -> nth (N.to_nat (nth i probed_key_char_of_kind 0)) probed_key_kind_of_char 99 = N.of_nat i) /\
  (forall c, (c < 256)%nat -> nth c probed_key_kind_of_char 99 < 9 ->
             nth (N.to_nat (nth c probed_key_kind_of_char 99)) probed_key_char_of_kind 999 = N.of_nat c).
Proof. apply key_tables_ok_spec. vm_compute. reflexivity. Qed.
Print Assumptions c15_kind_char_bijection.

(* non-vacuity: a concrete multi-output value with a signature and a directory value meet wf_value *)
Example c15_wf_instance :
  wf_value (mkBV VSuccessfulCommandWithOutputSignature 77
                 [mkFI 1 2 3 4 5 6 (repeat 9 32); mkFI 18446744073709551615 0 0 0 0 0 (repeat 0 32)] []) /\
  wf_value (mkBV VDirectoryContents 0 [mkFI 1 2 3 4 5 6 (repeat 0 32)] [[97]; []; [255; 1]]).
Proof. unfold wf_value, wf_fi, u64, u32; cbn; repeat split; try lia; repeat constructor; cbn; lia. Qed.
