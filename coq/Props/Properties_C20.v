(* C20 - the C API is a faithful binding of the engine.
   Only theorem statements about the binding-layer model Engine/CApi.v (a transliteration of
   products/libllbuild/Core-C-API.cpp); each is closed by [exact <lemma>] and followed by Print Assumptions.
   The model is tied to the code by harness/py/props/c20.py (event-by-event differential of the same scenario driven
   through the C++ interface and through the C interface, plus the raw-argument correspondence). *)
From LLB Require Import Base.Bytes Engine.CApi Engine.CApiProofs.
Local Open Scope N_scope.

(* Keys, values and paths are copied byte for byte: ANY byte list (NUL included, empty included), whatever lies behind
   it in the client's memory. *)
Theorem c20_bytes_preserved : forall b rest, copy_n (data_of b rest) = b.
Proof. exact copy_n_data_of. Qed.
Print Assumptions c20_bytes_preserved.

(* ... and come back through the callbacks unchanged (lookup_rule / cycle_detected keys; provide_value /
   is_result_valid / build results). *)
Theorem c20_key_roundtrip : forall k rest, copy_n (out_string (copy_n (data_of k rest))) = k.
Proof. exact key_roundtrip. Qed.
Print Assumptions c20_key_roundtrip.

Theorem c20_value_roundtrip : forall v rest, copy_n (out_vector (copy_n (data_of v rest))) = v.
Proof. exact value_roundtrip. Qed.
Print Assumptions c20_value_roundtrip.

(* The C-string reading `std::string(data)` is a different function: it loses every blob that contains a NUL byte
   (and agrees on NUL-free, terminated ones - which is why NUL-free tests cannot tell the two apart). *)
Theorem c20_cstr_reading_loses_nul : forall b rest, nul_free b = false -> copy_cstr (data_of b rest) <> b.
Proof. exact copy_cstr_loses_nul. Qed.
Print Assumptions c20_cstr_reading_loses_nul.

Theorem c20_cstr_reading_agrees_nul_free : forall b rest, nul_free b = true -> copy_cstr (data_of b (0 :: rest)) = b.
Proof. exact copy_cstr_agrees_nul_free. Qed.
Print Assumptions c20_cstr_reading_agrees_nul_free.

Theorem c20_cstr_reading_differs : exists b rest, copy_cstr (data_of b rest) <> b /\ copy_n (data_of b rest) = b.
Proof. exact copy_cstr_differs_witness. Qed.
Print Assumptions c20_cstr_reading_differs.

(* forward_faithful: per entry point, the C++ call receives exactly the client's arguments - database path, schema
   version (recreate-on-mismatch fixed to true), built key, requested key + input id, followed key, discovered key,
   value + force_change. *)
Theorem c20_forward_faithful :
  (forall e path rest v, forward (CAttachDB e (data_of path rest) v) = PAttachSQLite e path v true) /\
  (forall e key rest, forward (CBuild e (data_of key rest)) = PBuild e key) /\
  (forall ti key rest id, forward (CTaskNeedsInput ti (data_of key rest) id) = PRequest (ti_in ti) key id) /\
  (forall ti key rest, forward (CTaskMustFollow ti (data_of key rest)) = PMustFollow (ti_in ti) key) /\
  (forall ti key rest, forward (CTaskDiscoveredDependency ti (data_of key rest)) = PDiscoveredDependency (ti_in ti) key) /\
  (forall ti value rest force, forward (CTaskIsComplete ti (data_of value rest) force) = PComplete (ti_in ti) value force).
Proof. exact forward_exact_image. Qed.
Print Assumptions c20_forward_faithful.

(* No argument is dropped, fixed or merged: calls with the same C++ image are the same entry point with the same
   scalars and the same [length] bytes in every blob - and conversely. *)
Theorem c20_forward_injective : forall a b, forward a = forward b <-> same_call a b.
Proof. exact forward_injective_iff. Qed.
Print Assumptions c20_forward_injective.

Theorem c20_forward_injective_exact : forall a b, exact_call a -> exact_call b -> forward a = forward b -> a = b.
Proof. exact forward_injective_exact. Qed.
Print Assumptions c20_forward_injective_exact.

Theorem c20_force_change_reaches_complete : forall ti v rest f ti' v' f',
  forward (CTaskIsComplete ti (data_of v rest) f) = PComplete ti' v' f' -> f' = f /\ v' = v /\ ti' = ti_in ti.
Proof. exact force_change_reaches_complete. Qed.
Print Assumptions c20_force_change_reaches_complete.

(* ... for the EMPTY value too (seeded/C20-10 completes a zero-length value without force_change) *)
Theorem c20_force_change_reaches_complete_empty : forall ti rest f,
  forward (CTaskIsComplete ti (data_of [] rest) f) = PComplete (ti_in ti) [] f.
Proof. exact force_change_reaches_complete_empty. Qed.
Print Assumptions c20_force_change_reaches_complete_empty.

Theorem c20_empty_noforce_refuted : exists a b, ~ same_call a b /\ forward_empty_noforce a = forward_empty_noforce b.
Proof. exact forward_empty_noforce_conflates. Qed.
Print Assumptions c20_empty_noforce_refuted.

Theorem c20_schema_version_reaches_attach : forall e path rest v e' path' v' r,
  forward (CAttachDB e (data_of path rest) v) = PAttachSQLite e' path' v' r -> v' = v /\ path' = path /\ r = true.
Proof. exact schema_version_reaches_attach. Qed.
Print Assumptions c20_schema_version_reaches_attach.

(* The file as it was before the repair 9068215 dropped force_change (witness in corpus; the check's force-change
   oracle replays it on the implementation). *)
Theorem c20_forward_v0_refuted : exists a b, a <> b /\ ~ same_call a b /\ forward_v0 a = forward_v0 b.
Proof. exact forward_v0_drops_force_change. Qed.
Print Assumptions c20_forward_v0_refuted.

(* One-line deviations the theorems above exclude: a key read as a C string in one entry point, the input id narrowed
   to 32 bits, the schema version not passed on. *)
Theorem c20_cstr_in_one_entry_point_refuted : exists a b, ~ same_call a b /\ forward_cstr_follow a = forward_cstr_follow b.
Proof. exact forward_cstr_follow_conflates. Qed.
Print Assumptions c20_cstr_in_one_entry_point_refuted.

Theorem c20_id32_refuted : exists a b, wf_call a /\ wf_call b /\ ~ same_call a b /\ forward_id32 a = forward_id32 b.
Proof. exact forward_id32_conflates. Qed.
Print Assumptions c20_id32_refuted.

Theorem c20_noschema_refuted : exists a b, ~ same_call a b /\ forward_noschema a = forward_noschema b.
Proof. exact forward_noschema_conflates. Qed.
Print Assumptions c20_noschema_refuted.

(* backward_faithful: what each C callback shows its client - contexts, task interface, input id, and the bytes of
   every key / value - is exactly what the engine passed to the C++ object. *)
Theorem c20_backward_faithful :
  (forall e key, option_map view (backward e (BLookupRule key)) = Some (VLookupRule e key)) /\
  (forall e ec key r, option_map view (backward e (BCreateTask (wrap_rule ec key r))) = Some (VCreateTask (cr_context r) ec)) /\
  (forall e ec key r v, cr_has_valid r = true ->
     option_map view (backward e (BIsResultValid (wrap_rule ec key r) v)) = Some (VIsResultValid (cr_context r) ec (cr_context r) v)) /\
  (forall e ec key r s, cr_has_status r = true ->
     option_map view (backward e (BUpdateStatus (wrap_rule ec key r) s)) = Some (VUpdateStatus (cr_context r) ec s)) /\
  (forall e t ti, option_map view (backward e (BStart t ti)) = Some (VStart (ct_context t) e (ti_out ti))) /\
  (forall e t ti id key v,
     option_map view (backward e (BProvideValue t ti id key v)) = Some (VProvideValue (ct_context t) e (ti_out ti) id v)) /\
  (forall e t ti, option_map view (backward e (BInputsAvailable t ti)) = Some (VInputsAvailable (ct_context t) e (ti_out ti))) /\
  (forall e keys, option_map view (backward e (BCycleDetected keys)) = Some (VCycleDetected e keys)).
Proof. exact backward_faithful. Qed.
Print Assumptions c20_backward_faithful.

(* is_result_valid: the thunk shows the client EVERY stored value unchanged - any length, the empty value included - and
   hands the client's answer to the engine.  The deviation "an empty value is invalid without asking" (seeded/C20-4) differs
   exactly on the empty value. *)
Theorem c20_capi_valid_forwarded : forall r client v, cr_has_valid r = true -> valid_thunk r client v = client v.
Proof. exact capi_valid_forwarded. Qed.
Print Assumptions c20_capi_valid_forwarded.

Theorem c20_capi_valid_consulted_on_empty : forall e ec key r,
  cr_has_valid r = true ->
  option_map view (backward e (BIsResultValid (wrap_rule ec key r) [])) = Some (VIsResultValid (cr_context r) ec (cr_context r) []).
Proof. exact capi_valid_consulted_on_empty. Qed.
Print Assumptions c20_capi_valid_consulted_on_empty.

Theorem c20_valid_skip_empty_refuted :
  exists r client v, cr_has_valid r = true /\ valid_thunk_skip_empty r client v <> client v /\ valid_thunk r client v = client v.
Proof. exact valid_thunk_skip_empty_refuted. Qed.
Print Assumptions c20_valid_skip_empty_refuted.

(* Input ids: the client's range is 0 .. kMaximumInputID INCLUSIVE (only greater ids are reserved); a request with such an id is
   answered by provide_value carrying that very id; a greater id is rejected.  The deviation "drop deliveries with
   id >= kMaximumInputID" (seeded/C20-8) differs exactly at kMaximumInputID. *)
Theorem c20_capi_input_id_ok : forall id, capi_input_id_ok id = true <-> id <= kMaximumInputID.
Proof. exact capi_input_id_ok_spec. Qed.
Print Assumptions c20_capi_input_id_ok.

Theorem c20_accepted_id_delivered : forall e t ti key rest id v,
  id <= kMaximumInputID ->
  option_map view (request_then_provide e t ti (data_of key rest) id v) = Some (VProvideValue (ct_context t) e ti id v).
Proof. exact capi_accepted_id_delivered. Qed.
Print Assumptions c20_accepted_id_delivered.

Theorem c20_reserved_id_rejected : forall e t ti key id v, kMaximumInputID < id -> request_then_provide e t ti key id v = None.
Proof. exact capi_reserved_id_rejected. Qed.
Print Assumptions c20_reserved_id_rejected.

Theorem c20_provide_guard_ge_refuted :
  exists e t ti id key v, capi_input_id_ok id = true /\ backward_provide_guard_ge e t ti id key v = None /\
                          backward e (BProvideValue t ti id key v) <> None.
Proof. exact backward_provide_guard_ge_refuted. Qed.
Print Assumptions c20_provide_guard_ge_refuted.

(* update_status: every notification for a rule - over any history, across builds of one engine - reaches the client; reporting
   "only transitions" (seeded/C20-7) loses the scanning notification of the build after one abandoned on a cycle. *)
Theorem c20_status_all_forwarded : forall e ec key r ss,
  cr_has_status r = true ->
  status_trace e (wrap_rule ec key r) ss = map (fun s => Some (VUpdateStatus (cr_context r) ec s)) ss.
Proof. exact capi_status_all_forwarded. Qed.
Print Assumptions c20_status_all_forwarded.

Theorem c20_status_dedup_refuted : exists ss, dedup_statuses None ss <> ss.
Proof. exact dedup_statuses_refuted. Qed.
Print Assumptions c20_status_dedup_refuted.

Theorem c20_task_interface_roundtrip : forall t, ti_in (ti_out t) = t.
Proof. exact ti_in_out. Qed.
Print Assumptions c20_task_interface_roundtrip.

Theorem c20_build_result_exact : forall v, copy_n (build_result v) = v.
Proof. exact build_result_exact. Qed.
Print Assumptions c20_build_result_exact.

(* What the C interface does NOT carry (behaviour of the current code; the scenario generator avoids or filters these):
   the key argument of provideValue, the prior value, the reason a rule runs; every rule has the null signature and the
   looked-up key (llb_rule_t.key is never read); an absent is_result_valid answers true; diagnostics are C strings. *)
Theorem c20_provide_value_key_not_passed : exists e a b, a <> b /\ backward e a = backward e b /\ backward e a <> None.
Proof. exact backward_provide_drops_key. Qed.
Print Assumptions c20_provide_value_key_not_passed.

Theorem c20_no_prior_value_callback : forall e t ti v, backward e (BProvidePriorValue t ti v) = None.
Proof. exact backward_no_prior_value. Qed.
Print Assumptions c20_no_prior_value_callback.

Theorem c20_no_run_reason_callback : forall e k r i, backward e (BNeedsToRun k r i) = None.
Proof. exact backward_no_run_reason. Qed.
Print Assumptions c20_no_run_reason_callback.

Theorem c20_rule_signature_null : forall ec key r, ar_signature (wrap_rule ec key r) = 0 /\ ar_key (wrap_rule ec key r) = key.
Proof. exact wrap_rule_null_signature_lookup_key. Qed.
Print Assumptions c20_rule_signature_null.

Theorem c20_rule_key_field_ignored :
  exists ec key r1 r2, cr_key r1 <> cr_key r2 /\
    ar_key (wrap_rule ec key r1) = ar_key (wrap_rule ec key r2) /\ ar_signature (wrap_rule ec key r1) = ar_signature (wrap_rule ec key r2).
Proof. exact wrap_rule_ignores_key_field. Qed.
Print Assumptions c20_rule_key_field_ignored.

Theorem c20_null_validity_callback_answers_true : forall e ec key r v,
  cr_has_valid r = false ->
  backward e (BIsResultValid (wrap_rule ec key r) v) = None /\ forall answer, valid_answer r answer = true.
Proof. exact backward_is_result_valid_null. Qed.
Print Assumptions c20_null_validity_callback_answers_true.

Theorem c20_error_message_is_c_string : exists e m, backward e (BError m) = Some (KError e (c_str m)) /\ c_str m <> m.
Proof. exact backward_error_truncates. Qed.
Print Assumptions c20_error_message_is_c_string.

(* The serialised forms the correspondence check runs (extracted to OCaml) are the functions above. *)
Theorem c20_serialised_forward : forall tag b rest num flag c,
  ccall_of_tag tag (data_of b rest) num flag = Some c ->
  forward_tagged tag (N.of_nat (length b)) (b ++ rest) num flag = Some (tag_of_cpp (forward c)).
Proof. exact forward_tagged_spec. Qed.
Print Assumptions c20_serialised_forward.

Theorem c20_serialised_backward : forall id key v keys,
  backward_provide id key v = Some (id, v) /\ backward_lookup key = Some key /\ backward_cycle keys = Some keys.
Proof. exact serialised_backward_spec. Qed.
Print Assumptions c20_serialised_backward.

(* non-vacuity: concrete non-trivial instances (NUL inside and at the end of a key, memory behind the blob, an input
   id just below kMaximumInputID, the empty key, a value of NUL and 0xFF bytes) *)
Example c20_instance_nul_key :
  forward (CTaskNeedsInput (mkCTi 5 6) (data_of [97; 0; 98; 0] [0; 77]) 18446744073709551359)
  = PRequest (mkTi 5 6) [97; 0; 98; 0] 18446744073709551359
  /\ wf_call (CTaskNeedsInput (mkCTi 5 6) (data_of [97; 0; 98; 0] [0; 77]) 18446744073709551359).
Proof. exact (conj ex_forward_nul_key ex_wf_nul_key). Qed.
Example c20_instance_empty_key : forward (CBuild 9 (data_of [] [1; 2; 3])) = PBuild 9 [].
Proof. exact ex_forward_empty_key. Qed.
Example c20_instance_exact : exact_call (CTaskIsComplete (mkCTi 1 2) (data_of [0; 0; 1] []) true).
Proof. exact ex_exact. Qed.
Example c20_instance_provide :
  option_map view (backward 3 (BProvideValue (mkCTask 4) (mkTi 1 2) 4294967296 [107; 0] [0; 255; 0]))
  = Some (VProvideValue 4 3 (mkCTi 1 2) 4294967296 [0; 255; 0]).
Proof. exact ex_backward_provide. Qed.
Example c20_instance_valid_empty :
  valid_thunk (mkCRule 0 (data_of [] []) true true) (fun v => match v with [] => true | _ => false end) [] = true.
Proof. exact ex_valid_empty_asked. Qed.
Example c20_instance_max_id :
  option_map view (request_then_provide 3 (mkCTask 4) (mkCTi 1 2) (data_of [105; 0] [0]) kMaximumInputID [9])
  = Some (VProvideValue 4 3 (mkCTi 1 2) 18446744073709551360 [9]).
Proof. exact ex_max_id_delivered. Qed.
