(* C12 - directory-tree signatures change exactly when the tree changes.
   Only theorem statements; each is closed by [exact <lemma>] and followed by Print Assumptions.
   Model: BSys/DirTree.v (observe -> rebuild -> tree_toks / struct_toks -> sig); proofs: BSys/DirTreeProofs.v.
   [matches] is fnmatch (a variable in every statement); [H] is the hash (a variable; its ideal-hash premise
   [hash_good] is restricted to the finite set of argument lists that occur). *)
From LLB Require Import Base.Bytes Codec.Codec Codec.FileObs Path.PathPrefix BSys.DirTree BSys.DirTreeProofs.
Local Open Scope N_scope.

(* ---------------------------------------------------------------- the directory-tree signature *)

(* Equal tokens <-> the same observed tree up to the order of the directory entries (canon sorts every level),
   for ALL well-formed trees, any depth and fan-out.  Nothing of the recorded information is ignored. *)
Theorem c12_tree_tokens_injective : forall matches p v1 v2, wf_v v1 -> wf_v v2 ->
  (tree_tokens matches [] p v1 = tree_tokens matches [] p v2 <-> canon v1 = canon v2).
Proof. exact tree_tokens_injective. Qed.
Print Assumptions c12_tree_tokens_injective.

(* Any single edit - a record changed (content, size, times, inode, mode), an entry added, removed, renamed,
   replaced by something else - at ANY depth changes the tokens. *)
Theorem c12_tree_sig_detects : forall matches p v v', wf_v v -> wf_v v' -> sorted_v v -> sorted_v v' ->
  edit1 v v' -> tree_tokens matches [] p v <> tree_tokens matches [] p v'.
Proof. exact tree_sig_detects. Qed.
Print Assumptions c12_tree_sig_detects.

(* ... and, under the ideal-hash premise on the argument lists that occur, the 64-bit signature. *)
Theorem c12_tree_signature_detects : forall matches H p v v', wf_v v -> wf_v v' -> sorted_v v -> sorted_v v' -> edit1 v v' ->
  hash_good H (hashed H (tree_tokens matches [] p v) ++ hashed H (tree_tokens matches [] p v')) ->
  sig H (tree_tokens matches [] p v) <> sig H (tree_tokens matches [] p v').
Proof. exact tree_signature_detects. Qed.
Print Assumptions c12_tree_signature_detects.

(* Equal trees give equal tokens (no premise), hence equal signatures for any hash. *)
Theorem c12_tree_sig_stable : forall matches p v1 v2, canon v1 = canon v2 ->
  tree_tokens matches [] p v1 = tree_tokens matches [] p v2.
Proof. exact tree_sig_stable. Qed.
Print Assumptions c12_tree_sig_stable.

(* Incremental builds, any database state [s]: the command with the directory-tree input is left alone EXACTLY when
   the tree on disk agrees with the recorded one in everything FileInfo::operator== compares (cmp_sim: same entries,
   and per object device, inode, size, mtime, checksum - not the mode). *)
Theorem c12_rerun_iff : forall matches p s v, wf_s s -> wf_s (rebuild matches [] s v) -> sorted_v v -> nodup_v v ->
  (tree_unchanged matches [] p s v <-> cmp_sim (eff s) v).
Proof. exact rerun_iff. Qed.
Print Assumptions c12_rerun_iff.

(* A second build over an unchanged tree runs neither command, whatever the database held before. *)
Theorem c12_null_build_stable : forall matches p s v, sorted_v v -> nodup_v v ->
  tree_unchanged matches [] p (rebuild matches [] s v) v /\ struct_unchanged matches [] p (rebuild matches [] s v) v.
Proof. exact null_build_stable. Qed.
Print Assumptions c12_null_build_stable.

(* REFUTED clause (known finding tree-misses-mode-change): "a file's metadata changed" - a change of the permission
   bits alone IS an edit and changes the clean tokens, but the incremental build keeps the stored record
   (FileInputNodeTask::isResultValid uses FileInfo::operator==, which skips the mode). *)
Theorem c12_mode_change_unseen_refuted : forall matches p,
  edit1 w_v0 w_v0_chmod /\
  tree_tokens matches [] p w_v0 <> tree_tokens matches [] p w_v0_chmod /\
  tree_unchanged matches [] p (clean_build matches [] w_v0) w_v0_chmod.
Proof. exact mode_change_unseen. Qed.
Print Assumptions c12_mode_change_unseen_refuted.

(* ---------------------------------------------------------------- the directory-structure signature *)

(* Equal structure tokens <-> the same names and file types (mode & S_IFMT) at every depth. *)
Theorem c12_struct_tokens_injective : forall matches p v1 v2, wf_v v1 -> wf_v v2 ->
  (struct_tokens matches [] p v1 = struct_tokens matches [] p v2 <-> shape_of (canon v1) = shape_of (canon v2)).
Proof. exact struct_tokens_injective. Qed.
Print Assumptions c12_struct_tokens_injective.

(* Changes of size, times, inode, device or permission bits only - at any depth - leave the tokens equal ... *)
Theorem c12_structure_ignores_content : forall matches p v1 v2, sorted_v v1 -> sorted_v v2 -> same_structure v1 v2 ->
  struct_tokens matches [] p v1 = struct_tokens matches [] p v2.
Proof. exact structure_ignores_content. Qed.
Print Assumptions c12_structure_ignores_content.

(* ... and never re-run the structure command in an incremental build, whatever the database state. *)
Theorem c12_structure_incremental_ignores_content : forall matches p s v, sorted_v v -> nodup_v v ->
  same_structure (eff s) v -> struct_unchanged matches [] p s v.
Proof. exact structure_incremental_ignores_content. Qed.
Print Assumptions c12_structure_incremental_ignores_content.

(* An entry added, removed, renamed, or changing its file type (also to / from missing), at ANY depth, changes them. *)
Theorem c12_structure_detects : forall matches p v v', wf_v v -> wf_v v' -> sorted_v v -> sorted_v v' ->
  sedit1 v v' -> struct_tokens matches [] p v <> struct_tokens matches [] p v'.
Proof. exact structure_detects. Qed.
Print Assumptions c12_structure_detects.

Theorem c12_struct_signature_detects : forall matches H p v v', wf_v v -> wf_v v' -> sorted_v v -> sorted_v v' -> sedit1 v v' ->
  hash_good H (hashed H (struct_tokens matches [] p v) ++ hashed H (struct_tokens matches [] p v')) ->
  sig H (struct_tokens matches [] p v) <> sig H (struct_tokens matches [] p v').
Proof. exact struct_signature_detects. Qed.
Print Assumptions c12_struct_signature_detects.

(* ---------------------------------------------------------------- the hash *)

(* Equal signatures mean equal token trees as soon as the hash does not collide (and stays below 2^64) on the
   argument lists hashed while computing the two signatures. *)
Theorem c12_sig_injective : forall H l1 l2, Forall tok_ok l1 -> Forall tok_ok l2 ->
  hash_good H (hashed H l1 ++ hashed H l2) -> sig H l1 = sig H l2 -> l1 = l2.
Proof. exact sig_injective. Qed.
Print Assumptions c12_sig_injective.

(* ---------------------------------------------------------------- exclusion patterns *)

(* A name is absent from the recorded listing iff some pattern matches it ... *)
Theorem c12_filter_exact_listing : forall matches flt i cs n,
  In n (listing matches flt (VNode i cs)) <-> In n (names cs) /\ excluded matches flt n = false.
Proof. exact listing_exact. Qed.
Print Assumptions c12_filter_exact_listing.

Theorem c12_excluded_spec : forall matches flt n,
  excluded matches flt n = true <-> exists pat, In pat flt /\ matches pat n = true.
Proof. exact excluded_spec. Qed.
Print Assumptions c12_excluded_spec.

(* ... and the filtered signatures are the (filtered-mode) signatures of the pruned tree, *)
Theorem c12_filter_exact_tokens : forall matches flt p v,
  tree_tokens matches flt p v = tree_toks (nonempty flt) p (clean_build matches [] (prune matches flt v)) /\
  struct_tokens matches flt p v = struct_toks (nonempty flt) p (clean_build matches [] (prune matches flt v)).
Proof. intros matches flt p v. exact (conj (filtered_tokens_pruned matches flt p v) (filtered_struct_tokens_pruned matches flt p v)). Qed.
Print Assumptions c12_filter_exact_tokens.

(* so whatever happens beneath excluded names is invisible to both. *)
Theorem c12_excluded_edits_invisible : forall matches flt p v1 v2, prune matches flt v1 = prune matches flt v2 ->
  tree_tokens matches flt p v1 = tree_tokens matches flt p v2 /\
  struct_tokens matches flt p v1 = struct_tokens matches flt p v2.
Proof. exact excluded_edits_invisible. Qed.
Print Assumptions c12_excluded_edits_invisible.

(* With patterns: equal tokens <-> the pruned trees agree in everything beneath the root (same_beneath: the record of
   the root directory itself is not part of a filtered signature). *)
Theorem c12_filtered_tokens_injective : forall matches flt p v1 v2, flt <> [] ->
  wf_v (prune matches flt v1) -> wf_v (prune matches flt v2) ->
  (tree_tokens matches flt p v1 = tree_tokens matches flt p v2 <->
   same_beneath (canon (prune matches flt v1)) (canon (prune matches flt v2))).
Proof. exact filtered_tokens_injective. Qed.
Print Assumptions c12_filtered_tokens_injective.

(* Hence any difference among the NON-excluded entries of the directory, at any depth, changes the filtered tokens. *)
Theorem c12_filtered_sig_detects : forall matches flt p v v' i cs i' cs', flt <> [] ->
  prune matches flt v = VNode i cs -> prune matches flt v' = VNode i' cs' ->
  wf_v (VNode i cs) -> wf_v (VNode i' cs') -> sorted_v (VNode i cs) -> sorted_v (VNode i' cs') ->
  cs <> cs' -> tree_tokens matches flt p v <> tree_tokens matches flt p v'.
Proof. exact filtered_sig_detects. Qed.
Print Assumptions c12_filtered_sig_detects.

(* An edit of the patterns in the description (403a739: the node's signature covers them, so the node runs again and
   asks for the keys with the new patterns): if the set of visible entries changes anywhere, the tokens change;
   switching patterns on or off changes them always.  (The incremental rerun-iff theorem c12_rerun_iff is stated for
   the unfiltered case only; this corollary is at the level of the tokens of the two descriptions.) *)
Theorem c12_patterns_edit_detected : forall matches flt flt' p v i cs i' cs', flt <> [] -> flt' <> [] ->
  prune matches flt v = VNode i cs -> prune matches flt' v = VNode i' cs' ->
  wf_v (VNode i cs) -> wf_v (VNode i' cs') -> sorted_v (VNode i cs) -> sorted_v (VNode i' cs') ->
  cs <> cs' -> tree_tokens matches flt p v <> tree_tokens matches flt' p v.
Proof. exact patterns_edit_detected. Qed.
Print Assumptions c12_patterns_edit_detected.

Theorem c12_patterns_on_off_detected : forall matches flt p i cs, flt <> [] ->
  tree_tokens matches [] p (VNode i cs) <> tree_tokens matches flt p (VNode i cs).
Proof. exact patterns_on_off_detected. Qed.
Print Assumptions c12_patterns_on_off_detected.

(* REFUTED clause (known finding filtered-listing-stale): with patterns a non-excluded entry added while the directory's
   own record stays the same is seen by neither command (the stored filtered listing is reused); without patterns both
   see it. *)
Theorem c12_filtered_listing_stale_refuted :
  excluded lit_match [w_x_tmp] w_new = false /\
  In w_new (names (match w_d1 with VNode _ cs => cs | VMissing => [] end)) /\
  tree_unchanged lit_match [w_x_tmp] w_tree (clean_build lit_match [w_x_tmp] w_d0) w_d1 /\
  struct_unchanged lit_match [w_x_tmp] w_tree (clean_build lit_match [w_x_tmp] w_d0) w_d1 /\
  ~ tree_unchanged lit_match [] w_tree (clean_build lit_match [] w_d0) w_d1 /\
  ~ struct_unchanged lit_match [] w_tree (clean_build lit_match [] w_d0) w_d1.
Proof. exact filtered_listing_stale. Qed.
Print Assumptions c12_filtered_listing_stale_refuted.

(* ---------------------------------------------------------------- symbolic links *)

(* REFUTED clause (known finding symlink-seen-through): "retyped" - a link and a hard link to its target are the same
   observed tree (all signatures equal); a link to a regular file and another regular file differ for the tree
   signature only. *)
Theorem c12_symlink_seen_through_refuted : forall matches skip,
  w_t_link <> w_t_hard /\
  observe skip w_tree w_t_link = observe skip w_tree w_t_hard /\
  struct_tokens matches [] w_tree (observe skip w_tree w_t_link) = struct_tokens matches [] w_tree (observe skip w_tree w_t_file) /\
  tree_tokens matches [] w_tree (observe skip w_tree w_t_link) <> tree_tokens matches [] w_tree (observe skip w_tree w_t_file).
Proof. exact symlink_seen_through. Qed.
Print Assumptions c12_symlink_seen_through_refuted.

(* ---------------------------------------------------------------- what a listing leaves out *)

(* Both listings report every entry of the directory except the symbolic links whose real path is the (resolved)
   directory itself or one of its ancestors by whole components; nothing else is left out (patterns come afterwards,
   c12_filter_exact_listing).  Consequence (finding ancestor-link-edit-unseen): adding or removing such a link is not
   an edit of the observed tree. *)
Theorem c12_observe_listing_exact : forall skip p i cs n,
  In n (names (v_children (observe skip p (Dir i cs)))) <->
  exists c, In (n, c) cs /\ dropped_link anc_repaired p c = false.
Proof. exact observe_listing_exact. Qed.
Print Assumptions c12_observe_listing_exact.

Theorem c12_dropped_link_spec : forall p c, dropped_link anc_repaired p c = true <->
  exists li rp t, c = Link li (Some rp) t /\ pip p rp = true.
Proof. exact dropped_link_spec. Qed.
Print Assumptions c12_dropped_link_spec.

(* ---------------------------------------------------------------- the code before its repairs (inputs kept in the corpus) *)

(* 9d17fc1: the ancestor test of getContents was a string-prefix test and hid a link to a sibling *)
Theorem c12_ancestor_test_unrepaired_refuted :
  pip w_p2 w_rp = false /\
  observe_unrepaired true w_p2 w_t_sib = VNode (w_dir 20 100) [] /\
  observe true w_p2 w_t_sib = VNode (w_dir 20 100) [(w_l, VNode (w_dir 10 100) [(w_a, VNode w_fa [])])].
Proof. exact ancestor_test_unrepaired_refuted. Qed.
Print Assumptions c12_ancestor_test_unrepaired_refuted.

(* c2e7355: the structure signature hashed the permission bits *)
Theorem c12_structure_unrepaired_refuted : forall matches,
  same_structure w_v0 w_v0_perm /\
  struct_toks_unrepaired false w_tree (clean_build matches [] w_v0) <> struct_toks_unrepaired false w_tree (clean_build matches [] w_v0_perm) /\
  struct_tokens matches [] w_tree w_v0 = struct_tokens matches [] w_tree w_v0_perm.
Proof. exact structure_unrepaired_refuted. Qed.
Print Assumptions c12_structure_unrepaired_refuted.

(* e9065fb: the filtered listing ended at the first entry whose stat fails *)
Theorem c12_truncating_listing_refuted :
  observe_truncating false w_tree w_t_dangling = VNode (w_dir 10 100) [] /\
  observe false w_tree w_t_dangling = VNode (w_dir 10 100) [(w_l, VMissing); (w_a, VNode w_fa [])].
Proof. exact truncating_listing_refuted. Qed.
Print Assumptions c12_truncating_listing_refuted.

(* d863e96: the ancestor test saw the path as spelled (relative: never a match) and the filtered listing had none *)
Theorem c12_ancestor_links_unprotected_refuted :
  anc_repaired w_rel_sub w_rp = false /\ anc_repaired w_abs_sub w_rp = true /\
  names (v_children (observe_unprotected false w_abs_sub w_t_up)) = [w_up; w_a] /\
  names (v_children (observe false w_abs_sub w_t_up)) = [w_a] /\
  names (v_children (observe true w_abs_sub w_t_up)) = [w_a].
Proof. exact ancestor_links_unprotected_refuted. Qed.
Print Assumptions c12_ancestor_links_unprotected_refuted.

(* ---------------------------------------------------------------- non-vacuity *)

Example c12_detects_instance : forall matches, tree_tokens matches [] w_tree w_v0 <> tree_tokens matches [] w_tree w_v1.
Proof. exact ex_tree_detects. Qed.

Example c12_structure_ignores_instance : forall matches, struct_tokens matches [] w_tree w_v0 = struct_tokens matches [] w_tree w_v1.
Proof. exact ex_structure_ignores. Qed.

Example c12_null_build_instance : forall matches,
  tree_unchanged matches [] w_tree (rebuild matches [] (clean_build matches [] w_v0) w_v1) w_v1.
Proof. exact ex_null_build. Qed.

Example c12_filter_instance :
  listing lit_match [w_x_tmp] (VNode (w_dir 10 100) [(w_x_tmp, VNode w_fa []); (w_a, VNode w_fa [])]) = [w_a].
Proof. exact ex_filter_exact. Qed.

Example c12_hash_premise_instance : forall H : list ftok -> N,
  hash_good H (hashed H [TStr w_a; TSub VDirectoryTreeSignature [TStr w_b]]) ->
  u64 (H [FStr w_b]) /\ (H [FStr w_b] = H [FStr w_a; FBytes (enc_value (mkBV VDirectoryTreeSignature (H [FStr w_b]) [] []))] -> False).
Proof. exact ex_hash_premise_meaning. Qed.
