(* C12 - directory-tree signatures (statements only).  Being filled in. *)
From LLB Require Import Base.Bytes Codec.Codec Codec.FileObs BSys.DirTree.
Local Open Scope N_scope.

Theorem c12_nil_constant : nil_const = 13944155568590058030.
Proof. reflexivity. Qed.
Print Assumptions c12_nil_constant.
