(* Extraction of the findCycle model (C07) to OCaml (ExtrOcamlBasic only; N, positive, nat stay inductive). *)
Require Extraction.
Require Import ExtrOcamlBasic.
From Coq Require Import NArith.
From LLB Require Import Engine.FindCycle.
Extraction "extracted/Model_cycle.ml" findcycle_names findCycle klt_name fc_reference N.ltb.
