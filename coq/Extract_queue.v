(* Extraction of the executable models of the queue area (C16) to OCaml (ExtrOcamlBasic only). *)
Require Extraction.
Require Import ExtrOcamlBasic.
From LLB Require Import Base.Bytes Queue.Lanes Queue.ProcStatus Queue.Env.
Extraction "extracted/Model_queue.ml" init step accepts first_reject terminal
  sinit sstep_gen saccepts_gen sfirst_reject slost
  status_of_wait launch_outcome raw_of_fate status_of_fate
  build_env build_env_v0 sources render getenv lookup.
