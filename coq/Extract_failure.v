(* Extraction of the failure-propagation model (area `failure`, property C10) to OCaml. *)
Require Extraction.
Require Import ExtrOcamlBasic.
From Coq Require Import NArith.
From LLB Require Import BSys.Failure.
(* N.of_nat / N.to_nat only bring the types [positive] and [N] into the extracted module: the shared OCaml helpers
   (ocaml/helpers.ml) mention them. *)
Extraction "extracted/Model_failure.ml" result_for_output produced_node_value input_effect provide_all
  command_outcome run_command cmd_valid node_valid target_reports build_ok run_chain regular_hop launders
  uses_inputs update_shortcut run_command_prior is_failing_cmd is_successful N.of_nat N.to_nat.
