(* Proofs about the wait-status mapping (Queue/ProcStatus.v). *)
From LLB Require Import Base.Bytes Queue.ProcStatus.
Local Open Scope N_scope.

(* ------------------------------------------------------------------ finite ranges *)
Lemma n_range_In_nat len : forall s x, In x (n_range s len) <-> s <= x < s + N.of_nat len.
Proof.
  induction len as [|k IH]; intros s x; cbn [n_range].
  - split; [intros []|]. cbn [N.of_nat]. lia.
  - rewrite Nat2N.inj_succ. cbn [In]. rewrite IH. lia.
Qed.

Lemma n_range_In m s x : In x (n_range s (N.to_nat m)) <-> s <= x < s + m.
Proof. rewrite n_range_In_nat, N2Nat.id. reflexivity. Qed.

Definition range16 : list N :=
  flat_map (fun hi => map (fun lo => hi * 256 + lo) (n_range 0 (N.to_nat 256))) (n_range 0 (N.to_nat 256)).

Lemma range16_In w : w < 65536 -> In w range16.
Proof.
  intros Hw. unfold range16. apply in_flat_map. exists (w / 256). split.
  - apply n_range_In. split; [apply N.le_0_l|]. rewrite N.add_0_l. apply N.div_lt_upper_bound; [discriminate|exact Hw].
  - apply in_map_iff. exists (w mod 256). split.
    + rewrite N.mul_comm. symmetry. apply N.div_mod'.
    + apply n_range_In. split; [apply N.le_0_l|]. rewrite N.add_0_l. apply N.mod_lt. discriminate.
Qed.

(* ------------------------------------------------------------------ the whole 16-bit domain, by computation *)
(* an independent reading of a wait status (arithmetic instead of the masks of the macros) *)
Definition spec16 (w : N) : status :=
  let sg := w mod 128 in
  if sg =? 0 then (if w =? 0 then Succeeded else Failed)          (* exited: success iff the whole status is 0 *)
  else if sg =? 127 then Failed                                    (* stopped; never reported by wait4(..., 0, ...) *)
  else if (sg =? 2) || (sg =? 9) then Cancelled else Failed.

Lemma status_sweep16_b : forallb (fun w => status_eqb (status_of_wait w) (spec16 w)) range16 = true.
Proof. vm_compute. reflexivity. Qed.

Lemma status_eqb_eq a b : status_eqb a b = true -> a = b.
Proof. destruct a, b; cbn; intros H; try reflexivity; discriminate. Qed.

Theorem status_sweep16 w : w < 65536 -> status_of_wait w = spec16 w.
Proof.
  intros Hw. apply status_eqb_eq.
  pose proof status_sweep16_b as H. rewrite forallb_forall in H. apply H. apply range16_In. exact Hw.
Qed.

(* ------------------------------------------------------------------ every real fate *)
Theorem status_of_real_fate f : fate_ok f = true -> status_of_wait (raw_of_fate f) = status_of_fate f.
Proof.
  intros Hok.
  assert (Hlt : raw_of_fate f < 65536).
  { destruct f as [c|sg core]; cbn [fate_ok raw_of_fate] in *.
    - apply N.ltb_lt in Hok. lia.
    - apply andb_true_iff in Hok. destruct Hok as [H1 H2]. apply N.leb_le in H1, H2. destruct core; lia. }
  rewrite (status_sweep16 _ Hlt). unfold spec16.
  destruct f as [c|sg core]; cbn [fate_ok raw_of_fate status_of_fate] in *.
  - apply N.ltb_lt in Hok.
    assert (E : (c * 256) mod 128 = 0).
    { replace (c * 256) with ((c * 2) * 128) by lia. apply N.mod_mul. lia. }
    rewrite E. cbn [N.eqb].
    destruct (c =? 0) eqn:Hc.
    + apply N.eqb_eq in Hc. subst c. reflexivity.
    + apply N.eqb_neq in Hc. assert (E2 : c * 256 =? 0 = false) by (apply N.eqb_neq; lia). rewrite E2. reflexivity.
  - apply andb_true_iff in Hok. destruct Hok as [H1 H2]. apply N.leb_le in H1, H2.
    assert (E : (sg + (if core then 128 else 0)) mod 128 = sg).
    { destruct core.
      - replace (sg + 128) with (sg + 1 * 128) by lia. rewrite N.mod_add by lia. apply N.mod_small. lia.
      - rewrite N.add_0_r. apply N.mod_small. lia. }
    rewrite E.
    assert (E0 : sg =? 0 = false) by (apply N.eqb_neq; lia).
    assert (E127 : sg =? 127 = false) by (apply N.eqb_neq; lia).
    rewrite E0, E127. reflexivity.
Qed.

Theorem status_exit_zero : status_of_wait (raw_of_fate (Exited 0)) = Succeeded.
Proof. reflexivity. Qed.

Theorem status_exit_nonzero c : 1 <= c -> c < 256 -> status_of_wait (raw_of_fate (Exited c)) = Failed.
Proof.
  intros H1 H2. rewrite status_of_real_fate by (cbn [fate_ok]; apply N.ltb_lt; exact H2).
  cbn [status_of_fate]. assert (E : c =? 0 = false) by (apply N.eqb_neq; lia). rewrite E. reflexivity.
Qed.

Theorem status_interrupt_or_kill sg core :
  sg = SIGINT \/ sg = SIGKILL -> status_of_wait (raw_of_fate (Killed sg core)) = Cancelled.
Proof. intros [H|H]; subst sg; destruct core; reflexivity. Qed.

Theorem status_other_signal sg core :
  1 <= sg -> sg <= 126 -> sg <> SIGINT -> sg <> SIGKILL -> status_of_wait (raw_of_fate (Killed sg core)) = Failed.
Proof.
  intros H1 H2 H3 H4. rewrite status_of_real_fate.
  - cbn [status_of_fate]. apply N.eqb_neq in H3, H4. rewrite H3, H4. reflexivity.
  - cbn [fate_ok]. apply andb_true_iff. split; apply N.leb_le; assumption.
Qed.

(* ------------------------------------------------------------------ for every N (no bound on the raw status) *)
Theorem status_succeeded_iff w : status_of_wait w = Succeeded <-> w = 0.
Proof.
  unfold status_of_wait. split.
  - destruct (wifsignaled w && ((wtermsig w =? SIGINT) || (wtermsig w =? SIGKILL))); [discriminate|].
    destruct (w =? 0) eqn:E; [intros _; apply N.eqb_eq; exact E|discriminate].
  - intros H. subst w. reflexivity.
Qed.

Lemma wifsignaled_of_sig w sg : wtermsig w = sg -> 1 <= sg -> sg <= 126 -> wifsignaled w = true.
Proof.
  intros H H1 H2. unfold wifsignaled. rewrite H. cbv zeta. apply andb_true_iff. split.
  - apply N.ltb_lt. lia.
  - apply N.ltb_lt. rewrite N.shiftr_div_pow2. change (2 ^ 1) with 2.
    assert (1 <= (sg + 1) / 2) by (apply N.div_le_lower_bound; lia). lia.
Qed.

Theorem status_cancelled_iff w :
  status_of_wait w = Cancelled <-> (wtermsig w = SIGINT \/ wtermsig w = SIGKILL).
Proof.
  unfold status_of_wait. split.
  - destruct (wifsignaled w && ((wtermsig w =? SIGINT) || (wtermsig w =? SIGKILL))) eqn:E.
    + intros _. apply andb_true_iff in E. destruct E as [_ E]. apply orb_true_iff in E.
      destruct E as [E|E]; apply N.eqb_eq in E; [left|right]; exact E.
    + destruct (w =? 0); discriminate.
  - intros H.
    assert (Hs : wifsignaled w = true).
    { destruct H as [H|H]; apply (wifsignaled_of_sig w _ H); unfold SIGINT, SIGKILL; lia. }
    rewrite Hs. destruct H as [H|H]; rewrite H; reflexivity.
Qed.

Theorem status_failed_iff w :
  status_of_wait w = Failed <-> (w <> 0 /\ wtermsig w <> SIGINT /\ wtermsig w <> SIGKILL).
Proof.
  split.
  - intros H. split; [|split]; intros C.
    + apply status_succeeded_iff in C. rewrite C in H. discriminate.
    + assert (X : status_of_wait w = Cancelled) by (apply status_cancelled_iff; left; exact C). rewrite X in H. discriminate.
    + assert (X : status_of_wait w = Cancelled) by (apply status_cancelled_iff; right; exact C). rewrite X in H. discriminate.
  - intros [H0 [H1 H2]]. destruct (status_of_wait w) eqn:E; [|reflexivity|].
    + apply status_succeeded_iff in E. contradiction.
    + apply status_cancelled_iff in E. destruct E; contradiction.
Qed.

(* ------------------------------------------------------------------ one executeProcess call *)
Theorem launch_after_cancel closed no_args spawn wait_err :
  launch_outcome true closed no_args spawn wait_err = (false, Cancelled).
Proof. reflexivity. Qed.

Theorem launch_group_closed spawn wait_err :
  launch_outcome false true false spawn wait_err = (false, Cancelled).
Proof. reflexivity. Qed.

Theorem launch_never_spawns_when_cancelled cancelled closed no_args spawn wait_err :
  cancelled || closed = true -> fst (launch_outcome cancelled closed no_args spawn wait_err) = false.
Proof.
  unfold launch_outcome. destruct cancelled; [reflexivity|]. destruct no_args; [reflexivity|].
  destruct closed; [reflexivity|]. discriminate.
Qed.

Theorem launch_spawn_error wait_err : launch_outcome false false false None wait_err = (false, Failed).
Proof. reflexivity. Qed.

Theorem launch_real_fate f :
  fate_ok f = true -> launch_outcome false false false (Some (raw_of_fate f)) false = (true, status_of_fate f).
Proof. intros H. unfold launch_outcome. rewrite (status_of_real_fate _ H). reflexivity. Qed.

(* non-vacuity *)
Example ex_status_exit3 : status_of_wait 768 = Failed. Proof. reflexivity. Qed.
Example ex_status_segv_core : status_of_wait (raw_of_fate (Killed 11 true)) = Failed /\ raw_of_fate (Killed 11 true) = 139.
Proof. split; reflexivity. Qed.
Example ex_status_int : status_of_wait 2 = Cancelled /\ status_of_wait 9 = Cancelled /\ status_of_wait 130 = Cancelled.
Proof. repeat split; reflexivity. Qed.
Example ex_status_term : status_of_wait 15 = Failed. Proof. reflexivity. Qed.
Example ex_fate_ok : fate_ok (Killed 9 false) = true /\ fate_ok (Exited 255) = true. Proof. split; reflexivity. Qed.
Example ex_launch : launch_outcome false false false (Some 512) false = (true, Failed). Proof. reflexivity. Qed.
