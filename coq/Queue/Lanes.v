(* Transition system of the lane based execution queue (lib/Basic/LaneBasedExecutionQueue.cpp).
   Definitions only; proofs are in LanesProofs.v.

   What is modelled (every transition below happens under readyJobsMutex in the code, so the
   transitions are atomic and totally ordered):
     - addJob                      : [Add]    push_back on readyPriorityJobs (High) or readyJobs->addJob
     - executeLane, taking a job   : [Take]   readyPriorityJobs first, else readyJobs->getNextJob()
                                              (FifoScheduler: front of a deque;
                                               PriorityQueueScheduler: top of std::priority_queue ordered by
                                               QueueJobLess = getOrdinalName() <, i.e. a GREATEST name first)
     - executeLane, job returned   : [Finish]
     - executeLane, return         : [Exit]   only when shutdown && both queues empty
     - cancelAllJobs               : [Cancel] sets the flag; queued jobs are NOT dropped, they still run
                                              (only executeProcess looks at the flag)
     - executeProcess, real spawn  : [Spawn]  refused once cancelled
     - ~LaneBasedExecutionQueue    : [Shutdown] sets the flag; lanes keep taking until both queues are empty
                                              (after joining the lanes it also waits for the detached threads of
                                               lane-released process waits, 04dd166; lane release itself is outside this
                                               transition system and is sampled by the harness, also under ThreadSanitizer)
   The choice among equal maximal names by std::priority_queue is a property of the heap algorithm, not of the
   llbuild sources: the Take label therefore carries the job that was observed and [step] checks that it is a
   legal choice (for FIFO and for the high-priority list the choice is unique). *)
From LLB Require Import Base.Bytes.
Local Open Scope N_scope.

Definition job := N.
Definition lane := N.

Inductive sched := Fifo | NamePrio.
Inductive prio := High | Normal.
(* who calls addJob: a client thread, or the job currently running on a lane *)
Inductive source := Outside | FromLane (l : lane).

Inductive label :=
| Add (j : job) (p : prio) (o : bytes) (src : source)   (* o = getOrdinalName() *)
| Take (l : lane) (j : job)
| Finish (l : lane)
| Spawn (l : lane)
| Cancel
| Shutdown
| Exit (l : lane).

Record state := mk_state {
  st_lanes : N;                        (* numLanes *)
  st_alg : sched;
  st_hi : list job;                    (* readyPriorityJobs, front first *)
  st_ready : list (job * bytes);       (* readyJobs in insertion order, with the ordinal names *)
  st_running : list (lane * job);
  st_finished : list job;              (* most recent first *)
  st_added : list job;                 (* every job ever added, most recent first *)
  st_cancelled : bool;
  st_shutdown : bool;
  st_exited : list lane }.

Definition init (n : N) (alg : sched) : state :=
  mk_state n alg [] [] [] [] [] false false [].

(* StringRef::compare < 0 : unsigned bytewise, then by length *)
Fixpoint bytes_ltb (a b : bytes) : bool :=
  match a, b with
  | _, [] => false
  | [], _ :: _ => true
  | x :: a', y :: b' => if x <? y then true else if y <? x then false else bytes_ltb a' b'
  end.

Definition mem_n (x : N) (l : list N) : bool := existsb (N.eqb x) l.

Definition lane_busy (s : state) (l : lane) : bool :=
  existsb (fun e => N.eqb (fst e) l) (st_running s).

Definition lane_ok (s : state) (l : lane) : bool :=
  (l <? st_lanes s) && negb (mem_n l (st_exited s)).

Definition queue_empty (s : state) : bool :=
  match st_hi s, st_ready s with [], [] => true | _, _ => false end.

Fixpoint find_job (j : job) (r : list (job * bytes)) : option bytes :=
  match r with
  | [] => None
  | e :: r' => if N.eqb (fst e) j then Some (snd e) else find_job j r'
  end.

Fixpoint remove_job (j : job) (r : list (job * bytes)) : list (job * bytes) :=
  match r with
  | [] => []
  | e :: r' => if N.eqb (fst e) j then r' else e :: remove_job j r'
  end.

Fixpoint find_lane (l : lane) (r : list (lane * job)) : option job :=
  match r with
  | [] => None
  | e :: r' => if N.eqb (fst e) l then Some (snd e) else find_lane l r'
  end.

Fixpoint remove_lane (l : lane) (r : list (lane * job)) : list (lane * job) :=
  match r with
  | [] => []
  | e :: r' => if N.eqb (fst e) l then r' else e :: remove_lane l r'
  end.

(* no ready job has a strictly greater ordinal name *)
Definition is_max (o : bytes) (r : list (job * bytes)) : bool :=
  forallb (fun e => negb (bytes_ltb o (snd e))) r.

(* the queues after job j has been taken, if j is a legal choice *)
Definition take_choice (s : state) (j : job) : option (list job * list (job * bytes)) :=
  match st_hi s with
  | h :: hs => if N.eqb h j then Some (hs, st_ready s) else None
  | [] =>
    match st_alg s with
    | Fifo =>
      match st_ready s with
      | e :: r => if N.eqb (fst e) j then Some ([], r) else None
      | [] => None
      end
    | NamePrio =>
      match find_job j (st_ready s) with
      | Some o => if is_max o (st_ready s) then Some ([], remove_job j (st_ready s)) else None
      | None => None
      end
    end
  end.

Definition src_ok (s : state) (src : source) : bool :=
  match src with
  | Outside => negb (st_shutdown s)        (* no addJob from outside once the destructor runs *)
  | FromLane l => lane_busy s l
  end.

Definition step (s : state) (a : label) : option state :=
  match a with
  | Add j p o src =>
    if mem_n j (st_added s) then None
    else if src_ok s src then
      Some (match p with
            | High => mk_state (st_lanes s) (st_alg s) (st_hi s ++ [j]) (st_ready s) (st_running s) (st_finished s)
                               (j :: st_added s) (st_cancelled s) (st_shutdown s) (st_exited s)
            | Normal => mk_state (st_lanes s) (st_alg s) (st_hi s) (st_ready s ++ [(j, o)]) (st_running s) (st_finished s)
                                 (j :: st_added s) (st_cancelled s) (st_shutdown s) (st_exited s)
            end)
    else None
  | Take l j =>
    if lane_ok s l && negb (lane_busy s l) then
      match take_choice s j with
      | Some (hi', rd') =>
        Some (mk_state (st_lanes s) (st_alg s) hi' rd' ((l, j) :: st_running s) (st_finished s)
                       (st_added s) (st_cancelled s) (st_shutdown s) (st_exited s))
      | None => None
      end
    else None
  | Finish l =>
    match find_lane l (st_running s) with
    | Some j =>
      Some (mk_state (st_lanes s) (st_alg s) (st_hi s) (st_ready s) (remove_lane l (st_running s)) (j :: st_finished s)
                     (st_added s) (st_cancelled s) (st_shutdown s) (st_exited s))
    | None => None
    end
  | Spawn l =>
    if lane_busy s l && negb (st_cancelled s) then Some s else None
  | Cancel =>
    Some (mk_state (st_lanes s) (st_alg s) (st_hi s) (st_ready s) (st_running s) (st_finished s)
                   (st_added s) true (st_shutdown s) (st_exited s))
  | Shutdown =>
    if st_shutdown s then None
    else Some (mk_state (st_lanes s) (st_alg s) (st_hi s) (st_ready s) (st_running s) (st_finished s)
                        (st_added s) (st_cancelled s) true (st_exited s))
  | Exit l =>
    if st_shutdown s && queue_empty s && lane_ok s l && negb (lane_busy s l) then
      Some (mk_state (st_lanes s) (st_alg s) (st_hi s) (st_ready s) (st_running s) (st_finished s)
                     (st_added s) (st_cancelled s) (st_shutdown s) (l :: st_exited s))
    else None
  end.

Fixpoint accepts (s : state) (ls : list label) : option state :=
  match ls with
  | [] => Some s
  | a :: ls' => match step s a with Some s' => accepts s' ls' | None => None end
  end.

(* index of the first label that is not enabled (None = all accepted) *)
Fixpoint first_reject (s : state) (ls : list label) (i : N) : option N :=
  match ls with
  | [] => None
  | a :: ls' => match step s a with Some s' => first_reject s' ls' (i + 1) | None => Some i end
  end.

Definition terminal (s : state) : bool :=
  st_shutdown s && queue_empty s && match st_running s with [] => true | _ => false end.

(* ---- projections of a label sequence ---- *)
Fixpoint adds (ls : list label) : list job :=
  match ls with
  | [] => []
  | Add j _ _ _ :: r => j :: adds r
  | _ :: r => adds r
  end.

Fixpoint hi_adds (ls : list label) : list job :=
  match ls with
  | [] => []
  | Add j High _ _ :: r => j :: hi_adds r
  | _ :: r => hi_adds r
  end.

Fixpoint normal_entries (ls : list label) : list (job * bytes) :=
  match ls with
  | [] => []
  | Add j Normal o _ :: r => (j, o) :: normal_entries r
  | _ :: r => normal_entries r
  end.

Definition normal_adds (ls : list label) : list job := map fst (normal_entries ls).

Fixpoint takes (ls : list label) : list job :=
  match ls with
  | [] => []
  | Take _ j :: r => j :: takes r
  | _ :: r => takes r
  end.

Definition is_spawn (a : label) : bool := match a with Spawn _ => true | _ => false end.

Definition all_jobs (s : state) : list job :=
  st_hi s ++ map fst (st_ready s) ++ map snd (st_running s) ++ st_finished s.

(* ------------------------------------------------------------------------------------------------------------
   The serial execution queue (lib/Basic/SerialQueue.cpp): ONE worker thread and one FIFO deque of operations;
   addJob ignores the priority; executeProcess refuses to spawn once cancelled; the destructor appends a nil
   operation (the shutdown marker) and joins the worker.
   SerialQueueImpl::run, when it dequeues the marker:
     repaired = true  (6dc9f85): if nothing is behind the marker the worker leaves; otherwise the marker is pushed back
                      behind the operations that the still-running operation added, and the loop goes on.  Nobody can
                      add between the dequeue and the push (only the worker's own running operation could, and none is
                      running), so the rotation is folded into the next step as [snorm].
     repaired = false (before): "if (!fn) break;" - whatever is behind the marker is destroyed unrun. *)
Inductive sop := SJob (j : job) | SNil.

Record sstate := mk_sstate {
  ss_ops : list sop;                 (* operations, front first *)
  ss_running : option job;
  ss_finished : list job;            (* most recent first *)
  ss_added : list job;
  ss_cancelled : bool;
  ss_shutdown : bool;
  ss_exited : bool }.

Inductive slabel :=
| SAdd (j : job) (from_job : bool)   (* from_job: added by the job that is running *)
| STake (j : job)
| SFinish
| SSpawn
| SCancel
| SShutdown
| SExit.

Definition sinit : sstate := mk_sstate [] None [] [] false false false.

(* marker at the front with operations behind it: the worker moves it to the back *)
Definition snorm (repaired : bool) (ops : list sop) : list sop :=
  if repaired then
    match ops with
    | SNil :: o :: r => (o :: r) ++ [SNil]
    | _ => ops
    end
  else ops.

Definition sstep_gen (repaired : bool) (s : sstate) (a : slabel) : option sstate :=
  match a with
  | SAdd j from_job =>
    if mem_n j (ss_added s) then None
    else if (if from_job then match ss_running s with Some _ => true | None => false end else negb (ss_shutdown s)) then
      Some (mk_sstate (ss_ops s ++ [SJob j]) (ss_running s) (ss_finished s) (j :: ss_added s)
                      (ss_cancelled s) (ss_shutdown s) (ss_exited s))
    else None
  | STake j =>
    match ss_exited s, ss_running s, snorm repaired (ss_ops s) with
    | false, None, SJob k :: r =>
      if N.eqb k j then Some (mk_sstate r (Some j) (ss_finished s) (ss_added s) (ss_cancelled s) (ss_shutdown s) (ss_exited s))
      else None
    | _, _, _ => None
    end
  | SFinish =>
    match ss_running s with
    | Some j => Some (mk_sstate (ss_ops s) None (j :: ss_finished s) (ss_added s) (ss_cancelled s) (ss_shutdown s) (ss_exited s))
    | None => None
    end
  | SSpawn =>
    match ss_running s with
    | Some _ => if ss_cancelled s then None else Some s
    | None => None
    end
  | SCancel => Some (mk_sstate (ss_ops s) (ss_running s) (ss_finished s) (ss_added s) true (ss_shutdown s) (ss_exited s))
  | SShutdown =>
    if ss_shutdown s then None
    else Some (mk_sstate (ss_ops s ++ [SNil]) (ss_running s) (ss_finished s) (ss_added s) (ss_cancelled s) true (ss_exited s))
  | SExit =>
    match ss_exited s, ss_running s, ss_ops s with
    | false, None, SNil :: r =>
      if repaired then
        match r with
        | [] => Some (mk_sstate [] None (ss_finished s) (ss_added s) (ss_cancelled s) (ss_shutdown s) true)
        | _ :: _ => None                (* not empty behind the marker: the worker goes on *)
        end
      else (* the worker breaks out of its loop; r is never looked at again *)
        Some (mk_sstate r None (ss_finished s) (ss_added s) (ss_cancelled s) (ss_shutdown s) true)
    | _, _, _ => None
    end
  end.

Definition sstep := sstep_gen true.
Definition sstep_v0 := sstep_gen false.

Fixpoint saccepts_gen (repaired : bool) (s : sstate) (ls : list slabel) : option sstate :=
  match ls with
  | [] => Some s
  | a :: ls' => match sstep_gen repaired s a with Some s' => saccepts_gen repaired s' ls' | None => None end
  end.

Definition saccepts := saccepts_gen true.
Definition saccepts_v0 := saccepts_gen false.

Fixpoint sfirst_reject (repaired : bool) (s : sstate) (ls : list slabel) (i : N) : option N :=
  match ls with
  | [] => None
  | a :: ls' => match sstep_gen repaired s a with Some s' => sfirst_reject repaired s' ls' (i + 1) | None => Some i end
  end.

Definition sjobs (ops : list sop) : list job :=
  flat_map (fun o => match o with SJob j => [j] | SNil => [] end) ops.

(* jobs that were added and will never run: still queued when the worker has left *)
Definition slost (s : sstate) : list job := if ss_exited s then sjobs (ss_ops s) else [].
