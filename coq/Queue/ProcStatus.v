(* How a process launch ends (lib/Basic/Subprocess.cpp, cleanUpExecutedProcess lines 499-528, spawnProcess
   lines 822-953; lib/Basic/LaneBasedExecutionQueue.cpp executeProcess lines 393-401).  Definitions only.

   The code keeps the raw wait4() status in an int called exitCode and maps it with
       bool cancelled = WIFSIGNALED(exitCode) && (WTERMSIG(exitCode) == SIGINT || WTERMSIG(exitCode) == SIGKILL);
       status = cancelled ? Cancelled : (exitCode == 0) ? Succeeded : Failed;
   glibc:  WTERMSIG(s)    = s & 0x7f
           WIFSIGNALED(s) = ((signed char)((s & 0x7f) + 1) >> 1) > 0
           WIFEXITED(s)   = WTERMSIG(s) == 0,  WEXITSTATUS(s) = (s & 0xff00) >> 8 *)
From LLB Require Import Base.Bytes.
Local Open Scope N_scope.

Inductive status := Succeeded | Failed | Cancelled.

Definition status_eqb (a b : status) : bool :=
  match a, b with
  | Succeeded, Succeeded | Failed, Failed | Cancelled, Cancelled => true
  | _, _ => false
  end.

Definition SIGINT : N := 2.
Definition SIGKILL : N := 9.

Definition wtermsig (w : N) : N := N.land w 127.
Definition wexitstatus (w : N) : N := N.shiftr (N.land w 65280) 8.
Definition wifexited (w : N) : bool := wtermsig w =? 0.
(* ((signed char) x >> 1) > 0 for x = (w & 0x7f) + 1 in 1..128: 128 is -128 as a signed char *)
Definition wifsignaled (w : N) : bool :=
  let x := wtermsig w + 1 in (x <? 128) && (0 <? N.shiftr x 1).

Definition status_of_wait (w : N) : status :=
  if wifsignaled w && ((wtermsig w =? SIGINT) || (wtermsig w =? SIGKILL)) then Cancelled
  else if w =? 0 then Succeeded else Failed.

(* the child's real fate, and the wait status the kernel reports for it *)
Inductive fate :=
| Exited (code : N)                  (* 0..255 *)
| Killed (sig : N) (core : bool).    (* 1..126; core dump flag 0x80 *)

Definition raw_of_fate (f : fate) : N :=
  match f with
  | Exited c => c * 256
  | Killed sg core => sg + (if core then 128 else 0)
  end.

(* what the property asks for *)
Definition status_of_fate (f : fate) : status :=
  match f with
  | Exited c => if c =? 0 then Succeeded else Failed
  | Killed sg _ => if (sg =? SIGINT) || (sg =? SIGKILL) then Cancelled else Failed
  end.

Definition fate_ok (f : fate) : bool :=
  match f with
  | Exited c => c <? 256
  | Killed sg _ => (1 <=? sg) && (sg <=? 126)
  end.

(* One executeProcess call.
   cancelled : LaneBasedExecutionQueue::cancelled when executeProcess looks at it (before building the environment)
   closed    : ProcessGroup::isClosed() under the group mutex just before posix_spawn
   no_args   : empty command line
   spawn     : None = pipe creation / posix_spawn failed; Some w = child ran, wait4 returned status w;
   wait_err  : wait4 failed (result == -1)
   Result: (was a child created, status handed to the completion function). *)
Definition launch_outcome (cancelled closed no_args : bool) (spawn : option N) (wait_err : bool) : bool * status :=
  if cancelled then (false, Cancelled)
  else if no_args then (false, Failed)
  else if closed then (false, Cancelled)
  else match spawn with
       | None => (false, Failed)
       | Some w => if wait_err then (true, Failed) else (true, status_of_wait w)
       end.

Fixpoint n_range (start : N) (len : nat) : list N :=
  match len with O => [] | S k => start :: n_range (start + 1) k end.

Definition status_code (s : status) : N :=
  match s with Succeeded => 0 | Failed => 1 | Cancelled => 2 end.

(* ---- table probed from real children (coq/gen/Gen_ProcStatus.v): entries (kind, argument, raw, status code)
   kind 0: child ran "exit <argument>"; kind 1: child ran "kill -<argument> $$; exit 77".
   The signals whose default action is to be ignored (CHLD 17, CONT 18, URG 23, WINCH 28) leave the child alive. *)
Definition default_ignored (sg : N) : bool := (sg =? 17) || (sg =? 18) || (sg =? 23) || (sg =? 28).

Definition probe_entry_ok (e : N * N * N * N) : bool :=
  let '(k, a, raw, st) := e in
  (st =? status_code (status_of_wait raw)) &&
  match k with
  | 0 => (raw =? raw_of_fate (Exited a)) && (st =? status_code (status_of_fate (Exited a)))
  | _ => if default_ignored a
         then (raw =? raw_of_fate (Exited 77)) && (st =? status_code Failed)
         else (wtermsig raw =? a) && (raw <? 256) && (st =? status_code (status_of_fate (Killed a false)))
  end.

Definition probe_has (tbl : list (N * N * N * N)) (k a : N) : bool :=
  existsb (fun e => let '(k', a', _, _) := e in (k' =? k) && (a' =? a)) tbl.

(* every exit code 0..255 and every signal 1..31 that terminates or is ignored (all but STOP/TSTP/TTIN/TTOU) was probed *)
Definition probe_complete (tbl : list (N * N * N * N)) : bool :=
  forallb (probe_has tbl 0) (n_range 0 (N.to_nat 256)) &&
  forallb (fun sg => ((19 <=? sg) && (sg <=? 22)) || probe_has tbl 1 sg) (n_range 1 (N.to_nat 31)).
