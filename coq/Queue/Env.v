(* Construction of a child's environment (definitions only).
   LaneBasedExecutionQueue::executeProcess (lines 403-431) then spawnProcess (Subprocess.cpp lines 802-804, 854-857),
   all through POSIXEnvironment::setIfMissing (include/llbuild/Basic/POSIXEnvironment.h): the first writer of a key
   wins, entries keep their insertion order (envStorage), each entry is rendered  key '=' value.

   Order of the writers AS THE CODE HAS IT:
     1. LLBUILD_BUILD_ID, LLBUILD_LANE_ID
     2. the requested environment, in order, without the keys spawnProcess assigns itself
        (isProcessAssignedEnvironmentKey: LLBUILD_TASK_ID, LLBUILD_CONTROL_FD)
     3. if attributes.inheritEnvironment: the queue's base environment, each entry split at its first '='
        (an entry without '=' becomes key = entry, value = ""), again without those two keys
     4. LLBUILD_TASK_ID
     5. LLBUILD_CONTROL_FD when a control pipe exists
   [build_env_v0] is the construction before the repair a51183e (no filtering in 2 and 3): there a requested
   or inherited LLBUILD_TASK_ID / LLBUILD_CONTROL_FD won over the real one. *)
From LLB Require Import Base.Bytes.
Local Open Scope N_scope.

Definition env := list (bytes * bytes).

Fixpoint lookup (k : bytes) (e : env) : option bytes :=
  match e with
  | [] => None
  | (k', v) :: e' => if bytes_eqb k k' then Some v else lookup k e'
  end.

Definition has_key (k : bytes) (e : env) : bool :=
  match lookup k e with Some _ => true | None => false end.

Definition set_if_missing (e : env) (k v : bytes) : env :=
  if has_key k e then e else e ++ [(k, v)].

Fixpoint set_all (e : env) (l : env) : env :=
  match l with
  | [] => e
  | (k, v) :: l' => set_all (set_if_missing e k v) l'
  end.

(* StringRef::split('=') : at the first '=' ; no '=' -> (whole, "") *)
Fixpoint split_eq (s : bytes) : bytes * bytes :=
  match s with
  | [] => ([], [])
  | c :: s' => if c =? 61 then ([], s') else let (k, v) := split_eq s' in (c :: k, v)
  end.

Definition K_BUILD_ID : bytes := [76;76;66;85;73;76;68;95;66;85;73;76;68;95;73;68].
Definition K_LANE_ID : bytes := [76;76;66;85;73;76;68;95;76;65;78;69;95;73;68].
Definition K_TASK_ID : bytes := [76;76;66;85;73;76;68;95;84;65;83;75;95;73;68].
Definition K_CONTROL_FD : bytes := [76;76;66;85;73;76;68;95;67;79;78;84;82;79;76;95;70;68].

(* isProcessAssignedEnvironmentKey *)
Definition process_assigned (k : bytes) : bool := bytes_eqb k K_TASK_ID || bytes_eqb k K_CONTROL_FD.

Definition passed_on (l : env) : env := filter (fun kv => negb (process_assigned (fst kv))) l.

(* the writers in the order of the code *)
Definition sources (build_id lane_id task_id : bytes) (requested : env) (inherit : bool) (base : list bytes)
           (control_fd : option bytes) : env :=
  [(K_BUILD_ID, build_id); (K_LANE_ID, lane_id)]
  ++ passed_on requested
  ++ (if inherit then passed_on (map split_eq base) else [])
  ++ [(K_TASK_ID, task_id)]
  ++ match control_fd with Some fd => [(K_CONTROL_FD, fd)] | None => [] end.

Definition build_env (build_id lane_id task_id : bytes) (requested : env) (inherit : bool) (base : list bytes)
           (control_fd : option bytes) : env :=
  let e0 := set_if_missing (set_if_missing [] K_BUILD_ID build_id) K_LANE_ID lane_id in
  let e1 := set_all e0 (passed_on requested) in
  let e2 := if inherit then set_all e1 (passed_on (map split_eq base)) else e1 in
  let e3 := set_if_missing e2 K_TASK_ID task_id in
  match control_fd with
  | Some fd => set_if_missing e3 K_CONTROL_FD fd
  | None => e3
  end.

(* before the repair: every requested / inherited entry was passed on *)
Definition build_env_v0 (build_id lane_id task_id : bytes) (requested : env) (inherit : bool) (base : list bytes)
           (control_fd : option bytes) : env :=
  let e0 := set_if_missing (set_if_missing [] K_BUILD_ID build_id) K_LANE_ID lane_id in
  let e1 := set_all e0 requested in
  let e2 := if inherit then set_all e1 (map split_eq base) else e1 in
  let e3 := set_if_missing e2 K_TASK_ID task_id in
  match control_fd with
  | Some fd => set_if_missing e3 K_CONTROL_FD fd
  | None => e3
  end.

(* envp as handed to posix_spawn: "key=value" (the terminating NUL is left out) *)
Definition render (e : env) : list bytes := map (fun kv => fst kv ++ 61 :: snd kv) e.

(* what getenv(k) finds in an envp: the first entry that starts with k followed by '=' *)
Fixpoint getenv (k : bytes) (envp : list bytes) : option bytes :=
  match envp with
  | [] => None
  | s :: r => if is_prefix (k ++ [61]) s then Some (skipn (length k + 1) s) else getenv k r
  end.

Definition clean_key (k : bytes) : bool := forallb (fun c => negb (c =? 61)) k.
