(* Proofs about the construction of a child's environment (Queue/Env.v). *)
From Coq Require Import Permutation.
From LLB Require Import Base.Bytes Base.BytesFacts Queue.Env.
Local Open Scope N_scope.

Lemma lookup_app k a b :
  lookup k (a ++ b) = match lookup k a with Some v => Some v | None => lookup k b end.
Proof.
  induction a as [|[k' v] a IH]; [reflexivity|]. cbn [app lookup].
  destruct (bytes_eqb k k'); [reflexivity|exact IH].
Qed.

Lemma lookup_None_notin k e : lookup k e = None <-> ~ In k (map fst e).
Proof.
  induction e as [|[k' v] e IH]; cbn [lookup map fst In].
  - split; [intros _ []|reflexivity].
  - destruct (bytes_eqb k k') eqn:E.
    + apply bytes_eqb_eq in E. subst. split; [discriminate|]. intros H. exfalso. apply H. left. reflexivity.
    + apply bytes_eqb_neq in E. rewrite IH. split.
      * intros H [H1|H1]; [apply E; symmetry; exact H1|exact (H H1)].
      * intros H H1. apply H. right. exact H1.
Qed.

Lemma lookup_set_if_missing k e k' v :
  lookup k (set_if_missing e k' v) =
  match lookup k e with Some x => Some x | None => if bytes_eqb k k' then Some v else None end.
Proof.
  unfold set_if_missing, has_key. destruct (lookup k' e) as [x|] eqn:E.
  - destruct (lookup k e) as [y|] eqn:E2; [reflexivity|].
    destruct (bytes_eqb k k') eqn:E3; [|reflexivity].
    apply bytes_eqb_eq in E3. subst. rewrite E in E2. discriminate.
  - rewrite lookup_app. cbn [lookup]. reflexivity.
Qed.

Lemma lookup_set_all k l : forall e,
  lookup k (set_all e l) = match lookup k e with Some x => Some x | None => lookup k l end.
Proof.
  induction l as [|[k' v] l IH]; intros e; cbn [set_all lookup].
  - destruct (lookup k e); reflexivity.
  - rewrite IH, lookup_set_if_missing. destruct (lookup k e); [reflexivity|].
    destruct (bytes_eqb k k'); reflexivity.
Qed.

Lemma nodup_set_if_missing e k v : NoDup (map fst e) -> NoDup (map fst (set_if_missing e k v)).
Proof.
  intros Hnd. unfold set_if_missing, has_key. destruct (lookup k e) eqn:E; [exact Hnd|].
  rewrite map_app. cbn [map fst]. apply lookup_None_notin in E.
  apply (Permutation_NoDup (Permutation_cons_append _ _)). constructor; assumption.
Qed.

Lemma nodup_set_all l : forall e, NoDup (map fst e) -> NoDup (map fst (set_all e l)).
Proof.
  induction l as [|[k v] l IH]; intros e Hnd; cbn [set_all]; [exact Hnd|].
  apply IH. apply nodup_set_if_missing. exact Hnd.
Qed.

Lemma set_all_app a : forall e b, set_all e (a ++ b) = set_all (set_all e a) b.
Proof.
  induction a as [|[k v] a IH]; intros e b; cbn [app set_all]; [reflexivity|apply IH].
Qed.

(* the environment is exactly "first writer wins" over the writers in the order of the code *)
Theorem build_env_first_wins bid lid tid requested inherit base cfd :
  build_env bid lid tid requested inherit base cfd = set_all [] (sources bid lid tid requested inherit base cfd).
Proof.
  unfold build_env, sources. cbn [app set_all].
  rewrite set_all_app. destruct inherit.
  - rewrite set_all_app. destruct cfd; reflexivity.
  - cbn [app]. destruct cfd; reflexivity.
Qed.

(* for every key, the value in the built environment is that of the first writer defining it *)
Theorem env_precedence bid lid tid requested inherit base cfd k :
  lookup k (build_env bid lid tid requested inherit base cfd) =
  lookup k (sources bid lid tid requested inherit base cfd).
Proof. rewrite build_env_first_wins, lookup_set_all. reflexivity. Qed.

(* no key appears twice *)
Theorem env_keys_unique bid lid tid requested inherit base cfd :
  NoDup (map fst (build_env bid lid tid requested inherit base cfd)).
Proof. rewrite build_env_first_wins. apply nodup_set_all. constructor. Qed.

Lemma set_if_missing_incl e k v x : In x (set_if_missing e k v) -> In x e \/ x = (k, v).
Proof.
  unfold set_if_missing. destruct (has_key k e); [intros H; left; exact H|].
  intros H. apply in_app_or in H. destruct H as [H|[H|[]]]; [left; exact H|right; symmetry; exact H].
Qed.

Lemma set_all_incl l : forall e x, In x (set_all e l) -> In x e \/ In x l.
Proof.
  induction l as [|[k v] l IH]; intros e x H; cbn [set_all] in H; [left; exact H|].
  apply IH in H. destruct H as [H|H]; [|right; right; exact H].
  apply set_if_missing_incl in H. destruct H as [H|H]; [left; exact H|right; left; symmetry; exact H].
Qed.

(* nothing is invented: every entry comes from one of the writers *)
Theorem env_entries_from_sources bid lid tid requested inherit base cfd x :
  In x (build_env bid lid tid requested inherit base cfd) -> In x (sources bid lid tid requested inherit base cfd).
Proof.
  rewrite build_env_first_wins. intros H. apply set_all_incl in H. destruct H as [[]|H]. exact H.
Qed.

(* consequences spelled out *)
Corollary env_ids_first bid lid tid requested inherit base cfd :
  lookup K_BUILD_ID (build_env bid lid tid requested inherit base cfd) = Some bid /\
  lookup K_LANE_ID (build_env bid lid tid requested inherit base cfd) = Some lid.
Proof. split; rewrite env_precedence; reflexivity. Qed.

Lemma lookup_passed_on k l : process_assigned k = false -> lookup k (passed_on l) = lookup k l.
Proof.
  intros Hk. unfold passed_on. induction l as [|[k' v] l IH]; [reflexivity|].
  cbn [filter fst lookup]. destruct (process_assigned k') eqn:E; cbn [negb].
  - destruct (bytes_eqb k k') eqn:E2; [|exact IH].
    apply bytes_eqb_eq in E2. subst k'. rewrite E in Hk. discriminate.
  - cbn [lookup]. destruct (bytes_eqb k k'); [reflexivity|exact IH].
Qed.

Lemma lookup_passed_on_assigned k l : process_assigned k = true -> lookup k (passed_on l) = None.
Proof.
  intros Hk. apply lookup_None_notin. intros Hin. apply in_map_iff in Hin. destruct Hin as [[k' v] [Hf Hin]].
  cbn [fst] in Hf. subst k'. unfold passed_on in Hin. apply filter_In in Hin. destruct Hin as [_ Hn].
  cbn [fst] in Hn. rewrite Hk in Hn. discriminate.
Qed.

Corollary env_requested_over_inherited bid lid tid requested base cfd k v :
  lookup k requested = Some v -> bytes_eqb k K_BUILD_ID = false -> bytes_eqb k K_LANE_ID = false ->
  process_assigned k = false ->
  lookup k (build_env bid lid tid requested true base cfd) = Some v.
Proof.
  intros Hr H1 H2 H3. rewrite env_precedence. unfold sources. cbn [app lookup]. rewrite H1, H2.
  rewrite lookup_app, (lookup_passed_on _ _ H3), Hr. reflexivity.
Qed.

Corollary env_not_inherited bid lid tid requested base cfd k :
  lookup k (build_env bid lid tid requested false base cfd) =
  lookup k ([(K_BUILD_ID, bid); (K_LANE_ID, lid)] ++ passed_on requested ++ [(K_TASK_ID, tid)]
            ++ match cfd with Some fd => [(K_CONTROL_FD, fd)] | None => [] end).
Proof. rewrite env_precedence. reflexivity. Qed.

(* The ids assigned per process are the process's own, whatever the requested and inherited environments contain. *)
Theorem env_process_ids_own bid lid tid requested inherit base cfd :
  lookup K_TASK_ID (build_env bid lid tid requested inherit base cfd) = Some tid /\
  lookup K_CONTROL_FD (build_env bid lid tid requested inherit base cfd) = cfd.
Proof.
  split; rewrite env_precedence; unfold sources; cbn [app lookup].
  - change (bytes_eqb K_TASK_ID K_BUILD_ID) with false. change (bytes_eqb K_TASK_ID K_LANE_ID) with false.
    rewrite lookup_app, lookup_passed_on_assigned by reflexivity.
    destruct inherit.
    + rewrite lookup_app, lookup_passed_on_assigned by reflexivity. cbn [app lookup]. rewrite bytes_eqb_refl. reflexivity.
    + cbn [app lookup]. rewrite bytes_eqb_refl. reflexivity.
  - change (bytes_eqb K_CONTROL_FD K_BUILD_ID) with false. change (bytes_eqb K_CONTROL_FD K_LANE_ID) with false.
    rewrite lookup_app, lookup_passed_on_assigned by reflexivity.
    destruct inherit.
    + rewrite lookup_app, lookup_passed_on_assigned by reflexivity. cbn [app lookup].
      change (bytes_eqb K_CONTROL_FD K_TASK_ID) with false.
      destruct cfd; cbn [lookup]; [rewrite bytes_eqb_refl|]; reflexivity.
    + cbn [app lookup]. change (bytes_eqb K_CONTROL_FD K_TASK_ID) with false.
      destruct cfd; cbn [lookup]; [rewrite bytes_eqb_refl|]; reflexivity.
Qed.

(* Before the repair (a51183e) LLBUILD_TASK_ID was written after the unfiltered requested and inherited entries, so it
   did not win.  Witness: a base environment containing LLBUILD_TASK_ID=z (an llbuild running inside an llbuild task). *)
Theorem env_v0_refuted :
  exists bid lid tid requested base,
    lookup K_TASK_ID (build_env_v0 bid lid tid requested true base None) <> Some tid.
Proof.
  exists [49], [48], [97; 98], [], [K_TASK_ID ++ [61; 122]]. vm_compute. discriminate.
Qed.

(* ------------------------------------------------------------------ what the child sees through getenv *)
Lemma split_eq_clean s : clean_key (fst (split_eq s)) = true.
Proof.
  induction s as [|c s IH]; [reflexivity|]. cbn [split_eq].
  destruct (c =? 61) eqn:E; [reflexivity|].
  destruct (split_eq s) as [k v]. cbn [fst clean_key forallb] in *. rewrite E. exact IH.
Qed.

Lemma is_prefix_key k : forall k' v,
  clean_key k = true -> clean_key k' = true ->
  is_prefix (k ++ [61]) (k' ++ 61 :: v) = bytes_eqb k k'.
Proof.
  induction k as [|c k IH]; intros k' v Hk Hk'.
  - destruct k' as [|c' k']; cbn [app is_prefix bytes_eqb].
    + rewrite N.eqb_refl. reflexivity.
    + cbn [clean_key forallb] in Hk'. apply andb_true_iff in Hk'. destruct Hk' as [H _].
      apply negb_true_iff in H. rewrite N.eqb_sym. rewrite H. reflexivity.
  - cbn [clean_key forallb] in Hk. apply andb_true_iff in Hk. destruct Hk as [Hc Hk]. apply negb_true_iff in Hc.
    destruct k' as [|c' k']; cbn [app is_prefix bytes_eqb].
    + rewrite Hc. reflexivity.
    + cbn [clean_key forallb] in Hk'. apply andb_true_iff in Hk'. destruct Hk' as [_ Hk'].
      rewrite (IH k' v Hk Hk'). reflexivity.
Qed.

Lemma skipn_key (k v : bytes) : skipn (length k + 1) (k ++ 61 :: v) = v.
Proof. induction k as [|c k IH]; [reflexivity|]. cbn [length Nat.add app skipn]. exact IH. Qed.

Lemma getenv_render k e :
  clean_key k = true -> forallb clean_key (map fst e) = true -> getenv k (render e) = lookup k e.
Proof.
  intros Hk. induction e as [|[k' v] e IH]; intros He; [reflexivity|].
  cbn [map fst forallb] in He. apply andb_true_iff in He. destruct He as [Hk' He].
  unfold render. cbn [map getenv lookup fst snd].
  pose proof (is_prefix_key k k' v Hk Hk') as Hp.
  match goal with |- context [is_prefix ?a ?b] => destruct (is_prefix a b) eqn:P end.
  - assert (E : bytes_eqb k k' = true) by (etransitivity; [symmetry; exact Hp|exact P]).
    rewrite E. apply bytes_eqb_eq in E. subst k'. f_equal. apply skipn_key.
  - assert (E : bytes_eqb k k' = false) by (etransitivity; [symmetry; exact Hp|exact P]).
    rewrite E. apply IH. exact He.
Qed.

(* If the requested keys contain no '=', the child's getenv(k) returns the value of the first writer of k. *)
Theorem env_child_view bid lid tid requested inherit base cfd k :
  clean_key k = true -> forallb clean_key (map fst requested) = true ->
  getenv k (render (build_env bid lid tid requested inherit base cfd)) =
  lookup k (sources bid lid tid requested inherit base cfd).
Proof.
  intros Hk Hreq. rewrite getenv_render; [apply env_precedence|exact Hk|].
  apply forallb_forall. intros key Hin. apply in_map_iff in Hin. destruct Hin as [[k' v] [Hfst Hin]].
  cbn [fst] in Hfst. subst k'. apply env_entries_from_sources in Hin. unfold sources in Hin.
  repeat (apply in_app_or in Hin; destruct Hin as [Hin|Hin]).
  - destruct Hin as [H|[H|[]]]; injection H as H1 H2; subst key; reflexivity.
  - unfold passed_on in Hin. apply filter_In in Hin. destruct Hin as [Hin _].
    rewrite forallb_forall in Hreq. apply Hreq. apply (in_map fst) in Hin. exact Hin.
  - destruct inherit; [|destruct Hin]. unfold passed_on in Hin. apply filter_In in Hin. destruct Hin as [Hin _].
    apply in_map_iff in Hin. destruct Hin as [s [Hs _]].
    pose proof (split_eq_clean s) as Hc. rewrite Hs in Hc. exact Hc.
  - destruct Hin as [H|[]]. injection H as H1 H2. subst key. reflexivity.
  - destruct cfd; [|destruct Hin]. destruct Hin as [H|[]]. injection H as H1 H2. subst key. reflexivity.
Qed.

(* A requested key that contains '=' breaks the child's view: two entries for the same name. *)
Theorem env_unclean_key_refuted :
  exists requested k,
    forallb clean_key (map fst requested) = false /\
    getenv k (render (build_env [49] [48] [50] requested false [] None)) <>
    lookup k (sources [49] [48] [50] requested false [] None).
Proof.
  exists [([65; 61; 66], [67]); ([65], [88])], [65]. vm_compute. split; [reflexivity|discriminate].
Qed.

(* non-vacuity *)
Example ex_env :
  render (build_env [49] [48] [51] [([97;98], [99]); ([97;98], [100])] true [[97;61;98]; [99]; [61;120]] None)
  = [K_BUILD_ID ++ [61;49]; K_LANE_ID ++ [61;48]; [97;98;61;99]; [97;61;98]; [99;61]; [61;120]; K_TASK_ID ++ [61;51]].
Proof. vm_compute. reflexivity. Qed.
Example ex_env_child : getenv [97;98] (render (build_env [49] [48] [51] [([97;98], [99])] true [[97;98;61;122]] None)) = Some [99].
Proof. vm_compute. reflexivity. Qed.
