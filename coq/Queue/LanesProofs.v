(* Proofs about the lane based queue transition system (Queue/Lanes.v). *)
From Coq Require Import Permutation.
From LLB Require Import Base.Bytes Queue.Lanes.
Local Open Scope N_scope.

Ltac proj := cbn [st_lanes st_alg st_hi st_ready st_running st_finished st_added st_cancelled st_shutdown st_exited] in *.

(* ------------------------------------------------------------------ small list facts *)
Lemma mem_n_In x l : mem_n x l = true <-> In x l.
Proof.
  unfold mem_n. rewrite existsb_exists. split.
  - intros [y [Hy He]]. apply N.eqb_eq in He. subst. exact Hy.
  - intros Hin. exists x. split; [exact Hin|apply N.eqb_refl].
Qed.

Lemma mem_n_false x l : mem_n x l = false <-> ~ In x l.
Proof.
  rewrite <- mem_n_In. destruct (mem_n x l).
  - split; [discriminate|]. intros H. exfalso. apply H. reflexivity.
  - split; [intros _ H; discriminate|reflexivity].
Qed.

Lemma mem_n_app x a b : mem_n x (a ++ b) = mem_n x a || mem_n x b.
Proof. unfold mem_n. apply existsb_app. Qed.

Lemma bytes_ltb_irrefl a : bytes_ltb a a = false.
Proof.
  induction a as [|x a IH]; [reflexivity|].
  cbn [bytes_ltb]. rewrite N.ltb_irrefl. exact IH.
Qed.

Lemma bytes_ltb_trans a : forall b c, bytes_ltb a b = true -> bytes_ltb b c = true -> bytes_ltb a c = true.
Proof.
  induction a as [|x a IH]; intros b c Hab Hbc.
  - destruct b as [|y b]; [discriminate|]. destruct c as [|z c]; [discriminate|]. reflexivity.
  - destruct b as [|y b]; [discriminate|]. destruct c as [|z c]; [cbn [bytes_ltb] in Hbc; discriminate|].
    cbn [bytes_ltb] in *.
    destruct (x <? y) eqn:Hxy.
    + apply N.ltb_lt in Hxy.
      destruct (y <? z) eqn:Hyz.
      * apply N.ltb_lt in Hyz. assert (Hxz : x <? z = true) by (apply N.ltb_lt; lia). rewrite Hxz. reflexivity.
      * destruct (z <? y) eqn:Hzy; [discriminate|].
        apply N.ltb_ge in Hyz. apply N.ltb_ge in Hzy.
        assert (Hxz : x <? z = true) by (apply N.ltb_lt; lia). rewrite Hxz. reflexivity.
    + destruct (y <? x) eqn:Hyx; [discriminate|].
      apply N.ltb_ge in Hxy. apply N.ltb_ge in Hyx. assert (x = y) by lia. subst y.
      destruct (x <? z) eqn:Hxz; [reflexivity|].
      destruct (z <? x) eqn:Hzx; [discriminate|].
      eapply IH; eassumption.
Qed.

Lemma is_max_cons o e r : is_max o (e :: r) = negb (bytes_ltb o (snd e)) && is_max o r.
Proof. reflexivity. Qed.

Lemma is_max_spec o r : is_max o r = true <-> forall k, In k r -> bytes_ltb o (snd k) = false.
Proof.
  unfold is_max. rewrite forallb_forall. split; intros H k Hk; specialize (H k Hk).
  - apply negb_true_iff in H. exact H.
  - apply negb_true_iff. exact H.
Qed.

Lemma exists_max (r : list (job * bytes)) :
  r <> [] -> exists e, In e r /\ is_max (snd e) r = true.
Proof.
  induction r as [|e r IH]; [intros H; exfalso; apply H; reflexivity|].
  intros _. destruct r as [|e2 r2].
  - exists e. split; [left; reflexivity|]. rewrite is_max_cons. rewrite bytes_ltb_irrefl. reflexivity.
  - remember (e2 :: r2) as r' eqn:Hr'.
    destruct IH as [m [Hin Hmax]]; [subst r'; discriminate|].
    destruct (bytes_ltb (snd m) (snd e)) eqn:Hlt.
    + exists e. split; [left; reflexivity|].
      rewrite is_max_cons. rewrite bytes_ltb_irrefl. cbn [negb andb].
      apply is_max_spec. intros k Hk.
      rewrite is_max_spec in Hmax. specialize (Hmax k Hk).
      destruct (bytes_ltb (snd e) (snd k)) eqn:Hek; [|reflexivity].
      rewrite (bytes_ltb_trans _ _ _ Hlt Hek) in Hmax. discriminate.
    + exists m. split; [right; exact Hin|].
      rewrite is_max_cons. rewrite Hlt. cbn [negb andb]. exact Hmax.
Qed.

Lemma find_job_In j r o : find_job j r = Some o -> In (j, o) r.
Proof.
  induction r as [|[k ok] r IH]; [discriminate|]. cbn [find_job fst snd].
  destruct (k =? j) eqn:E.
  - apply N.eqb_eq in E. subst. intros H. injection H as H. subst. left. reflexivity.
  - intros H. right. apply IH. exact H.
Qed.

Lemma find_job_None j r : find_job j r = None -> ~ In j (map fst r).
Proof.
  induction r as [|[k ok] r IH]; [intros _ H; exact H|]. cbn [find_job fst snd map].
  destruct (k =? j) eqn:E; [discriminate|]. intros H [H1|H1].
  - subst. rewrite N.eqb_refl in E. discriminate.
  - exact (IH H H1).
Qed.

Lemma find_job_perm j r o :
  find_job j r = Some o -> Permutation (map fst r) (j :: map fst (remove_job j r)).
Proof.
  induction r as [|[k ok] r IH]; [discriminate|]. cbn [find_job remove_job fst snd map].
  destruct (k =? j) eqn:E.
  - apply N.eqb_eq in E. subst. intros _. apply Permutation_refl.
  - intros H. cbn [map fst]. eapply Permutation_trans; [apply perm_skip; apply IH; exact H|]. apply perm_swap.
Qed.

Lemma remove_job_In j r o e :
  NoDup (map fst r) -> find_job j r = Some o ->
  (In e (remove_job j r) <-> In e r /\ fst e <> j).
Proof.
  induction r as [|[k ok] r IH]; [discriminate|]. cbn [find_job remove_job fst snd map].
  intros Hnd Hf. inversion Hnd as [|x xs Hnotin Hnd']; subst.
  destruct (k =? j) eqn:E.
  - apply N.eqb_eq in E. subst k. split.
    + intros Hin. split; [right; exact Hin|]. intros Heq. apply Hnotin. rewrite <- Heq. apply in_map. exact Hin.
    + intros [[Heq|Hin] Hne]; [subst e; exfalso; apply Hne; reflexivity|exact Hin].
  - apply N.eqb_neq in E. split.
    + intros [Heq|Hin].
      * subst e. split; [left; reflexivity|exact E].
      * apply (IH Hnd' Hf) in Hin. destruct Hin as [Hin Hne]. split; [right; exact Hin|exact Hne].
    + intros [[Heq|Hin] Hne]; [left; exact Heq|]. right. apply (IH Hnd' Hf). split; assumption.
Qed.

Lemma lane_busy_In s l : lane_busy s l = true <-> In l (map fst (st_running s)).
Proof.
  unfold lane_busy. rewrite existsb_exists. split.
  - intros [e [He Heq]]. apply N.eqb_eq in Heq. subst. apply in_map. exact He.
  - intros Hin. apply in_map_iff in Hin. destruct Hin as [e [Heq He]]. exists e. split; [exact He|]. apply N.eqb_eq. exact Heq.
Qed.

Lemma find_lane_Some l r j :
  find_lane l r = Some j ->
  Permutation (map snd r) (j :: map snd (remove_lane l r)) /\
  Permutation (map fst r) (l :: map fst (remove_lane l r)).
Proof.
  induction r as [|[k jk] r IH]; [discriminate|]. cbn [find_lane remove_lane fst snd map].
  destruct (k =? l) eqn:E.
  - apply N.eqb_eq in E. subst. intros H. injection H as H. subst. split; apply Permutation_refl.
  - intros H. destruct (IH H) as [P1 P2]. cbn [map fst snd]. split.
    + eapply Permutation_trans; [apply perm_skip; exact P1|]. apply perm_swap.
    + eapply Permutation_trans; [apply perm_skip; exact P2|]. apply perm_swap.
Qed.

Lemma find_lane_None l r : find_lane l r = None -> ~ In l (map fst r).
Proof.
  induction r as [|[k jk] r IH]; [intros _ H; exact H|]. cbn [find_lane fst snd map].
  destruct (k =? l) eqn:E; [discriminate|]. intros H [H1|H1].
  - subst. rewrite N.eqb_refl in E. discriminate.
  - exact (IH H H1).
Qed.

Lemma find_lane_busy s l : lane_busy s l = true -> exists j, find_lane l (st_running s) = Some j.
Proof.
  intros Hb. destruct (find_lane l (st_running s)) as [j|] eqn:E; [exists j; reflexivity|].
  apply find_lane_None in E. apply lane_busy_In in Hb. contradiction.
Qed.

(* ------------------------------------------------------------------ accepts *)
Lemma accepts_app s a : forall b,
  accepts s (a ++ b) = match accepts s a with Some s' => accepts s' b | None => None end.
Proof.
  revert s. induction a as [|x a IH]; intros s b; [reflexivity|].
  cbn [app accepts]. destruct (step s x) as [s'|]; [apply IH|reflexivity].
Qed.

Lemma accepts_snoc s ls a s' :
  accepts s (ls ++ [a]) = Some s' <-> exists s1, accepts s ls = Some s1 /\ step s1 a = Some s'.
Proof.
  rewrite accepts_app. destruct (accepts s ls) as [s1|].
  - cbn [accepts]. split.
    + intros H. exists s1. split; [reflexivity|]. destruct (step s1 a); [exact H|discriminate].
    + intros [s2 [H1 H2]]. injection H1 as H1. subst. rewrite H2. reflexivity.
  - split; [discriminate|]. intros [s2 [H1 _]]. discriminate.
Qed.

Lemma accepts_prefix s pre post s' :
  accepts s (pre ++ post) = Some s' -> exists s1, accepts s pre = Some s1 /\ accepts s1 post = Some s'.
Proof.
  rewrite accepts_app. destruct (accepts s pre) as [s1|]; [|discriminate].
  intros H. exists s1. split; [reflexivity|exact H].
Qed.

Lemma first_reject_accepts s ls : forall i,
  first_reject s ls i = None <-> exists s', accepts s ls = Some s'.
Proof.
  revert s. induction ls as [|a ls IH]; intros s i; cbn [first_reject accepts].
  - split; [intros _; exists s; reflexivity|reflexivity].
  - destruct (step s a) as [s1|]; [apply IH|]. split; [discriminate|]. intros [s' H]. discriminate.
Qed.

Definition reach (n : N) (alg : sched) (ls : list label) (s : state) : Prop :=
  accepts (init n alg) ls = Some s.

Lemma reach_nil n alg s : reach n alg [] s -> s = init n alg.
Proof. unfold reach. cbn [accepts]. intros H. injection H as H. symmetry. exact H. Qed.

Lemma reach_snoc n alg ls a s' :
  reach n alg (ls ++ [a]) s' <-> exists s, reach n alg ls s /\ step s a = Some s'.
Proof. unfold reach. apply accepts_snoc. Qed.

(* projections of a snoc *)
Lemma adds_app a b : adds (a ++ b) = adds a ++ adds b.
Proof. induction a as [|x a IH]; [reflexivity|]. destruct x; cbn [app adds]; rewrite IH; reflexivity. Qed.
Lemma takes_app a b : takes (a ++ b) = takes a ++ takes b.
Proof. induction a as [|x a IH]; [reflexivity|]. destruct x; cbn [app takes]; rewrite IH; reflexivity. Qed.
Lemma hi_adds_app a b : hi_adds (a ++ b) = hi_adds a ++ hi_adds b.
Proof. induction a as [|x a IH]; [reflexivity|]. destruct x as [j p o src| | | | | |]; try destruct p; cbn [app hi_adds]; rewrite IH; reflexivity. Qed.
Lemma normal_entries_app a b : normal_entries (a ++ b) = normal_entries a ++ normal_entries b.
Proof. induction a as [|x a IH]; [reflexivity|]. destruct x as [j p o src| | | | | |]; try destruct p; cbn [app normal_entries]; rewrite IH; reflexivity. Qed.
Lemma normal_adds_app a b : normal_adds (a ++ b) = normal_adds a ++ normal_adds b.
Proof. unfold normal_adds. rewrite normal_entries_app. apply map_app. Qed.

(* ------------------------------------------------------------------ the take choice *)
Lemma take_choice_cases s j hi' rd' :
  take_choice s j = Some (hi', rd') ->
  (st_hi s = j :: hi' /\ rd' = st_ready s) \/
  (st_hi s = [] /\ hi' = [] /\ exists o, find_job j (st_ready s) = Some o /\ rd' = remove_job j (st_ready s) /\
     (st_alg s = Fifo -> st_ready s = (j, o) :: rd') /\
     (st_alg s = NamePrio -> is_max o (st_ready s) = true)).
Proof.
  unfold take_choice. destruct (st_hi s) as [|h hs] eqn:Hhi.
  - destruct (st_alg s) eqn:Halg.
    + destruct (st_ready s) as [|[k ok] r] eqn:Hr; [discriminate|]. cbn [fst].
      destruct (k =? j) eqn:E; [|discriminate]. apply N.eqb_eq in E. subst k.
      intros H. injection H as H1 H2. subst. right. split; [reflexivity|]. split; [reflexivity|].
      exists ok. cbn [find_job remove_job fst snd]. rewrite N.eqb_refl.
      split; [reflexivity|]. split; [reflexivity|]. split; [intros _; reflexivity|discriminate].
    + destruct (find_job j (st_ready s)) as [o|] eqn:Hf; [|discriminate].
      destruct (is_max o (st_ready s)) eqn:Hm; [|discriminate].
      intros H. injection H as H1 H2. subst. right. split; [reflexivity|]. split; [reflexivity|].
      exists o. split; [reflexivity|]. split; [reflexivity|]. split; [discriminate|intros _; exact Hm].
  - destruct (h =? j) eqn:E; [|discriminate]. apply N.eqb_eq in E. subst h.
    intros H. injection H as H1 H2. subst. left. split; reflexivity.
Qed.

(* ------------------------------------------------------------------ invariant 1: lanes *)
Definition wf (n : N) (alg : sched) (s : state) : Prop :=
  st_lanes s = n /\ st_alg s = alg /\
  NoDup (map fst (st_running s)) /\
  (forall l, In l (map fst (st_running s)) -> l < n /\ ~ In l (st_exited s)) /\
  (st_shutdown s = false -> st_exited s = []) /\
  (0 < n -> queue_empty s = false -> exists l, lane_ok s l = true).

Lemma lane_ok_iff s l : lane_ok s l = true <-> l < st_lanes s /\ ~ In l (st_exited s).
Proof.
  unfold lane_ok. rewrite andb_true_iff, N.ltb_lt, negb_true_iff, mem_n_false. reflexivity.
Qed.

Lemma init_wf n alg : wf n alg (init n alg).
Proof.
  unfold wf, init. proj. cbn [map]. repeat split.
  - constructor.
  - destruct H.
  - destruct H.
  - intros _ H. unfold queue_empty in H. proj. discriminate.
Qed.

Lemma step_wf n alg s a s' : wf n alg s -> step s a = Some s' -> wf n alg s'.
Proof.
  intros [Wn [Wa [Wnd [Wl [Wx Wq]]]]] Hstep.
  destruct a as [j p o src|l j|l|l| | |l]; cbn [step] in Hstep.
  - (* Add *)
    destruct (mem_n j (st_added s)) eqn:Hm; [discriminate|].
    destruct (src_ok s src) eqn:Hsrc; [|discriminate].
    assert (Hok : exists l, l < st_lanes s /\ ~ In l (st_exited s) \/ n = 0).
    { destruct src as [|l]; cbn [src_ok] in Hsrc.
      - apply negb_true_iff in Hsrc. rewrite (Wx Hsrc).
        destruct (N.eq_dec n 0) as [Hz|Hz]; [exists 0; right; exact Hz|].
        exists 0. left. split; [lia|intros H; exact H].
      - exists l. left. apply lane_busy_In in Hsrc. destruct (Wl l Hsrc) as [H1 H2]. split; [lia|exact H2]. }
    destruct Hok as [l0 Hl0].
    assert (Hq : 0 < n -> exists l, l < st_lanes s /\ ~ In l (st_exited s)).
    { intros Hpos. exists l0. destruct Hl0 as [H|H]; [exact H|lia]. }
    destruct p; injection Hstep as Hstep; subst s'; unfold wf; proj;
      (split; [exact Wn|]); (split; [exact Wa|]); (split; [exact Wnd|]); (split; [exact Wl|]); (split; [exact Wx|]);
      intros Hpos _; destruct (Hq Hpos) as [l Hl]; exists l; apply lane_ok_iff; proj; exact Hl.
  - (* Take *)
    destruct (lane_ok s l && negb (lane_busy s l)) eqn:Hc; [|discriminate].
    apply andb_true_iff in Hc. destruct Hc as [Hok Hidle]. apply negb_true_iff in Hidle.
    destruct (take_choice s j) as [[hi' rd']|]; [|discriminate].
    injection Hstep as Hstep. subst s'. unfold wf. proj. cbn [map fst].
    pose proof Hok as Hok'. apply lane_ok_iff in Hok'. destruct Hok' as [Hlt Hnx].
    split; [exact Wn|]. split; [exact Wa|]. split.
    { constructor; [|exact Wnd]. intros Hin. apply lane_busy_In in Hin. rewrite Hin in Hidle. discriminate. }
    split.
    { intros l' [Heq|Hin]; [subst l'; split; [lia|exact Hnx]|apply Wl; exact Hin]. }
    split; [exact Wx|].
    intros _ _. exists l. apply lane_ok_iff. proj. split; assumption.
  - (* Finish *)
    destruct (find_lane l (st_running s)) as [j|] eqn:Hf; [|discriminate].
    injection Hstep as Hstep. subst s'. unfold wf. proj.
    destruct (find_lane_Some _ _ _ Hf) as [_ P2].
    split; [exact Wn|]. split; [exact Wa|]. split.
    { pose proof (Permutation_NoDup P2 Wnd) as H. inversion H; assumption. }
    split.
    { intros l' Hin. apply Wl. apply (Permutation_in _ (Permutation_sym P2)). right. exact Hin. }
    split; [exact Wx|].
    intros Hpos Hq. unfold queue_empty in Hq. proj.
    destruct (Wq Hpos Hq) as [l0 Hl0]. exists l0. apply lane_ok_iff. apply lane_ok_iff in Hl0. proj. exact Hl0.
  - (* Spawn *)
    destruct (lane_busy s l && negb (st_cancelled s)); [|discriminate].
    injection Hstep as Hstep. subst s'. unfold wf. repeat split; try assumption; apply Wl; assumption.
  - (* Cancel *)
    injection Hstep as Hstep. subst s'. unfold wf. proj.
    split; [exact Wn|]. split; [exact Wa|]. split; [exact Wnd|]. split; [exact Wl|]. split; [exact Wx|].
    intros Hpos Hq. unfold queue_empty in Hq. proj.
    destruct (Wq Hpos Hq) as [l0 Hl0]. exists l0. apply lane_ok_iff. apply lane_ok_iff in Hl0. proj. exact Hl0.
  - (* Shutdown *)
    destruct (st_shutdown s); [discriminate|].
    injection Hstep as Hstep. subst s'. unfold wf. proj.
    split; [exact Wn|]. split; [exact Wa|]. split; [exact Wnd|]. split; [exact Wl|]. split; [discriminate|].
    intros Hpos Hq. unfold queue_empty in Hq. proj.
    destruct (Wq Hpos Hq) as [l0 Hl0]. exists l0. apply lane_ok_iff. apply lane_ok_iff in Hl0. proj. exact Hl0.
  - (* Exit *)
    destruct (st_shutdown s && queue_empty s && lane_ok s l && negb (lane_busy s l)) eqn:Hc; [|discriminate].
    repeat rewrite andb_true_iff in Hc. destruct Hc as [[[Hsh Hqe] Hok] Hidle]. apply negb_true_iff in Hidle.
    injection Hstep as Hstep. subst s'. unfold wf. proj.
    split; [exact Wn|]. split; [exact Wa|]. split; [exact Wnd|]. split.
    { intros l' Hin. destruct (Wl l' Hin) as [H1 H2]. split; [exact H1|].
      intros [Heq|Hin']; [|exact (H2 Hin')]. subst l'. apply lane_busy_In in Hin. rewrite Hin in Hidle. discriminate. }
    split; [rewrite Hsh; discriminate|].
    intros _ Hq. unfold queue_empty in Hq, Hqe. proj. rewrite Hqe in Hq. discriminate.
Qed.

Lemma accepts_wf n alg ls : forall s s', wf n alg s -> accepts s ls = Some s' -> wf n alg s'.
Proof.
  induction ls as [|a ls IH]; intros s s' Hw Ha; cbn [accepts] in Ha.
  - injection Ha as Ha. subst. exact Hw.
  - destruct (step s a) as [s1|] eqn:Hs; [|discriminate]. eapply IH; [eapply step_wf; eassumption|exact Ha].
Qed.

Lemma reach_wf n alg ls s : reach n alg ls s -> wf n alg s.
Proof. intros H. eapply accepts_wf; [apply init_wf|exact H]. Qed.

(* pigeonhole: distinct lane numbers below n are at most n many *)
Lemma nodup_below_length (l : list N) (n : N) :
  NoDup l -> (forall x, In x l -> x < n) -> (length l <= N.to_nat n)%nat.
Proof.
  intros Hnd Hlt.
  assert (Hnd' : NoDup (map N.to_nat l)).
  { apply FinFun.Injective_map_NoDup; [|exact Hnd]. intros a b H. apply N2Nat.inj. exact H. }
  assert (Hincl : incl (map N.to_nat l) (seq 0 (N.to_nat n))).
  { intros x Hx. apply in_map_iff in Hx. destruct Hx as [y [Hy Hin]]. subst x. apply in_seq. specialize (Hlt y Hin). lia. }
  pose proof (NoDup_incl_length Hnd' Hincl) as H. rewrite map_length, seq_length in H. exact H.
Qed.

Theorem lanes_bound n alg ls s :
  reach n alg ls s ->
  (length (st_running s) <= N.to_nat n)%nat /\ NoDup (map fst (st_running s)) /\
  (forall l j, In (l, j) (st_running s) -> l < n).
Proof.
  intros Hr. destruct (reach_wf _ _ _ _ Hr) as [_ [_ [Wnd [Wl _]]]].
  split; [|split].
  - rewrite <- (map_length fst). apply nodup_below_length; [exact Wnd|]. intros x Hx. apply (Wl x Hx).
  - exact Wnd.
  - intros l j Hin. apply (Wl l). apply (in_map fst) in Hin. exact Hin.
Qed.

(* ... at every moment of every accepted sequence *)
Theorem lanes_bound_always n alg pre post s :
  reach n alg (pre ++ post) s ->
  exists s1, reach n alg pre s1 /\ (length (st_running s1) <= N.to_nat n)%nat /\ NoDup (map fst (st_running s1)).
Proof.
  intros Hr. destruct (accepts_prefix _ _ _ _ Hr) as [s1 [H1 _]].
  exists s1. split; [exact H1|]. destruct (lanes_bound _ _ _ _ H1) as [A [B _]]. split; assumption.
Qed.

(* ------------------------------------------------------------------ invariant 2: where every job is *)
Definition jinv (ls : list label) (s : state) : Prop :=
  st_added s = rev (adds ls) /\ NoDup (st_added s) /\
  Permutation (st_added s) (all_jobs s) /\
  Permutation (takes ls) (map snd (st_running s) ++ st_finished s).

Lemma perm_move (X : list N) j a b : Permutation a (j :: b) -> Permutation (a ++ X) (b ++ j :: X).
Proof.
  intros P. eapply Permutation_trans; [apply Permutation_app_tail; exact P|].
  cbn [app]. apply Permutation_middle.
Qed.

Lemma jinv_init n alg : jinv [] (init n alg).
Proof.
  unfold jinv, init, all_jobs. proj. cbn. repeat split; try constructor.
Qed.

Lemma jinv_step ls s a s' : jinv ls s -> step s a = Some s' -> jinv (ls ++ [a]) s'.
Proof.
  intros [Ja [Jnd [Jp Jt]]] Hstep. unfold jinv.
  rewrite adds_app, takes_app.
  destruct a as [j p o src|l j|l|l| | |l]; cbn [step] in Hstep; cbn [adds takes].
  - (* Add *)
    destruct (mem_n j (st_added s)) eqn:Hm; [discriminate|].
    destruct (src_ok s src); [|discriminate].
    apply mem_n_false in Hm. rewrite !app_nil_r.
    unfold all_jobs in *.
    destruct p; injection Hstep as Hstep; subst s'; proj.
    + split; [rewrite rev_unit, Ja; reflexivity|]. split; [constructor; assumption|]. split; [|exact Jt].
      rewrite <- app_assoc. cbn [app]. apply Permutation_cons_app. exact Jp.
    + split; [rewrite rev_unit, Ja; reflexivity|]. split; [constructor; assumption|]. split; [|exact Jt].
      rewrite map_app. cbn [map fst].
      replace (st_hi s ++ (map fst (st_ready s) ++ [j]) ++ map snd (st_running s) ++ st_finished s)
        with ((st_hi s ++ map fst (st_ready s)) ++ j :: map snd (st_running s) ++ st_finished s)
        by (repeat rewrite <- app_assoc; reflexivity).
      apply Permutation_cons_app. rewrite <- app_assoc. exact Jp.
  - (* Take *)
    destruct (lane_ok s l && negb (lane_busy s l)); [|discriminate].
    destruct (take_choice s j) as [[hi' rd']|] eqn:Htc; [|discriminate].
    injection Hstep as Hstep. subst s'. proj. rewrite !app_nil_r.
    split; [exact Ja|]. split; [exact Jnd|]. split.
    + eapply Permutation_trans; [exact Jp|]. unfold all_jobs. proj. cbn [map snd app].
      destruct (take_choice_cases _ _ _ _ Htc) as [[Hhi Hrd]|[Hhi [Hhi' [o [Hf [Hrd _]]]]]].
      * subst rd'. rewrite Hhi. cbn [app].
        replace (hi' ++ map fst (st_ready s) ++ j :: map snd (st_running s) ++ st_finished s)
          with ((hi' ++ map fst (st_ready s)) ++ j :: map snd (st_running s) ++ st_finished s)
          by (rewrite <- app_assoc; reflexivity).
        rewrite app_assoc. apply Permutation_middle.
      * subst hi' rd'. rewrite Hhi. cbn [app]. apply perm_move. apply (find_job_perm _ _ _ Hf).
    + cbn [map snd app]. eapply Permutation_trans; [apply Permutation_sym; apply Permutation_cons_append|].
      apply perm_skip. exact Jt.
  - (* Finish *)
    destruct (find_lane l (st_running s)) as [j|] eqn:Hf; [|discriminate].
    injection Hstep as Hstep. subst s'. proj. rewrite !app_nil_r.
    destruct (find_lane_Some _ _ _ Hf) as [P1 _].
    pose proof (perm_move (st_finished s) _ _ _ P1) as PM.
    split; [exact Ja|]. split; [exact Jnd|]. split.
    + eapply Permutation_trans; [exact Jp|]. unfold all_jobs. proj.
      apply Permutation_app_head. apply Permutation_app_head. exact PM.
    + eapply Permutation_trans; [exact Jt|]. exact PM.
  - (* Spawn *)
    destruct (lane_busy s l && negb (st_cancelled s)); [|discriminate].
    injection Hstep as Hstep. subst s'. rewrite !app_nil_r. repeat split; assumption.
  - injection Hstep as Hstep. subst s'. rewrite !app_nil_r. unfold all_jobs in *. proj. repeat split; assumption.
  - destruct (st_shutdown s); [discriminate|].
    injection Hstep as Hstep. subst s'. rewrite !app_nil_r. unfold all_jobs in *. proj. repeat split; assumption.
  - destruct (st_shutdown s && queue_empty s && lane_ok s l && negb (lane_busy s l)); [|discriminate].
    injection Hstep as Hstep. subst s'. rewrite !app_nil_r. unfold all_jobs in *. proj. repeat split; assumption.
Qed.

Lemma reach_jinv n alg ls : forall s, reach n alg ls s -> jinv ls s.
Proof.
  induction ls as [|a ls IH] using rev_ind; intros s Hr.
  - apply reach_nil in Hr. subst. apply jinv_init.
  - apply reach_snoc in Hr. destruct Hr as [s1 [Hr Hs]]. eapply jinv_step; [apply IH; exact Hr|exact Hs].
Qed.

(* consequences used below *)
Lemma jinv_nodup_all ls s : jinv ls s -> NoDup (all_jobs s).
Proof. intros [_ [Jnd [Jp _]]]. exact (Permutation_NoDup Jp Jnd). Qed.

Lemma nodup_app_disjoint (a b : list N) x : NoDup (a ++ b) -> In x a -> In x b -> False.
Proof.
  induction a as [|y a IH]; intros Hnd Ha Hb; [destruct Ha|].
  cbn [app] in Hnd. inversion Hnd as [|z zs Hnotin Hnd']; subst.
  destruct Ha as [Heq|Ha].
  - subst y. apply Hnotin. apply in_or_app. right. exact Hb.
  - exact (IH Hnd' Ha Hb).
Qed.

Lemma nodup_app_l (a b : list N) : NoDup (a ++ b) -> NoDup a.
Proof.
  induction a as [|y a IH]; intros Hnd; [constructor|].
  cbn [app] in Hnd. inversion Hnd as [|z zs Hnotin Hnd']; subst.
  constructor; [|exact (IH Hnd')]. intros H. apply Hnotin. apply in_or_app. left. exact H.
Qed.

Lemma nodup_app_r (a b : list N) : NoDup (a ++ b) -> NoDup b.
Proof.
  induction a as [|y a IH]; intros Hnd; [exact Hnd|].
  cbn [app] in Hnd. inversion Hnd; subst. apply IH. assumption.
Qed.

(* a taken job is neither in the high-priority list nor in the ready list *)
Lemma jinv_taken_not_queued ls s x :
  jinv ls s -> In x (takes ls) -> ~ In x (st_hi s) /\ ~ In x (map fst (st_ready s)).
Proof.
  intros J Hx. pose proof (jinv_nodup_all _ _ J) as Hnd. destruct J as [_ [_ [_ Jt]]].
  apply (Permutation_in _ Jt) in Hx. unfold all_jobs in Hnd. split; intros Hq.
  - apply (nodup_app_disjoint _ _ x Hnd Hq). apply in_or_app. right. exact Hx.
  - apply nodup_app_r in Hnd. apply (nodup_app_disjoint _ _ x Hnd Hq). exact Hx.
Qed.

Lemma jinv_taken_added ls s x : jinv ls s -> In x (takes ls) -> In x (st_added s).
Proof.
  intros [_ [_ [Jp Jt]]] Hx. apply (Permutation_in _ Jt) in Hx.
  apply (Permutation_in _ (Permutation_sym Jp)). unfold all_jobs.
  apply in_or_app. right. apply in_or_app. right. exact Hx.
Qed.

Lemma jinv_hi_ready_disjoint ls s x : jinv ls s -> In x (st_hi s) -> In x (map fst (st_ready s)) -> False.
Proof.
  intros J H1 H2. pose proof (jinv_nodup_all _ _ J) as Hnd. unfold all_jobs in Hnd.
  apply (nodup_app_disjoint _ _ x Hnd H1). apply in_or_app. left. exact H2.
Qed.

Lemma jinv_ready_nodup ls s : jinv ls s -> NoDup (map fst (st_ready s)).
Proof.
  intros J. pose proof (jinv_nodup_all _ _ J) as Hnd. unfold all_jobs in Hnd.
  apply nodup_app_r in Hnd. apply nodup_app_l in Hnd. exact Hnd.
Qed.

(* ------------------------------------------------------------------ exactly once *)
Theorem takes_nodup n alg ls s : reach n alg ls s -> NoDup (takes ls).
Proof.
  intros Hr. pose proof (reach_jinv _ _ _ _ Hr) as J. pose proof (jinv_nodup_all _ _ J) as Hnd.
  destruct J as [_ [_ [_ Jt]]]. apply (Permutation_NoDup (Permutation_sym Jt)).
  unfold all_jobs in Hnd. apply nodup_app_r in Hnd. apply nodup_app_r in Hnd. exact Hnd.
Qed.

Theorem adds_nodup n alg ls s : reach n alg ls s -> NoDup (adds ls).
Proof.
  intros Hr. destruct (reach_jinv _ _ _ _ Hr) as [Ja [Jnd _]].
  rewrite Ja in Jnd. apply NoDup_rev in Jnd. rewrite rev_involutive in Jnd. exact Jnd.
Qed.

Lemma step_take_queued s l j s' : step s (Take l j) = Some s' -> In j (st_hi s) \/ In j (map fst (st_ready s)).
Proof.
  cbn [step]. destruct (lane_ok s l && negb (lane_busy s l)); [|discriminate].
  destruct (take_choice s j) as [[hi' rd']|] eqn:Htc; [|discriminate]. intros _.
  destruct (take_choice_cases _ _ _ _ Htc) as [[Hhi _]|[_ [_ [o [Hf _]]]]].
  - left. rewrite Hhi. left. reflexivity.
  - right. apply find_job_In in Hf. apply (in_map fst) in Hf. exact Hf.
Qed.

(* a job is taken only after it was added, and never a second time *)
Theorem take_after_add n alg pre l j post s :
  reach n alg (pre ++ Take l j :: post) s -> In j (adds pre) /\ ~ In j (takes pre).
Proof.
  intros Hr. destruct (accepts_prefix _ _ _ _ Hr) as [s1 [H1 H2]].
  cbn [accepts] in H2. destruct (step s1 (Take l j)) as [s2|] eqn:Hs; [|discriminate].
  pose proof (reach_jinv _ _ _ _ H1) as J. pose proof (step_take_queued _ _ _ _ Hs) as Hq.
  split.
  - destruct J as [Ja [_ [Jp _]]].
    assert (Hin : In j (st_added s1)).
    { apply (Permutation_in _ (Permutation_sym Jp)). unfold all_jobs.
      destruct Hq as [Hq|Hq]; [apply in_or_app; left; exact Hq|apply in_or_app; right; apply in_or_app; left; exact Hq]. }
    rewrite Ja in Hin. apply in_rev in Hin. exact Hin.
  - intros Ht. destruct (jinv_taken_not_queued _ _ _ J Ht) as [N1 N2]. destruct Hq; contradiction.
Qed.

(* in a terminal state every added job has finished, exactly once *)
Theorem exactly_once n alg ls s :
  reach n alg ls s -> terminal s = true ->
  Permutation (st_finished s) (adds ls) /\ NoDup (st_finished s) /\ Permutation (takes ls) (adds ls).
Proof.
  intros Hr Ht. destruct (reach_jinv _ _ _ _ Hr) as [Ja [Jnd [Jp Jt]]].
  unfold terminal in Ht. repeat rewrite andb_true_iff in Ht. destruct Ht as [[_ Hq] Hrun].
  unfold queue_empty in Hq. unfold all_jobs in Jp.
  destruct (st_hi s); [|discriminate]. destruct (st_ready s); [|discriminate]. destruct (st_running s); [|discriminate].
  cbn [map app] in Jp, Jt.
  assert (P : Permutation (st_finished s) (adds ls)).
  { eapply Permutation_trans; [apply Permutation_sym; exact Jp|]. rewrite Ja. apply Permutation_sym. apply Permutation_rev. }
  split; [exact P|]. split.
  - apply (Permutation_NoDup Jp). exact Jnd.
  - eapply Permutation_trans; [exact Jt|exact P].
Qed.

(* the jobs that finished so far were all added, whatever the state *)
Theorem finished_subset n alg ls s : reach n alg ls s -> NoDup (st_finished s) /\ incl (st_finished s) (adds ls).
Proof.
  intros Hr. pose proof (reach_jinv _ _ _ _ Hr) as J. pose proof (jinv_nodup_all _ _ J) as Hnd.
  destruct J as [Ja [_ [Jp _]]]. unfold all_jobs in *. split.
  - apply nodup_app_r in Hnd. apply nodup_app_r in Hnd. apply nodup_app_r in Hnd. exact Hnd.
  - intros x Hx. apply in_rev. rewrite <- Ja. apply (Permutation_in _ (Permutation_sym Jp)).
    apply in_or_app. right. apply in_or_app. right. apply in_or_app. right. exact Hx.
Qed.

(* ------------------------------------------------------------------ invariant 3: order *)
Definition oinv (ls : list label) (s : state) : Prop :=
  hi_adds ls = filter (fun j => mem_n j (hi_adds ls)) (takes ls) ++ st_hi s /\
  (forall e, In e (st_ready s) <-> In e (normal_entries ls) /\ ~ In (fst e) (takes ls)) /\
  (st_alg s = Fifo ->
   normal_adds ls = filter (fun j => mem_n j (normal_adds ls)) (takes ls) ++ map fst (st_ready s)).

Lemma filter_mem_ext (T H : list N) j :
  ~ In j T -> filter (fun x => mem_n x (H ++ [j])) T = filter (fun x => mem_n x H) T.
Proof.
  intros Hn. apply filter_ext_in. intros x Hx. rewrite mem_n_app.
  assert (E : mem_n x [j] = false).
  { apply mem_n_false. intros [Heq|[]]. subst. contradiction. }
  rewrite E. apply orb_false_r.
Qed.

Lemma filter_snoc (f : N -> bool) T j : filter f (T ++ [j]) = filter f T ++ (if f j then [j] else []).
Proof. rewrite filter_app. cbn [filter]. reflexivity. Qed.

Lemma in_filter_in (f : N -> bool) T x : In x (filter f T) -> In x T.
Proof. intros H. apply filter_In in H. destruct H as [H _]. exact H. Qed.

Lemma step_alg s a s' : step s a = Some s' -> st_alg s' = st_alg s /\ st_lanes s' = st_lanes s.
Proof.
  destruct a as [j p o src|l j|l|l| | |l]; cbn [step]; intros H.
  - destruct (mem_n j (st_added s)); [discriminate|]. destruct (src_ok s src); [|discriminate].
    destruct p; injection H as H; subst s'; split; reflexivity.
  - destruct (lane_ok s l && negb (lane_busy s l)); [|discriminate].
    destruct (take_choice s j) as [[hi' rd']|]; [|discriminate]. injection H as H; subst s'; split; reflexivity.
  - destruct (find_lane l (st_running s)); [|discriminate]. injection H as H; subst s'; split; reflexivity.
  - destruct (lane_busy s l && negb (st_cancelled s)); [|discriminate]. injection H as H; subst s'; split; reflexivity.
  - injection H as H; subst s'; split; reflexivity.
  - destruct (st_shutdown s); [discriminate|]. injection H as H; subst s'; split; reflexivity.
  - destruct (st_shutdown s && queue_empty s && lane_ok s l && negb (lane_busy s l)); [|discriminate].
    injection H as H; subst s'; split; reflexivity.
Qed.

Lemma oinv_init n alg : oinv [] (init n alg).
Proof.
  unfold oinv, init. proj. cbn. split; [reflexivity|]. split; [|reflexivity].
  intros e. split; [intros []|intros [[] _]].
Qed.

Lemma oinv_step ls s a s' : jinv ls s -> oinv ls s -> step s a = Some s' -> oinv (ls ++ [a]) s'.
Proof.
  intros J [O1 [O2 O3]] Hstep. unfold oinv.
  destruct (step_alg _ _ _ Hstep) as [Halg _]. rewrite Halg.
  rewrite hi_adds_app, takes_app, normal_entries_app, normal_adds_app.
  destruct a as [j p o src|l j|l|l| | |l]; cbn [step] in Hstep; unfold normal_adds; cbn [hi_adds takes normal_entries map].
  - (* Add *)
    destruct (mem_n j (st_added s)) eqn:Hm; [discriminate|].
    destruct (src_ok s src); [|discriminate].
    apply mem_n_false in Hm.
    assert (HjT : ~ In j (takes ls)) by (intros H; apply Hm; exact (jinv_taken_added _ _ _ J H)).
    destruct p; injection Hstep as Hstep; subst s'; proj; rewrite !app_nil_r.
    + cbn [hi_adds]. split; [|split; [exact O2|exact O3]].
      rewrite filter_mem_ext by exact HjT. rewrite app_assoc. f_equal. exact O1.
    + cbn [normal_entries map fst]. split; [exact O1|]. split.
      * intros e. rewrite !in_app_iff. split.
        -- intros [Hin|[Heq|[]]].
           ++ apply O2 in Hin. destruct Hin as [A B]. split; [left; exact A|exact B].
           ++ subst e. split; [right; left; reflexivity|exact HjT].
        -- intros [[Hin|[Heq|[]]] Hnt].
           ++ left. apply O2. split; assumption.
           ++ right. left. exact Heq.
      * intros Hf. fold (normal_adds ls). rewrite filter_mem_ext by exact HjT.
        rewrite map_app. cbn [map fst]. rewrite app_assoc. f_equal. exact (O3 Hf).
  - (* Take *)
    destruct (lane_ok s l && negb (lane_busy s l)); [|discriminate].
    destruct (take_choice s j) as [[hi' rd']|] eqn:Htc; [|discriminate].
    injection Hstep as Hstep. subst s'. proj. rewrite !app_nil_r. fold (normal_adds ls).
    rewrite !filter_snoc.
    destruct (take_choice_cases _ _ _ _ Htc) as [[Hhi Hrd]|[Hhi [Hhi' [o [Hf [Hrd [Hfifo Hprio]]]]]]].
    + (* from the high-priority list *)
      subst rd'.
      assert (HjH : In j (hi_adds ls)).
      { rewrite O1. apply in_or_app. right. rewrite Hhi. left. reflexivity. }
      assert (Hjhi : In j (st_hi s)) by (rewrite Hhi; left; reflexivity).
      apply mem_n_In in HjH. rewrite HjH.
      split; [|split].
      * rewrite <- app_assoc. cbn [app]. etransitivity; [exact O1|]. rewrite Hhi. reflexivity.
      * intros e. split.
        -- intros Hin. pose proof Hin as Hin'. apply O2 in Hin'. destruct Hin' as [A B]. split; [exact A|].
           rewrite in_app_iff. intros [H|[H|[]]]; [exact (B H)|].
           apply (jinv_hi_ready_disjoint _ _ j J Hjhi). rewrite H. apply in_map. exact Hin.
        -- intros [A B]. apply O2. split; [exact A|]. intros H. apply B. apply in_or_app. left. exact H.
      * intros Hf. specialize (O3 Hf).
        assert (HjN : mem_n j (normal_adds ls) = false).
        { apply mem_n_false. intros H. rewrite O3 in H. apply in_app_or in H. destruct H as [H|H].
          - apply in_filter_in in H. destruct (jinv_taken_not_queued _ _ _ J H) as [N1 _]. exact (N1 Hjhi).
          - exact (jinv_hi_ready_disjoint _ _ j J Hjhi H). }
        rewrite HjN. rewrite app_nil_r. exact O3.
    + (* from the ready queue *)
      subst hi' rd'.
      assert (Hjr : In j (map fst (st_ready s))) by (apply find_job_In in Hf; apply (in_map fst) in Hf; exact Hf).
      assert (HjH : mem_n j (hi_adds ls) = false).
      { apply mem_n_false. intros H. rewrite O1, Hhi, app_nil_r in H. apply in_filter_in in H.
        destruct (jinv_taken_not_queued _ _ _ J H) as [_ N2]. exact (N2 Hjr). }
      rewrite HjH. split; [|split].
      * rewrite !app_nil_r. rewrite O1 at 1. rewrite Hhi, app_nil_r. reflexivity.
      * intros e. rewrite (remove_job_In _ _ _ e (jinv_ready_nodup _ _ J) Hf). rewrite O2. rewrite in_app_iff. split.
        -- intros [[A B] C]. split; [exact A|]. intros [H|[H|[]]]; [exact (B H)|]. apply C. symmetry. exact H.
        -- intros [A B]. split; [split; [exact A|]|].
           ++ intros H. apply B. left. exact H.
           ++ intros H. apply B. right. left. symmetry. exact H.
      * intros Hfi. specialize (O3 Hfi). specialize (Hfifo Hfi).
        assert (HjN : mem_n j (normal_adds ls) = true).
        { apply mem_n_In. rewrite O3. apply in_or_app. right. exact Hjr. }
        rewrite HjN. rewrite <- app_assoc. cbn [app]. etransitivity; [exact O3|]. f_equal.
        set (r := remove_job j (st_ready s)) in *. rewrite Hfifo. reflexivity.
  - (* Finish *)
    destruct (find_lane l (st_running s)) as [j|]; [|discriminate].
    injection Hstep as Hstep. subst s'. proj. rewrite !app_nil_r. split; [exact O1|]. split; [exact O2|exact O3].
  - destruct (lane_busy s l && negb (st_cancelled s)); [|discriminate].
    injection Hstep as Hstep. subst s'. rewrite !app_nil_r. split; [exact O1|]. split; [exact O2|exact O3].
  - injection Hstep as Hstep. subst s'. proj. rewrite !app_nil_r. split; [exact O1|]. split; [exact O2|exact O3].
  - destruct (st_shutdown s); [discriminate|].
    injection Hstep as Hstep. subst s'. proj. rewrite !app_nil_r. split; [exact O1|]. split; [exact O2|exact O3].
  - destruct (st_shutdown s && queue_empty s && lane_ok s l && negb (lane_busy s l)); [|discriminate].
    injection Hstep as Hstep. subst s'. proj. rewrite !app_nil_r. split; [exact O1|]. split; [exact O2|exact O3].
Qed.

Lemma reach_oinv n alg ls : forall s, reach n alg ls s -> oinv ls s.
Proof.
  induction ls as [|a ls IH] using rev_ind; intros s Hr.
  - apply reach_nil in Hr. subst. apply oinv_init.
  - apply reach_snoc in Hr. destruct Hr as [s1 [Hr Hs]].
    eapply oinv_step; [eapply reach_jinv; exact Hr|apply IH; exact Hr|exact Hs].
Qed.

(* ------------------------------------------------------------------ scheduling order *)
(* The high-priority list is FIFO under both schedulers: the high-priority jobs taken so far followed by the ones
   still waiting are the high-priority jobs in the order they were added. *)
Theorem hi_order n alg ls s :
  reach n alg ls s ->
  hi_adds ls = filter (fun j => mem_n j (hi_adds ls)) (takes ls) ++ st_hi s.
Proof. intros Hr. destruct (reach_oinv _ _ _ _ Hr) as [O1 _]. exact O1. Qed.

Theorem fifo_order n ls s :
  reach n Fifo ls s ->
  normal_adds ls = filter (fun j => mem_n j (normal_adds ls)) (takes ls) ++ map fst (st_ready s).
Proof.
  intros Hr. destruct (reach_oinv _ _ _ _ Hr) as [_ [_ O3]]. apply O3.
  destruct (reach_wf _ _ _ _ Hr) as [_ [Wa _]]. exact Wa.
Qed.

(* what is in the ready queue: the normal-priority jobs added and not yet taken, with their names *)
Theorem ready_spec n alg ls s e :
  reach n alg ls s ->
  (In e (st_ready s) <-> In e (normal_entries ls) /\ ~ In (fst e) (takes ls)).
Proof. intros Hr. destruct (reach_oinv _ _ _ _ Hr) as [_ [O2 _]]. apply O2. Qed.

Lemma nodup_split_unique (b : N) : forall (p1 q1 p2 q2 : list N),
  NoDup (p1 ++ b :: q1) -> p1 ++ b :: q1 = p2 ++ b :: q2 -> p1 = p2.
Proof.
  induction p1 as [|x p1 IH]; intros q1 p2 q2 Hnd Heq.
  - destruct p2 as [|y p2]; [reflexivity|]. cbn [app] in *. injection Heq as H1 H2. subst y.
    inversion Hnd as [|z zs Hnotin _]; subst z zs. exfalso. apply Hnotin. rewrite H2. apply in_or_app. right. left. reflexivity.
  - destruct p2 as [|y p2]; cbn [app] in *.
    + injection Heq as H1 H2. subst x. inversion Hnd as [|z zs Hnotin _]; subst z zs. exfalso. apply Hnotin.
      apply in_or_app. right. left. reflexivity.
    + injection Heq as H1 H2. subst y. inversion Hnd as [|z zs _ Hnd']; subst z zs. f_equal. eapply IH; eassumption.
Qed.


Lemma normal_adds_incl ls : incl (normal_adds ls) (adds ls).
Proof.
  unfold normal_adds. induction ls as [|a ls IH]; [intros x []|].
  destruct a as [j p o src| | | | | |]; try destruct p; cbn [normal_entries adds map fst]; try exact IH.
  - intros x Hx. right. apply IH. exact Hx.
  - intros x [Hx|Hx]; [left; exact Hx|right; apply IH; exact Hx].
Qed.

Lemma normal_adds_nodup ls : NoDup (adds ls) -> NoDup (normal_adds ls).
Proof.
  pose proof normal_adds_incl as Hincl. unfold normal_adds in *.
  induction ls as [|a ls IH]; [intros _; constructor|].
  destruct a as [j p o src| | | | | |]; try destruct p; cbn [normal_entries adds map fst]; try exact IH.
  - intros H. inversion H; subst. apply IH. assumption.
  - intros H. inversion H as [|z zs Hnotin Hnd']; subst z zs. constructor; [|apply IH; exact Hnd'].
    intros Hin. apply Hnotin. apply (Hincl ls). exact Hin.
Qed.

(* FIFO, pairwise: when a normal-priority job b is taken, every normal-priority job added before b has been taken *)
Theorem fifo_pairwise n pre l b post s x a y z :
  reach n Fifo (pre ++ Take l b :: post) s ->
  normal_adds pre = x ++ a :: y ++ b :: z ->
  In a (takes pre).
Proof.
  intros Hr Hsplit. destruct (accepts_prefix _ _ _ _ Hr) as [s1 [H1 H2]].
  cbn [accepts] in H2. destruct (step s1 (Take l b)) as [s2|] eqn:Hs; [|discriminate].
  pose proof (reach_jinv _ _ _ _ H1) as J. pose proof (fifo_order _ _ _ H1) as F.
  destruct (reach_wf _ _ _ _ H1) as [_ [Wa _]].
  destruct (take_after_add _ _ _ _ _ _ _ Hr) as [_ Hnt].
  assert (Hb : In b (normal_adds pre)).
  { rewrite Hsplit. apply in_or_app. right. right. apply in_or_app. right. left. reflexivity. }
  cbn [step] in Hs. destruct (lane_ok s1 l && negb (lane_busy s1 l)); [|discriminate].
  destruct (take_choice s1 b) as [[hi' rd']|] eqn:Htc; [|discriminate].
  assert (Hbr : In b (map fst (st_ready s1))).
  { rewrite F in Hb. apply in_app_or in Hb. destruct Hb as [Hb|Hb]; [|exact Hb].
    apply in_filter_in in Hb. contradiction. }
  destruct (take_choice_cases _ _ _ _ Htc) as [[Hhi _]|[_ [_ [o [_ [_ [Hfifo _]]]]]]].
  - exfalso. apply (jinv_hi_ready_disjoint _ _ b J); [rewrite Hhi; left; reflexivity|exact Hbr].
  - specialize (Hfifo Wa).
    assert (F' : normal_adds pre = filter (fun j => mem_n j (normal_adds pre)) (takes pre) ++ b :: map fst rd').
    { etransitivity; [exact F|]. f_equal. rewrite Hfifo. reflexivity. }
    assert (Hnd : NoDup (normal_adds pre)) by (apply normal_adds_nodup; exact (adds_nodup _ _ _ _ H1)).
    assert (Hsplit' : normal_adds pre = (x ++ a :: y) ++ b :: z).
    { rewrite Hsplit. rewrite <- app_assoc. reflexivity. }
    assert (E : filter (fun j => mem_n j (normal_adds pre)) (takes pre) = x ++ a :: y).
    { apply (nodup_split_unique b _ (map fst rd') _ z).
      - pose proof Hnd as Hnd2. rewrite F' in Hnd2. exact Hnd2.
      - etransitivity; [symmetry; exact F'|exact Hsplit']. }
    apply (in_filter_in (fun j => mem_n j (normal_adds pre))). rewrite E. apply in_or_app. right. left. reflexivity.
Qed.

(* a normal-priority job is only taken when no high-priority job is waiting *)
Theorem high_first n alg pre l j post s :
  reach n alg (pre ++ Take l j :: post) s -> In j (normal_adds pre) ->
  forall h, In h (hi_adds pre) -> In h (takes pre).
Proof.
  intros Hr Hj h Hh. destruct (accepts_prefix _ _ _ _ Hr) as [s1 [H1 H2]].
  cbn [accepts] in H2. destruct (step s1 (Take l j)) as [s2|] eqn:Hs; [|discriminate].
  pose proof (reach_jinv _ _ _ _ H1) as J. destruct (reach_oinv _ _ _ _ H1) as [O1 [O2 _]].
  destruct (take_after_add _ _ _ _ _ _ _ Hr) as [_ Hnt].
  unfold normal_adds in Hj. apply in_map_iff in Hj. destruct Hj as [[j' o] [Hfst He]]. cbn [fst] in Hfst. subst j'.
  assert (Hjr : In j (map fst (st_ready s1))).
  { apply (in_map fst (st_ready s1) (j, o)). apply O2. split; [exact He|exact Hnt]. }
  cbn [step] in Hs. destruct (lane_ok s1 l && negb (lane_busy s1 l)); [|discriminate].
  destruct (take_choice s1 j) as [[hi' rd']|] eqn:Htc; [|discriminate].
  destruct (take_choice_cases _ _ _ _ Htc) as [[Hhi _]|[Hhi _]].
  - exfalso. apply (jinv_hi_ready_disjoint _ _ j J); [rewrite Hhi; left; reflexivity|exact Hjr].
  - rewrite O1, Hhi, app_nil_r in Hh. apply in_filter_in in Hh. exact Hh.
Qed.

(* name-priority scheduler: once no high-priority job is waiting, the job taken has a greatest ordinal name among
   the normal-priority jobs added and not yet taken *)
Theorem priority_order n pre l j post s :
  reach n NamePrio (pre ++ Take l j :: post) s ->
  (forall h, In h (hi_adds pre) -> In h (takes pre)) ->
  exists o, In (j, o) (normal_entries pre) /\
            forall k ok, In (k, ok) (normal_entries pre) -> ~ In k (takes pre) -> bytes_ltb o ok = false.
Proof.
  intros Hr Hall. destruct (accepts_prefix _ _ _ _ Hr) as [s1 [H1 H2]].
  cbn [accepts] in H2. destruct (step s1 (Take l j)) as [s2|] eqn:Hs; [|discriminate].
  pose proof (reach_jinv _ _ _ _ H1) as J. destruct (reach_oinv _ _ _ _ H1) as [O1 [O2 _]].
  destruct (reach_wf _ _ _ _ H1) as [_ [Wa _]].
  cbn [step] in Hs. destruct (lane_ok s1 l && negb (lane_busy s1 l)); [|discriminate].
  destruct (take_choice s1 j) as [[hi' rd']|] eqn:Htc; [|discriminate].
  destruct (take_choice_cases _ _ _ _ Htc) as [[Hhi _]|[_ [_ [o [Hf [_ [_ Hprio]]]]]]].
  - exfalso.
    assert (HjH : In j (hi_adds pre)) by (rewrite O1; apply in_or_app; right; rewrite Hhi; left; reflexivity).
    destruct (jinv_taken_not_queued _ _ _ J (Hall j HjH)) as [N1 _]. apply N1. rewrite Hhi. left. reflexivity.
  - exists o. split.
    + apply find_job_In in Hf. apply O2 in Hf. destruct Hf as [A _]. exact A.
    + intros k ok Hk Hnt. specialize (Hprio Wa). rewrite is_max_spec in Hprio.
      apply (Hprio (k, ok)). apply O2. split; [exact Hk|exact Hnt].
Qed.

(* ------------------------------------------------------------------ progress *)
Lemma find_job_nodup j o r : NoDup (map fst r) -> In (j, o) r -> find_job j r = Some o.
Proof.
  induction r as [|[k ok] r IH]; [intros _ []|]. cbn [map fst find_job snd].
  intros Hnd Hin. inversion Hnd as [|z zs Hnotin Hnd']; subst z zs.
  destruct Hin as [Heq|Hin].
  - injection Heq as H1 H2. subst. rewrite N.eqb_refl. reflexivity.
  - destruct (k =? j) eqn:E.
    + apply N.eqb_eq in E. subst k. exfalso. apply Hnotin. apply (in_map fst) in Hin. exact Hin.
    + apply IH; assumption.
Qed.

(* an idle live lane can always take when something is queued: no job is stuck behind the scheduler *)
Theorem no_take_lost n alg ls s l :
  reach n alg ls s -> lane_ok s l = true -> lane_busy s l = false -> queue_empty s = false ->
  exists j s', step s (Take l j) = Some s'.
Proof.
  intros Hr Hok Hidle Hq. pose proof (reach_jinv _ _ _ _ Hr) as J.
  assert (Htc : exists j c, take_choice s j = Some c).
  { unfold take_choice. unfold queue_empty in Hq. destruct (st_hi s) as [|h hs].
    - destruct (st_ready s) as [|e r] eqn:Hr'; [discriminate|].
      destruct (st_alg s).
      + exists (fst e). rewrite N.eqb_refl. eexists. reflexivity.
      + destruct (exists_max (e :: r)) as [m [Hin Hmax]]; [discriminate|].
        exists (fst m). destruct m as [mj mo]. cbn [fst snd] in *.
        assert (Hf : find_job mj (e :: r) = Some mo).
        { apply find_job_nodup; [|exact Hin]. rewrite <- Hr'. exact (jinv_ready_nodup _ _ J). }
        rewrite Hf, Hmax. eexists. reflexivity.
    - exists h. rewrite N.eqb_refl. eexists. reflexivity. }
  destruct Htc as [j [[hi' rd'] Htc]]. exists j. cbn [step]. rewrite Hok, Hidle, Htc. cbn [negb andb]. eexists. reflexivity.
Qed.

(* while anything is queued some lane is alive; it can finish its job or take one *)
Theorem no_stuck n alg ls s :
  reach n alg ls s -> 0 < n -> queue_empty s = false ->
  exists l, lane_ok s l = true /\
            ((lane_busy s l = true /\ exists s', step s (Finish l) = Some s') \/
             (lane_busy s l = false /\ exists j s', step s (Take l j) = Some s')).
Proof.
  intros Hr Hpos Hq. destruct (reach_wf _ _ _ _ Hr) as [_ [_ [_ [_ [_ Wq]]]]].
  destruct (Wq Hpos Hq) as [l Hl]. exists l. split; [exact Hl|].
  destruct (lane_busy s l) eqn:Hb.
  - left. split; [reflexivity|]. destruct (find_lane_busy _ _ Hb) as [j Hf]. cbn [step]. rewrite Hf. eexists. reflexivity.
  - right. split; [reflexivity|]. eapply no_take_lost; eassumption.
Qed.

(* ------------------------------------------------------------------ no process is started after cancellation *)
Lemma cancelled_no_spawn post : forall s s',
  st_cancelled s = true -> accepts s post = Some s' -> forallb (fun a => negb (is_spawn a)) post = true.
Proof.
  induction post as [|a post IH]; intros s s' Hc Ha; [reflexivity|].
  cbn [accepts] in Ha. destruct (step s a) as [s1|] eqn:Hs; [|discriminate].
  cbn [forallb]. apply andb_true_iff.
  assert (Hc1 : st_cancelled s1 = true /\ is_spawn a = false).
  { destruct a as [j p o src|l j|l|l| | |l]; cbn [step] in Hs; cbn [is_spawn].
    - destruct (mem_n j (st_added s)); [discriminate|]. destruct (src_ok s src); [|discriminate].
      destruct p; injection Hs as Hs; subst s1; split; [exact Hc|reflexivity|exact Hc|reflexivity].
    - destruct (lane_ok s l && negb (lane_busy s l)); [|discriminate].
      destruct (take_choice s j) as [[hi' rd']|]; [|discriminate]. injection Hs as Hs; subst s1; split; [exact Hc|reflexivity].
    - destruct (find_lane l (st_running s)); [|discriminate]. injection Hs as Hs; subst s1; split; [exact Hc|reflexivity].
    - rewrite Hc in Hs. rewrite andb_false_r in Hs. discriminate.
    - injection Hs as Hs; subst s1; split; reflexivity.
    - destruct (st_shutdown s); [discriminate|]. injection Hs as Hs; subst s1; split; [exact Hc|reflexivity].
    - destruct (st_shutdown s && queue_empty s && lane_ok s l && negb (lane_busy s l)); [|discriminate].
      injection Hs as Hs; subst s1; split; [exact Hc|reflexivity]. }
  destruct Hc1 as [Hc1 Hns]. split; [rewrite Hns; reflexivity|]. eapply IH; eassumption.
Qed.

Theorem no_spawn_after_cancel n alg pre post s :
  reach n alg (pre ++ Cancel :: post) s -> forallb (fun a => negb (is_spawn a)) post = true.
Proof.
  intros Hr. destruct (accepts_prefix _ _ _ _ Hr) as [s1 [_ H2]].
  cbn [accepts step] in H2. eapply cancelled_no_spawn; [|exact H2]. reflexivity.
Qed.

(* ------------------------------------------------------------------ every reachable state can be drained *)
Definition measure (s : state) : nat :=
  (2 * (length (st_hi s) + length (st_ready s)) + length (st_running s))%nat.

Lemma remove_job_length j r o : find_job j r = Some o -> S (length (remove_job j r)) = length r.
Proof.
  induction r as [|[k ok] r IH]; [discriminate|]. cbn [find_job remove_job fst snd length].
  destruct (k =? j); [reflexivity|]. intros H. cbn [length]. rewrite (IH H). reflexivity.
Qed.

Lemma drain n alg (Hpos : 0 < n) : forall m ls s,
  reach n alg ls s -> (measure s <= m)%nat ->
  exists ls' s', reach n alg (ls ++ ls') s' /\ queue_empty s' = true /\ st_running s' = [] /\
                 st_shutdown s' = st_shutdown s.
Proof.
  induction m as [|m IH]; intros ls s Hr Hm.
  - exists [], s. rewrite app_nil_r. unfold measure in Hm. unfold queue_empty.
    destruct (st_hi s); [|cbn [length] in Hm; lia]. destruct (st_ready s); [|cbn [length] in Hm; lia].
    destruct (st_running s); [|cbn [length] in Hm; lia]. repeat split; try reflexivity. exact Hr.
  - destruct (st_running s) as [|[l j] rest] eqn:Hrun.
    + destruct (queue_empty s) eqn:Hq.
      * exists [], s. rewrite app_nil_r. repeat split; try assumption; reflexivity.
      * destruct (no_stuck _ _ _ _ Hr Hpos Hq) as [l [Hok [[Hb _]|[Hb [j [s1 Hs]]]]]].
        { apply lane_busy_In in Hb. rewrite Hrun in Hb. destruct Hb. }
        assert (Hr1 : reach n alg (ls ++ [Take l j]) s1) by (apply reach_snoc; exists s; split; assumption).
        assert (Hm1 : (measure s1 <= m)%nat /\ st_shutdown s1 = st_shutdown s).
        { cbn [step] in Hs. destruct (lane_ok s l && negb (lane_busy s l)); [|discriminate].
          destruct (take_choice s j) as [[hi' rd']|] eqn:Htc; [|discriminate].
          injection Hs as Hs. subst s1. unfold measure in *. proj. rewrite Hrun in *. cbn [length] in *.
          split; [|reflexivity].
          destruct (take_choice_cases _ _ _ _ Htc) as [[Hhi Hrd]|[Hhi [Hhi' [o [Hf [Hrd _]]]]]].
          - subst rd'. rewrite Hhi in Hm. cbn [length] in Hm. lia.
          - subst hi' rd'. rewrite Hhi in Hm. pose proof (remove_job_length _ _ _ Hf) as Hl. cbn [length] in *. lia. }
        destruct Hm1 as [Hm1 Hsh1].
        destruct (IH _ _ Hr1 Hm1) as [ls' [s' [Hr' [A [B C]]]]].
        exists (Take l j :: ls'), s'. rewrite <- app_assoc in Hr'. cbn [app] in Hr'.
        repeat split; try assumption. rewrite C. exact Hsh1.
    + assert (Hs : exists s1, step s (Finish l) = Some s1 /\ (measure s1 <= m)%nat /\ st_shutdown s1 = st_shutdown s).
      { cbn [step]. rewrite Hrun. cbn [find_lane fst snd]. rewrite N.eqb_refl. eexists. split; [reflexivity|].
        unfold measure in *. proj. rewrite Hrun in Hm. cbn [remove_lane fst]. rewrite N.eqb_refl. cbn [length] in *.
        split; [lia|reflexivity]. }
      destruct Hs as [s1 [Hs [Hm1 Hsh1]]].
      assert (Hr1 : reach n alg (ls ++ [Finish l]) s1) by (apply reach_snoc; exists s; split; assumption).
      destruct (IH _ _ Hr1 Hm1) as [ls' [s' [Hr' [A [B C]]]]].
      exists (Finish l :: ls'), s'. rewrite <- app_assoc in Hr'. cbn [app] in Hr'.
      repeat split; try assumption. rewrite C. exact Hsh1.
Qed.

(* No job can be lost: from every reachable state of a queue with at least one lane the run can be completed to a
   terminal state (destructor called, nothing queued, nothing running), where by [exactly_once] every job that was
   ever added has finished exactly once. *)
Theorem can_terminate n alg ls s :
  0 < n -> reach n alg ls s ->
  exists ls' s', reach n alg (ls ++ ls') s' /\ terminal s' = true /\ Permutation (st_finished s') (adds (ls ++ ls')).
Proof.
  intros Hpos Hr.
  assert (Hsd : exists l1 s1, reach n alg (ls ++ l1) s1 /\ st_shutdown s1 = true).
  { destruct (st_shutdown s) eqn:Hsh.
    - exists [], s. rewrite app_nil_r. split; assumption.
    - exists [Shutdown]. eexists. split; [apply reach_snoc; exists s; split; [exact Hr|]; cbn [step]; rewrite Hsh; reflexivity|].
      reflexivity. }
  destruct Hsd as [l1 [s1 [Hr1 Hsh1]]].
  destruct (drain n alg Hpos _ _ _ Hr1 (le_n _)) as [ls' [s' [Hr' [A [B C]]]]].
  exists (l1 ++ ls'), s'. rewrite app_assoc.
  assert (Ht : terminal s' = true).
  { unfold terminal. rewrite C, Hsh1, A, B. reflexivity. }
  split; [exact Hr'|]. split; [exact Ht|].
  destruct (exactly_once _ _ _ _ Hr' Ht) as [P _]. exact P.
Qed.

(* ------------------------------------------------------------------ non-vacuity: concrete runs *)
Definition ex_run : list label :=
  [Add 0 Normal [97] Outside; Add 1 Normal [98] Outside; Add 2 High [99] Outside;
   Take 1 2; Take 0 0; Add 3 Normal [100] (FromLane 0); Spawn 0; Cancel; Finish 1; Take 1 1;
   Shutdown; Finish 0; Take 0 3; Finish 0; Finish 1; Exit 0; Exit 1].

Example ex_run_fifo_accepted :
  exists s, reach 2 Fifo ex_run s /\ terminal s = true /\ st_finished s = [1; 3; 0; 2].
Proof. eexists. split; [vm_compute; reflexivity|]. split; reflexivity. Qed.

(* the name-priority scheduler takes the greatest name first: here job 1 ("b") before job 0 ("a") *)
Definition ex_run_prio : list label :=
  [Add 0 Normal [97] Outside; Add 1 Normal [98] Outside; Add 2 High [99] Outside;
   Take 0 2; Finish 0; Take 0 1; Finish 0; Take 0 0; Shutdown; Finish 0; Exit 0].

Example ex_run_prio_accepted : exists s, reach 1 NamePrio ex_run_prio s /\ terminal s = true.
Proof. eexists. split; [vm_compute; reflexivity|reflexivity]. Qed.

(* rejected: a second job on a busy lane; a job taken twice; FIFO order violated; spawn after cancel; more lanes than configured *)
Example ex_rejects :
  accepts (init 2 Fifo) [Add 0 Normal [] Outside; Add 1 Normal [] Outside; Take 0 0; Take 0 1] = None /\
  accepts (init 2 Fifo) [Add 0 Normal [] Outside; Take 0 0; Take 1 0] = None /\
  accepts (init 2 Fifo) [Add 0 Normal [] Outside; Add 1 Normal [] Outside; Take 0 1] = None /\
  accepts (init 2 Fifo) [Add 0 Normal [] Outside; Take 0 0; Cancel; Spawn 0] = None /\
  accepts (init 2 Fifo) [Add 0 Normal [] Outside; Take 2 0] = None /\
  accepts (init 2 NamePrio) [Add 0 Normal [97] Outside; Add 1 Normal [98] Outside; Take 0 0] = None /\
  accepts (init 2 Fifo) [Add 0 Normal [] Outside; Add 0 Normal [] Outside] = None.
Proof. vm_compute. repeat split; reflexivity. Qed.

(* ------------------------------------------------------------------ the serial queue *)
Ltac sproj := cbn [ss_ops ss_running ss_finished ss_added ss_cancelled ss_shutdown ss_exited] in *.

Definition opt_list (o : option job) : list job := match o with Some j => [j] | None => [] end.

Definition sinv (s : sstate) : Prop :=
  NoDup (ss_added s) /\
  Permutation (ss_added s) (sjobs (ss_ops s) ++ opt_list (ss_running s) ++ ss_finished s) /\
  (In SNil (ss_ops s) -> ss_shutdown s = true) /\
  (ss_exited s = true -> ss_shutdown s = true /\ ss_running s = None /\ sjobs (ss_ops s) = []).

Lemma sjobs_app a b : sjobs (a ++ b) = sjobs a ++ sjobs b.
Proof. unfold sjobs. apply flat_map_app. Qed.

Lemma snorm_jobs ops : sjobs (snorm true ops) = sjobs ops.
Proof.
  unfold snorm. destruct ops as [|[j|] r]; try reflexivity. destruct r as [|o r]; [reflexivity|].
  rewrite sjobs_app. cbn [sjobs flat_map app]. rewrite app_nil_r. reflexivity.
Qed.

Lemma snorm_In x ops : In x (snorm true ops) -> In x ops.
Proof.
  unfold snorm. destruct ops as [|[j|] r]; try (intros H; exact H). destruct r as [|o r]; [intros H; exact H|].
  intros H. apply in_app_or in H. destruct H as [H|[H|[]]]; [right; exact H|left; exact H].
Qed.

Lemma sinv_init : sinv sinit.
Proof. unfold sinv, sinit. sproj. cbn. repeat split; try constructor; try discriminate. intros []. Qed.

Lemma sstep_sinv s a s' : sinv s -> sstep s a = Some s' -> sinv s'.
Proof.
  intros [Ind [Ip [In3 Ie]]] Hs. unfold sstep in Hs.
  destruct a as [j fj|j| | | | |]; cbn [sstep_gen] in Hs.
  - (* SAdd *)
    destruct (mem_n j (ss_added s)) eqn:Hm; [discriminate|]. apply mem_n_false in Hm.
    destruct (if fj then match ss_running s with Some _ => true | None => false end else negb (ss_shutdown s)) eqn:Hc; [|discriminate].
    injection Hs as Hs. subst s'. unfold sinv. sproj.
    assert (Hne : ss_exited s = false).
    { destruct (ss_exited s) eqn:E; [|reflexivity]. destruct (Ie eq_refl) as [E1 [E2 _]].
      destruct fj; [rewrite E2 in Hc; discriminate|rewrite E1 in Hc; discriminate]. }
    split; [constructor; assumption|]. split.
    + rewrite sjobs_app. cbn [sjobs flat_map app]. rewrite <- app_assoc. cbn [app]. apply Permutation_cons_app. exact Ip.
    + split.
      * intros H. apply in_app_or in H. destruct H as [H|[H|[]]]; [exact (In3 H)|discriminate].
      * rewrite Hne. discriminate.
  - (* STake *)
    destruct (ss_exited s) eqn:Hex; [discriminate|].
    destruct (ss_running s) as [rj|] eqn:Hrun; [discriminate|].
    destruct (snorm true (ss_ops s)) as [|[k|] r] eqn:Hn; try discriminate.
    destruct (k =? j) eqn:E; [|discriminate]. apply N.eqb_eq in E. subst k.
    injection Hs as Hs. subst s'. unfold sinv. sproj.
    pose proof (snorm_jobs (ss_ops s)) as Hj. rewrite Hn in Hj. cbn [sjobs flat_map app] in Hj. fold (sjobs r) in Hj.
    split; [exact Ind|]. split.
    + eapply Permutation_trans; [exact Ip|]. rewrite <- Hj. cbn [opt_list app]. apply Permutation_middle.
    + split; [|discriminate]. intros H. apply In3. apply snorm_In. rewrite Hn. right. exact H.
  - (* SFinish *)
    destruct (ss_running s) as [rj|] eqn:Hrun; [|discriminate].
    injection Hs as Hs. subst s'. unfold sinv. sproj.
    split; [exact Ind|]. split.
    + eapply Permutation_trans; [exact Ip|]. cbn [opt_list app]. apply Permutation_refl.
    + split; [exact In3|]. intros H. destruct (Ie H) as [_ [E _]]. discriminate.
  - (* SSpawn *)
    assert (Heq : s' = s).
    { destruct (ss_running s); [|discriminate]. destruct (ss_cancelled s); [discriminate|].
      injection Hs as Hs. symmetry. exact Hs. }
    subst s'. exact (conj Ind (conj Ip (conj In3 Ie))).
  - (* SCancel *)
    injection Hs as Hs. subst s'. unfold sinv. sproj. repeat split; try assumption; apply Ie; assumption.
  - (* SShutdown *)
    destruct (ss_shutdown s) eqn:Hsh; [discriminate|].
    injection Hs as Hs. subst s'. unfold sinv. sproj.
    split; [exact Ind|]. split.
    + rewrite sjobs_app. cbn [sjobs flat_map app]. rewrite app_nil_r. exact Ip.
    + split; [reflexivity|]. intros H. destruct (Ie H) as [E _]. discriminate E.
  - (* SExit *)
    destruct (ss_exited s) eqn:Hex; [discriminate|].
    destruct (ss_running s) as [rj|] eqn:Hrun; [discriminate|].
    destruct (ss_ops s) as [|[k|] r] eqn:Hops; try discriminate.
    destruct r as [|o r]; [|discriminate].
    injection Hs as Hs. subst s'. unfold sinv. sproj.
    split; [exact Ind|]. split; [exact Ip|]. split; [intros []|].
    intros _. split; [apply In3; left; reflexivity|]. split; reflexivity.
Qed.

Lemma saccepts_sinv ls : forall s s', sinv s -> saccepts s ls = Some s' -> sinv s'.
Proof.
  induction ls as [|a ls IH]; intros s s' Hi Ha; unfold saccepts in *; cbn [saccepts_gen] in Ha.
  - injection Ha as Ha. subst. exact Hi.
  - destruct (sstep_gen true s a) as [s1|] eqn:Hs; [|discriminate].
    eapply IH; [eapply sstep_sinv; [exact Hi|exact Hs]|exact Ha].
Qed.

(* The repaired serial queue: when the worker has left, every job ever added has finished exactly once and nothing is
   left behind the shutdown marker. *)
Theorem serial_exactly_once ls s :
  saccepts sinit ls = Some s -> ss_exited s = true ->
  Permutation (ss_finished s) (ss_added s) /\ NoDup (ss_finished s) /\ slost s = [].
Proof.
  intros Ha Hex. destruct (saccepts_sinv _ _ _ sinv_init Ha) as [Ind [Ip [_ Ie]]].
  destruct (Ie Hex) as [_ [Hrun Hjobs]]. rewrite Hrun, Hjobs in Ip. cbn [opt_list app] in Ip.
  split; [apply Permutation_sym; exact Ip|]. split.
  - apply (Permutation_NoDup Ip). exact Ind.
  - unfold slost. rewrite Hex. exact Hjobs.
Qed.

(* at any time: nothing finishes twice, only added jobs finish *)
Theorem serial_finished_subset ls s :
  saccepts sinit ls = Some s -> NoDup (ss_finished s) /\ incl (ss_finished s) (ss_added s).
Proof.
  intros Ha. destruct (saccepts_sinv _ _ _ sinv_init Ha) as [Ind [Ip _]].
  pose proof (Permutation_NoDup Ip Ind) as Hnd. split.
  - apply nodup_app_r in Hnd. apply nodup_app_r in Hnd. exact Hnd.
  - intros x Hx. apply (Permutation_in _ (Permutation_sym Ip)). apply in_or_app. right. apply in_or_app. right. exact Hx.
Qed.

(* Before the repair (6dc9f85) the serial queue lost jobs: a job added by the running job after the destructor had
   queued its marker was never executed although the queue was destroyed normally (worker joined). *)
Theorem serial_v0_refuted :
  exists ls s, saccepts_v0 sinit ls = Some s /\ ss_exited s = true /\ ss_running s = None /\
               In 1 (ss_added s) /\ ~ In 1 (ss_finished s) /\ slost s = [1].
Proof.
  exists [SAdd 0 false; STake 0; SShutdown; SAdd 1 true; SFinish; SExit]. eexists.
  split; [vm_compute; reflexivity|]. cbn. repeat split; try reflexivity.
  - left. reflexivity.
  - intros [H|[]]. discriminate.
Qed.

(* the same run on the repaired queue: the worker cannot leave yet, takes job 1, then leaves *)
Example serial_repaired_instance :
  saccepts sinit [SAdd 0 false; STake 0; SShutdown; SAdd 1 true; SFinish; SExit] = None /\
  exists s, saccepts sinit [SAdd 0 false; STake 0; SShutdown; SAdd 1 true; SFinish; STake 1; SFinish; SExit] = Some s /\
            ss_exited s = true /\ ss_finished s = [1; 0] /\ slost s = [].
Proof. split; [vm_compute; reflexivity|]. eexists. split; [vm_compute; reflexivity|]. repeat split; reflexivity. Qed.
