(* Proofs about the lane based queue transition system (Queue/Lanes.v). *)
From Coq Require Import Permutation.
From LLB Require Import Base.Bytes Queue.Lanes.
Local Open Scope N_scope.

Ltac proj := cbn [st_lanes st_alg st_hi st_ready st_running st_finished st_added st_cancelled st_shutdown st_exited] in *.

(* ------------------------------------------------------------------ small list facts *)
Lemma mem_n_In x l : mem_n x l = true <-> In x l.
Proof.
  unfold mem_n. rewrite existsb_exists. split.
  - intros [y [Hy He]]. apply N.eqb_eq in He. subst. exact Hy.
  - intros Hin. exists x. split; [exact Hin|apply N.eqb_refl].
Qed.

Lemma mem_n_false x l : mem_n x l = false <-> ~ In x l.
Proof.
  rewrite <- mem_n_In. destruct (mem_n x l).
  - split; [discriminate|]. intros H. exfalso. apply H. reflexivity.
  - split; [intros _ H; discriminate|reflexivity].
Qed.

Lemma mem_n_app x a b : mem_n x (a ++ b) = mem_n x a || mem_n x b.
Proof. unfold mem_n. apply existsb_app. Qed.

Lemma bytes_ltb_irrefl a : bytes_ltb a a = false.
Proof.
  induction a as [|x a IH]; [reflexivity|].
  cbn [bytes_ltb]. rewrite N.ltb_irrefl. exact IH.
Qed.

Lemma bytes_ltb_trans a : forall b c, bytes_ltb a b = true -> bytes_ltb b c = true -> bytes_ltb a c = true.
Proof.
  induction a as [|x a IH]; intros b c Hab Hbc.
  - destruct b as [|y b]; [discriminate|]. destruct c as [|z c]; [discriminate|]. reflexivity.
  - destruct b as [|y b]; [discriminate|]. destruct c as [|z c]; [cbn [bytes_ltb] in Hbc; discriminate|].
    cbn [bytes_ltb] in *.
    destruct (x <? y) eqn:Hxy.
    + apply N.ltb_lt in Hxy.
      destruct (y <? z) eqn:Hyz.
      * apply N.ltb_lt in Hyz. assert (Hxz : x <? z = true) by (apply N.ltb_lt; lia). rewrite Hxz. reflexivity.
      * destruct (z <? y) eqn:Hzy; [discriminate|].
        apply N.ltb_ge in Hyz. apply N.ltb_ge in Hzy.
        assert (Hxz : x <? z = true) by (apply N.ltb_lt; lia). rewrite Hxz. reflexivity.
    + destruct (y <? x) eqn:Hyx; [discriminate|].
      apply N.ltb_ge in Hxy. apply N.ltb_ge in Hyx. assert (x = y) by lia. subst y.
      destruct (x <? z) eqn:Hxz; [reflexivity|].
      destruct (z <? x) eqn:Hzx; [discriminate|].
      eapply IH; eassumption.
Qed.

Lemma is_max_cons o e r : is_max o (e :: r) = negb (bytes_ltb o (snd e)) && is_max o r.
Proof. reflexivity. Qed.

Lemma is_max_spec o r : is_max o r = true <-> forall k, In k r -> bytes_ltb o (snd k) = false.
Proof.
  unfold is_max. rewrite forallb_forall. split; intros H k Hk; specialize (H k Hk).
  - apply negb_true_iff in H. exact H.
  - apply negb_true_iff. exact H.
Qed.

Lemma exists_max (r : list (job * bytes)) :
  r <> [] -> exists e, In e r /\ is_max (snd e) r = true.
Proof.
  induction r as [|e r IH]; [intros H; exfalso; apply H; reflexivity|].
  intros _. destruct r as [|e2 r2].
  - exists e. split; [left; reflexivity|]. rewrite is_max_cons. rewrite bytes_ltb_irrefl. reflexivity.
  - remember (e2 :: r2) as r' eqn:Hr'.
    destruct IH as [m [Hin Hmax]]; [subst r'; discriminate|].
    destruct (bytes_ltb (snd m) (snd e)) eqn:Hlt.
    + exists e. split; [left; reflexivity|].
      rewrite is_max_cons. rewrite bytes_ltb_irrefl. cbn [negb andb].
      apply is_max_spec. intros k Hk.
      rewrite is_max_spec in Hmax. specialize (Hmax k Hk).
      destruct (bytes_ltb (snd e) (snd k)) eqn:Hek; [|reflexivity].
      rewrite (bytes_ltb_trans _ _ _ Hlt Hek) in Hmax. discriminate.
    + exists m. split; [right; exact Hin|].
      rewrite is_max_cons. rewrite Hlt. cbn [negb andb]. exact Hmax.
Qed.

Lemma find_job_In j r o : find_job j r = Some o -> In (j, o) r.
Proof.
  induction r as [|[k ok] r IH]; [discriminate|]. cbn [find_job fst snd].
  destruct (k =? j) eqn:E.
  - apply N.eqb_eq in E. subst. intros H. injection H as H. subst. left. reflexivity.
  - intros H. right. apply IH. exact H.
Qed.

Lemma find_job_None j r : find_job j r = None -> ~ In j (map fst r).
Proof.
  induction r as [|[k ok] r IH]; [intros _ H; exact H|]. cbn [find_job fst snd map].
  destruct (k =? j) eqn:E; [discriminate|]. intros H [H1|H1].
  - subst. rewrite N.eqb_refl in E. discriminate.
  - exact (IH H H1).
Qed.

Lemma find_job_perm j r o :
  find_job j r = Some o -> Permutation (map fst r) (j :: map fst (remove_job j r)).
Proof.
  induction r as [|[k ok] r IH]; [discriminate|]. cbn [find_job remove_job fst snd map].
  destruct (k =? j) eqn:E.
  - apply N.eqb_eq in E. subst. intros _. apply Permutation_refl.
  - intros H. cbn [map fst]. eapply Permutation_trans; [apply perm_skip; apply IH; exact H|]. apply perm_swap.
Qed.

Lemma remove_job_In j r o e :
  NoDup (map fst r) -> find_job j r = Some o ->
  (In e (remove_job j r) <-> In e r /\ fst e <> j).
Proof.
  induction r as [|[k ok] r IH]; [discriminate|]. cbn [find_job remove_job fst snd map].
  intros Hnd Hf. inversion Hnd as [|x xs Hnotin Hnd']; subst.
  destruct (k =? j) eqn:E.
  - apply N.eqb_eq in E. subst k. split.
    + intros Hin. split; [right; exact Hin|]. intros Heq. apply Hnotin. rewrite <- Heq. apply in_map. exact Hin.
    + intros [[Heq|Hin] Hne]; [subst e; exfalso; apply Hne; reflexivity|exact Hin].
  - apply N.eqb_neq in E. split.
    + intros [Heq|Hin].
      * subst e. split; [left; reflexivity|exact E].
      * apply (IH Hnd' Hf) in Hin. destruct Hin as [Hin Hne]. split; [right; exact Hin|exact Hne].
    + intros [[Heq|Hin] Hne]; [left; exact Heq|]. right. apply (IH Hnd' Hf). split; assumption.
Qed.

Lemma lane_busy_In s l : lane_busy s l = true <-> In l (map fst (st_running s)).
Proof.
  unfold lane_busy. rewrite existsb_exists. split.
  - intros [e [He Heq]]. apply N.eqb_eq in Heq. subst. apply in_map. exact He.
  - intros Hin. apply in_map_iff in Hin. destruct Hin as [e [Heq He]]. exists e. split; [exact He|]. apply N.eqb_eq. exact Heq.
Qed.

Lemma find_lane_Some l r j :
  find_lane l r = Some j ->
  Permutation (map snd r) (j :: map snd (remove_lane l r)) /\
  Permutation (map fst r) (l :: map fst (remove_lane l r)).
Proof.
  induction r as [|[k jk] r IH]; [discriminate|]. cbn [find_lane remove_lane fst snd map].
  destruct (k =? l) eqn:E.
  - apply N.eqb_eq in E. subst. intros H. injection H as H. subst. split; apply Permutation_refl.
  - intros H. destruct (IH H) as [P1 P2]. cbn [map fst snd]. split.
    + eapply Permutation_trans; [apply perm_skip; exact P1|]. apply perm_swap.
    + eapply Permutation_trans; [apply perm_skip; exact P2|]. apply perm_swap.
Qed.

Lemma find_lane_None l r : find_lane l r = None -> ~ In l (map fst r).
Proof.
  induction r as [|[k jk] r IH]; [intros _ H; exact H|]. cbn [find_lane fst snd map].
  destruct (k =? l) eqn:E; [discriminate|]. intros H [H1|H1].
  - subst. rewrite N.eqb_refl in E. discriminate.
  - exact (IH H H1).
Qed.

Lemma find_lane_busy s l : lane_busy s l = true -> exists j, find_lane l (st_running s) = Some j.
Proof.
  intros Hb. destruct (find_lane l (st_running s)) as [j|] eqn:E; [exists j; reflexivity|].
  apply find_lane_None in E. apply lane_busy_In in Hb. contradiction.
Qed.

(* ------------------------------------------------------------------ accepts *)
Lemma accepts_app s a : forall b,
  accepts s (a ++ b) = match accepts s a with Some s' => accepts s' b | None => None end.
Proof.
  revert s. induction a as [|x a IH]; intros s b; [reflexivity|].
  cbn [app accepts]. destruct (step s x) as [s'|]; [apply IH|reflexivity].
Qed.

Lemma accepts_snoc s ls a s' :
  accepts s (ls ++ [a]) = Some s' <-> exists s1, accepts s ls = Some s1 /\ step s1 a = Some s'.
Proof.
  rewrite accepts_app. destruct (accepts s ls) as [s1|].
  - cbn [accepts]. split.
    + intros H. exists s1. split; [reflexivity|]. destruct (step s1 a); [exact H|discriminate].
    + intros [s2 [H1 H2]]. injection H1 as H1. subst. rewrite H2. reflexivity.
  - split; [discriminate|]. intros [s2 [H1 _]]. discriminate.
Qed.

Lemma accepts_prefix s pre post s' :
  accepts s (pre ++ post) = Some s' -> exists s1, accepts s pre = Some s1 /\ accepts s1 post = Some s'.
Proof.
  rewrite accepts_app. destruct (accepts s pre) as [s1|]; [|discriminate].
  intros H. exists s1. split; [reflexivity|exact H].
Qed.

Lemma first_reject_accepts s ls : forall i,
  first_reject s ls i = None <-> exists s', accepts s ls = Some s'.
Proof.
  revert s. induction ls as [|a ls IH]; intros s i; cbn [first_reject accepts].
  - split; [intros _; exists s; reflexivity|reflexivity].
  - destruct (step s a) as [s1|]; [apply IH|]. split; [discriminate|]. intros [s' H]. discriminate.
Qed.

Definition reach (n : N) (alg : sched) (ls : list label) (s : state) : Prop :=
  accepts (init n alg) ls = Some s.

Lemma reach_nil n alg s : reach n alg [] s -> s = init n alg.
Proof. unfold reach. cbn [accepts]. intros H. injection H as H. symmetry. exact H. Qed.

Lemma reach_snoc n alg ls a s' :
  reach n alg (ls ++ [a]) s' <-> exists s, reach n alg ls s /\ step s a = Some s'.
Proof. unfold reach. apply accepts_snoc. Qed.

(* projections of a snoc *)
Lemma adds_app a b : adds (a ++ b) = adds a ++ adds b.
Proof. induction a as [|x a IH]; [reflexivity|]. destruct x; cbn [app adds]; rewrite IH; reflexivity. Qed.
Lemma takes_app a b : takes (a ++ b) = takes a ++ takes b.
Proof. induction a as [|x a IH]; [reflexivity|]. destruct x; cbn [app takes]; rewrite IH; reflexivity. Qed.
Lemma hi_adds_app a b : hi_adds (a ++ b) = hi_adds a ++ hi_adds b.
Proof. induction a as [|x a IH]; [reflexivity|]. destruct x as [j p o src| | | | | |]; try destruct p; cbn [app hi_adds]; rewrite IH; reflexivity. Qed.
Lemma normal_entries_app a b : normal_entries (a ++ b) = normal_entries a ++ normal_entries b.
Proof. induction a as [|x a IH]; [reflexivity|]. destruct x as [j p o src| | | | | |]; try destruct p; cbn [app normal_entries]; rewrite IH; reflexivity. Qed.
Lemma normal_adds_app a b : normal_adds (a ++ b) = normal_adds a ++ normal_adds b.
Proof. unfold normal_adds. rewrite normal_entries_app. apply map_app. Qed.

(* ------------------------------------------------------------------ the take choice *)
Lemma take_choice_cases s j hi' rd' :
  take_choice s j = Some (hi', rd') ->
  (st_hi s = j :: hi' /\ rd' = st_ready s) \/
  (st_hi s = [] /\ hi' = [] /\ exists o, find_job j (st_ready s) = Some o /\ rd' = remove_job j (st_ready s) /\
     (st_alg s = Fifo -> st_ready s = (j, o) :: rd') /\
     (st_alg s = NamePrio -> is_max o (st_ready s) = true)).
Proof.
  unfold take_choice. destruct (st_hi s) as [|h hs] eqn:Hhi.
  - destruct (st_alg s) eqn:Halg.
    + destruct (st_ready s) as [|[k ok] r] eqn:Hr; [discriminate|]. cbn [fst].
      destruct (k =? j) eqn:E; [|discriminate]. apply N.eqb_eq in E. subst k.
      intros H. injection H as H1 H2. subst. right. split; [reflexivity|]. split; [reflexivity|].
      exists ok. cbn [find_job remove_job fst snd]. rewrite N.eqb_refl.
      split; [reflexivity|]. split; [reflexivity|]. split; [intros _; reflexivity|discriminate].
    + destruct (find_job j (st_ready s)) as [o|] eqn:Hf; [|discriminate].
      destruct (is_max o (st_ready s)) eqn:Hm; [|discriminate].
      intros H. injection H as H1 H2. subst. right. split; [reflexivity|]. split; [reflexivity|].
      exists o. split; [reflexivity|]. split; [reflexivity|]. split; [discriminate|intros _; exact Hm].
  - destruct (h =? j) eqn:E; [|discriminate]. apply N.eqb_eq in E. subst h.
    intros H. injection H as H1 H2. subst. left. split; reflexivity.
Qed.

(* ------------------------------------------------------------------ invariant 1: lanes *)
Definition wf (n : N) (alg : sched) (s : state) : Prop :=
  st_lanes s = n /\ st_alg s = alg /\
  NoDup (map fst (st_running s)) /\
  (forall l, In l (map fst (st_running s)) -> l < n /\ ~ In l (st_exited s)) /\
  (st_shutdown s = false -> st_exited s = []) /\
  (0 < n -> queue_empty s = false -> exists l, lane_ok s l = true).

Lemma lane_ok_iff s l : lane_ok s l = true <-> l < st_lanes s /\ ~ In l (st_exited s).
Proof.
  unfold lane_ok. rewrite andb_true_iff, N.ltb_lt, negb_true_iff, mem_n_false. reflexivity.
Qed.

Lemma init_wf n alg : wf n alg (init n alg).
Proof.
  unfold wf, init. proj. cbn [map]. repeat split.
  - constructor.
  - destruct H.
  - destruct H.
  - intros _ H. unfold queue_empty in H. proj. discriminate.
Qed.

Lemma step_wf n alg s a s' : wf n alg s -> step s a = Some s' -> wf n alg s'.
Proof.
  intros [Wn [Wa [Wnd [Wl [Wx Wq]]]]] Hstep.
  destruct a as [j p o src|l j|l|l| | |l]; cbn [step] in Hstep.
  - (* Add *)
    destruct (mem_n j (st_added s)) eqn:Hm; [discriminate|].
    destruct (src_ok s src) eqn:Hsrc; [|discriminate].
    assert (Hok : exists l, l < st_lanes s /\ ~ In l (st_exited s) \/ n = 0).
    { destruct src as [|l]; cbn [src_ok] in Hsrc.
      - apply negb_true_iff in Hsrc. rewrite (Wx Hsrc).
        destruct (N.eq_dec n 0) as [Hz|Hz]; [exists 0; right; exact Hz|].
        exists 0. left. split; [lia|intros H; exact H].
      - exists l. left. apply lane_busy_In in Hsrc. destruct (Wl l Hsrc) as [H1 H2]. split; [lia|exact H2]. }
    destruct Hok as [l0 Hl0].
    assert (Hq : 0 < n -> exists l, l < st_lanes s /\ ~ In l (st_exited s)).
    { intros Hpos. exists l0. destruct Hl0 as [H|H]; [exact H|lia]. }
    destruct p; injection Hstep as Hstep; subst s'; unfold wf; proj;
      (split; [exact Wn|]); (split; [exact Wa|]); (split; [exact Wnd|]); (split; [exact Wl|]); (split; [exact Wx|]);
      intros Hpos _; destruct (Hq Hpos) as [l Hl]; exists l; apply lane_ok_iff; proj; exact Hl.
  - (* Take *)
    destruct (lane_ok s l && negb (lane_busy s l)) eqn:Hc; [|discriminate].
    apply andb_true_iff in Hc. destruct Hc as [Hok Hidle]. apply negb_true_iff in Hidle.
    destruct (take_choice s j) as [[hi' rd']|]; [|discriminate].
    injection Hstep as Hstep. subst s'. unfold wf. proj. cbn [map fst].
    pose proof Hok as Hok'. apply lane_ok_iff in Hok'. destruct Hok' as [Hlt Hnx].
    split; [exact Wn|]. split; [exact Wa|]. split.
    { constructor; [|exact Wnd]. intros Hin. apply lane_busy_In in Hin. rewrite Hin in Hidle. discriminate. }
    split.
    { intros l' [Heq|Hin]; [subst l'; split; [lia|exact Hnx]|apply Wl; exact Hin]. }
    split; [exact Wx|].
    intros _ _. exists l. apply lane_ok_iff. proj. split; assumption.
  - (* Finish *)
    destruct (find_lane l (st_running s)) as [j|] eqn:Hf; [|discriminate].
    injection Hstep as Hstep. subst s'. unfold wf. proj.
    destruct (find_lane_Some _ _ _ Hf) as [_ P2].
    split; [exact Wn|]. split; [exact Wa|]. split.
    { pose proof (Permutation_NoDup P2 Wnd) as H. inversion H; assumption. }
    split.
    { intros l' Hin. apply Wl. apply (Permutation_in _ (Permutation_sym P2)). right. exact Hin. }
    split; [exact Wx|].
    intros Hpos Hq. unfold queue_empty in Hq. proj.
    destruct (Wq Hpos Hq) as [l0 Hl0]. exists l0. apply lane_ok_iff. apply lane_ok_iff in Hl0. proj. exact Hl0.
  - (* Spawn *)
    destruct (lane_busy s l && negb (st_cancelled s)); [|discriminate].
    injection Hstep as Hstep. subst s'. unfold wf. repeat split; try assumption; apply Wl; assumption.
  - (* Cancel *)
    injection Hstep as Hstep. subst s'. unfold wf. proj.
    split; [exact Wn|]. split; [exact Wa|]. split; [exact Wnd|]. split; [exact Wl|]. split; [exact Wx|].
    intros Hpos Hq. unfold queue_empty in Hq. proj.
    destruct (Wq Hpos Hq) as [l0 Hl0]. exists l0. apply lane_ok_iff. apply lane_ok_iff in Hl0. proj. exact Hl0.
  - (* Shutdown *)
    destruct (st_shutdown s); [discriminate|].
    injection Hstep as Hstep. subst s'. unfold wf. proj.
    split; [exact Wn|]. split; [exact Wa|]. split; [exact Wnd|]. split; [exact Wl|]. split; [discriminate|].
    intros Hpos Hq. unfold queue_empty in Hq. proj.
    destruct (Wq Hpos Hq) as [l0 Hl0]. exists l0. apply lane_ok_iff. apply lane_ok_iff in Hl0. proj. exact Hl0.
  - (* Exit *)
    destruct (st_shutdown s && queue_empty s && lane_ok s l && negb (lane_busy s l)) eqn:Hc; [|discriminate].
    repeat rewrite andb_true_iff in Hc. destruct Hc as [[[Hsh Hqe] Hok] Hidle]. apply negb_true_iff in Hidle.
    injection Hstep as Hstep. subst s'. unfold wf. proj.
    split; [exact Wn|]. split; [exact Wa|]. split; [exact Wnd|]. split.
    { intros l' Hin. destruct (Wl l' Hin) as [H1 H2]. split; [exact H1|].
      intros [Heq|Hin']; [|exact (H2 Hin')]. subst l'. apply lane_busy_In in Hin. rewrite Hin in Hidle. discriminate. }
    split; [rewrite Hsh; discriminate|].
    intros _ Hq. unfold queue_empty in Hq, Hqe. proj. rewrite Hqe in Hq. discriminate.
Qed.

Lemma accepts_wf n alg ls : forall s s', wf n alg s -> accepts s ls = Some s' -> wf n alg s'.
Proof.
  induction ls as [|a ls IH]; intros s s' Hw Ha; cbn [accepts] in Ha.
  - injection Ha as Ha. subst. exact Hw.
  - destruct (step s a) as [s1|] eqn:Hs; [|discriminate]. eapply IH; [eapply step_wf; eassumption|exact Ha].
Qed.

Lemma reach_wf n alg ls s : reach n alg ls s -> wf n alg s.
Proof. intros H. eapply accepts_wf; [apply init_wf|exact H]. Qed.

(* pigeonhole: distinct lane numbers below n are at most n many *)
Lemma nodup_below_length (l : list N) (n : N) :
  NoDup l -> (forall x, In x l -> x < n) -> (length l <= N.to_nat n)%nat.
Proof.
  intros Hnd Hlt.
  assert (Hnd' : NoDup (map N.to_nat l)).
  { apply FinFun.Injective_map_NoDup; [|exact Hnd]. intros a b H. apply N2Nat.inj. exact H. }
  assert (Hincl : incl (map N.to_nat l) (seq 0 (N.to_nat n))).
  { intros x Hx. apply in_map_iff in Hx. destruct Hx as [y [Hy Hin]]. subst x. apply in_seq. specialize (Hlt y Hin). lia. }
  pose proof (NoDup_incl_length Hnd' Hincl) as H. rewrite map_length, seq_length in H. exact H.
Qed.

Theorem lanes_bound n alg ls s :
  reach n alg ls s ->
  (length (st_running s) <= N.to_nat n)%nat /\ NoDup (map fst (st_running s)) /\
  (forall l j, In (l, j) (st_running s) -> l < n).
Proof.
  intros Hr. destruct (reach_wf _ _ _ _ Hr) as [_ [_ [Wnd [Wl _]]]].
  split; [|split].
  - rewrite <- (map_length fst). apply nodup_below_length; [exact Wnd|]. intros x Hx. apply (Wl x Hx).
  - exact Wnd.
  - intros l j Hin. apply (Wl l). apply (in_map fst) in Hin. exact Hin.
Qed.

(* ... at every moment of every accepted sequence *)
Theorem lanes_bound_always n alg pre post s :
  reach n alg (pre ++ post) s ->
  exists s1, reach n alg pre s1 /\ (length (st_running s1) <= N.to_nat n)%nat /\ NoDup (map fst (st_running s1)).
Proof.
  intros Hr. destruct (accepts_prefix _ _ _ _ Hr) as [s1 [H1 _]].
  exists s1. split; [exact H1|]. destruct (lanes_bound _ _ _ _ H1) as [A [B _]]. split; assumption.
Qed.
