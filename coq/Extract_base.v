(* Extraction of the executable models to OCaml (ExtrOcamlBasic only; N, positive, nat stay inductive). *)
Require Extraction.
Require Import ExtrOcamlBasic.
From LLB Require Import Base.Bytes Path.PathPrefix Codec.Codec Codec.FileObs.
Extraction "extracted/Model_base.ml" pip pip_unrepaired to_delete stale_history
  enc_value dec_value enc_key dec_key has_sig has_info has_strs
  observe info_eqb info_eqb_unrepaired is_missing.
