(* Models of the binary codecs: StringList, FileInfo, BuildValue, BuildKey
   (include/llbuild/Basic/{BinaryCoding,StringList,FileInfo}.h, include/llbuild/BuildSystem/{BuildValue,BuildKey}.h).
   Definitions only. *)
From LLB Require Import Base.Bytes Base.LE.
Local Open Scope N_scope.

(* ---------- StringList: u64 size, then each item followed by NUL ---------- *)

Fixpoint sl_flat (l : list bytes) : bytes :=
  match l with [] => [] | s :: l' => s ++ 0 :: sl_flat l' end.

Definition enc_strlist (l : list bytes) : bytes :=
  enc64 (N.of_nat (length (sl_flat l))) ++ sl_flat l.

(* getValues(): split at NULs; a last item without terminator would be read past the buffer: None.
   [cur] is the current item reversed ([rev_append cur []] = [rev cur], linear when extracted) *)
Fixpoint sl_split (l : bytes) (cur : bytes) : option (list bytes) :=
  match l with
  | [] => match cur with [] => Some [] | _ => None end
  | b :: l' => if N.eqb b 0
               then match sl_split l' [] with Some r => Some (rev_append cur [] :: r) | None => None end
               else sl_split l' (b :: cur)
  end.

Definition dec_strlist (l : bytes) : option (list bytes * bytes) :=
  match dec64 l with
  | Some (n, t) => match take_N n t with
                   | Some (body, r) => match sl_split body [] with Some items => Some (items, r) | None => None end
                   | None => None end
  | None => None end.

Definition nul_free (s : bytes) : bool := forallb (fun b => negb (N.eqb b 0)) s.

(* ---------- FileInfo: device inode mode size (u64 each), mtime (u64 u64), 32 checksum bytes ---------- *)

Record fileinfo := mkFI {
  fi_device : N; fi_inode : N; fi_mode : N; fi_size : N; fi_sec : N; fi_nsec : N; fi_checksum : bytes }.

Definition enc_fi (f : fileinfo) : bytes :=
  enc64 (fi_device f) ++ enc64 (fi_inode f) ++ enc64 (fi_mode f) ++ enc64 (fi_size f) ++
  enc64 (fi_sec f) ++ enc64 (fi_nsec f) ++ fi_checksum f.

Definition dec_fi (l : bytes) : option (fileinfo * bytes) :=
  match dec64 l with Some (a, l1) =>
  match dec64 l1 with Some (b, l2) =>
  match dec64 l2 with Some (c, l3) =>
  match dec64 l3 with Some (d, l4) =>
  match dec64 l4 with Some (e, l5) =>
  match dec64 l5 with Some (f, l6) =>
  match take_bytes 32 l6 with Some (ck, r) => Some (mkFI a b c d e f ck, r)
  | None => None end | None => None end | None => None end | None => None end
  | None => None end | None => None end | None => None end.

Definition u64 (n : N) : Prop := n < 18446744073709551616.
Definition u32 (n : N) : Prop := n < 4294967296.
Definition wf_fi (f : fileinfo) : Prop :=
  u64 (fi_device f) /\ u64 (fi_inode f) /\ u64 (fi_mode f) /\ u64 (fi_size f) /\ u64 (fi_sec f) /\ u64 (fi_nsec f)
  /\ length (fi_checksum f) = 32%nat.

(* ---------- BuildValue ---------- *)

Inductive vkind :=
| VInvalid | VVirtualInput | VExistingInput | VMissingInput | VDirectoryContents | VDirectoryTreeSignature
| VDirectoryTreeStructureSignature | VStaleFileRemoval | VMissingOutput | VFailedInput | VSuccessfulCommand
| VFailedCommand | VPropagatedFailureCommand | VCancelledCommand | VSkippedCommand | VTarget
| VFilteredDirectoryContents | VSuccessfulCommandWithOutputSignature.

Definition all_vkinds : list vkind :=
  [VInvalid; VVirtualInput; VExistingInput; VMissingInput; VDirectoryContents; VDirectoryTreeSignature;
   VDirectoryTreeStructureSignature; VStaleFileRemoval; VMissingOutput; VFailedInput; VSuccessfulCommand;
   VFailedCommand; VPropagatedFailureCommand; VCancelledCommand; VSkippedCommand; VTarget;
   VFilteredDirectoryContents; VSuccessfulCommandWithOutputSignature].

(* the enum's numeric value is the tag byte *)
Definition vtag (k : vkind) : N :=
  match k with
  | VInvalid => 0 | VVirtualInput => 1 | VExistingInput => 2 | VMissingInput => 3 | VDirectoryContents => 4
  | VDirectoryTreeSignature => 5 | VDirectoryTreeStructureSignature => 6 | VStaleFileRemoval => 7
  | VMissingOutput => 8 | VFailedInput => 9 | VSuccessfulCommand => 10 | VFailedCommand => 11
  | VPropagatedFailureCommand => 12 | VCancelledCommand => 13 | VSkippedCommand => 14 | VTarget => 15
  | VFilteredDirectoryContents => 16 | VSuccessfulCommandWithOutputSignature => 17
  end.

Definition vkind_of_tag (t : N) : option vkind := find (fun k => N.eqb (vtag k) t) all_vkinds.

Definition has_sig (k : vkind) : bool :=
  match k with VDirectoryTreeSignature | VDirectoryTreeStructureSignature | VSuccessfulCommandWithOutputSignature => true | _ => false end.
Definition has_strs (k : vkind) : bool :=
  match k with VDirectoryContents | VFilteredDirectoryContents | VStaleFileRemoval => true | _ => false end.
Definition has_info (k : vkind) : bool :=
  match k with VExistingInput | VSuccessfulCommand | VSuccessfulCommandWithOutputSignature | VDirectoryContents => true | _ => false end.

Record bvalue := mkBV { bv_kind : vkind; bv_sig : N; bv_infos : list fileinfo; bv_strs : list bytes }.

Definition enc_value (v : bvalue) : bytes :=
  [vtag (bv_kind v)] ++
  (if has_sig (bv_kind v) then enc64 (bv_sig v) else []) ++
  (if has_info (bv_kind v) then enc32 (N.of_nat (length (bv_infos v))) ++ concat (map enc_fi (bv_infos v)) else []) ++
  (if has_strs (bv_kind v) then enc_strlist (bv_strs v) else []).

(* fuel = remaining length: every info consumes 80 bytes, so the count can never exceed it *)
Fixpoint dec_infos (fuel : nat) (cnt : N) (l : bytes) : option (list fileinfo * bytes) :=
  if N.eqb cnt 0 then Some ([], l) else
  match fuel with
  | O => None
  | S f => match dec_fi l with
           | Some (x, l') => match dec_infos f (cnt - 1) l' with Some (xs, r) => Some (x :: xs, r) | None => None end
           | None => None end
  end.

Definition dec_value (l : bytes) : option bvalue :=
  match l with
  | [] => Some (mkBV VInvalid 0 [] [])          (* coder.isEmpty(): Invalid *)
  | t :: l0 =>
    match vkind_of_tag t with
    | None => None
    | Some k =>
      match (if has_sig k then dec64 l0 else Some (0, l0)) with
      | None => None
      | Some (sg, l1) =>
        match (if has_info k
               then match dec32 l1 with Some (n, l1') => dec_infos (length l1') n l1' | None => None end
               else Some ([], l1)) with
        | None => None
        | Some (infos, l2) =>
          match (if has_strs k then dec_strlist l2 else Some ([], l2)) with
          | Some (strs, []) => Some (mkBV k sg infos strs)      (* coder.finish(): all consumed *)
          | _ => None
          end
        end
      end
    end
  end.

Definition wf_value (v : bvalue) : Prop :=
  (if has_sig (bv_kind v) then u64 (bv_sig v) else bv_sig v = 0) /\
  (if has_info (bv_kind v) then (1 <= length (bv_infos v))%nat /\ u32 (N.of_nat (length (bv_infos v))) /\ Forall wf_fi (bv_infos v)
   else bv_infos v = []) /\
  (if has_strs (bv_kind v) then forallb nul_free (bv_strs v) = true /\ u64 (N.of_nat (length (sl_flat (bv_strs v))))
   else bv_strs v = []).

(* ---------- BuildValue objects that are re-used (move constructor, move assignment, explicit copy constructor) ----------
   An object in memory has the same four fields as [bvalue], but NOT normalised: `operator=(BuildValue&&)` copies
   kind / numOutputInfos / signature / valueData unconditionally and touches `stringValues` only when
   `rhs.kindHasStringList()`; so an object that was assigned to may still hold the strings of an earlier value of
   another kind ([bv_strs] non-empty although [has_strs] is false). [toData] and the accessors read only the fields of
   the current kind ([enc_value], [view]).
   The destination's old output infos are only `delete[]`d, never read: they do not appear in the result. The explicit
   copy constructor rebuilds the list from `getValues()`, which for NUL-free strings is the same list. *)

Definition fresh_object : bvalue := mkBV VInvalid 0 [] [].

Definition move_assign (dst src : bvalue) : bvalue :=
  mkBV (bv_kind src) (bv_sig src) (bv_infos src)
       (if has_strs (bv_kind src) then bv_strs src else bv_strs dst).

Definition move_construct (src : bvalue) : bvalue := move_assign fresh_object src.
Definition copy_construct (src : bvalue) : bvalue := move_assign fresh_object src.

(* what the accessors of the current kind can see *)
Definition view (v : bvalue) : bvalue :=
  mkBV (bv_kind v)
       (if has_sig (bv_kind v) then bv_sig v else 0)
       (if has_info (bv_kind v) then bv_infos v else [])
       (if has_strs (bv_kind v) then bv_strs v else []).

(* a history of re-use: the object successively receives every value of [vs] *)
Definition assign_all (dst : bvalue) (vs : list bvalue) : bvalue := fold_left move_assign vs dst.

(* ---------- BuildKey ---------- *)

Inductive bkey :=
| KCommand (name : bytes)
| KCustomTask (name data : bytes)
| KDirectoryContents (path : bytes)
| KFilteredDirectoryContents (path : bytes) (filters : list bytes)
| KDirectoryTreeSignature (path : bytes) (filters : list bytes)
| KDirectoryTreeStructureSignature (path : bytes) (filters : list bytes)
| KNode (path : bytes)
| KStat (path : bytes)
| KTarget (name : bytes).

(* 'C' 'X' 'D' 'd' 'S' 's' 'N' 'I' 'T' *)
Definition ktag (k : bkey) : N :=
  match k with
  | KCommand _ => 67 | KCustomTask _ _ => 88 | KDirectoryContents _ => 68 | KFilteredDirectoryContents _ _ => 100
  | KDirectoryTreeSignature _ _ => 83 | KDirectoryTreeStructureSignature _ _ => 115
  | KNode _ => 78 | KStat _ => 73 | KTarget _ => 84
  end.

Definition enc_named (name payload : bytes) : bytes :=
  enc32 (N.of_nat (length name)) ++ name ++ payload.    (* memcpy of a uint32_t: little-endian host *)

Definition enc_key (k : bkey) : bytes :=
  ktag k ::
  match k with
  | KCommand n | KDirectoryContents n | KNode n | KStat n | KTarget n => n
  | KCustomTask n d => enc_named n d
  | KFilteredDirectoryContents p f | KDirectoryTreeSignature p f | KDirectoryTreeStructureSignature p f =>
      enc_named p (enc_strlist f)
  end.

Definition dec_named (l : bytes) : option (bytes * bytes) :=
  match dec32 l with Some (n, t) => take_N n t | None => None end.

Definition dec_filters (l : bytes) : option (list bytes) :=
  match dec_strlist l with Some (f, []) => Some f | _ => None end.

Definition dec_key (l : bytes) : option bkey :=
  match l with
  | [] => None
  | t :: r =>
    if N.eqb t 67 then Some (KCommand r) else
    if N.eqb t 68 then Some (KDirectoryContents r) else
    if N.eqb t 78 then Some (KNode r) else
    if N.eqb t 73 then Some (KStat r) else
    if N.eqb t 84 then Some (KTarget r) else
    if N.eqb t 88 then match dec_named r with Some (n, d) => Some (KCustomTask n d) | None => None end else
    if N.eqb t 100 then match dec_named r with Some (p, d) => option_map (KFilteredDirectoryContents p) (dec_filters d) | None => None end else
    if N.eqb t 83 then match dec_named r with Some (p, d) => option_map (KDirectoryTreeSignature p) (dec_filters d) | None => None end else
    if N.eqb t 115 then match dec_named r with Some (p, d) => option_map (KDirectoryTreeStructureSignature p) (dec_filters d) | None => None end else
    None
  end.

Definition wf_filters (f : list bytes) : Prop :=
  forallb nul_free f = true /\ u64 (N.of_nat (length (sl_flat f))).

Definition wf_key (k : bkey) : Prop :=
  match k with
  | KCommand _ | KDirectoryContents _ | KNode _ | KStat _ | KTarget _ => True
  | KCustomTask n _ => u32 (N.of_nat (length n))
  | KFilteredDirectoryContents p f | KDirectoryTreeSignature p f | KDirectoryTreeStructureSignature p f =>
      u32 (N.of_nat (length p)) /\ wf_filters f
  end.

(* kind index used by the probes (order of the C++ enum BuildKey::Kind) *)
Definition key_kind_tags : list N := [67; 88; 68; 100; 83; 115; 78; 73; 84].
