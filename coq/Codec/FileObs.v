(* Model of file observation in the three file-system modes
   (lib/Basic/FileInfo.cpp getInfoForPath / getChecksumForPath, include/llbuild/Basic/FileSystem.h wrappers,
    FileInfo::operator== and isMissing).  Definitions only. *)
From LLB Require Import Base.Bytes Codec.Codec.
Local Open Scope N_scope.

Inductive okind := OFile | ODir | OLink.     (* OLink: a symbolic link observed with getLinkInfo (lstat) *)

(* what the operating system reports for an existing object, plus its content
   (file bytes, or the target string of a link) *)
Record obj := mkObj { o_kind : okind; o_dev : N; o_ino : N; o_mode : N; o_size : N; o_sec : N; o_nsec : N;
                      o_content : bytes; o_readable : bool }.
Definition fstate := option obj.             (* None: the path does not exist *)

Inductive fsmode := MDefault | MDevAgnostic | MChecksumOnly.

Definition zeros32 : bytes := repeat 0 32.
Definition dir_marker : bytes := 1 :: repeat 0 31.
Definition pad32 (d : bytes) : bytes := firstn 32 (d ++ zeros32).

Definition missing_info : fileinfo := mkFI 0 0 0 0 0 0 zeros32.

Definition is_missing (f : fileinfo) : bool :=
  N.eqb (fi_device f) 0 && N.eqb (fi_inode f) 0 && N.eqb (fi_mode f) 0 && N.eqb (fi_size f) 0 &&
  N.eqb (fi_sec f) 0 && N.eqb (fi_nsec f) 0.

(* FileInfo::getInfoForPath *)
Definition stat_info (s : fstate) : fileinfo :=
  match s with
  | None => missing_info
  | Some o =>
    let f := mkFI (o_dev o) (o_ino o) (o_mode o) (o_size o) (o_sec o) (o_nsec o) zeros32 in
    if is_missing f then mkFI 0 0 0 0 0 1 zeros32 else f      (* never create the sentinel by accident *)
  end.

Section Digest.
Variable digest : bytes -> bytes.           (* MD5 on Linux (16 bytes), SHA-256 on macOS (32 bytes) *)

Definition checksum_of (s : fstate) : bytes :=
  match s with
  | None => zeros32
  | Some o => match o_kind o with
              | ODir => dir_marker
              | OFile => if o_readable o then pad32 (digest (o_content o)) else zeros32
              | OLink => pad32 (digest (o_content o))
              end
  end.

Definition observe (m : fsmode) (s : fstate) : fileinfo :=
  let f := stat_info s in
  match m with
  | MDefault => f
  | MDevAgnostic => mkFI 0 0 (fi_mode f) (fi_size f) (fi_sec f) (fi_nsec f) (fi_checksum f)
  | MChecksumOnly => mkFI 0 0 (fi_mode f) (fi_size f) 0 0 (checksum_of s)
  end.
End Digest.

(* FileInfo::operator== : device, inode, size, modTime, checksum - not mode - and (after the repair)
   whether the record is the "missing" record *)
Definition info_eqb (a b : fileinfo) : bool :=
  N.eqb (fi_device a) (fi_device b) && N.eqb (fi_inode a) (fi_inode b) && N.eqb (fi_size a) (fi_size b) &&
  N.eqb (fi_sec a) (fi_sec b) && N.eqb (fi_nsec a) (fi_nsec b) && bytes_eqb (fi_checksum a) (fi_checksum b) &&
  Bool.eqb (is_missing a) (is_missing b).

(* the comparison before the repair *)
Definition info_eqb_unrepaired (a b : fileinfo) : bool :=
  N.eqb (fi_device a) (fi_device b) && N.eqb (fi_inode a) (fi_inode b) && N.eqb (fi_size a) (fi_size b) &&
  N.eqb (fi_sec a) (fi_sec b) && N.eqb (fi_nsec a) (fi_nsec b) && bytes_eqb (fi_checksum a) (fi_checksum b).

(* stat() never reports mode 0 for an existing object (the file-type bits are non-zero) *)
Definition wf_obj (o : obj) : Prop := o_mode o <> 0.
Definition wf_state (s : fstate) : Prop := match s with None => True | Some o => wf_obj o end.

Definition exists_ (s : fstate) : bool := match s with None => false | Some _ => true end.
Definition size_of (s : fstate) : N := match s with None => 0 | Some o => o_size o end.
Definition mtime_of (s : fstate) : N * N := match s with None => (0, 0) | Some o => (o_sec o, o_nsec o) end.
Definition dev_ino_of (s : fstate) : N * N := match s with None => (0, 0) | Some o => (o_dev o, o_ino o) end.
