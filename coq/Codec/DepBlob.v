(* The dependency blob of a rule_results row, as SQLiteBuildDB::setRuleResult writes it and
   lookupRuleResult / getKeysWithResult read it (/repo/lib/Core/SQLiteBuildDB.cpp).  Definitions only.

   One entry per dependency, in request order, each a little-endian uint64 (BinaryEncoder::write(uint64_t)):
       raw = (dbKeyID.value << 2) + (singleUse << 1) + orderOnly          (uint64 arithmetic: the shift wraps)
   Reading: numDependencies = numBytes / 8; if numBytes != numDependencies * 8 the lookup FAILS with
   "unexpected contents for database result" (no partial entry is ever interpreted); otherwise
       orderOnly = raw & 1; singleUse = (raw >> 1) & 1; dbKeyID = raw >> 2. *)
From LLB Require Import Base.Bytes Base.LE.
Local Open Scope N_scope.

(* database key id, orderOnly, singleUse *)
Definition dbdep := (N * bool * bool)%type.

Definition TWO64 : N := 18446744073709551616.
Definition TWO62 : N := 4611686018427387904.

Definition b2n (b : bool) : N := if b then 1 else 0.

(* (id << 2) wraps at 2^64; adding the two flag bits cannot carry out of 64 bits afterwards, so the whole
   expression is the sum reduced mod 2^64 *)
Definition raw_of (d : dbdep) : N :=
  match d with (id, oo, su) => (id * 4 + b2n su * 2 + b2n oo) mod TWO64 end.

Definition dep_of_raw (raw : N) : dbdep := (raw / 4, N.odd raw, N.odd (raw / 2)).

Fixpoint encode_deps (l : list dbdep) : bytes :=
  match l with
  | [] => []
  | d :: t => enc64 (raw_of d) ++ encode_deps t
  end.

(* the decoding loop: n entries; [None] here would be a read past the end of the blob (the theorems show the
   length check of decode_deps makes it unreachable) *)
Fixpoint decode_n (n : nat) (l : bytes) : option (list dbdep) :=
  match n with
  | O => Some []
  | S n' =>
    match dec64 l with
    | Some (raw, t) =>
      match decode_n n' t with Some ds => Some (dep_of_raw raw :: ds) | None => None end
    | None => None
    end
  end.

(* None = the lookup reports "unexpected contents for database result" *)
Definition decode_deps (l : bytes) : option (list dbdep) :=
  let n := Nat.div (length l) 8 in
  if Nat.eqb (length l) (n * 8) then decode_n n l else None.

Definition ids_ok (l : list dbdep) : Prop := Forall (fun d => fst (fst d) < TWO62) l.
