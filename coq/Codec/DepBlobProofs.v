(* Proofs about the dependency blob codec (Codec/DepBlob.v). *)
From LLB Require Import Base.Bytes Base.LE Base.LEFacts Codec.DepBlob.
Local Open Scope N_scope.

Lemma raw_of_small id oo su : id < TWO62 -> raw_of (id, oo, su) = id * 4 + b2n su * 2 + b2n oo.
Proof.
  intros H. unfold raw_of. apply N.mod_small. unfold TWO62, TWO64 in *.
  destruct su, oo; cbn [b2n]; lia.
Qed.

Lemma raw_of_lt d : raw_of d < TWO64.
Proof. destruct d as [[id oo] su]. unfold raw_of. apply N.mod_lt. unfold TWO64. lia. Qed.

Lemma odd_b2n_add b m : N.odd (b2n b + 2 * m) = b.
Proof. rewrite N.odd_add_mul_2. destruct b; reflexivity. Qed.

Lemma div2_b2n_add b m : (b2n b + 2 * m) / 2 = m.
Proof.
  symmetry. apply N.div_unique with (r := b2n b); [destruct b; cbn; lia | lia].
Qed.

Lemma dep_of_raw_of id oo su : id < TWO62 -> dep_of_raw (raw_of (id, oo, su)) = (id, oo, su).
Proof.
  intros H. rewrite raw_of_small by exact H. unfold dep_of_raw.
  replace (id * 4 + b2n su * 2 + b2n oo) with (b2n oo + 2 * (b2n su + 2 * id)) by lia.
  rewrite odd_b2n_add, div2_b2n_add, odd_b2n_add.
  do 2 f_equal.
  symmetry. apply N.div_unique with (r := b2n oo + 2 * b2n su); [destruct oo, su; cbn; lia | lia].
Qed.

Lemma encode_deps_length l : length (encode_deps l) = (8 * length l)%nat.
Proof.
  induction l as [|d t IH]; [reflexivity|].
  cbn [encode_deps]. rewrite app_length, enc64_length, IH. cbn [length]. lia.
Qed.

Lemma decode_n_encode l : ids_ok l -> decode_n (length l) (encode_deps l) = Some l.
Proof.
  induction l as [|d t IH]; intros Hok; [reflexivity|].
  inversion Hok as [|d' t' Hd Ht]; subst.
  cbn [length encode_deps decode_n].
  rewrite dec64_enc64 by apply raw_of_lt.
  rewrite IH by exact Ht.
  destruct d as [[id oo] su]. cbn [fst] in Hd. rewrite dep_of_raw_of by exact Hd. reflexivity.
Qed.

Theorem depblob_length l : length (encode_deps l) = (8 * length l)%nat.
Proof. exact (encode_deps_length l). Qed.

Theorem depblob_roundtrip l : ids_ok l -> decode_deps (encode_deps l) = Some l.
Proof.
  intros Hok. unfold decode_deps. rewrite encode_deps_length.
  replace (8 * length l)%nat with (length l * 8)%nat by lia.
  rewrite Nat.div_mul by discriminate. rewrite Nat.eqb_refl.
  apply decode_n_encode. exact Hok.
Qed.

Theorem depblob_injective l1 l2 : ids_ok l1 -> ids_ok l2 -> encode_deps l1 = encode_deps l2 -> l1 = l2.
Proof.
  intros H1 H2 E. apply depblob_roundtrip in H1. apply depblob_roundtrip in H2.
  rewrite E in H1. rewrite H1 in H2. inversion H2. reflexivity.
Qed.

(* The guard is needed: with an id of 2^62 the shift wraps and the entry reads back as id 0. *)
Theorem depblob_id_guard_needed :
  exists l, ~ ids_ok l /\ decode_deps (encode_deps l) <> Some l /\
            decode_deps (encode_deps l) = Some [(0, true, false)].
Proof.
  exists [(TWO62, true, false)]. split; [|split].
  - intros H. inversion H as [|d t Hd Ht]; subst. cbn [fst] in Hd. unfold TWO62 in Hd. lia.
  - vm_compute. discriminate.
  - vm_compute. reflexivity.
Qed.

(* A trailing partial entry makes the whole lookup fail; nothing of the blob is interpreted. *)
Lemma decode_deps_partial l : (length l mod 8 <> 0)%nat -> decode_deps l = None.
Proof.
  intros H. unfold decode_deps.
  destruct (Nat.eqb_spec (length l) (length l / 8 * 8)) as [E|E]; [|reflexivity].
  exfalso. apply H. rewrite E at 1. apply Nat.mod_mul. discriminate.
Qed.

Lemma dec64_some l : (8 <= length l)%nat -> exists raw t, dec64 l = Some (raw, t) /\ length l = (8 + length t)%nat.
Proof.
  intros H.
  destruct l as [|b0 [|b1 [|b2 [|b3 [|b4 [|b5 [|b6 [|b7 t]]]]]]]]; cbn [length] in H; try lia.
  eexists. exists t. split; [reflexivity | reflexivity].
Qed.

Lemma decode_n_total n : forall l, (8 * n <= length l)%nat -> exists ds, decode_n n l = Some ds /\ length ds = n.
Proof.
  induction n as [|n IH]; intros l H.
  - exists []. split; reflexivity.
  - destruct (dec64_some l) as [raw [t [E Hl]]]; [lia|].
    destruct (IH t) as [ds [Eds Hds]]; [lia|].
    exists (dep_of_raw raw :: ds). cbn [decode_n]. rewrite E, Eds. split; [reflexivity | cbn [length]; lia].
Qed.

(* The decoding loop never reads past the end: a blob of whole entries always decodes. *)
Lemma decode_deps_total l : (length l mod 8 = 0)%nat ->
  exists ds, decode_deps l = Some ds /\ length ds = Nat.div (length l) 8.
Proof.
  intros H. unfold decode_deps.
  pose proof (Nat.div_mod (length l) 8 ltac:(discriminate)) as D. rewrite H in D.
  destruct (Nat.eqb_spec (length l) (length l / 8 * 8)) as [E|E]; [|lia].
  apply decode_n_total. lia.
Qed.

(* non-vacuity *)
Example depblob_example :
  let l := [(1, false, false); (7, true, false); (4611686018427387903, false, true); (2, true, true)] in
  ids_ok l /\ decode_deps (encode_deps l) = Some l /\ length (encode_deps l) = 32%nat
  /\ decode_deps (encode_deps l ++ [0]) = None.
Proof.
  cbv zeta. split; [|split; [|split]].
  - unfold ids_ok. repeat (constructor; [reflexivity|]). constructor.
  - vm_compute. reflexivity.
  - vm_compute. reflexivity.
  - vm_compute. reflexivity.
Qed.
