From LLB Require Import Base.Bytes Base.BytesFacts Codec.Codec Codec.FileObs.
Local Open Scope N_scope.

Lemma stat_info_existing o : wf_obj o ->
  stat_info (Some o) = mkFI (o_dev o) (o_ino o) (o_mode o) (o_size o) (o_sec o) (o_nsec o) zeros32.
Proof.
  intros H. unfold stat_info, is_missing. cbn.
  destruct (N.eqb_spec (o_mode o) 0) as [E|_]; [contradiction|].
  rewrite !andb_false_r. cbn. reflexivity.
Qed.

Lemma is_missing_stat_existing o : wf_obj o -> is_missing (stat_info (Some o)) = false.
Proof.
  intros H. rewrite stat_info_existing by assumption. unfold is_missing. cbn.
  destruct (N.eqb_spec (o_mode o) 0) as [E|_]; [contradiction|]. rewrite !andb_false_r. reflexivity.
Qed.

Section Digest.
Variable digest : bytes -> bytes.

(* the all-zero 'missing' record is never produced for an existing object, in any mode *)
Lemma never_sentinel m o : wf_obj o -> is_missing (observe digest m (Some o)) = false.
Proof.
  intros H. unfold observe. rewrite stat_info_existing by assumption.
  destruct m; unfold is_missing; cbn;
    destruct (N.eqb_spec (o_mode o) 0) as [E|_]; try contradiction; rewrite ?andb_false_r; reflexivity.
Qed.

Lemma missing_is_missing m : is_missing (observe digest m None) = true.
Proof. destruct m; reflexivity. Qed.

Lemma info_eqb_refl f : info_eqb f f = true.
Proof.
  unfold info_eqb. rewrite !N.eqb_refl, bytes_eqb_refl. cbn. destruct (is_missing f); reflexivity.
Qed.

(* an untouched path compares equal *)
Lemma untouched_equal m s : info_eqb (observe digest m s) (observe digest m s) = true.
Proof. apply info_eqb_refl. Qed.

Lemma info_eqb_true a b : info_eqb a b = true ->
  fi_device a = fi_device b /\ fi_inode a = fi_inode b /\ fi_size a = fi_size b /\ fi_sec a = fi_sec b /\
  fi_nsec a = fi_nsec b /\ fi_checksum a = fi_checksum b /\ is_missing a = is_missing b.
Proof.
  unfold info_eqb. rewrite !andb_true_iff, !N.eqb_eq, bytes_eqb_eq. intros [[[[[[H1 H2] H3] H4] H5] H6] H7].
  apply Bool.eqb_prop in H7. auto 10.
Qed.

(* default mode: any difference in existence, size, modification time, device or inode is detected *)
Lemma detects_default s1 s2 : wf_state s1 -> wf_state s2 ->
  exists_ s1 <> exists_ s2 \/ size_of s1 <> size_of s2 \/ mtime_of s1 <> mtime_of s2 \/ dev_ino_of s1 <> dev_ino_of s2 ->
  info_eqb (observe digest MDefault s1) (observe digest MDefault s2) = false.
Proof.
  intros W1 W2 D. destruct (info_eqb _ _) eqn:E; [exfalso|reflexivity].
  apply info_eqb_true in E. destruct E as [E1 [E2 [E3 [E4 [E5 [_ E7]]]]]].
  destruct s1 as [o1|], s2 as [o2|]; cbn [wf_state] in *.
  - unfold observe in *. rewrite !stat_info_existing in * by assumption. cbn in *.
    destruct D as [D|[D|[D|D]]]; [congruence | congruence | apply D; congruence | apply D; congruence].
  - rewrite (never_sentinel MDefault o1 W1), (missing_is_missing MDefault) in E7. discriminate.
  - rewrite (never_sentinel MDefault o2 W2), (missing_is_missing MDefault) in E7. discriminate.
  - cbn in D. intuition congruence.
Qed.

(* device-agnostic mode: existence, size and modification time are detected ... *)
Lemma detects_devagnostic s1 s2 : wf_state s1 -> wf_state s2 ->
  exists_ s1 <> exists_ s2 \/ size_of s1 <> size_of s2 \/ mtime_of s1 <> mtime_of s2 ->
  info_eqb (observe digest MDevAgnostic s1) (observe digest MDevAgnostic s2) = false.
Proof.
  intros W1 W2 D. destruct (info_eqb _ _) eqn:E; [exfalso|reflexivity].
  apply info_eqb_true in E. destruct E as [_ [_ [E3 [E4 [E5 [_ E7]]]]]].
  destruct s1 as [o1|], s2 as [o2|]; cbn [wf_state] in *.
  - unfold observe in *. rewrite !stat_info_existing in * by assumption. cbn in *.
    destruct D as [D|[D|D]]; [congruence | congruence | apply D; congruence].
  - rewrite (never_sentinel MDevAgnostic o1 W1), (missing_is_missing MDevAgnostic) in E7. discriminate.
  - rewrite (never_sentinel MDevAgnostic o2 W2), (missing_is_missing MDevAgnostic) in E7. discriminate.
  - cbn in D. intuition congruence.
Qed.

(* ... and device and inode are ignored *)
Lemma devagnostic_ignores_dev_ino o d i : wf_obj o ->
  info_eqb (observe digest MDevAgnostic (Some o))
           (observe digest MDevAgnostic (Some (mkObj (o_kind o) d i (o_mode o) (o_size o) (o_sec o) (o_nsec o) (o_content o) (o_readable o)))) = true.
Proof.
  intros W. unfold observe. rewrite !stat_info_existing by (unfold wf_obj in *; cbn; assumption). cbn [o_dev o_ino o_mode o_size o_sec o_nsec fi_mode fi_size fi_sec fi_nsec fi_checksum].
  apply info_eqb_refl.
Qed.

(* checksum-only mode *)
Definition kind_class (s : fstate) : N :=
  match s with None => 0 | Some o => match o_kind o with ODir => 1 | _ => 2 end end.
Definition content_of (s : fstate) : bytes :=
  match s with None => [] | Some o => match o_kind o with ODir => [] | _ => o_content o end end.
Definition readable_state (s : fstate) : Prop :=
  match s with Some o => o_kind o = OFile -> o_readable o = true | None => True end.

(* idealised digest: injective on the contents compared, never the directory marker or all zeros *)
Hypothesis digest_inj : forall a b, pad32 (digest a) = pad32 (digest b) -> a = b.
Hypothesis digest_not_marker : forall a, pad32 (digest a) <> dir_marker.

Lemma checksum_mode_equal_iff s1 s2 : wf_state s1 -> wf_state s2 -> readable_state s1 -> readable_state s2 ->
  (info_eqb (observe digest MChecksumOnly s1) (observe digest MChecksumOnly s2) = true <->
   exists_ s1 = exists_ s2 /\ kind_class s1 = kind_class s2 /\ size_of s1 = size_of s2 /\ content_of s1 = content_of s2).
Proof.
  intros W1 W2 R1 R2. split.
  - intros E. apply info_eqb_true in E. destruct E as [_ [_ [E3 [_ [_ [E6 E7]]]]]].
    destruct s1 as [o1|], s2 as [o2|]; cbn [wf_state] in *.
    + unfold observe in *. rewrite !stat_info_existing in * by assumption.
      cbn [fi_size fi_checksum] in *. repeat split; try assumption.
      * unfold checksum_of, kind_class in *. cbn [readable_state] in *.
        destruct (o_kind o1) eqn:K1, (o_kind o2) eqn:K2; try reflexivity; exfalso;
          rewrite ?(R1 eq_refl), ?(R2 eq_refl) in E6;
          first [ apply (digest_not_marker _ E6) | apply (digest_not_marker _ (eq_sym E6)) ].
      * unfold checksum_of, content_of in *. cbn [readable_state] in *.
        destruct (o_kind o1) eqn:K1, (o_kind o2) eqn:K2;
          rewrite ?(R1 eq_refl), ?(R2 eq_refl) in E6; try reflexivity;
          first [ apply digest_inj; assumption
                | exfalso; first [ apply (digest_not_marker _ E6) | apply (digest_not_marker _ (eq_sym E6)) ] ].
    + rewrite (never_sentinel MChecksumOnly o1 W1), (missing_is_missing MChecksumOnly) in E7. discriminate.
    + rewrite (never_sentinel MChecksumOnly o2 W2), (missing_is_missing MChecksumOnly) in E7. discriminate.
    + auto.
  - intros [E1 [E2 [E3 E4]]].
    destruct s1 as [o1|], s2 as [o2|]; cbn in E1; try discriminate; [|apply info_eqb_refl].
    cbn [wf_state readable_state] in *.
    assert (checksum_of digest (Some o1) = checksum_of digest (Some o2)) as C.
    { unfold checksum_of, kind_class, content_of in *.
      destruct (o_kind o1) eqn:K1, (o_kind o2) eqn:K2; try discriminate;
        rewrite ?(R1 eq_refl), ?(R2 eq_refl); congruence. }
    unfold observe. rewrite !stat_info_existing by assumption. unfold info_eqb. cbn [fi_device fi_inode fi_size fi_sec fi_nsec fi_checksum].
    cbn [size_of] in E3. rewrite E3, C, !N.eqb_refl, bytes_eqb_refl. cbn.
    unfold is_missing. cbn. destruct (N.eqb_spec (o_mode o1) 0); [contradiction|]. destruct (N.eqb_spec (o_mode o2) 0); [contradiction|].
    cbn. reflexivity.
Qed.

(* a pure timestamp / device / inode change is invisible in checksum-only mode *)
Lemma checksum_mode_ignores_stamps o d i sec nsec : wf_obj o ->
  info_eqb (observe digest MChecksumOnly (Some o))
           (observe digest MChecksumOnly (Some (mkObj (o_kind o) d i (o_mode o) (o_size o) sec nsec (o_content o) (o_readable o)))) = true.
Proof.
  intros W. unfold observe. rewrite !stat_info_existing by (unfold wf_obj in *; cbn; assumption).
  cbn [o_dev o_ino o_mode o_size o_sec o_nsec fi_mode fi_size fi_sec fi_nsec fi_checksum checksum_of o_kind o_content o_readable].
  apply info_eqb_refl.
Qed.
End Digest.

(* Without the existence clause in the comparison an existing empty file with modification time 0.0
   compares equal to the missing record in device-agnostic mode. *)
Lemma devagnostic_epoch0_unrepaired_refuted :
  exists o, wf_obj o /\
    info_eqb_unrepaired (observe (fun _ => []) MDevAgnostic (Some o)) (observe (fun _ => []) MDevAgnostic None) = true.
Proof. exists (mkObj OFile 5 6 33188 0 0 0 [] true). split; [unfold wf_obj; cbn; lia | vm_compute; reflexivity]. Qed.
