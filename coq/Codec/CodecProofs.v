From LLB Require Import Base.Bytes Base.BytesFacts Base.LE Base.LEFacts Codec.Codec.
Local Open Scope N_scope.

(* ---------- StringList ---------- *)

Lemma sl_split_item s rest cur :
  nul_free s = true ->
  sl_split (s ++ 0 :: rest) cur = option_map (cons (rev cur ++ s)) (sl_split rest []).
Proof.
  revert cur; induction s as [|b s IH]; intros cur H; cbn.
  - rewrite app_nil_r. destruct (sl_split rest []); reflexivity.
  - cbn in H. apply andb_true_iff in H. destruct H as [Hb Hs].
    destruct (N.eqb b 0); [discriminate|]. rewrite IH by assumption. cbn. rewrite <- app_assoc. reflexivity.
Qed.

Lemma sl_split_flat l : forallb nul_free l = true -> sl_split (sl_flat l) [] = Some l.
Proof.
  induction l as [|s l IH]; intros H; cbn; [reflexivity|].
  cbn in H. apply andb_true_iff in H. destruct H as [Hs Hl].
  rewrite sl_split_item by assumption. rewrite IH by assumption. reflexivity.
Qed.

Lemma dec_strlist_enc l r :
  forallb nul_free l = true -> u64 (N.of_nat (length (sl_flat l))) ->
  dec_strlist (enc_strlist l ++ r) = Some (l, r).
Proof.
  intros Hn Hu. unfold dec_strlist, enc_strlist. rewrite <- app_assoc.
  rewrite dec64_enc64 by exact Hu. rewrite take_N_app. rewrite sl_split_flat by assumption. reflexivity.
Qed.

(* ---------- FileInfo ---------- *)

Lemma dec_fi_enc f r : wf_fi f -> dec_fi (enc_fi f ++ r) = Some (f, r).
Proof.
  intros [H1 [H2 [H3 [H4 [H5 [H6 H7]]]]]]. unfold dec_fi, enc_fi. repeat rewrite <- app_assoc.
  rewrite dec64_enc64 by assumption. rewrite dec64_enc64 by assumption. rewrite dec64_enc64 by assumption.
  rewrite dec64_enc64 by assumption. rewrite dec64_enc64 by assumption. rewrite dec64_enc64 by assumption.
  rewrite <- H7. rewrite take_bytes_app. destruct f; reflexivity.
Qed.

Lemma enc_fi_length_pos f : (1 <= length (enc_fi f))%nat.
Proof. unfold enc_fi. rewrite app_length, enc64_length. lia. Qed.

Lemma concat_enc_length infos : (length infos <= length (concat (map enc_fi infos)))%nat.
Proof.
  induction infos as [|f infos IH]; cbn; [lia|]. rewrite app_length. pose proof (enc_fi_length_pos f). lia.
Qed.

Lemma dec_infos_enc infos : forall fuel r,
  Forall wf_fi infos -> (length infos <= fuel)%nat ->
  dec_infos fuel (N.of_nat (length infos)) (concat (map enc_fi infos) ++ r) = Some (infos, r).
Proof.
  induction infos as [|f infos IH]; intros fuel r Hw Hf.
  - destruct fuel; reflexivity.
  - destruct fuel as [|fuel]; [cbn in Hf; lia|].
    inversion Hw as [|? ? Hwf Hws]; subst.
    cbn [dec_infos length].
    destruct (N.eqb_spec (N.of_nat (S (length infos))) 0) as [E|_]; [lia|].
    cbn [map concat]. rewrite <- app_assoc. rewrite dec_fi_enc by assumption.
    replace (N.of_nat (S (length infos)) - 1) with (N.of_nat (length infos)) by lia.
    rewrite IH; [reflexivity | assumption | cbn in Hf; lia].
Qed.

(* ---------- BuildValue ---------- *)

Lemma vkind_of_tag_vtag k : vkind_of_tag (vtag k) = Some k.
Proof. destruct k; reflexivity. Qed.

Lemma vtag_lt k : vtag k < 256.
Proof. destruct k; cbn; lia. Qed.

Lemma dec_value_enc v : wf_value v -> dec_value (enc_value v) = Some v.
Proof.
  destruct v as [k sg infos strs]. unfold wf_value, enc_value. cbn [bv_kind bv_sig bv_infos bv_strs].
  intros [Hs [Hi Hl]]. cbn [app dec_value]. rewrite vkind_of_tag_vtag.
  destruct (has_sig k) eqn:Es.
  - rewrite dec64_enc64 by exact Hs.
    destruct (has_info k) eqn:Ei.
    + destruct Hi as [Hi1 [Hi2 Hi3]]. repeat rewrite <- app_assoc. rewrite dec32_enc32 by exact Hi2.
      rewrite dec_infos_enc; [|assumption|rewrite app_length; pose proof (concat_enc_length infos); lia].
      destruct (has_strs k) eqn:El.
      * destruct Hl as [Hl1 Hl2]. rewrite <- (app_nil_r (enc_strlist strs)). rewrite dec_strlist_enc by assumption. reflexivity.
      * subst strs. reflexivity.
    + subst infos. cbn [app]. destruct (has_strs k) eqn:El.
      * destruct Hl as [Hl1 Hl2]. rewrite <- (app_nil_r (enc_strlist strs)). rewrite dec_strlist_enc by assumption. reflexivity.
      * subst strs. reflexivity.
  - subst sg. cbn [app]. destruct (has_info k) eqn:Ei.
    + destruct Hi as [Hi1 [Hi2 Hi3]]. repeat rewrite <- app_assoc. rewrite dec32_enc32 by exact Hi2.
      rewrite dec_infos_enc; [|assumption|rewrite app_length; pose proof (concat_enc_length infos); lia].
      destruct (has_strs k) eqn:El.
      * destruct Hl as [Hl1 Hl2]. rewrite <- (app_nil_r (enc_strlist strs)). rewrite dec_strlist_enc by assumption. reflexivity.
      * subst strs. reflexivity.
    + subst infos. cbn [app]. destruct (has_strs k) eqn:El.
      * destruct Hl as [Hl1 Hl2]. rewrite <- (app_nil_r (enc_strlist strs)). rewrite dec_strlist_enc by assumption. reflexivity.
      * subst strs. reflexivity.
Qed.

Lemma enc_value_injective v1 v2 :
  wf_value v1 -> wf_value v2 -> enc_value v1 = enc_value v2 -> v1 = v2.
Proof.
  intros H1 H2 E. apply dec_value_enc in H1. apply dec_value_enc in H2. rewrite E in H1. congruence.
Qed.

Lemma enc_value_first_byte v : hd 0 (enc_value v) = vtag (bv_kind v).
Proof. reflexivity. Qed.

Lemma vtag_injective k1 k2 : vtag k1 = vtag k2 -> k1 = k2.
Proof. intros H. pose proof (vkind_of_tag_vtag k1) as A. rewrite H, vkind_of_tag_vtag in A. congruence. Qed.

Lemma cross_kind v1 v2 : bv_kind v1 <> bv_kind v2 -> hd 0 (enc_value v1) <> hd 0 (enc_value v2).
Proof. rewrite !enc_value_first_byte. intros H E. apply H. apply vtag_injective. exact E. Qed.

(* the empty list of strings and the list holding one empty string are different encodings *)
Lemma strlist_empty_vs_one_empty : enc_strlist [] <> enc_strlist [[]].
Proof. vm_compute. discriminate. Qed.

(* ---------- BuildKey ---------- *)

Lemma dec_named_enc n p : u32 (N.of_nat (length n)) -> dec_named (enc_named n p) = Some (n, p).
Proof.
  intros H. unfold dec_named, enc_named. rewrite dec32_enc32 by exact H. apply take_N_app.
Qed.

Lemma dec_filters_enc f : wf_filters f -> dec_filters (enc_strlist f) = Some f.
Proof.
  intros [H1 H2]. unfold dec_filters. rewrite <- (app_nil_r (enc_strlist f)). rewrite dec_strlist_enc by assumption. reflexivity.
Qed.

Lemma dec_key_enc k : wf_key k -> dec_key (enc_key k) = Some k.
Proof.
  destruct k; cbn [wf_key enc_key ktag dec_key]; intros H; cbn [N.eqb Pos.eqb]; try reflexivity.
  - rewrite dec_named_enc by exact H. reflexivity.
  - destruct H as [H1 H2]. rewrite dec_named_enc by exact H1. rewrite dec_filters_enc by exact H2. reflexivity.
  - destruct H as [H1 H2]. rewrite dec_named_enc by exact H1. rewrite dec_filters_enc by exact H2. reflexivity.
  - destruct H as [H1 H2]. rewrite dec_named_enc by exact H1. rewrite dec_filters_enc by exact H2. reflexivity.
Qed.

Lemma enc_key_injective k1 k2 : wf_key k1 -> wf_key k2 -> enc_key k1 = enc_key k2 -> k1 = k2.
Proof.
  intros H1 H2 E. apply dec_key_enc in H1. apply dec_key_enc in H2. rewrite E in H1. congruence.
Qed.

(* ---------- decidable checks over probed tables ---------- *)

Fixpoint nodupb (l : list N) : bool :=
  match l with [] => true | x :: l' => negb (existsb (N.eqb x) l') && nodupb l' end.

Lemma nodupb_NoDup l : nodupb l = true -> NoDup l.
Proof.
  induction l as [|x l IH]; intros H; [constructor|]. cbn in H. apply andb_true_iff in H. destruct H as [H1 H2].
  constructor; [|auto]. intros Hin. apply negb_true_iff in H1.
  assert (existsb (N.eqb x) l = true) by (apply existsb_exists; exists x; split; [assumption | apply N.eqb_refl]).
  congruence.
Qed.

Fixpoint list_N_eqb (a b : list N) : bool :=
  match a, b with [], [] => true | x :: a', y :: b' => N.eqb x y && list_N_eqb a' b' | _, _ => false end.
Lemma list_N_eqb_eq a b : list_N_eqb a b = true -> a = b.
Proof.
  revert b; induction a as [|x a IH]; intros [|y b] H; cbn in H; try discriminate; [reflexivity|].
  apply andb_true_iff in H. destruct H as [H1 H2]. apply N.eqb_eq in H1. subst. f_equal. auto.
Qed.

(* key tags: kind_of_char (a 256-entry table: kind index for every char, 9 = Unknown) and char_of_kind
   (identifierForKind for kinds 0..8) are mutually inverse *)
Definition key_tables_ok (char_of_kind kind_of_char : list N) : bool :=
  (length kind_of_char =? 256)%nat && (length char_of_kind =? 9)%nat &&
  forallb (fun i => N.eqb (nth (N.to_nat (nth i char_of_kind 0)) kind_of_char 99) (N.of_nat i)) (seq 0 9) &&
  forallb (fun c => let k := nth c kind_of_char 99 in
                    if k <? 9 then N.eqb (nth (N.to_nat k) char_of_kind 999) (N.of_nat c) else N.eqb k 9) (seq 0 256).

Lemma key_tables_ok_spec cok koc : key_tables_ok cok koc = true ->
  (forall i, (i < 9)%nat -> nth (N.to_nat (nth i cok 0)) koc 99 = N.of_nat i) /\
  (forall c, (c < 256)%nat -> nth c koc 99 < 9 -> nth (N.to_nat (nth c koc 99)) cok 999 = N.of_nat c).
Proof.
  unfold key_tables_ok. rewrite !andb_true_iff. intros [[[_ _] H1] H2]. split.
  - intros i Hi. rewrite forallb_forall in H1. apply N.eqb_eq. apply H1. apply in_seq. lia.
  - intros c Hc Hk. rewrite forallb_forall in H2. specialize (H2 c). cbv zeta in H2.
    apply N.ltb_lt in Hk. rewrite Hk in H2. apply N.eqb_eq. apply H2. apply in_seq. lia.
Qed.
