From LLB Require Import Base.Bytes Base.BytesFacts Base.LE Base.LEFacts Codec.Codec.
Local Open Scope N_scope.

(* ---------- StringList ---------- *)

Lemma sl_split_item s rest cur :
  nul_free s = true ->
  sl_split (s ++ 0 :: rest) cur = option_map (cons (rev cur ++ s)) (sl_split rest []).
Proof.
  revert cur; induction s as [|b s IH]; intros cur H; cbn.
  - rewrite app_nil_r, rev_append_rev, app_nil_r. destruct (sl_split rest []); reflexivity.
  - cbn in H. apply andb_true_iff in H. destruct H as [Hb Hs].
    destruct (N.eqb b 0); [discriminate|]. rewrite IH by assumption. cbn. rewrite <- app_assoc. reflexivity.
Qed.

Lemma sl_split_flat l : forallb nul_free l = true -> sl_split (sl_flat l) [] = Some l.
Proof.
  induction l as [|s l IH]; intros H; cbn; [reflexivity|].
  cbn in H. apply andb_true_iff in H. destruct H as [Hs Hl].
  rewrite sl_split_item by assumption. rewrite IH by assumption. reflexivity.
Qed.

Lemma dec_strlist_enc l r :
  forallb nul_free l = true -> u64 (N.of_nat (length (sl_flat l))) ->
  dec_strlist (enc_strlist l ++ r) = Some (l, r).
Proof.
  intros Hn Hu. unfold dec_strlist, enc_strlist. rewrite <- app_assoc.
  rewrite dec64_enc64 by exact Hu. rewrite take_N_app. rewrite sl_split_flat by assumption. reflexivity.
Qed.

(* ---------- FileInfo ---------- *)

Lemma dec_fi_enc f r : wf_fi f -> dec_fi (enc_fi f ++ r) = Some (f, r).
Proof.
  intros [H1 [H2 [H3 [H4 [H5 [H6 H7]]]]]]. unfold dec_fi, enc_fi. repeat rewrite <- app_assoc.
  rewrite dec64_enc64 by assumption. rewrite dec64_enc64 by assumption. rewrite dec64_enc64 by assumption.
  rewrite dec64_enc64 by assumption. rewrite dec64_enc64 by assumption. rewrite dec64_enc64 by assumption.
  rewrite <- H7. rewrite take_bytes_app. destruct f; reflexivity.
Qed.

Lemma enc_fi_length_pos f : (1 <= length (enc_fi f))%nat.
Proof. unfold enc_fi. rewrite app_length, enc64_length. lia. Qed.

Lemma concat_enc_length infos : (length infos <= length (concat (map enc_fi infos)))%nat.
Proof.
  induction infos as [|f infos IH]; cbn; [lia|]. rewrite app_length. pose proof (enc_fi_length_pos f). lia.
Qed.

Lemma dec_infos_enc infos : forall fuel r,
  Forall wf_fi infos -> (length infos <= fuel)%nat ->
  dec_infos fuel (N.of_nat (length infos)) (concat (map enc_fi infos) ++ r) = Some (infos, r).
Proof.
  induction infos as [|f infos IH]; intros fuel r Hw Hf.
  - destruct fuel; reflexivity.
  - destruct fuel as [|fuel]; [cbn in Hf; lia|].
    inversion Hw as [|? ? Hwf Hws]; subst.
    cbn [dec_infos length].
    destruct (N.eqb_spec (N.of_nat (S (length infos))) 0) as [E|_]; [lia|].
    cbn [map concat]. rewrite <- app_assoc. rewrite dec_fi_enc by assumption.
    replace (N.of_nat (S (length infos)) - 1) with (N.of_nat (length infos)) by lia.
    rewrite IH; [reflexivity | assumption | cbn in Hf; lia].
Qed.

(* ---------- BuildValue ---------- *)

Lemma vkind_of_tag_vtag k : vkind_of_tag (vtag k) = Some k.
Proof. destruct k; reflexivity. Qed.

Lemma vtag_lt k : vtag k < 256.
Proof. destruct k; cbn; lia. Qed.

Lemma dec_value_enc v : wf_value v -> dec_value (enc_value v) = Some v.
Proof.
  destruct v as [k sg infos strs]. unfold wf_value, enc_value. cbn [bv_kind bv_sig bv_infos bv_strs].
  intros [Hs [Hi Hl]]. cbn [app dec_value]. rewrite vkind_of_tag_vtag.
  destruct (has_sig k) eqn:Es.
  - rewrite dec64_enc64 by exact Hs.
    destruct (has_info k) eqn:Ei.
    + destruct Hi as [Hi1 [Hi2 Hi3]]. repeat rewrite <- app_assoc. rewrite dec32_enc32 by exact Hi2.
      rewrite dec_infos_enc; [|assumption|rewrite app_length; pose proof (concat_enc_length infos); lia].
      destruct (has_strs k) eqn:El.
      * destruct Hl as [Hl1 Hl2]. rewrite <- (app_nil_r (enc_strlist strs)). rewrite dec_strlist_enc by assumption. reflexivity.
      * subst strs. reflexivity.
    + subst infos. cbn [app]. destruct (has_strs k) eqn:El.
      * destruct Hl as [Hl1 Hl2]. rewrite <- (app_nil_r (enc_strlist strs)). rewrite dec_strlist_enc by assumption. reflexivity.
      * subst strs. reflexivity.
  - subst sg. cbn [app]. destruct (has_info k) eqn:Ei.
    + destruct Hi as [Hi1 [Hi2 Hi3]]. repeat rewrite <- app_assoc. rewrite dec32_enc32 by exact Hi2.
      rewrite dec_infos_enc; [|assumption|rewrite app_length; pose proof (concat_enc_length infos); lia].
      destruct (has_strs k) eqn:El.
      * destruct Hl as [Hl1 Hl2]. rewrite <- (app_nil_r (enc_strlist strs)). rewrite dec_strlist_enc by assumption. reflexivity.
      * subst strs. reflexivity.
    + subst infos. cbn [app]. destruct (has_strs k) eqn:El.
      * destruct Hl as [Hl1 Hl2]. rewrite <- (app_nil_r (enc_strlist strs)). rewrite dec_strlist_enc by assumption. reflexivity.
      * subst strs. reflexivity.
Qed.

Lemma enc_value_injective v1 v2 :
  wf_value v1 -> wf_value v2 -> enc_value v1 = enc_value v2 -> v1 = v2.
Proof.
  intros H1 H2 E. apply dec_value_enc in H1. apply dec_value_enc in H2. rewrite E in H1. congruence.
Qed.

Lemma enc_value_first_byte v : hd 0 (enc_value v) = vtag (bv_kind v).
Proof. reflexivity. Qed.

Lemma vtag_injective k1 k2 : vtag k1 = vtag k2 -> k1 = k2.
Proof. intros H. pose proof (vkind_of_tag_vtag k1) as A. rewrite H, vkind_of_tag_vtag in A. congruence. Qed.

Lemma cross_kind v1 v2 : bv_kind v1 <> bv_kind v2 -> hd 0 (enc_value v1) <> hd 0 (enc_value v2).
Proof. rewrite !enc_value_first_byte. intros H E. apply H. apply vtag_injective. exact E. Qed.

(* the empty list of strings and the list holding one empty string are different encodings *)
Lemma strlist_empty_vs_one_empty : enc_strlist [] <> enc_strlist [[]].
Proof. vm_compute. discriminate. Qed.

(* ---------- re-used BuildValue objects ---------- *)

Lemma enc_value_view v : enc_value (view v) = enc_value v.
Proof.
  destruct v as [k sg infos strs]. unfold enc_value, view. cbn [bv_kind bv_sig bv_infos bv_strs].
  destruct (has_sig k), (has_info k), (has_strs k); reflexivity.
Qed.

Lemma view_wf v : wf_value v -> view v = v.
Proof.
  destruct v as [k sg infos strs]. unfold wf_value, view. cbn [bv_kind bv_sig bv_infos bv_strs].
  intros [Hs [Hi Hl]].
  destruct (has_sig k); [|subst sg];
  (destruct (has_info k); [|subst infos]);
  (destruct (has_strs k); [|subst strs]); reflexivity.
Qed.

Lemma view_move_assign dst src : view (move_assign dst src) = view src.
Proof.
  unfold view, move_assign. cbn [bv_kind bv_sig bv_infos bv_strs].
  destruct (has_strs (bv_kind src)); reflexivity.
Qed.

Lemma enc_move_assign dst src : enc_value (move_assign dst src) = enc_value src.
Proof. rewrite <- enc_value_view, view_move_assign. apply enc_value_view. Qed.

Lemma dec_move_assign dst src : wf_value src -> dec_value (enc_value (move_assign dst src)) = Some src.
Proof. intros H. rewrite enc_move_assign. apply dec_value_enc. exact H. Qed.

Lemma view_assign_all vs : forall dst v, view (assign_all dst (vs ++ [v])) = view v.
Proof.
  intros dst v. unfold assign_all. rewrite fold_left_app. cbn [fold_left]. apply view_move_assign.
Qed.

Lemma enc_assign_all vs dst v : enc_value (assign_all dst (vs ++ [v])) = enc_value v.
Proof. rewrite <- enc_value_view, view_assign_all. apply enc_value_view. Qed.

(* the guard matters: a model of the variant "transfer only a non-empty list" is NOT canonical (regression witness for
   the differential: StaleFileRemoval([]) assigned over StaleFileRemoval(["a"])) *)
Definition move_assign_if_nonempty (dst src : bvalue) : bvalue :=
  mkBV (bv_kind src) (bv_sig src) (bv_infos src)
       (match bv_strs src with [] => bv_strs dst | _ => bv_strs src end).

Lemma assign_instance :
  exists dst src, wf_value dst /\ wf_value src /\ bv_strs dst <> [] /\ bv_strs src = [] /\
                  enc_value (move_assign dst src) = enc_value src /\
                  enc_value (move_assign_if_nonempty dst src) <> enc_value src.
Proof.
  exists (mkBV VStaleFileRemoval 0 [] [[97]]), (mkBV VStaleFileRemoval 0 [] []).
  split; [|split; [|split; [|split; [|split]]]].
  - unfold wf_value, u64; cbn. repeat split; lia.
  - unfold wf_value, u64; cbn. repeat split; lia.
  - cbn. discriminate.
  - reflexivity.
  - apply enc_move_assign.
  - vm_compute. discriminate.
Qed.

Lemma assign_roundtrip dst src : wf_value src ->
  view (move_assign dst src) = src /\ dec_value (enc_value (move_assign dst src)) = Some src.
Proof.
  intros H. split; [rewrite view_move_assign; apply view_wf; exact H | apply dec_move_assign; exact H].
Qed.

Lemma assign_history dst vs v :
  enc_value (assign_all dst (vs ++ [v])) = enc_value v /\ view (assign_all dst (vs ++ [v])) = view v.
Proof. split; [apply enc_assign_all | apply view_assign_all]. Qed.

(* ---------- BuildKey ---------- *)

Lemma dec_named_enc n p : u32 (N.of_nat (length n)) -> dec_named (enc_named n p) = Some (n, p).
Proof.
  intros H. unfold dec_named, enc_named. rewrite dec32_enc32 by exact H. apply take_N_app.
Qed.

Lemma dec_filters_enc f : wf_filters f -> dec_filters (enc_strlist f) = Some f.
Proof.
  intros [H1 H2]. unfold dec_filters. rewrite <- (app_nil_r (enc_strlist f)). rewrite dec_strlist_enc by assumption. reflexivity.
Qed.

Lemma dec_key_enc k : wf_key k -> dec_key (enc_key k) = Some k.
Proof.
  destruct k; cbn [wf_key enc_key ktag dec_key]; intros H; cbn [N.eqb Pos.eqb]; try reflexivity.
  - rewrite dec_named_enc by exact H. reflexivity.
  - destruct H as [H1 H2]. rewrite dec_named_enc by exact H1. rewrite dec_filters_enc by exact H2. reflexivity.
  - destruct H as [H1 H2]. rewrite dec_named_enc by exact H1. rewrite dec_filters_enc by exact H2. reflexivity.
  - destruct H as [H1 H2]. rewrite dec_named_enc by exact H1. rewrite dec_filters_enc by exact H2. reflexivity.
Qed.

Lemma enc_key_injective k1 k2 : wf_key k1 -> wf_key k2 -> enc_key k1 = enc_key k2 -> k1 = k2.
Proof.
  intros H1 H2 E. apply dec_key_enc in H1. apply dec_key_enc in H2. rewrite E in H1. congruence.
Qed.

(* reading the size through sign-extended bytes (a `char`-typed read of the size field) gives another number as soon as
   one byte is >= 0x80: the reason why lengths 128 and 32768 are in the differential's corpus *)
Definition sext8 (b : N) : N := if b <? 128 then b else 4294967040 + b.      (* uint32_t(int8_t(b)) *)
Definition dec32_signed_bytes (b0 b1 b2 b3 : N) : N :=
  N.lor (sext8 b0) (N.lor (N.shiftl (sext8 b1) 8 mod 4294967296)
        (N.lor (N.shiftl (sext8 b2) 16 mod 4294967296) (N.shiftl (sext8 b3) 24 mod 4294967296))).
Lemma signed_byte_read_differs :
  dec32_signed_bytes 127 0 0 0 = 127 /\ dec32_signed_bytes 44 1 0 0 = 300 /\
  dec32_signed_bytes 128 0 0 0 <> 128 /\ dec32_signed_bytes 0 128 0 0 <> 32768.
Proof. repeat split; vm_compute; try reflexivity; discriminate. Qed.

(* ---------- decidable checks over probed tables ---------- *)

Fixpoint nodupb (l : list N) : bool :=
  match l with [] => true | x :: l' => negb (existsb (N.eqb x) l') && nodupb l' end.

Lemma nodupb_NoDup l : nodupb l = true -> NoDup l.
Proof.
  induction l as [|x l IH]; intros H; [constructor|]. cbn in H. apply andb_true_iff in H. destruct H as [H1 H2].
  constructor; [|auto]. intros Hin. apply negb_true_iff in H1.
  assert (existsb (N.eqb x) l = true) by (apply existsb_exists; exists x; split; [assumption | apply N.eqb_refl]).
  congruence.
Qed.

Fixpoint list_N_eqb (a b : list N) : bool :=
  match a, b with [], [] => true | x :: a', y :: b' => N.eqb x y && list_N_eqb a' b' | _, _ => false end.
Lemma list_N_eqb_eq a b : list_N_eqb a b = true -> a = b.
Proof.
  revert b; induction a as [|x a IH]; intros [|y b] H; cbn in H; try discriminate; [reflexivity|].
  apply andb_true_iff in H. destruct H as [H1 H2]. apply N.eqb_eq in H1. subst. f_equal. auto.
Qed.

(* key tags: kind_of_char (a 256-entry table: kind index for every char, 9 = Unknown) and char_of_kind
   (identifierForKind for kinds 0..8) are mutually inverse *)
Definition key_tables_ok (char_of_kind kind_of_char : list N) : bool :=
  (length kind_of_char =? 256)%nat && (length char_of_kind =? 9)%nat &&
  forallb (fun i => N.eqb (nth (N.to_nat (nth i char_of_kind 0)) kind_of_char 99) (N.of_nat i)) (seq 0 9) &&
  forallb (fun c => let k := nth c kind_of_char 99 in
                    if k <? 9 then N.eqb (nth (N.to_nat k) char_of_kind 999) (N.of_nat c) else N.eqb k 9) (seq 0 256).

Lemma key_tables_ok_spec cok koc : key_tables_ok cok koc = true ->
  (forall i, (i < 9)%nat -> nth (N.to_nat (nth i cok 0)) koc 99 = N.of_nat i) /\
  (forall c, (c < 256)%nat -> nth c koc 99 < 9 -> nth (N.to_nat (nth c koc 99)) cok 999 = N.of_nat c).
Proof.
  unfold key_tables_ok. rewrite !andb_true_iff. intros [[[_ _] H1] H2]. split.
  - intros i Hi. rewrite forallb_forall in H1. apply N.eqb_eq. apply H1. apply in_seq. lia.
  - intros c Hc Hk. rewrite forallb_forall in H2. specialize (H2 c). cbv zeta in H2.
    apply N.ltb_lt in Hk. rewrite Hk in H2. apply N.eqb_eq. apply H2. apply in_seq. lia.
Qed.

(* ---------- decidable equality of keys (so that examples on long names are checked by computation to a bool:
   reading a 32768-element normal form back overflows the stack) ---------- *)

Fixpoint list_bytes_eqb (a b : list bytes) : bool :=
  match a, b with [], [] => true | x :: a', y :: b' => list_N_eqb x y && list_bytes_eqb a' b' | _, _ => false end.
Lemma list_bytes_eqb_eq a b : list_bytes_eqb a b = true -> a = b.
Proof.
  revert b; induction a as [|x a IH]; intros [|y b] H; cbn in H; try discriminate; [reflexivity|].
  apply andb_true_iff in H. destruct H as [H1 H2]. apply list_N_eqb_eq in H1. subst. f_equal. auto.
Qed.

Definition bkey_eqb (k1 k2 : bkey) : bool :=
  match k1, k2 with
  | KCommand a, KCommand b | KDirectoryContents a, KDirectoryContents b | KNode a, KNode b
  | KStat a, KStat b | KTarget a, KTarget b => list_N_eqb a b
  | KCustomTask a d, KCustomTask b e => list_N_eqb a b && list_N_eqb d e
  | KFilteredDirectoryContents a f, KFilteredDirectoryContents b g
  | KDirectoryTreeSignature a f, KDirectoryTreeSignature b g
  | KDirectoryTreeStructureSignature a f, KDirectoryTreeStructureSignature b g => list_N_eqb a b && list_bytes_eqb f g
  | _, _ => false
  end.
Lemma bkey_eqb_eq k1 k2 : bkey_eqb k1 k2 = true -> k1 = k2.
Proof.
  destruct k1, k2; cbn [bkey_eqb]; intros H; try discriminate;
    try (apply list_N_eqb_eq in H; subst; reflexivity);
    apply andb_true_iff in H; destruct H as [H1 H2]; apply list_N_eqb_eq in H1; subst;
    try (apply list_N_eqb_eq in H2; subst; reflexivity);
    apply list_bytes_eqb_eq in H2; subst; reflexivity.
Qed.

Definition key_roundtrips (k : bkey) : bool :=
  match dec_key (enc_key k) with Some k' => bkey_eqb k' k | None => false end.
Lemma key_roundtrips_spec k : key_roundtrips k = true -> dec_key (enc_key k) = Some k.
Proof.
  unfold key_roundtrips. destruct (dec_key (enc_key k)) as [k'|]; [|discriminate].
  intros H. apply bkey_eqb_eq in H. subst. reflexivity.
Qed.

(* [wf_key] bounds the name length by 2^32 only: every byte of the 32-bit size field is exercised, in particular the
   values >= 0x80 of the low byte (length 128) and of the second byte (length 32768). Computed, not derived. *)
Definition key_len128 : bkey := KCustomTask (repeat 97 128) [1; 0; 255].
Definition key_len32768 : bkey := KFilteredDirectoryContents (repeat 47 (N.to_nat 32768)) [[42; 46; 111]; [128]].
Definition key_len32768s : bkey := KDirectoryTreeStructureSignature (repeat 200 (N.to_nat 33000)) [].

Lemma key_len128_roundtrip :
  wf_key key_len128 /\ firstn 5 (enc_key key_len128) = [88; 128; 0; 0; 0] /\
  dec_key (enc_key key_len128) = Some key_len128.
Proof. split; [|split]; [| |apply key_roundtrips_spec]; vm_compute; reflexivity. Qed.

Lemma key_len32768_roundtrip :
  wf_key key_len32768 /\ firstn 5 (enc_key key_len32768) = [100; 0; 128; 0; 0] /\
  dec_key (enc_key key_len32768) = Some key_len32768.
Proof. split; [split; [|split]|split; [|apply key_roundtrips_spec]]; vm_compute; reflexivity. Qed.

Lemma key_len32768s_roundtrip :
  wf_key key_len32768s /\ firstn 5 (enc_key key_len32768s) = [115; 232; 128; 0; 0] /\
  dec_key (enc_key key_len32768s) = Some key_len32768s.
Proof. split; [split; [|split]|split; [|apply key_roundtrips_spec]]; vm_compute; reflexivity. Qed.

