(* Bytes are natural numbers (N); a well-formed byte is < 256.  Byte strings are lists. *)
From Coq Require Export List Arith NArith Bool Lia.
Export ListNotations.
Local Open Scope N_scope.

Definition byte := N.
Definition bytes := list byte.

Definition wf_byte (b : byte) : Prop := b < 256.
Definition wf_bytes (l : bytes) : Prop := Forall wf_byte l.
Definition wf_byteb (b : byte) : bool := b <? 256.
Definition wf_bytesb (l : bytes) : bool := forallb wf_byteb l.

Fixpoint bytes_eqb (a b : bytes) : bool :=
  match a, b with
  | [], [] => true
  | x :: a', y :: b' => N.eqb x y && bytes_eqb a' b'
  | _, _ => false
  end.

Fixpoint mem_bytes (x : bytes) (l : list bytes) : bool :=
  match l with [] => false | y :: l' => bytes_eqb x y || mem_bytes x l' end.

Fixpoint nodup_bytes (l : list bytes) : list bytes :=
  match l with
  | [] => []
  | x :: l' => if mem_bytes x l' then nodup_bytes l' else x :: nodup_bytes l'
  end.

Fixpoint is_prefix (a b : bytes) : bool :=
  match a, b with
  | [], _ => true
  | x :: a', y :: b' => N.eqb x y && is_prefix a' b'
  | _ :: _, [] => false
  end.
