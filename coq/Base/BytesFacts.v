From LLB Require Import Base.Bytes.
Local Open Scope N_scope.

Lemma bytes_eqb_eq a b : bytes_eqb a b = true <-> a = b.
Proof.
  revert b; induction a as [|x a IH]; intros [|y b]; cbn.
  - split; reflexivity.
  - split; discriminate.
  - split; discriminate.
  - rewrite andb_true_iff, N.eqb_eq, IH. split; [intros [-> ->]; reflexivity | intros H; inversion H; auto].
Qed.

Lemma bytes_eqb_refl a : bytes_eqb a a = true.
Proof. apply bytes_eqb_eq; reflexivity. Qed.

Lemma bytes_eqb_neq a b : bytes_eqb a b = false <-> a <> b.
Proof.
  destruct (bytes_eqb a b) eqn:E.
  - apply bytes_eqb_eq in E. split; [discriminate | intros H; contradiction].
  - split; [intros _ H; apply bytes_eqb_eq in H; congruence | reflexivity].
Qed.

Lemma mem_bytes_In x l : mem_bytes x l = true <-> In x l.
Proof.
  induction l as [|y l IH]; cbn; [split; [discriminate | tauto]|].
  rewrite orb_true_iff, IH, bytes_eqb_eq. split; intros [H|H]; auto.
Qed.

Lemma nodup_bytes_In x l : In x (nodup_bytes l) <-> In x l.
Proof.
  induction l as [|y l IH]; cbn; [tauto|].
  destruct (mem_bytes y l) eqn:E.
  - rewrite IH. apply mem_bytes_In in E. split; [auto | intros [->|H]; auto].
  - cbn. rewrite IH. tauto.
Qed.

Lemma nodup_bytes_NoDup l : NoDup (nodup_bytes l).
Proof.
  induction l as [|y l IH]; cbn; [constructor|].
  destruct (mem_bytes y l) eqn:E; [exact IH|].
  constructor; [|exact IH]. rewrite nodup_bytes_In, <- mem_bytes_In. congruence.
Qed.

Lemma is_prefix_app a b : is_prefix a b = true <-> exists r, b = a ++ r.
Proof.
  revert b; induction a as [|x a IH]; intros b; cbn.
  - split; [intros _; exists b; reflexivity | reflexivity].
  - destruct b as [|y b]; [split; [discriminate | intros [r H]; discriminate]|].
    rewrite andb_true_iff, N.eqb_eq, IH. split.
    + intros [-> [r ->]]. exists r. reflexivity.
    + intros [r H]. inversion H. split; [reflexivity | exists r; reflexivity].
Qed.
