(* Little-endian fixed-width integers as BinaryEncoder::write / BinaryDecoder::read produce them. *)
From LLB Require Import Base.Bytes.
Local Open Scope N_scope.

Definition enc8 (n : N) : bytes := [n mod 256].
Definition enc16 (n : N) : bytes := enc8 (n mod 256) ++ enc8 (n / 256).
Definition enc32 (n : N) : bytes := enc16 (n mod 65536) ++ enc16 (n / 65536).
Definition enc64 (n : N) : bytes := enc32 (n mod 4294967296) ++ enc32 (n / 4294967296).

(* a decoder consumes a prefix and returns the rest; None = under-run (the C++ would read out of bounds) *)
Definition dec8 (l : bytes) : option (N * bytes) :=
  match l with b :: t => Some (b, t) | [] => None end.
Definition dec16 (l : bytes) : option (N * bytes) :=
  match dec8 l with
  | Some (a, t) => match dec8 t with Some (b, t') => Some (a + 256 * b, t') | None => None end
  | None => None end.
Definition dec32 (l : bytes) : option (N * bytes) :=
  match dec16 l with
  | Some (a, t) => match dec16 t with Some (b, t') => Some (a + 65536 * b, t') | None => None end
  | None => None end.
Definition dec64 (l : bytes) : option (N * bytes) :=
  match dec32 l with
  | Some (a, t) => match dec32 t with Some (b, t') => Some (a + 4294967296 * b, t') | None => None end
  | None => None end.

(* take exactly n bytes *)
Fixpoint take_bytes (n : nat) (l : bytes) : option (bytes * bytes) :=
  match n with
  | O => Some ([], l)
  | S n' => match l with
            | [] => None
            | b :: t => match take_bytes n' t with Some (x, r) => Some (b :: x, r) | None => None end
            end
  end.

(* take n bytes where n is a (possibly huge) N: fails without unary blow-up when n exceeds the input *)
Definition take_N (n : N) (l : bytes) : option (bytes * bytes) :=
  if N.of_nat (length l) <? n then None else take_bytes (N.to_nat n) l.
