From LLB Require Import Base.Bytes Base.LE.
Local Open Scope N_scope.

Lemma dec8_enc8 n r : n < 256 -> dec8 (enc8 n ++ r) = Some (n, r).
Proof. intros H. unfold dec8, enc8. cbn. rewrite N.mod_small by assumption. reflexivity. Qed.

Lemma dec16_enc16 n r : n < 65536 -> dec16 (enc16 n ++ r) = Some (n, r).
Proof.
  intros H. unfold dec16, enc16, enc8, dec8. cbn [app].
  f_equal. f_equal.
  assert (n mod 256 mod 256 = n mod 256) by (apply N.mod_mod; lia).
  assert (n / 256 mod 256 = n / 256) by (apply N.mod_small; apply N.div_lt_upper_bound; lia).
  rewrite H0, H1. pose proof (N.div_mod n 256). lia.
Qed.

Lemma dec32_enc32 n r : n < 4294967296 -> dec32 (enc32 n ++ r) = Some (n, r).
Proof.
  intros H. unfold dec32, enc32. rewrite <- app_assoc.
  rewrite dec16_enc16 by (apply N.mod_lt; lia).
  rewrite dec16_enc16 by (apply N.div_lt_upper_bound; lia).
  f_equal. f_equal. pose proof (N.div_mod n 65536). lia.
Qed.

Lemma dec64_enc64 n r : n < 18446744073709551616 -> dec64 (enc64 n ++ r) = Some (n, r).
Proof.
  intros H. unfold dec64, enc64. rewrite <- app_assoc.
  rewrite dec32_enc32 by (apply N.mod_lt; lia).
  rewrite dec32_enc32 by (apply N.div_lt_upper_bound; lia).
  f_equal. f_equal. pose proof (N.div_mod n 4294967296). lia.
Qed.

Lemma enc8_length n : length (enc8 n) = 1%nat. Proof. reflexivity. Qed.
Lemma enc16_length n : length (enc16 n) = 2%nat. Proof. reflexivity. Qed.
Lemma enc32_length n : length (enc32 n) = 4%nat. Proof. reflexivity. Qed.
Lemma enc64_length n : length (enc64 n) = 8%nat. Proof. reflexivity. Qed.

Lemma enc8_wf n : wf_bytes (enc8 n).
Proof. constructor; [|constructor]. unfold wf_byte. apply N.mod_lt. lia. Qed.
Lemma enc16_wf n : wf_bytes (enc16 n).
Proof. unfold enc16. apply Forall_app. split; apply enc8_wf. Qed.
Lemma enc32_wf n : wf_bytes (enc32 n).
Proof. unfold enc32. apply Forall_app. split; apply enc16_wf. Qed.
Lemma enc64_wf n : wf_bytes (enc64 n).
Proof. unfold enc64. apply Forall_app. split; apply enc32_wf. Qed.

Lemma take_bytes_app x r : take_bytes (length x) (x ++ r) = Some (x, r).
Proof. induction x as [|b x IH]; cbn; [reflexivity|]. rewrite IH. reflexivity. Qed.

Lemma take_N_app x r : take_N (N.of_nat (length x)) (x ++ r) = Some (x, r).
Proof.
  unfold take_N. rewrite app_length, Nat2N.id.
  destruct (N.ltb_spec (N.of_nat (length x + length r)) (N.of_nat (length x))) as [H|H]; [lia|].
  apply take_bytes_app.
Qed.

Lemma take_bytes_some n l x r : take_bytes n l = Some (x, r) -> l = x ++ r /\ length x = n.
Proof.
  revert l x r; induction n as [|n IH]; intros l x r H; cbn in H.
  - inversion H; subst. auto.
  - destruct l as [|b t]; [discriminate|].
    destruct (take_bytes n t) as [[x' r']|] eqn:E; [|discriminate]. inversion H; subst.
    apply IH in E. destruct E as [-> <-]. auto.
Qed.
