Require Extraction.
Require Import ExtrOcamlBasic.
From LLB Require Import Engine.Rules Engine.Spec Engine.Exec.
Extraction "extracted/Model_engine.ml" hstep init_h mixF cv rules_of env_of get.
