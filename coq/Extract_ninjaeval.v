(* Extraction of the Ninja manifest loader model to OCaml (area ninjaeval). *)
Require Extraction.
Require Import ExtrOcamlBasic.
From LLB Require Import Base.Bytes Parse.NinjaEval.
Extraction "extracted/Model_ninjaeval.ml" load run_decls eval_in_scope eval_string scope_lookup normalize_path make_absolute
  parse_depth lookup_named has_out_of_fuel init_scopes init_state.
