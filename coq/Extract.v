(* Extraction of the executable models to OCaml (ExtrOcamlBasic only; N, positive, nat stay inductive). *)
Require Extraction.
Require Import ExtrOcamlBasic.
From LLB Require Import Base.Bytes Path.PathPrefix.
Extraction "extracted/Model.ml" pip pip_unrepaired to_delete stale_history.
