Require Extraction.
Require Import ExtrOcamlBasic.
From LLB Require Import Engine.Rules Engine.Spec Engine.Exec Engine.FindCycle Engine.Impl.
Extraction "extracted/Model_impl.ml" ibuild irestart init_istate dump_touch final_state wait_graph mixF rules_of env_of get.
