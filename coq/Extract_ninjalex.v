(* Extraction of the Ninja lexer and shell quoting models to OCaml (area ninjalex). *)
Require Extraction.
Require Import ExtrOcamlBasic.
From LLB Require Import Base.Bytes Parse.NinjaLex Path.ShellQuote.
Extraction "extracted/Model_ninjalex.ml" lex lex_all lex_stream init kind_code
  is_ident_char is_simple_ident_char is_space is_nn_space ident_kind
  shell_escaped shell_escaped_gen whitelist sh_words.
